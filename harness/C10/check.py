import os, json
META = dict(
    engine='cosched',
    technique='stateless model checking: preemption-bounded exhaustive schedule enumeration (CHESS) of the real local termination detector driven by token-discipline scripts',
    level_text='Every schedule with <= b preemptions (b=2 quick, 3 thorough; scheduling points = every instrumented access to nb_tasks, nb_pending_actions and tdm.monitor) of fourteen 2-3 thread scripts (PTG start-up with spawning, zero crossings while busy, ready() against the last task/action, set_nb_tasks/set_runtime_actions variants, state pollers; and DTD-like insertion before ready) is executed on the real module; in each the termination callback must run exactly once, only after ready() and with no unit of work held and both counters zero, taskpool_state must not return TERMINATED before the callback returned, and termination must have been reported when all threads are done.',
    level_note='Sequential consistency at instrumented accesses; <= 3 threads, <= 4 operations per thread; leg "contract" respects the strict usage contract (work is added only by a holder of work; set_* only by the owner of all units), leg "preready" adds work before ready() without holding a unit, as the DTD interface does. Weak-memory effects and the object reference count of the taskpool are outside the check.',
)
RULE = ("cosched: every schedule of each 2-3 thread token-discipline script over the real termdet_local module with at most b "
        "preemptions (scheduling points = every instrumented access to tp->nb_tasks, tp->nb_pending_actions, tp->tdm.monitor, "
        "plus harness hand-off points); a schedule is non-trivial when it contains at least one preemption; states = nodes of "
        "the explored schedule tree; outcomes = (thread and script step that ran the callback, sequence of polled states)")
ASSUME = ["sequential consistency at instrumented accesses (no weak-memory effects)",
          "gcc -fsanitize=thread instrumentation reports every access to the watched words",
          "callers respect the module's usage contract (token discipline; set_* by the sole owner of the counter); "
          "leg 'preready' relaxes it to 'work may also be added by anybody while the taskpool is not yet ready'"]
SRC = ['termdet_h.c']
KF_ID = 'C10-stale-zero-before-ready'
def _exes(ctx):
    return (ctx.compile('hk-shm', 'termdet', SRC, engine='cosched', cflags=['-DLEG=1']),
            ctx.compile('hk-shm', 'termdet-preready', SRC, engine='cosched', cflags=['-DLEG=2']))
def _known():
    import vlib
    # recorded-but-not-repaired entries only; a 'fixed' entry means the tree must simply pass
    return any(f.get('id') == KF_ID and 'fix' not in json.dumps(f).lower() for f in vlib.known_findings())
def check(ctx):
    e1, e2 = _exes(ctx)
    legs = os.environ.get('C10_LEGS', 'contract,preready').split(',')
    env = dict(os.environ); env['C10_KNOWN_FINDING'] = '1' if _known() else '0'
    import vlib
    def run(exe, bound, deadline, label):
        args = ['--bound', str(bound), '--scenario', 'all', '--jobs', str(vlib.NJOBS), '--outdir', vlib.OUT, '--deadline', str(deadline)]
        ctx.run_engine(exe, args, label=label, timeout=deadline + 600, env=env)
    q = ctx.tier == 'quick'
    if 'contract' in legs:
        run(e1, 2 if q else 3, 60 if q else 840, 'contract')
    if 'preready' in legs:
        run(e2, 2 if q else 3, 20 if q else 240, 'preready')
    return ctx.finish(RULE, ASSUME)
def replay(ctx, path, obj):
    import subprocess
    e1, e2 = _exes(ctx)
    env = dict(os.environ); env['C10_KNOWN_FINDING'] = '1' if _known() else '0'
    exe = e2 if 'preready' in obj.get('harness', '') else e1
    return subprocess.call([exe, '--replay', path], env=env)
