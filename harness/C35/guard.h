/* Turns crashes / failed assertions / hangs of the code under test into reported violations
 * (instead of a harness crash = "broken"). The harness keeps the history of the case being
 * executed in g_hist (set by its fresh()/apply()); on a fault the handler reports that history.
 * Used by E2 harnesses only (single-threaded, faults are synchronous). */
#ifndef VERIF_GUARD_H
#define VERIF_GUARD_H
#include <signal.h>
#include <unistd.h>
#include <sys/time.h>
#include "seqx.h"

static char g_hist[4096]; static size_t g_hist_len = 0;
static const char *g_scen = "?";
static volatile long g_opseq = 0; static volatile int g_in_op = 0;
static void (*g_on_fault)(void) = NULL;        /* optional: emit the partial report before exiting */

static void g_hist_reset(void) { g_hist_len = 0; g_hist[0] = 0; }
static void g_hist_add(const char *nm)
{
    if (g_hist_len + strlen(nm) + 2 < sizeof(g_hist)) g_hist_len += snprintf(g_hist + g_hist_len, sizeof(g_hist) - g_hist_len, "%s%s", g_hist_len ? " " : "", nm);
}
static void g_fault(const char *msg) __attribute__((noreturn));
static void g_fault(const char *msg)
{
    static int once = 0; if (once++) _exit(1);
    if (sx_replay_file) { printf("  fault during replay of [%s]: %s\nVIOLATION property=%s replay=%s\n", g_hist, msg, sx_property, sx_replay_file); fflush(stdout); _exit(1); }
    sx_violation(g_scen, g_hist, msg);
    if (g_on_fault) g_on_fault();
    sx_finish(); fflush(NULL); _exit(1);
}
/* failed assert() in the library or in code #included from /repo */
void __assert_fail(const char *expr, const char *file, unsigned int line, const char *func)
{
    char m[700]; const char *b = strrchr(file, '/'); snprintf(m, sizeof(m), "assertion `%s' failed at %s:%u (%s)", expr, b ? b + 1 : file, line, func);
    g_fault(m);
}
static void g_sig(int s)
{
    if (s == SIGALRM) {
        static long last = -1; static int same = 0;
        if (!g_in_op || g_opseq != last) { last = g_opseq; same = 0; return; }
        if (++same < 3) return;
        g_fault("operation did not terminate (no progress for 3 s: cycle in a linked structure?)");
    }
    g_fault(s == SIGSEGV ? "segmentation fault inside the operation" : s == SIGBUS ? "bus error inside the operation" : s == SIGFPE ? "arithmetic fault inside the operation" : "abort() inside the operation");
}
static void g_install(void)
{
    static char stack[1 << 16]; stack_t ss = { .ss_sp = stack, .ss_size = sizeof(stack), .ss_flags = 0 }; sigaltstack(&ss, NULL);
    struct sigaction sa; memset(&sa, 0, sizeof(sa)); sa.sa_handler = g_sig; sa.sa_flags = SA_ONSTACK | SA_NODEFER | SA_RESTART;
    sigaction(SIGSEGV, &sa, NULL); sigaction(SIGBUS, &sa, NULL); sigaction(SIGFPE, &sa, NULL); sigaction(SIGABRT, &sa, NULL); sigaction(SIGALRM, &sa, NULL);
    struct itimerval it = { { 1, 0 }, { 1, 0 } }; setitimer(ITIMER_REAL, &it, NULL);
}
#define G_OP_BEGIN() do { g_opseq++; g_in_op = 1; } while (0)
#define G_OP_END()   do { g_in_op = 0; } while (0)
#endif
