/* C29: futures complete once and deliver one value (E1; real parsec_future.c / parsec_datacopy_future.c through
 * their public function tables). */
#include "parsec/parsec_config.h"
#include "parsec/class/parsec_future.h"
#include "parsec/class/list.h"
#include "cosched.h"
#include <stdio.h>
#include <string.h>
#include <stdlib.h>
#include <stdarg.h>

#define MAXT 4
/* the library's warnings ("already in a ready state") are expected for the losing setter: count them instead of printing */
static int nwarn;
void parsec_output_verbose(int level, int output_id, const char *format, ...) { (void)level; (void)output_id; (void)format; nwarn++; }

static long blob[8];                         /* values: &blob[i] */
#define VAL(i) ((void *)&blob[i])
static int vidx(void *p) { if (!p) return -1; for (int i = 0; i < 8; i++) if (p == VAL(i)) return i; return -2; }

/* =====================================================  base / countable  ===================================================== */
static parsec_base_future_t *bf;
static parsec_countable_future_t *cf;
static int cb_calls, cb_thread, cb_status_seen; static void *cb_data_seen;
static int sets_started, sets_returned;
static void *got[MAXT]; static int got_started_sets[MAXT], got_ready[MAXT];

static void base_cb(parsec_base_future_t *f, ...)
{
    cb_calls++; cb_thread = cs_self(); cb_data_seen = f->tracked_data; cb_status_seen = f->status;
}
static void bf_setter(void *a) { int me = (int)(intptr_t)a; sets_started++; parsec_future_set(bf, VAL(me)); sets_returned++; }
static void bf_getter(void *a)
{
    int me = (int)(intptr_t)a;
    got[me] = parsec_future_get(bf);
    got_started_sets[me] = sets_started;
    got_ready[me] = parsec_future_is_ready(bf);
}
/* polls is_ready once, then (if ready) reads without blocking: a ready future must already hold its value */
static void bf_poller(void *a)
{
    int me = (int)(intptr_t)a;
    if (parsec_future_is_ready(bf)) { got[me] = parsec_future_get(bf); CS_CHECK(got[me] != NULL, "T%d: future is ready but holds no value", me); got_ready[me] = 2; }
    else { got[me] = parsec_future_get(bf); got_ready[me] = parsec_future_is_ready(bf); }
}
static void base_common(int n, cs_body_t *b, int nsetters, unsigned getter_mask, int with_cb)
{
    memset(got, 0, sizeof(got)); memset(got_ready, 0, sizeof(got_ready)); cb_calls = 0; cb_thread = -1; nwarn = 0; sets_started = sets_returned = 0;
    bf = PARSEC_OBJ_NEW(parsec_base_future_t);
    parsec_future_init(bf, with_cb ? base_cb : NULL);
    CS_CHECK(!parsec_future_is_ready(bf), "fresh base future is ready");
    cs_watch(bf, sizeof(*bf), "base_future");
    void *args[MAXT] = { (void *)0, (void *)1, (void *)2, (void *)3 };
    cs_run(n, b, args);
    int w = vidx(bf->tracked_data);
    CS_CHECK(w >= 0 && w < nsetters, "final value %p was not offered by any setter", bf->tracked_data);
    CS_CHECK(parsec_future_is_ready(bf), "future not ready after a successful set");
    if (with_cb) {
        CS_CHECK(cb_calls == 1, "completion callback ran %d times (expected exactly once)", cb_calls);
        CS_CHECK(cb_thread == w, "callback ran in T%d but the value kept is the one of T%d", cb_thread, w);
        CS_CHECK(cb_data_seen == VAL(w), "callback saw value %d, final value is %d", vidx(cb_data_seen), w);
        CS_CHECK(cb_status_seen & PARSEC_DATA_FUTURE_STATUS_COMPLETED, "callback ran before the future was marked completed");
    }
    CS_CHECK(nwarn == nsetters - 1, "%d setters lost the race (expected %d: exactly one set is accepted)", nwarn, nsetters - 1);
    for (int t = 0; t < n; t++) if (getter_mask & (1u << t)) {
        CS_CHECK(got[t] == VAL(w), "reader T%d got value %d, the accepted value is %d", t, vidx(got[t]), w);
        CS_CHECK(got_ready[t], "reader T%d returned from get but is_ready was false", t);
    }
    CS_CHECK(parsec_future_get(bf) == VAL(w), "a later get returns another value");
    cs_observe("winner T%d", w);
    for (int t = 0; t < n; t++) if (getter_mask & (1u << t)) cs_observe(" r%d:%s", t, got_ready[t] == 2 ? "polled-ready" : "blocked/after");
}
static void scen_bf_set_set_get(void)      { cs_body_t b[] = { bf_setter, bf_setter, bf_getter }; base_common(3, b, 2, 4, 1); }
static void scen_bf_set_set_poll(void)     { cs_body_t b[] = { bf_setter, bf_setter, bf_poller }; base_common(3, b, 2, 4, 1); }
static void scen_bf_set_get_get(void)      { cs_body_t b[] = { bf_setter, bf_getter, bf_poller }; base_common(3, b, 1, 6, 1); }
static void scen_bf_set_set_get_get(void)  { cs_body_t b[] = { bf_setter, bf_setter, bf_getter, bf_poller }; base_common(4, b, 2, 12, 1); }
static void scen_bf_set_set_set_nocb(void) { cs_body_t b[] = { bf_setter, bf_setter, bf_setter, bf_getter }; base_common(4, b, 3, 8, 0); }

/* ---- countable ---- */
static int cf_count; static const char *cf_script[MAXT];     /* 's' = set, 'g' = blocking get, 'p' = poll is_ready */
static int polled_ready_early;
static void cf_cb(parsec_base_future_t *f, ...)
{
    cb_calls++; cb_thread = cs_self(); cb_status_seen = f->status;
    CS_CHECK(sets_started == cf_count, "countable future completed when only %d of %d sets had been issued", sets_started, cf_count);
}
static void cf_body(void *a)
{
    int me = (int)(intptr_t)a;
    for (const char *p = cf_script[me]; *p; p++) {
        if (*p == 's') { sets_started++; parsec_future_set(cf, VAL(me)); sets_returned++; }
        else if (*p == 'g') {
            got[me] = parsec_future_get(cf); got_started_sets[me] = sets_started; got_ready[me] = 1;
            CS_CHECK(sets_started == cf_count, "get returned when only %d of %d sets had been issued", sets_started, cf_count);
        } else {
            int r = parsec_future_is_ready(cf);
            if (r) CS_CHECK(sets_started == cf_count, "is_ready was true when only %d of %d sets had been issued", sets_started, cf_count);
            else CS_CHECK(sets_returned < cf_count, "is_ready was false although all %d sets had returned", cf_count);
            polled_ready_early += r ? 1 : 0;
        }
    }
}
static void run_cf(int count, int n, const char *s0, const char *s1, const char *s2, const char *s3)
{
    memset(got, 0, sizeof(got)); memset(got_ready, 0, sizeof(got_ready)); cb_calls = 0; cb_thread = -1; nwarn = 0; sets_started = sets_returned = 0; polled_ready_early = 0;
    cf_count = count; cf_script[0] = s0; cf_script[1] = s1; cf_script[2] = s2; cf_script[3] = s3;
    cf = PARSEC_OBJ_NEW(parsec_countable_future_t);
    parsec_future_init(cf, cf_cb, count);
    CS_CHECK(!parsec_future_is_ready(cf), "fresh countable future is ready");
    cs_watch(cf, sizeof(*cf), "countable_future");
    cs_body_t b[MAXT] = { cf_body, cf_body, cf_body, cf_body };
    void *args[MAXT] = { (void *)0, (void *)1, (void *)2, (void *)3 };
    cs_run(n, b, args);
    CS_CHECK(sets_returned == count, "harness script issues %d sets for count %d", sets_returned, count);
    CS_CHECK(parsec_future_is_ready(cf), "countable future not ready after its %d sets", count);
    CS_CHECK(cb_calls == 1, "completion callback ran %d times (expected exactly once)", cb_calls);
    CS_CHECK(cf->count == 0, "count is %d after %d sets", cf->count, count);
    /* a non-last setter that is overtaken by the last one prints a (spurious, harmless) "already ready" warning: observed, not judged */
    cs_observe("completed by T%d, early-ready polls %d, warnings %d", cb_thread, polled_ready_early, nwarn);
}
static void scen_cf1_set_get_poll(void)    { run_cf(1, 3, "s", "g", "pp", ""); }
static void scen_cf2_set_set_get(void)     { run_cf(2, 3, "s", "s", "pg", ""); }
static void scen_cf2_setset_get_poll(void) { run_cf(2, 3, "ss", "g", "pp", ""); }
static void scen_cf3_set_set_set_get(void) { run_cf(3, 4, "s", "s", "s", "pg"); }
static void scen_cf3_setset_set_get(void)  { run_cf(3, 3, "ss", "s", "pg", ""); }

/* =====================================================  datacopy  ===================================================== */
#define NSHAPE 4
static parsec_datacopy_future_t *root;
static parsec_datacopy_future_t *pool;        /* storage of the nested futures (watched) */
static int pool_used;
static int shape_of_slot[NSHAPE + 1];         /* cb_match_data_in / cb_fulfill_data_in point here */
static int fulfil_thread[NSHAPE];
static int fulfil_count[NSHAPE], nested_count[NSHAPE], cleanup_count[NSHAPE];
static int deferred;                          /* cb_fulfill leaves the completion to the completer thread */
static struct dshared_s { parsec_base_future_t *volatile pending[NSHAPE]; volatile int posted, completed; } *DS;   /* watched */
static int req_shape[MAXT];                   /* -1: no shape given (NULL cb_data_in) */
static int expect_completions;
static int null_returns;

static int dc_match(parsec_base_future_t *f, ...)
{
    va_list ap; va_start(ap, f); int *have = va_arg(ap, int *); int *want = va_arg(ap, int *); va_end(ap);
    return *have == *want;
}
static void dc_fulfill(parsec_base_future_t *f, ...)
{
    parsec_datacopy_future_t *d = (parsec_datacopy_future_t *)f;
    int s = *(int *)d->cb_match_data_in;
    fulfil_count[s]++; fulfil_thread[s] = cs_self();
    CS_CHECK(fulfil_count[s] == 1, "fulfilment of shape %d triggered %d times", s, fulfil_count[s]);
    if (deferred) { DS->pending[s] = f; __sync_fetch_and_add(&DS->posted, 1); }   /* fulfilments of different futures may run concurrently */
    else parsec_future_set(f, VAL(s));
}
static void dc_cleanup(parsec_base_future_t *f, ...)
{
    parsec_datacopy_future_t *d = (parsec_datacopy_future_t *)f;
    cleanup_count[*(int *)d->cb_match_data_in]++;
}
static void dc_nested(parsec_base_future_t **out, ...)
{
    va_list ap; va_start(ap, out); parsec_datacopy_future_t *r = va_arg(ap, parsec_datacopy_future_t *); int *want = va_arg(ap, int *); va_end(ap);
    CS_CHECK(r == root, "nested set-up called with a foreign root");
    int s = *want;
    nested_count[s]++;
    CS_CHECK(nested_count[s] == 1, "nested future for shape %d set up %d times", s, nested_count[s]);
    CS_CHECK(pool_used < NSHAPE, "more nested futures than shapes");
    parsec_datacopy_future_t *nf = &pool[pool_used++];
    PARSEC_OBJ_CONSTRUCT(nf, parsec_datacopy_future_t);
    shape_of_slot[pool_used] = s;
    parsec_future_init(nf, dc_fulfill, &shape_of_slot[pool_used], dc_match, &shape_of_slot[pool_used], dc_cleanup);
    *out = (parsec_base_future_t *)nf;
}
static void watch_dc(parsec_datacopy_future_t *f, const char *nm)
{
    cs_watch(&f->super.status, offsetof(parsec_base_future_t, cb_fulfill) - offsetof(parsec_base_future_t, status), nm);
    cs_watch(&f->super.future_lock, sizeof(f->super.future_lock), nm);
    cs_watch(&f->nested_futures, sizeof(f->nested_futures), nm);
}
static void dc_reader(void *a)
{
    int me = (int)(intptr_t)a; void *p; int want = req_shape[me];
    for (;;) {
        int seen = DS->completed;
        if (want < 0) p = parsec_future_get_or_trigger(root, NULL, NULL, NULL, NULL);
        else          p = parsec_future_get_or_trigger(root, dc_nested, &want, NULL, NULL);
        if (p) break;
        null_returns++;
        /* "not fulfilled yet": retry after the next completion (retrying at once would let two readers starve the
         * completer under the explorer's unfair default schedule; nothing can change before a completion anyway) */
        if (!deferred) cs_wait();
        else while (DS->completed == seen) cs_wait();
    }
    got[me] = p;
}
static void dc_completer(void *a)
{
    (void)a;
    for (int k = 0; k < expect_completions; k++) {
        int s;
        while (DS->posted == k) cs_wait();      /* single-word condition: the read and the wait are one scheduling step */
        for (s = 0; s < NSHAPE; s++) if (DS->pending[s]) break;
        CS_CHECK(s < NSHAPE, "harness: posted without a pending future");
        parsec_base_future_t *f = DS->pending[s];
        DS->pending[s] = NULL;
        parsec_future_set(f, VAL(s));
        DS->completed++;
    }
}
/* shapes: -1 = plain get_or_trigger on the root, 0 = the root's own shape, 1..3 = reshaped versions; 9 = completer thread */
static void run_dc(int defer, int n, int r0, int r1, int r2)
{
    memset(got, 0, sizeof(got)); memset(fulfil_count, 0, sizeof(fulfil_count)); memset(nested_count, 0, sizeof(nested_count)); memset(cleanup_count, 0, sizeof(cleanup_count));
    nwarn = 0; pool_used = 0; deferred = defer; null_returns = 0;
    int r[MAXT] = { r0, r1, r2, 0 };
    DS = calloc(1, sizeof(*DS));
    pool = calloc(NSHAPE, sizeof(parsec_datacopy_future_t));
    root = PARSEC_OBJ_NEW(parsec_datacopy_future_t);
    shape_of_slot[0] = 0;
    parsec_future_init(root, dc_fulfill, &shape_of_slot[0], dc_match, &shape_of_slot[0], dc_cleanup);
    /* points: status + tracked_data, the lock, the nested-list pointer of the root and of every (future) nested future;
     * the fields written once by init before the future is shared are not scheduling points */
    watch_dc(root, "root");
    for (int k = 0; k < NSHAPE; k++) watch_dc(&pool[k], "nested");
    cs_watch(DS, sizeof(*DS), "pending");
    cs_body_t b[MAXT]; void *args[MAXT] = { (void *)0, (void *)1, (void *)2, (void *)3 };
    int wanted[NSHAPE] = { 0 };
    for (int t = 0; t < n; t++) {
        if (r[t] == 9) { b[t] = dc_completer; continue; }
        b[t] = dc_reader; req_shape[t] = r[t]; wanted[r[t] < 0 ? 0 : r[t]] = 1;
    }
    expect_completions = 0; for (int s = 0; s < NSHAPE; s++) expect_completions += wanted[s];
    cs_run(n, b, args);
    for (int s = 0; s < NSHAPE; s++) {
        CS_CHECK(fulfil_count[s] == wanted[s], "shape %d: fulfilment ran %d times, %s", s, fulfil_count[s], wanted[s] ? "expected once" : "nobody asked for it");
        CS_CHECK(nested_count[s] == (s > 0 && wanted[s]), "shape %d: nested future set up %d times", s, nested_count[s]);
    }
    for (int t = 0; t < n; t++) if (r[t] != 9) {
        int s = r[t] < 0 ? 0 : r[t];
        CS_CHECK(got[t] == VAL(s), "reader T%d asked for shape %d and received value %d", t, s, vidx(got[t]));
    }
    /* a later request for every shape in use is served from the completed futures without new fulfilment */
    for (int s = 0; s < NSHAPE; s++) if (wanted[s]) {
        int want = s; void *p = parsec_future_get_or_trigger(root, dc_nested, &want, NULL, NULL);
        CS_CHECK(p == VAL(s) && fulfil_count[s] == 1 && nested_count[s] == (s > 0), "later request for shape %d: value %d, fulfilments %d, set-ups %d", s, vidx(p), fulfil_count[s], nested_count[s]);
    }
    int created = pool_used;
    PARSEC_OBJ_RELEASE(root);
    for (int s = 0; s < NSHAPE; s++) {
        int exp = (s == 0) ? 1 : nested_count[s];
        CS_CHECK(cleanup_count[s] == exp, "shape %d: clean-up callback ran %d times, expected %d", s, cleanup_count[s], exp);
    }
    cs_observe("nested creation order:");
    for (int k = 1; k <= created; k++) cs_observe(" %d", shape_of_slot[k]);
    cs_observe(" fulfilled by:");
    for (int s = 0; s < NSHAPE; s++) if (wanted[s]) cs_observe(" %d:T%d", s, fulfil_thread[s]);
    cs_observe(" null-returns %d", null_returns > 3 ? 3 : null_returns);
}
static void scen_dc_sync_0_0_0(void)    { run_dc(0, 3, 0, 0, -1); }
static void scen_dc_sync_0_1_1(void)    { run_dc(0, 3, 0, 1, 1); }
static void scen_dc_sync_1_1_2(void)    { run_dc(0, 3, 1, 1, 2); }
static void scen_dc_sync_1_2_3(void)    { run_dc(0, 3, 1, 2, 3); }
static void scen_dc_sync_1_1(void)      { run_dc(0, 2, 1, 1, 0); }
static void scen_dc_sync_1_2(void)      { run_dc(0, 2, 1, 2, 0); }
static void scen_dc_defer_1(void)       { run_dc(1, 2, 1, 9, 0); }
static void scen_dc_defer_0_0(void)     { run_dc(1, 3, 0, -1, 9); }
static void scen_dc_defer_1_1(void)     { run_dc(1, 3, 1, 1, 9); }
static void scen_dc_defer_1_2(void)     { run_dc(1, 3, 1, 2, 9); }
static void scen_dc_defer_0_1(void)     { run_dc(1, 3, 0, 1, 9); }

static void setup(void)
{   /* lazy class initialisation happens here, once, before any controlled run */
    parsec_base_future_t *a = PARSEC_OBJ_NEW(parsec_base_future_t); PARSEC_OBJ_RELEASE(a);
    parsec_countable_future_t *c = PARSEC_OBJ_NEW(parsec_countable_future_t); PARSEC_OBJ_RELEASE(c);
    parsec_list_t *l = PARSEC_OBJ_NEW(parsec_list_t); PARSEC_OBJ_RELEASE(l);
    parsec_list_item_t *i = PARSEC_OBJ_NEW(parsec_list_item_t); PARSEC_OBJ_RELEASE(i);
    static int sh = 0;
    parsec_datacopy_future_t *d = PARSEC_OBJ_NEW(parsec_datacopy_future_t);
    parsec_future_init(d, dc_fulfill, &sh, dc_match, &sh, NULL);
    PARSEC_OBJ_RELEASE(d);
}

#define S(id, mb) { #id, scen_##id, mb }
static cs_scenario_t set_s[] = {   /* small: the quick tier runs these at preemption bound 2 */
    S(bf_set_set_get, 0), S(cf2_set_set_get, 0), S(dc_sync_1_1, 0), S(dc_sync_1_2, 0), S(dc_defer_1, 0),
};
static cs_scenario_t set_q[] = {   /* the quick tier runs these at preemption bound 1 */
    S(bf_set_set_poll, 0), S(bf_set_get_get, 0), S(cf1_set_get_poll, 0), S(cf2_setset_get_poll, 0), S(cf3_setset_set_get, 0),
    S(dc_sync_0_0_0, 0), S(dc_sync_0_1_1, 0), S(dc_sync_1_1_2, 0), S(dc_sync_1_2_3, 0), S(dc_defer_0_0, 0),
};
static cs_scenario_t set_x[] = {   /* thorough only: deferred completion with two readers, 4 threads */
    S(dc_defer_1_1, 0), S(dc_defer_0_1, 0), S(dc_defer_1_2, 0),
    S(bf_set_set_get_get, 0), S(bf_set_set_set_nocb, 0), S(cf3_set_set_set_get, 0),
};
#define N(a) (int)(sizeof(a) / sizeof(a[0]))
int main(int argc, char **argv)
{
    static cs_scenario_t all[N(set_s) + N(set_q) + N(set_x)]; int n = 0;
    const char *set = getenv("C29_SET");            /* unset (replay): every scenario; else a list out of s,q,x */
    if (!set || strchr(set, 's')) for (int i = 0; i < N(set_s); i++) all[n++] = set_s[i];
    if (!set || strchr(set, 'q')) for (int i = 0; i < N(set_q); i++) all[n++] = set_q[i];
    if (!set || strchr(set, 'x')) for (int i = 0; i < N(set_x); i++) all[n++] = set_x[i];
    return cs_main(argc, argv, "C29", all, n, setup);
}
