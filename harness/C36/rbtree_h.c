/* C36: the red-black tree keeps order and balance (E2, real parsec_rbtree.c). */
#include "parsec/parsec_config.h"
#include "parsec/constants.h"
#include "parsec/class/parsec_rbtree.h"
#include "seqx.h"
#include <stddef.h>

#ifndef NK
#define NK 7            /* keys 1..NK */
#endif
typedef struct { parsec_rbtree_node_t node; int key; } elt_t;
typedef struct { parsec_rbtree_t tree; elt_t e[NK + 1]; int in[NK + 1]; /* model: membership; e[k] currently stores key e[k].key */ } obj_t;
/* ops: insert(k) k=1..NK | remove(k) | update(k->k') for k!=k' | queries are run after every op by the oracle */
#define OP_INS(k)   ((k) - 1)
#define OP_REM(k)   (NK + (k) - 1)
#define OP_UPD(k,n) (2 * NK + ((k) - 1) * NK + ((n) - 1))
#define NOPS (2 * NK + NK * NK)

static void *fresh(void)
{
    obj_t *o = calloc(1, sizeof(obj_t));
    parsec_rbtree_init(&o->tree, offsetof(elt_t, key));
    for (int k = 1; k <= NK; k++) { PARSEC_OBJ_CONSTRUCT(&o->e[k].node, parsec_rbtree_node_t); o->e[k].key = k; }
    return o;
}
static void destroy(void *p) { free(p); }
/* model: set of keys; slot[k] = element object holding key k (elements are renamed by update) */
static int slot_of(obj_t *o, int key) { for (int i = 1; i <= NK; i++) if (o->in[i] && o->e[i].key == key) return i; return 0; }
static int free_slot(obj_t *o) { for (int i = 1; i <= NK; i++) if (!o->in[i]) return i; return 0; }

static int enabled(void *p, int op)
{
    obj_t *o = p;
    if (op < NK) return !slot_of(o, op + 1);
    if (op < 2 * NK) return slot_of(o, op - NK + 1) != 0;
    int k = (op - 2 * NK) / NK + 1, n = (op - 2 * NK) % NK + 1;
    return k != n && slot_of(o, k) != 0;
}

static int check_sub(obj_t *o, parsec_rbtree_node_t *x, parsec_rbtree_node_t *parent, int lo, int hi, int *bh, int *count, char *err)
{
    parsec_rbtree_t *t = &o->tree;
    if (x == t->nil) { *bh = 1; return 0; }
    elt_t *e = (elt_t *)x;
    if (e < &o->e[1] || e > &o->e[NK]) { snprintf(err, SX_ERRLEN, "tree contains a foreign node"); return 1; }
    if (++*count > NK) { snprintf(err, SX_ERRLEN, "tree has more nodes than inserted (cycle?)"); return 1; }
    if (x->parent != parent) { snprintf(err, SX_ERRLEN, "parent pointer of key %d is wrong", e->key); return 1; }
    if (e->key <= lo || e->key >= hi) { snprintf(err, SX_ERRLEN, "BST order violated at key %d (must be in (%d,%d))", e->key, lo, hi); return 1; }
    parsec_rbtree_node_t *l = (parsec_rbtree_node_t *)x->super.list_prev, *r = (parsec_rbtree_node_t *)x->super.list_next;
    if (x->color == PARSEC_RBTREE_RED && ((l != t->nil && l->color == PARSEC_RBTREE_RED) || (r != t->nil && r->color == PARSEC_RBTREE_RED))) { snprintf(err, SX_ERRLEN, "red node %d has a red child", e->key); return 1; }
    int bl, br;
    if (check_sub(o, l, x, lo, e->key, &bl, count, err)) return 1;
    if (check_sub(o, r, x, e->key, hi, &br, count, err)) return 1;
    if (bl != br) { snprintf(err, SX_ERRLEN, "black heights differ under key %d (%d vs %d)", e->key, bl, br); return 1; }
    *bh = bl + (x->color == PARSEC_RBTREE_BLACK);
    return 0;
}
static int oracle(obj_t *o, char *err)
{
    parsec_rbtree_t *t = &o->tree; int bh, count = 0, want = 0;
    if (t->root != t->nil && t->root->color != PARSEC_RBTREE_BLACK) { snprintf(err, SX_ERRLEN, "root is not black"); return 1; }
    if (t->nil->color != PARSEC_RBTREE_BLACK) { snprintf(err, SX_ERRLEN, "nil sentinel is not black"); return 1; }
    if (check_sub(o, t->root, t->nil, 0, 1000, &bh, &count, err)) return 1;
    for (int i = 1; i <= NK; i++) want += o->in[i];
    if (count != want) { snprintf(err, SX_ERRLEN, "tree holds %d nodes, model %d", count, want); return 1; }
    for (int q = 0; q <= NK + 1; q++) {
        int s = slot_of(o, q);
        parsec_rbtree_node_t *f = parsec_rbtree_find(t, q);
        if ((f != NULL) != (s != 0) || (f && f != &o->e[s].node)) { snprintf(err, SX_ERRLEN, "find(%d) returned %s, model says %s", q, f ? "a node" : "NULL", s ? "present" : "absent"); return 1; }
        int best = 0; for (int k = q; k <= NK; k++) if (slot_of(o, k)) { best = k; break; }
        parsec_rbtree_node_t *g = parsec_rbtree_find_or_larger(t, q);
        int got = g ? ((elt_t *)g)->key : 0;
        if (got != best) { snprintf(err, SX_ERRLEN, "find_or_larger(%d) returned key %d, expected %d", q, got, best); return 1; }
    }
    return 0;
}
static int apply(void *p, int op, char *err)
{
    obj_t *o = p;
    if (op < NK) { int k = op + 1, s = free_slot(o); o->e[s].key = k; o->in[s] = 1; parsec_rbtree_insert(&o->tree, &o->e[s].node); }
    else if (op < 2 * NK) { int k = op - NK + 1, s = slot_of(o, k); parsec_rbtree_remove(&o->tree, &o->e[s].node); o->in[s] = 0; }
    else {
        int k = (op - 2 * NK) / NK + 1, n = (op - 2 * NK) % NK + 1, s = slot_of(o, k), exists = slot_of(o, n) != 0;
        int rc = parsec_rbtree_update_node(&o->tree, &o->e[s].node, n);
        if (exists) { if (rc == PARSEC_SUCCESS) { snprintf(err, SX_ERRLEN, "update(%d->%d) succeeded although %d is present", k, n, n); return 1; } }
        else { if (rc != PARSEC_SUCCESS) { snprintf(err, SX_ERRLEN, "update(%d->%d) failed (%d) although %d is absent", k, n, rc, n); return 1; }
               if (o->e[s].key != n) { snprintf(err, SX_ERRLEN, "update(%d->%d) did not store the new key", k, n); return 1; } }
    }
    return oracle(o, err);
}
static size_t canon_sub(obj_t *o, parsec_rbtree_node_t *x, char *b, size_t off, size_t cap, int depth)
{
    if (off + 8 > cap || depth > NK + 2) return off;
    if (x == o->tree.nil) { b[off++] = '.'; return off; }
    b[off++] = '('; b[off++] = (char)('0' + ((elt_t *)x)->key); b[off++] = x->color == PARSEC_RBTREE_RED ? 'r' : 'b';
    off = canon_sub(o, (parsec_rbtree_node_t *)x->super.list_prev, b, off, cap, depth + 1);
    off = canon_sub(o, (parsec_rbtree_node_t *)x->super.list_next, b, off, cap, depth + 1);
    b[off++] = ')'; return off;
}
static size_t canon(void *p, char *b, size_t cap) { obj_t *o = p; return canon_sub(o, o->tree.root, b, 0, cap, 0); }
static void opname(int op, char *b, size_t cap)
{
    if (op < NK) snprintf(b, cap, "ins%d", op + 1); else if (op < 2 * NK) snprintf(b, cap, "rem%d", op - NK + 1);
    else snprintf(b, cap, "upd%d>%d", (op - 2 * NK) / NK + 1, (op - 2 * NK) % NK + 1);
}
int main(int argc, char **argv)
{
    sx_init(argc, argv, "C36");
    char nm[64]; snprintf(nm, sizeof(nm), "rbtree_keys_1_%d", NK);
    sx_system_t sys = { nm, NOPS, fresh, destroy, enabled, apply, canon, opname, 0, 0 };
    if (sx_replay_file) { char sc[128], h[4096]; if (sx_read_replay(sx_replay_file, sc, sizeof(sc), h, sizeof(h))) return 2; return sx_replay_named(&sys, h); }
    sx_stats_t st; sx_bfs(&sys, &st);
    return sx_finish();
}
