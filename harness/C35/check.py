META = dict(
    engine='seqx+cosched',
    technique='explicit-state model checking: BFS to closure over all reachable contents of the real parsec_hbbuffer_t (sizes 1..4) and all reachable forests of the real scheduler max-heap (insert/remove/split_and_steal over 5-8 tasks with tied priorities) against set models; plus preemption-bounded exhaustive schedule enumeration (CHESS) of concurrent push_all / push_all_by_priority / pop_best on one buffer',
    level_text='Sequential: for buffer sizes 1..4 and N tasks (N=5,6 quick; 5..8 thorough) every reachable buffer content x every operation (push_all and push_all_by_priority of every ring of <= 3 free tasks at distance 0, single tasks at distance 1/2, pop_best) is executed on the real code: buffer + parent store = pushed - popped as sets, overflow only when the buffer is full, pop_best returns a maximal-priority held task. Every reachable forest of up to 3 heaps over the N tasks x every insert/remove/split_and_steal is executed: every task in exactly one heap or returned exactly once, returned task has the maximal priority, top/priority/size fields right, max-heap order, complete-tree shape. Concurrent: every schedule with <= b preemptions (b=2 quick, 4 thorough) of seven hand-written 2-3 thread scripts on buffers of size 1-2 (forced overflow and CAS contention, one ABA seeker), plus GENERATED script families: all scripts pre-state (1-2 slots, 0..size tasks of priority 2) x T0 ops || T1 ops (|| T2) over the alphabet {pop_best, push_all of the oldest task the thread popped, push_all [H] / [H,L], push_all_by_priority [L] / [H] / [H,L] / [H,H] (thorough also [M] = tie)}, minus contract violations, up to thread symmetry - quick: (1,1) at b=2 and (2,1) at b=1 under a wall budget; thorough: (1,1) b=3, (2,1) b=2, (1,1,1) b=1, (2,2) b=2, (3,1) b=2, budget-cut (evidence: scripts generated / filtered / explored): nothing lost or duplicated, then a quiescent drain pops in non-increasing priority.',
    level_note='push_all_by_priority is only given rings in decreasing priority order (its contract). Priority preference under concurrency is not claimed (documented ABA window); sequential consistency at instrumented accesses; <= 3 threads, <= 2 operations per thread.',
)
RULE = ("seqx legs: BFS over operation histories on the real objects, states = distinct canonical contents (buffer: slot -> task; heaps: sorted pre-order encodings of every heap), every transition compared with the set model "
        "(non-trivial = shortest history >= 2 ops); cosched legs (hand-written scripts and every script of the generated families 'family/gen_*': see the leg's spec and scripts_* counters): every schedule with at most b preemptions, scheduling points = every instrumented access to the buffer slots (non-trivial = at least one preemption); states = nodes of the explored schedule tree")
def build_seq(ctx, nt):
    return ctx.compile('hk-shm', 'hbbseq%d' % nt, ['hbb_seq.c'], instr=False, cflags=['-DNT=%d' % nt])
def build_conc(ctx):
    return ctx.compile('hk-shm', 'hbbconc', ['hbb_conc.c'], engine='cosched')
# ---- generated (bounded-exhaustive) script families: see NOTES.md and the comment in hbb_conc.c ----
# (label, spec, preemption bound, wall budget in s, scripts per engine invocation, order, seconds a started script may always use)
Q7 = 'ops=pbuUlhQR;pre=01234'      # quick alphabet (8 operations)
T8 = 'ops=pbuUlmhQR;pre=01234'     # thorough: + m (priority tie)
FAMILIES = {
    'quick': [
        ('gen_11_b3', 'shape=1,1;%s' % Q7, 3, 8, 8, 'seq', 2),
        ('gen_21_b2', 'shape=2,1;%s' % Q7, 2, 30, 16, 'seq', 1.5),
    ],
    'thorough': [
        ('gen_11_b4', 'shape=1,1;%s' % T8, 4, 30, 16, 'seq', 2),
        ('gen_21_b3', 'shape=2,1;%s' % T8, 3, 120, 16, 'seq', 2),
        ('gen_111_b2', 'shape=1,1,1;%s' % Q7, 2, 80, 8, 'seq', 3),
        ('gen_22_b2', 'shape=2,2;%s' % Q7, 2, 120, 32, 'seq', 1.5),
        ('gen_31_b2', 'shape=3,1;%s' % Q7, 2, 60, 32, 'spread', 1.5),
    ],
}


def bitrev_order(n):
    if n <= 1:
        return list(range(n))
    w = (n - 1).bit_length()
    return [j for j in (int(format(i, '0%db' % w)[::-1], 2) for i in range(1 << w)) if j < n]


def gen_family(ctx, exe, label, spec, bound, budget, batch, order, allow, procs, jobs):
    """Explore one generated family: the harness enumerates it (--gen-list), ranges of it are explored by parallel engine
    invocations until everything is done or the wall budget is used up; one aggregated evidence leg."""
    import os, sys, json, subprocess, time, statistics
    from concurrent.futures import ThreadPoolExecutor
    from vlib import OUT
    env = dict(os.environ); env['C35_GEN'] = spec
    r = subprocess.run([exe, '--gen-list'], env=env, capture_output=True, text=True)
    if r.returncode != 0:
        ctx.broken.append('%s: --gen-list failed: %s' % (label, r.stderr[-500:])); return
    fam = json.loads(r.stdout)
    n = fam['after_symmetry']
    t0 = time.time(); t_end = t0 + budget
    ranges = [(lo, min(n, lo + batch)) for lo in range(0, n, batch)]
    if order == 'spread':
        ranges = [ranges[i] for i in bitrev_order(len(ranges))]
    mine = '%s@' % label
    nviol0 = len(ctx.violations)
    def one(rg):
        left = t_end - time.time()
        if left < 1.0 or len(ctx.violations) > nviol0:
            return None                      # budget used up (or a violation is already reported): this range is not explored (exhaustive:false)
        e = dict(env); e['C35_GEN'] = '%s;range=%d:%d' % (spec, rg[0], rg[1])
        dl = max(2, int(left), int(allow * (rg[1] - rg[0])))
        ctx.run_engine(exe, ['--bound', str(bound), '--jobs', str(jobs), '--outdir', OUT, '--deadline', str(dl)], label='%s%d' % (mine, rg[0]), timeout=dl + 300, env=e)
        return rg
    with ThreadPoolExecutor(max_workers=procs) as ex:
        done = [x for x in ex.map(one, ranges) if x]
    legs = [l for l in ctx.legs if str(l.get('leg', '')).startswith(mine)]
    ctx.legs[:] = [l for l in ctx.legs if not str(l.get('leg', '')).startswith(mine)]
    pos = {nm: i for i, nm in enumerate(fam['scripts'])}
    legs.sort(key=lambda l: pos.get(l['name'], 0))
    complete = [l for l in legs if l.get('exhaustive')]
    outs = [int(l.get('distinct_outcomes', 0)) for l in (complete or legs)]      # outcome statistics over the scripts that completed their bound
    samples = []
    for l in sorted(legs, key=lambda l: -int(l.get('distinct_outcomes', 0)))[:2] + legs[:1]:
        for sm in l.get('samples', [])[:1]:
            samples.append(dict(sm, script=l['name']))
    nex = sum(int(l.get('executions', 0)) for l in legs)
    ctx.add_leg(name=label, leg='family', engine='cosched', spec=spec, bound=bound, order=order,
                alphabet=fam['alphabet'], scripts_generated=fam['generated'], scripts_after_contract=fam['after_contract'],
                scripts_after_relevance=fam['after_relevance'], scripts_after_symmetry=n,
                scripts_explored=len(legs), scripts_completed=len(complete),
                states=sum(int(l.get('states', 0)) for l in legs), transitions=sum(int(l.get('transitions', 0)) for l in legs),
                executions=nex, nontrivial=sum(int(l.get('nontrivial', 0)) for l in legs),
                distinct_outcomes=sum(outs), outcomes_per_script=dict(min=min(outs), median=statistics.median(outs), max=max(outs)) if outs else {},
                single_outcome_scripts=sum(1 for o in outs if o <= 1), max_points=max([int(l.get('max_points', 0)) for l in legs] or [0]),
                exhaustive=(len(complete) == n), violations=sum(int(l.get('violations', 0)) for l in legs),
                explored_ranges=[list(x) for x in sorted(done)] if order == 'spread' else [[0, max([x[1] for x in done] or [0])]],
                wall_s=round(time.time() - t0, 2), samples=samples)
    sys.stderr.write('C35 family %s (bound %d): %d generated, %d after contract, %d after relevance, %d after symmetry; explored %d (complete %d), %d schedules, outcomes/script min %s max %s, %d single-outcome, %.1fs\n'
                     % (label, bound, fam['generated'], fam['after_contract'], fam['after_relevance'], n, len(legs), len(complete),
                        nex, min(outs) if outs else '-', max(outs) if outs else '-', sum(1 for o in outs if o <= 1), time.time() - t0))
    # vacuity guard: a family whose scripts all have a single outcome collides with nothing
    if legs and max(outs) <= 1 and len(complete) < n and not sum(int(l.get('violations', 0)) for l in legs):
        ctx.notes.append('%s: the %d scripts explored before the budget cut all have a single outcome (vacuity is only judged on a completely explored family)' % (label, len(legs)))
    elif legs and max(outs) <= 1 and not sum(int(l.get('violations', 0)) for l in legs):
        ctx.broken.append('%s: every script of the family has a single outcome: the alphabet collides with nothing' % label)


def families(ctx, exe):
    import os
    from vlib import NJOBS
    procs = max(1, min(8, NJOBS)); jobs = max(1, min(2, NJOBS // procs))      # 16 cores: 8 invocations x 2 workers
    fams = FAMILIES[ctx.tier]
    if os.environ.get('C35_FAMILIES'):     # development: "label|spec|bound|budget|batch|order|allow;;..."
        fams = [(a, b, int(c), float(d), int(e), f, float(g)) for a, b, c, d, e, f, g in (x.split('|') for x in os.environ['C35_FAMILIES'].split(';;'))]
    # quick tier on a loaded machine: when the legs before took long, the family budgets shrink (down to 40 %: fewer batches are started; a started script always gets its 'allow') so that the tier stays bounded;
    # the evidence then shows scripts_explored < scripts_after_symmetry
    import time
    scale = 1.0 if ctx.tier != 'quick' else min(1.0, max(0.4, (95.0 - (time.time() - ctx.t0)) / 40.0))
    for label, spec, bound, budget, batch, order, allow in fams:
        gen_family(ctx, exe, label, spec, bound, budget * scale, batch, order, allow, procs, jobs)


def check(ctx):
    import os
    quick = ctx.tier == 'quick'
    only = os.environ.get('C35_ONLY', '')        # development switch: 'gen' = generated families only, 'hand' = hand-written scripts only, 'seq' = sequential legs only
    if only in ('', 'seq'):
        for nt in ([5, 6] if quick else [5, 6, 7, 8]):
            ctx.run_engine(build_seq(ctx, nt), ['--outdir', '/verif/out', '--deadline', '600'] + ([] if quick else ['--thorough']), label='hbbseq%d' % nt, timeout=1200)
    exe = build_conc(ctx)
    if only in ('', 'hand'):
        ctx.run_cosched(exe, 2 if quick else 4, deadline=(100 if quick else 500), label='hbbconc')
    if only in ('', 'gen'):
        families(ctx, exe)
    return ctx.finish(RULE, ["sequential consistency at instrumented accesses (no weak-memory effects)",
                             "push_all_by_priority receives rings sorted by decreasing priority (its contract)",
                             "the max-heap is used sequentially (documented: not thread safe, protected by the upper level)",
                             "generated families: a wall budget bounds each family; scripts_explored < scripts_after_symmetry means the family was cut (exhaustive:false for that leg)"])
def replay(ctx, path, obj):
    import subprocess, re
    if obj.get('engine') == 'seqx':
        nt = int(re.search(r'_n(\d+)$', obj['scenario']).group(1))
        return subprocess.call([build_seq(ctx, nt), '--replay', path])
    return subprocess.call([build_conc(ctx), '--replay', path])
