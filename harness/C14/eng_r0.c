/* engine instance of virtual rank 0 */
#define VM_RANK 0
#include "eng_inst.h"
