/* C20: block-cyclic data distributions are consistent (E2 / seqx, full box on the real functions).
 *
 * For every point of a finite parameter box the REAL descriptor of a distribution is built once per
 * rank (myrank = 0..nodes-1 passed explicitly, no MPI) and interrogated only through the function
 * pointers of parsec_data_collection_t (rank_of, data_of, vpid_of, data_key and the *_of_key twins).
 * Oracle (see check_views): owner valid and identical on every rank's view; on the owner data_of
 * yields pairwise disjoint storage inside the rank's local allocation(s); #owned == nb_local_tiles;
 * data_key is injective and maps back to the coordinates; *_of_key agree; vpid_of in [0,nb_vp).
 * Assertion failures / crashes of the real code on a valid input are violations as well (the
 * harness interposes __assert_fail and catches fatal signals).
 */
#include "parsec/parsec_config.h"
#include "parsec/runtime.h"
#include "parsec/data_internal.h"
#include "parsec/vpmap.h"
#include "parsec/data_dist/matrix/matrix.h"
#include "parsec/data_dist/matrix/matrix_internal.h"
#include "parsec/data_dist/matrix/two_dim_rectangle_cyclic.h"
#include "parsec/data_dist/matrix/sym_two_dim_rectangle_cyclic.h"
#include "parsec/data_dist/matrix/two_dim_rectangle_cyclic_band.h"
#include "parsec/data_dist/matrix/sym_two_dim_rectangle_cyclic_band.h"
#include "parsec/data_dist/matrix/two_dim_tabular.h"
#include "parsec/data_dist/matrix/vector_two_dim_cyclic.h"
#include "seqx.h"
#include <setjmp.h>
#include <signal.h>
#include <dlfcn.h>
#include <unistd.h>
#include <sys/wait.h>
#include <errno.h>
#include <sys/time.h>

/* ------------------------------------------------------------------ interposition / crash guard */
static int g_nbvp_override = 0;
int parsec_vpmap_get_nb_vp(void)          /* the number of virtual processes is an input of the functions under test */
{
    static int (*real)(void);
    if (g_nbvp_override > 0) return g_nbvp_override;
    if (!real) real = (int (*)(void))dlsym(RTLD_NEXT, "parsec_vpmap_get_nb_vp");
    return real();
}
static sigjmp_buf g_jmp;
static volatile int g_guard = 0;
static char g_crash[600];
void __assert_fail(const char *assertion, const char *file, unsigned int line, const char *function)
{
    const char *b = strstr(file, "parsec/"); if (!b) b = file;
    snprintf(g_crash, sizeof(g_crash), "assertion `%s' failed in %s() at %s:%u", assertion, function, b, line);
    if (g_guard) siglongjmp(g_jmp, 1);
    fprintf(stderr, "c20: %s (outside a guarded section)\n", g_crash);
    _exit(2);
}
static void on_signal(int sig)
{
    snprintf(g_crash, sizeof(g_crash), "real code died with signal %d (%s)", sig, strsignal(sig));
    if (g_guard) siglongjmp(g_jmp, 2);
    _exit(2);
}
/* watchdog on CPU time (ITIMER_VIRTUAL, 100 ms ticks): a guarded section that spans 3 ticks (>= 200 ms of user CPU time; a
 * legitimate case needs < 2 ms) is an infinite loop in the real code. Independent of machine load. */
static volatile long g_case_serial = 0; static long g_tick_serial = -1; static int g_tick_count = 0;
static void on_tick(int sig)
{
    (void)sig;
    if (!g_guard) { g_tick_serial = -1; return; }
    if (g_tick_serial == g_case_serial) { if (++g_tick_count >= 2) { g_tick_serial = -1; snprintf(g_crash, sizeof(g_crash), "real code did not return (>= 200 ms of CPU time inside one constructor/accessor sequence: infinite loop)"); siglongjmp(g_jmp, 4); } }
    else { g_tick_serial = g_case_serial; g_tick_count = 0; }
}

/* ------------------------------------------------------------------ cases */
enum { K_2DBC, K_KVIEW, K_SYM, K_BAND, K_SYMBAND, K_TAB, K_VEC, K_NKINDS };
static const char *kind_name[] = { "2dbc", "kview", "sym", "band", "symband", "tabular", "vector" };
#define FIELDS \
    X(kind) X(mty) X(mb) X(nb) X(lm) X(ln) X(i) X(j) X(m) X(n) X(P) X(Q) X(kp) X(kq) X(ip) X(jq) X(nbvp) \
    X(uplo) X(sub) X(bs) X(bP) X(bkp) X(bkq) X(dist) X(nodes) X(table) X(vptab) X(user)
typedef struct {
#define X(f) int f;
    FIELDS
#undef X
} case_t;
/*  kind  : distribution (see kind_name)            mty   : 0 byte, 1 int32, 2 double
 *  sub   : 0 = (i,j,m,n) passed to the constructor, 1 = constructor for the full matrix, then parsec_tiled_matrix_submatrix()
 *  uplo  : sym/symband: 0 lower, 1 upper            bs,bP,bkp,bkq : band size, band grid rows, band k-cyclicity
 *  dist  : vector: 0 row 1 col 2 diag               nodes,table,vptab,user : tabular (table/vptab in base nodes / base nbvp, tile 0 = least significant) */
static void case_str(const case_t *c, char *b, size_t cap)
{
    size_t o = (size_t)snprintf(b, cap, "%s:", kind_name[c->kind]);
#define X(f) o += (size_t)snprintf(b + o, cap - o, " " #f "=%d", c->f);
    FIELDS
#undef X
}
static int case_parse(const char *s, case_t *c)
{
    memset(c, 0, sizeof(*c)); int got = 0;
#define X(f) { const char *p = strstr(s, " " #f "="); if (p) { c->f = atoi(p + strlen(" " #f "=")); got++; } }
    FIELDS
#undef X
    return got >= 10 && c->kind >= 0 && c->kind < K_NKINDS ? 0 : -1;
}
static const parsec_matrix_type_t mtypes[3] = { PARSEC_MATRIX_BYTE, PARSEC_MATRIX_INTEGER, PARSEC_MATRIX_DOUBLE };

/* ------------------------------------------------------------------ built views */
#define MAXR 16
#define MAXT 1024
typedef struct { char *base; size_t len; } arange_t;
typedef struct {
    parsec_data_collection_t *dc;
    arange_t al[8]; int nal;
    arange_t *xal; int nxal;          /* tabular: one allocation per local tile */
    int nb_local;                     /* nb_local_tiles of the descriptor that owns the storage, -1 = not applicable */
} view_t;
typedef struct {
    int nodes, mt, nt, goff_m, goff_n, lmt;
    int full;                         /* the view covers the whole stored matrix: #owned must equal nb_local_tiles */
    int tri;                          /* 0 all tiles, 1 lower (gm>=gn), 2 upper (gn>=gm) are stored */
    int vec;                          /* one coordinate */
    int check_dkey;                   /* data_of(m,n)->key must be data_key(m,n) (not for views that redirect to another descriptor) */
    size_t tilebytes;
    view_t v[MAXR];
} built_t;

static parsec_matrix_block_cyclic_t       g_bc[MAXR], g_kv[MAXR];
static parsec_matrix_sym_block_cyclic_t   g_sym[MAXR];
static parsec_matrix_block_cyclic_band_t  g_band[MAXR];
static parsec_matrix_sym_block_cyclic_band_t g_sband[MAXR];
static parsec_matrix_tabular_t            g_tab[MAXR];
static parsec_vector_two_dim_cyclic_t     g_vec[MAXR];
static parsec_tiled_matrix_t             *g_sub[MAXR];
static arange_t                           g_xal[MAXR][64];
static long n_views = 0, n_calls = 0;

static void *alloc_local(size_t bytes) { return calloc(bytes ? bytes : 1, 1); }
static size_t esize(const case_t *c) { return (size_t)parsec_datadist_getsizeoftype(mtypes[c->mty]); }

static void bc_alloc(parsec_matrix_block_cyclic_t *d, view_t *v)
{
    size_t len = (size_t)d->super.nb_local_tiles * d->super.bsiz * (size_t)parsec_datadist_getsizeoftype(d->super.mtype);
    d->mat = alloc_local(len);
    v->al[v->nal].base = d->mat; v->al[v->nal].len = len; v->nal++;
}
static void free_dc(parsec_tiled_matrix_t *t)
{
    free(t->super.key_dim); t->super.key_dim = NULL;     /* parsec_data_collection_destroy only frees it with PROF_TRACE */
    parsec_tiled_matrix_destroy(t);
}

static int build(const case_t *c, built_t *b, char *err)
{
    memset(b, 0, sizeof(*b));
    parsec_matrix_type_t mty = mtypes[c->mty];
    int nodes = (c->kind == K_TAB) ? c->nodes : c->P * c->Q;
    b->nodes = nodes; b->tilebytes = (size_t)c->mb * c->nb * esize(c);
    b->check_dkey = 1;
    int fi = c->sub ? 0 : c->i, fj = c->sub ? 0 : c->j, fm = c->sub ? c->lm : c->m, fn = c->sub ? c->ln : c->n;  /* constructor arguments */
    for (int r = 0; r < nodes; r++) {
        view_t *v = &b->v[r]; v->nb_local = -1; g_sub[r] = NULL;
        parsec_tiled_matrix_t *t = NULL;
        n_views++;
        switch (c->kind) {
        case K_2DBC:
            parsec_matrix_block_cyclic_init(&g_bc[r], mty, PARSEC_MATRIX_TILE, r, c->mb, c->nb, c->lm, c->ln, fi, fj, fm, fn, c->P, c->Q, c->kp, c->kq, c->ip, c->jq);
            bc_alloc(&g_bc[r], v); v->nb_local = g_bc[r].super.nb_local_tiles; t = &g_bc[r].super; break;
        case K_KVIEW:
            parsec_matrix_block_cyclic_init(&g_bc[r], mty, PARSEC_MATRIX_TILE, r, c->mb, c->nb, c->lm, c->ln, fi, fj, fm, fn, c->P, c->Q, 1, 1, c->ip, c->jq);
            bc_alloc(&g_bc[r], v); v->nb_local = g_bc[r].super.nb_local_tiles;
            parsec_matrix_block_cyclic_kview(&g_kv[r], &g_bc[r], c->kp, c->kq);
            t = &g_kv[r].super; b->check_dkey = 0; break;
        case K_SYM: {
            parsec_matrix_sym_block_cyclic_init(&g_sym[r], mty, r, c->mb, c->nb, c->lm, c->ln, fi, fj, fm, fn, c->P, c->Q, c->uplo ? PARSEC_MATRIX_UPPER : PARSEC_MATRIX_LOWER);
            size_t len = (size_t)g_sym[r].super.nb_local_tiles * g_sym[r].super.bsiz * esize(c);
            g_sym[r].mat = alloc_local(len); v->al[0].base = g_sym[r].mat; v->al[0].len = len; v->nal = 1;
            v->nb_local = g_sym[r].super.nb_local_tiles; t = &g_sym[r].super; b->tri = c->uplo ? 2 : 1; break; }
        case K_BAND:
            parsec_matrix_block_cyclic_init(&g_band[r].off_band, mty, PARSEC_MATRIX_TILE, r, c->mb, c->nb, c->lm, c->ln, 0, 0, c->lm, c->ln, c->P, c->Q, c->kp, c->kq, c->ip, c->jq);
            parsec_matrix_block_cyclic_init(&g_band[r].band, mty, PARSEC_MATRIX_TILE, r, c->mb, c->nb, c->mb * (2 * c->bs - 1), c->ln, 0, 0, c->mb * (2 * c->bs - 1), c->ln,
                                            c->bP, nodes / c->bP, c->bkp, c->bkq, 0, 0);
            parsec_matrix_block_cyclic_band_init(&g_band[r], nodes, r, c->bs);
            bc_alloc(&g_band[r].off_band, v); bc_alloc(&g_band[r].band, v);
            t = &g_band[r].super; b->check_dkey = 0; break;
        case K_SYMBAND: {
            parsec_matrix_sym_block_cyclic_init(&g_sband[r].off_band, mty, r, c->mb, c->nb, c->lm, c->ln, 0, 0, c->lm, c->ln, c->P, c->Q, c->uplo ? PARSEC_MATRIX_UPPER : PARSEC_MATRIX_LOWER);
            parsec_matrix_block_cyclic_init(&g_sband[r].band, mty, PARSEC_MATRIX_TILE, r, c->mb, c->nb, c->mb * c->bs, c->ln, 0, 0, c->mb * c->bs, c->ln,
                                            c->bP, nodes / c->bP, c->bkp, c->bkq, 0, 0);
            parsec_matrix_sym_block_cyclic_band_init(&g_sband[r], nodes, r, c->bs);
            size_t len = (size_t)g_sband[r].off_band.super.nb_local_tiles * g_sband[r].off_band.super.bsiz * esize(c);
            g_sband[r].off_band.mat = alloc_local(len); v->al[0].base = g_sband[r].off_band.mat; v->al[0].len = len; v->nal = 1;
            bc_alloc(&g_sband[r].band, v);
            t = &g_sband[r].super; b->tri = c->uplo ? 2 : 1; b->check_dkey = 0; break; }
        case K_TAB: {
            int lmt = (c->lm + c->mb - 1) / c->mb, lnt = (c->ln + c->nb - 1) / c->nb, nt = lmt * lnt;
            parsec_two_dim_td_table_t *tb = malloc(sizeof(*tb) + (size_t)nt * sizeof(parsec_two_dim_td_table_elem_t));
            tb->nbelem = nt; int code = c->table, vcode = c->vptab, pos = 0; v->xal = g_xal[r]; v->nxal = 0;
            for (int k = 0; k < nt; k++) {
                tb->elems[k].rank = (uint32_t)(code % nodes); code /= nodes;
                tb->elems[k].vpid = vcode % c->nbvp; vcode /= c->nbvp;
                tb->elems[k].pos = -1; tb->elems[k].data = NULL;
                if (c->user && (int)tb->elems[k].rank == r) { tb->elems[k].pos = pos++; tb->elems[k].data = alloc_local(b->tilebytes); }
            }
            parsec_matrix_tabular_init(&g_tab[r], mty, (unsigned)nodes, (unsigned)r, c->mb, c->nb, c->lm, c->ln, fi, fj, fm, fn, c->user ? NULL : tb);
            if (c->user) parsec_matrix_tabular_set_user_table(&g_tab[r], tb);
            for (int k = 0; k < nt; k++) if ((int)tb->elems[k].rank == r) { v->xal[v->nxal].base = tb->elems[k].data; v->xal[v->nxal].len = b->tilebytes; v->nxal++; }
            v->nb_local = g_tab[r].super.nb_local_tiles; t = &g_tab[r].super; break; }
        case K_VEC: {
            static const parsec_vector_two_dim_cyclic_distrib_t ds[3] = { PARSEC_VECTOR_DISTRIB_ROW, PARSEC_VECTOR_DISTRIB_COL, PARSEC_VECTOR_DISTRIB_DIAG };
            parsec_vector_two_dim_cyclic_init(&g_vec[r], mty, ds[c->dist], r, c->mb, c->lm, c->i, c->m, c->P, c->Q);
            size_t len = (size_t)g_vec[r].super.nb_local_tiles * c->mb * esize(c);
            g_vec[r].mat = alloc_local(len); v->al[0].base = g_vec[r].mat; v->al[0].len = len; v->nal = 1;
            v->nb_local = g_vec[r].super.nb_local_tiles; t = &g_vec[r].super; b->vec = 1; b->tilebytes = (size_t)c->mb * esize(c); break; }
        }
        if (c->sub) {
            g_sub[r] = parsec_tiled_matrix_submatrix(t, c->i, c->j, c->m, c->n);
            if (!g_sub[r]) { snprintf(err, SX_ERRLEN, "parsec_tiled_matrix_submatrix(i=%d,j=%d,m=%d,n=%d) refused valid arguments on rank %d's view", c->i, c->j, c->m, c->n, r); return 1; }
            t = g_sub[r];
        }
        v->dc = &t->super;
        if (r == 0) {
            b->mt = t->mt; b->nt = b->vec ? 1 : t->nt; b->lmt = t->lmt; b->goff_m = t->i / t->mb; b->goff_n = b->vec ? 0 : t->j / t->nb;
            b->full = (t->i == 0 && t->j == 0 && t->mt == t->lmt && (b->vec || t->nt == t->lnt));
            if (c->kind == K_BAND || c->kind == K_SYMBAND) b->full = 0;
        }
    }
    return 0;
}
static void teardown(const case_t *c, built_t *b)
{
    for (int r = 0; r < b->nodes; r++) {
        free(g_sub[r]); g_sub[r] = NULL;
        switch (c->kind) {
        case K_2DBC: case K_KVIEW: free(g_bc[r].mat); free_dc(&g_bc[r].super); break;
        case K_SYM: free(g_sym[r].mat); free_dc(&g_sym[r].super); break;
        case K_BAND: free(g_band[r].band.mat); free(g_band[r].off_band.mat); free_dc(&g_band[r].band.super); free_dc(&g_band[r].off_band.super);
                     g_band[r].super.nb_local_tiles = 0; g_band[r].super.data_map = NULL; free_dc(&g_band[r].super); break;
        case K_SYMBAND: free(g_sband[r].band.mat); free(g_sband[r].off_band.mat); free_dc(&g_sband[r].band.super); free_dc(&g_sband[r].off_band.super);
                     g_sband[r].super.nb_local_tiles = 0; g_sband[r].super.data_map = NULL; free_dc(&g_sband[r].super); break;
        case K_TAB:
            if (c->user) for (int k = 0; k < b->v[r].nxal; k++) free(b->v[r].xal[k].base);
            free(g_tab[r].super.super.key_dim); g_tab[r].super.super.key_dim = NULL;
            parsec_matrix_tabular_destroy(&g_tab[r]); break;
        case K_VEC: free(g_vec[r].mat); free_dc(&g_vec[r].super); break;
        }
    }
}

/* ------------------------------------------------------------------ the oracle */
#define FAIL(...) do { snprintf(err, SX_ERRLEN, __VA_ARGS__); return 1; } while (0)
typedef struct { int al; size_t off; int m, n; } slot_t;
static int g_verbose = 0;
/* relaxation used ONLY to keep checking around the one defect listed in known_findings.json (see do_case) */
#define RX_NO_DATA   2      /* do not call data_of / compare nb_local_tiles (vector ROW/COL: the local count is wrong, data_map too small) */
static int g_relax = 0;

/* returns 0 = holds, 1 = violation (err filled). sig receives the observable outcome (owners, storage offsets, vpids). */
static int check_views(const case_t *c, built_t *b, char *sig, size_t sigcap, int *nontrivial, char *err)
{
    static int owner[MAXT]; static parsec_data_key_t keys[MAXT]; static slot_t slots[MAXT];
    int mt = b->mt, nt = b->nt, nodes = b->nodes; size_t so = 0; sig[0] = 0;
    if ((long)mt * nt > MAXT) FAIL("harness limit: %d x %d tiles", mt, nt);
    int owners_seen = 0, maxown = 0; int cnt[MAXR] = { 0 };
    /* ---- ownership and keys, on every rank's view ---- */
    for (int n = 0; n < nt; n++) for (int m = 0; m < mt; m++) {
        int t = n * mt + m, gm = m + b->goff_m, gn = n + b->goff_n; owner[t] = -1;
        if ((b->tri == 1 && gm < gn) || (b->tri == 2 && gn < gm)) continue;       /* not stored */
        for (int r = 0; r < nodes; r++) {
            parsec_data_collection_t *dc = b->v[r].dc;
            uint32_t o = dc->rank_of(dc, m, n); n_calls++;
            if (o >= (uint32_t)nodes) FAIL("rank_of(%d,%d) on rank %d's view = %u, not a valid rank (nodes=%d)", m, n, r, o, nodes);
            if (r == 0) owner[t] = (int)o;
            else if ((int)o != owner[t]) FAIL("tile (%d,%d): rank 0's view says owner %d, rank %d's view says owner %u", m, n, owner[t], r, o);
            parsec_data_key_t k = dc->data_key(dc, m, n); n_calls++;
            if (r == 0) keys[t] = k;
            else if (k != keys[t]) FAIL("data_key(%d,%d) differs between rank 0's view (%llu) and rank %d's view (%llu)", m, n, (unsigned long long)keys[t], r, (unsigned long long)k);
            if (dc->rank_of_key) { uint32_t ok = dc->rank_of_key(dc, k); n_calls++;
                if (ok != o) FAIL("rank_of_key(data_key(%d,%d)=%llu) = %u but rank_of(%d,%d) = %u on rank %d's view", m, n, (unsigned long long)k, ok, m, n, o, r); }
        }
        if (!b->vec) { int km = -1, kn = -1; parsec_matrix_block_cyclic_key2coords(b->v[0].dc, keys[t], &km, &kn); n_calls++;
            if (km != m || kn != n) FAIL("data_key(%d,%d)=%llu maps back to (%d,%d)", m, n, (unsigned long long)keys[t], km, kn); }
        else if (keys[t] != (parsec_data_key_t)gm) FAIL("vector data_key(%d)=%llu is not the global segment index %d", m, (unsigned long long)keys[t], gm);
        for (int u = 0; u < t; u++) if (owner[u] >= 0 && keys[u] == keys[t]) FAIL("data_key(%d,%d) == data_key(%d,%d) == %llu", m, n, u % mt, u / mt, (unsigned long long)keys[t]);
        if (!cnt[owner[t]]++) owners_seen++;
        if (cnt[owner[t]] > maxown) maxown = cnt[owner[t]];
        so += (size_t)snprintf(sig + so, sigcap - so, "%x", owner[t]); if (so + 64 > sigcap) so = sigcap - 64;
    }
    *nontrivial = (owners_seen >= 2 && maxown >= 2);
    /* ---- storage, vpid, *_of_key on the owner's view ---- */
    for (int r = 0; r < nodes; r++) {
        view_t *v = &b->v[r]; parsec_data_collection_t *dc = v->dc; int ns = 0;
        so += (size_t)snprintf(sig + so, sigcap - so, "|"); if (so + 64 > sigcap) so = sigcap - 64;
        for (int n = 0; n < nt; n++) for (int m = 0; m < mt; m++) {
            int t = n * mt + m; if (owner[t] != r) continue;
            if (g_relax & RX_NO_DATA) {
                int32_t vp = dc->vpid_of(dc, m, n); n_calls++;
                if (vp < 0 || vp >= c->nbvp) FAIL("vpid_of(%d,%d) on owner %d = %d, not in [0,%d)", m, n, r, vp, c->nbvp);
                continue;
            }
            parsec_data_t *d = dc->data_of(dc, m, n); n_calls++;
            if (!d) FAIL("data_of(%d,%d) on owner %d returned NULL", m, n, r);
            parsec_data_copy_t *cp = d->device_copies[0];
            if (!cp) FAIL("data_of(%d,%d) on owner %d has no host copy", m, n, r);
            char *p = (char *)cp->device_private; int ai = -1; size_t off = 0;
            for (int a = 0; a < v->nal && ai < 0; a++) if (p >= v->al[a].base && p + b->tilebytes <= v->al[a].base + v->al[a].len) { ai = a; off = (size_t)(p - v->al[a].base); }
            for (int a = 0; a < v->nxal && ai < 0; a++) if (p == v->xal[a].base) { ai = 8 + a; off = 0; }
            if (ai < 0) FAIL("data_of(%d,%d) on owner %d points outside the local allocation (offset %ld of a %zu-byte allocation, tile is %zu bytes)",
                             m, n, r, v->nal ? (long)(p - v->al[0].base) : -1L, v->nal ? v->al[0].len : (size_t)0, b->tilebytes);
            if (d->span != b->tilebytes) FAIL("data_of(%d,%d) on owner %d has span %zu, tile is %zu bytes", m, n, r, (size_t)d->span, b->tilebytes);
            if (d->dc == NULL) FAIL("data_of(%d,%d) on owner %d has no data collection", m, n, r);
            int k = ns++;                                      /* insertion sort by (allocation, offset) */
            while (k > 0 && (slots[k - 1].al > ai || (slots[k - 1].al == ai && slots[k - 1].off > off))) { slots[k] = slots[k - 1]; k--; }
            slots[k].al = ai; slots[k].off = off; slots[k].m = m; slots[k].n = n;
            if (b->check_dkey && d->key != keys[t]) { int km = -1, kn = -1; parsec_matrix_block_cyclic_key2coords(b->v[0].dc, d->key, &km, &kn);
                FAIL("data_of(%d,%d) on owner %d carries key %llu, which maps back to (%d,%d); data_key(%d,%d) is %llu", m, n, r, (unsigned long long)d->key, km, kn, m, n, (unsigned long long)keys[t]); }
            if (dc->data_of_key) { parsec_data_t *d2 = dc->data_of_key(dc, keys[t]); n_calls++;
                if (d2 != d) FAIL("data_of_key(data_key(%d,%d)) and data_of(%d,%d) return different data on owner %d", m, n, m, n, r); }
            int32_t vp = dc->vpid_of(dc, m, n); n_calls++;
            if (vp < 0 || vp >= c->nbvp) FAIL("vpid_of(%d,%d) on owner %d = %d, not in [0,%d)", m, n, r, vp, c->nbvp);
            if (dc->vpid_of_key) { int32_t vp2 = dc->vpid_of_key(dc, keys[t]); n_calls++;
                if (vp2 != vp) FAIL("vpid_of_key(data_key(%d,%d)) = %d but vpid_of(%d,%d) = %d on owner %d", m, n, vp2, m, n, vp, r); }
            so += (size_t)snprintf(sig + so, sigcap - so, "%d:%zu/%d,", ai, off / (b->tilebytes ? b->tilebytes : 1), vp); if (so + 64 > sigcap) so = sigcap - 64;
            if (g_verbose) printf("    rank %d owns (%d,%d): key %llu, allocation %d offset %zu, vpid %d\n", r, m, n, (unsigned long long)keys[t], ai, off, vp);
        }
        for (int k = 1; k < ns; k++)
            if (slots[k].al == slots[k - 1].al && slots[k - 1].off + b->tilebytes > slots[k].off)
                FAIL("on owner %d tiles (%d,%d) and (%d,%d) overlap in local storage (byte offsets %zu and %zu, tile is %zu bytes)",
                     r, slots[k - 1].m, slots[k - 1].n, slots[k].m, slots[k].n, slots[k - 1].off, slots[k].off, b->tilebytes);
        if (g_relax & RX_NO_DATA) continue;
        if (b->full && v->nb_local >= 0 && v->nb_local != ns)
            FAIL("rank %d owns %d tiles of the matrix but its descriptor says nb_local_tiles = %d", r, ns, v->nb_local);
        if (!b->full && v->nb_local >= 0 && ns > v->nb_local)
            FAIL("rank %d owns %d tiles of the submatrix but its descriptor says nb_local_tiles = %d", r, ns, v->nb_local);
    }
    return 0;
}

/* one point of the box; 0 ok, 1 violation (err), 3 crash; sig = outcome */
static int run_case(const case_t *c, int relax, char *sig, size_t sigcap, int *nontrivial, char *err)
{
    static built_t b; int rc;
    g_nbvp_override = c->nbvp; g_relax = relax; g_case_serial++;
    g_guard = 1;
    if ((rc = sigsetjmp(g_jmp, 0)) != 0) {                 /* mask not saved (one syscall per case less): unblock by hand on the rare path */
        sigset_t all; sigemptyset(&all); sigaddset(&all, SIGVTALRM); sigaddset(&all, SIGSEGV); sigaddset(&all, SIGBUS); sigaddset(&all, SIGFPE); sigaddset(&all, SIGABRT); sigaddset(&all, SIGILL);
        sigprocmask(SIG_UNBLOCK, &all, NULL);
        g_guard = 0; g_nbvp_override = 0; g_relax = 0; snprintf(err, SX_ERRLEN, "%s", g_crash); return rc == 2 ? 3 : rc == 4 ? 4 : 1;
    }
    rc = build(c, &b, err);
    if (!rc) rc = check_views(c, &b, sig, sigcap, nontrivial, err);
    if (!rc) teardown(c, &b);          /* after a violation the objects are left alone */
    g_guard = 0; g_nbvp_override = 0; g_relax = 0;
    return rc;
}

/* ---- the one defect recorded in known_findings.json (its id must be passed with --known, else its cases are ordinary VIOLATIONs) ----
 * C20-vector-rowcol-local-count: parsec_vector_two_dim_cyclic_init counts ROW/COL local segments on the ranks with rrank==0 / crank==0
 * (period Q / P) while vector_twoDBC_rank_of places them on rr=m%P,cr=0 / rr=0,cr=m%Q, so nb_local_tiles, data_map and the allocation
 * size are wrong when P*Q>1. A case is attributed only if (a) the id is listed, (b) it is a ROW/COL vector on P*Q>1 ranks, (c) the count
 * derived from rank_of really differs from some rank's nb_local_tiles, and (d) every clause that does not depend on the local count
 * (owner validity and agreement on all views, keys, vpid range) still holds for that case. */
#define KF_ID   "C20-vector-rowcol-local-count"
#define KF_TEXT "parsec_vector_two_dim_cyclic_init counts ROW/COL local segments on the ranks with rrank==0 / crank==0 (period Q / P) while vector_twoDBC_rank_of places them on rr=m%P,cr=0 / rr=0,cr=m%Q: nb_local_tiles (and data_map) are wrong when P*Q>1"
static int g_known_rowcol = 0; static long g_known_hits = 0;

/* ------------------------------------------------------------------ enumeration */
typedef struct { long cases, nontrivial, violations, cut; } wstats_t;
static int W = 1, w_id = 0; static long g_idx; static wstats_t ws; static sx_set_t g_out; static char g_scen[64];
static char g_samples[3][700]; static int g_nsamples; static int g_stop;

static void do_case(const case_t *c)
{
    if (g_stop) return;
    if ((g_idx++ % W) != w_id) return;
    if (sx_deadline > 0 && (ws.cases & 1023) == 0 && sx_now() > sx_deadline) { ws.cut = 1; g_stop = 1; return; }
    static char sig[8192], err[SX_ERRLEN], cs[600]; int nt = 0;
    int relax = 0;
    /* vector ROW/COL on more than one rank with the finding listed: data_of would index a too small data_map, so look first */
    if (g_known_rowcol && c->kind == K_VEC && c->dist != 2 && c->P * c->Q > 1 && !run_case(c, RX_NO_DATA, sig, sizeof(sig), &nt, err)) {
        static built_t pb; g_nbvp_override = c->nbvp; int bad = 0;
        if (!build(c, &pb, err)) {
            int cnt[MAXR] = { 0 };
            for (int m = 0; m < pb.mt; m++) cnt[pb.v[0].dc->rank_of(pb.v[0].dc, m, 0)]++;
            for (int r = 0; r < pb.nodes; r++) if (pb.full ? cnt[r] != pb.v[r].nb_local : cnt[r] > pb.v[r].nb_local) bad = 1;
            teardown(c, &pb);
        }
        g_nbvp_override = 0;
        if (bad) { relax = RX_NO_DATA; g_known_hits++; sx_known_finding("id=%s %s", KF_ID, KF_TEXT); }
    }
    int rc = run_case(c, relax, sig, sizeof(sig), &nt, err);
    ws.cases++;
    if (rc) {
        case_str(c, cs, sizeof(cs)); char sc[96]; snprintf(sc, sizeof(sc), "%s.w%d", g_scen, w_id);
        sx_violation(sc, cs, err); ws.violations++;
        if (rc == 3 || ws.violations >= 3) g_stop = 1;      /* after a crash the heap cannot be trusted */
        if (rc == 4 && ws.violations >= 2) g_stop = 1;
        return;
    }
    ws.nontrivial += nt;
    if (sx_set_add(&g_out, sx_hash(sig, strlen(sig))) && w_id == 0 && g_nsamples < 3 && nt && (g_out.n == 7 || g_out.n == 70 || g_out.n == 300)) {
        case_str(c, cs, sizeof(cs)); snprintf(g_samples[g_nsamples++], sizeof(g_samples[0]), "%s -> %.*s", cs, 200, sig);
    }
}

/* (offset, size) choices of one dimension.
 * mode 1 (the stated box): offset in {0,1,tile}, size in {rest, 1}   (<= 6 choices)
 * mode 0 (quick)         : (0,rest), (tile,rest), (1,1)              (<= 3 choices) */
static int dim_subs(int tile, int len, int mode, int sub[][2])
{
    int k = 0, offs[3] = { 0, 1, tile };
    if (!mode) {
        sub[k][0] = 0; sub[k][1] = len; k++;
        if (tile < len) { sub[k][0] = tile; sub[k][1] = len - tile; k++; }
        if (len > 1) { sub[k][0] = 1; sub[k][1] = 1; k++; }
        return k;
    }
    for (int a = 0; a < 3; a++) {
        int o = offs[a]; if (o >= len) continue;
        int dup = 0; for (int q = 0; q < a; q++) if (offs[q] == o) dup = 1;
        if (dup) continue;
        sub[k][0] = o; sub[k][1] = len - o; k++;
        if (len - o > 1) { sub[k][0] = o; sub[k][1] = 1; k++; }
    }
    return k;
}
typedef struct { int maxlen, maxnodes, maxtile, maxk, submode, vp_all_subs; } bound_t;

static void enum_2dbc(int kind, bound_t B, const int *nbvps, int nnbvp)
{
    case_t c; memset(&c, 0, sizeof(c)); c.kind = kind;
    for (c.mb = 1; c.mb <= B.maxtile; c.mb++) for (c.nb = 1; c.nb <= B.maxtile; c.nb++)
    for (c.lm = 1; c.lm <= B.maxlen; c.lm++) for (c.ln = 1; c.ln <= B.maxlen; c.ln++) {
        int rs[6][2], cs[6][2], nr = dim_subs(c.mb, c.lm, B.submode, rs), nc = dim_subs(c.nb, c.ln, B.submode, cs);
        c.mty = (c.lm + c.ln) % 3;
        for (int nodes = 1; nodes <= B.maxnodes; nodes++) for (c.P = 1; c.P <= nodes; c.P++) { if (nodes % c.P) continue; c.Q = nodes / c.P;
        for (c.kp = 1; c.kp <= B.maxk; c.kp++) for (c.kq = 1; c.kq <= B.maxk; c.kq++)
        for (c.ip = 0; c.ip < 2 && c.ip < c.P; c.ip++) for (c.jq = 0; c.jq < 2 && c.jq < c.Q; c.jq++)
        for (int a = 0; a < nr; a++) for (int d = 0; d < nc; d++) {
            c.i = rs[a][0]; c.m = rs[a][1]; c.j = cs[d][0]; c.n = cs[d][1];
            for (int v = 0; v < nnbvp; v++) { c.nbvp = nbvps[v];
                if (c.nbvp > 1 && !B.vp_all_subs && (a || d)) continue;           /* nb_vp > 1: the full matrix only */
                c.sub = 0; do_case(&c);
                if ((c.i || c.j) && c.i % c.mb == 0 && c.j % c.nb == 0) { c.sub = 1; do_case(&c); }
            }
            if (g_stop) return;
        } }
    }
}
static void enum_sym(bound_t B, const int *nbvps, int nnbvp)
{
    case_t c; memset(&c, 0, sizeof(c)); c.kind = K_SYM; c.kp = c.kq = 1;
    for (c.mb = 1; c.mb <= B.maxtile; c.mb++) for (c.lm = 1; c.lm <= B.maxlen; c.lm++) {
        c.nb = c.mb; c.ln = c.lm; c.mty = c.lm % 3;
        int rs[6][2], nr = dim_subs(c.mb, c.lm, 1, rs);
        for (int nodes = 1; nodes <= B.maxnodes; nodes++) for (c.P = 1; c.P <= nodes; c.P++) { if (nodes % c.P) continue; c.Q = nodes / c.P;
        for (c.uplo = 0; c.uplo < 2; c.uplo++) for (int a = 0; a < nr; a++) for (int v = 0; v < nnbvp; v++) {
            c.i = c.j = rs[a][0]; c.m = c.n = rs[a][1]; c.nbvp = nbvps[v];
            c.sub = 0; do_case(&c);
            if (c.i && c.i % c.mb == 0) { c.sub = 1; do_case(&c); }
            if (g_stop) return;
        } }
    }
}
static void enum_band(int kind, bound_t B, const int *nbvps, int nnbvp)
{
    case_t c; memset(&c, 0, sizeof(c)); c.kind = kind;
    for (c.mb = 1; c.mb <= B.maxtile; c.mb++) for (c.nb = 1; c.nb <= B.maxtile; c.nb++)
    for (c.lm = 1; c.lm <= B.maxlen; c.lm++) for (c.ln = 1; c.ln <= B.maxlen; c.ln++) {
        if (kind == K_SYMBAND && (c.nb != c.mb || c.ln != c.lm)) continue;
        c.m = c.lm; c.n = c.ln; c.mty = (c.lm + c.ln) % 3;
        for (int nodes = 1; nodes <= B.maxnodes; nodes++) for (c.P = 1; c.P <= nodes; c.P++) { if (nodes % c.P) continue; c.Q = nodes / c.P;
        for (c.kp = 1; c.kp <= (kind == K_BAND ? B.maxk : 1); c.kp++) for (c.kq = 1; c.kq <= (kind == K_BAND ? B.maxk : 1); c.kq++)
        for (c.uplo = 0; c.uplo < (kind == K_SYMBAND ? 2 : 1); c.uplo++)
        for (c.bP = 1; c.bP <= nodes; c.bP++) { if (nodes % c.bP) continue;
        for (c.bkp = 1; c.bkp <= B.maxk; c.bkp++) for (c.bkq = 1; c.bkq <= B.maxk; c.bkq++)
        for (c.bs = 1; c.bs <= 3; c.bs++) for (int v = 0; v < nnbvp; v++) { c.nbvp = nbvps[v]; do_case(&c); if (g_stop) return; } } }
    }
}
/* every table over <= maxtiles tiles and <= maxnodes ranks; full=1: every tile-size variant, vpid table and submatrix combined */
static void enum_tab(int maxtiles, int maxnodes, int full)
{
    case_t c; memset(&c, 0, sizeof(c)); c.kind = K_TAB; c.P = c.Q = c.kp = c.kq = 1;
    for (int lmt = 1; lmt <= maxtiles; lmt++) for (int lnt = 1; lmt * lnt <= maxtiles; lnt++)
    for (c.mb = 1; c.mb <= 2; c.mb++) for (c.nb = 1; c.nb <= 2; c.nb++)
    for (int pm = 0; pm < c.mb; pm++) for (int pn = 0; pn < c.nb; pn++) {                 /* partial last tile row / column */
        if (!full && (c.mb != c.nb || pm != pn)) continue;
        c.lm = lmt * c.mb - pm; c.ln = lnt * c.nb - pn; c.mty = (lmt + lnt) % 3;
        int nt = lmt * lnt;
        for (c.nodes = 1; c.nodes <= maxnodes; c.nodes++) { int ntab = 1; for (int k = 0; k < nt; k++) ntab *= c.nodes;
        for (c.table = 0; c.table < ntab; c.table++)
        for (c.nbvp = 1; c.nbvp <= 2; c.nbvp++) { int nvt = 1; for (int k = 0; k < nt; k++) nvt *= c.nbvp;
        for (c.vptab = 0; c.vptab < nvt; c.vptab++) for (c.user = 0; c.user < 2; c.user++)
        for (int a = 0; a < lmt; a++) for (int e = a + 1; e <= lmt; e++) for (int d = 0; d < lnt; d++) for (int f = d + 1; f <= lnt; f++) {   /* all tile-aligned submatrices */
            if (!full && c.nbvp > 1 && !(a == 0 && e == lmt && d == 0 && f == lnt)) continue;   /* quick: vpid tables on the full matrix only */
            c.i = a * c.mb; c.m = (e * c.mb > c.lm ? c.lm : e * c.mb) - c.i; c.j = d * c.nb; c.n = (f * c.nb > c.ln ? c.ln : f * c.nb) - c.j;
            c.sub = 0; do_case(&c);
            if (c.i || c.j) { c.sub = 1; do_case(&c); }
            if (g_stop) return;
        } } }
    }
}
static void enum_vec(bound_t B, const int *nbvps, int nnbvp)
{
    case_t c; memset(&c, 0, sizeof(c)); c.kind = K_VEC; c.nb = 1; c.ln = 1; c.n = 1; c.kp = c.kq = 1;
    for (c.dist = 0; c.dist < 3; c.dist++) for (c.mb = 1; c.mb <= B.maxtile; c.mb++) for (c.lm = 1; c.lm <= B.maxlen; c.lm++) {
        int rs[6][2], nr = dim_subs(c.mb, c.lm, 1, rs); c.mty = c.lm % 3;
        for (int nodes = 1; nodes <= B.maxnodes; nodes++) for (c.P = 1; c.P <= nodes; c.P++) { if (nodes % c.P) continue; c.Q = nodes / c.P;
        for (int a = 0; a < nr; a++) for (int v = 0; v < nnbvp; v++) { c.i = rs[a][0]; c.m = rs[a][1]; c.nbvp = nbvps[v]; do_case(&c); if (g_stop) return; } }
    }
}

/* ------------------------------------------------------------------ scenario driver (fork W workers, merge) */
typedef void (*enum_fn)(void);
static bound_t gB; static const int *g_nbvps; static int g_nnbvp; static int g_tabtiles, g_tabnodes, g_tabfull;
static void e_2dbc(void) { enum_2dbc(K_2DBC, gB, g_nbvps, g_nnbvp); }
static void e_kview(void) { enum_2dbc(K_KVIEW, gB, g_nbvps, g_nnbvp); }
static void e_sym(void) { enum_sym(gB, g_nbvps, g_nnbvp); }
static void e_band(void) { enum_band(K_BAND, gB, g_nbvps, g_nnbvp); }
static void e_sband(void) { enum_band(K_SYMBAND, gB, g_nbvps, g_nnbvp); }
static void e_tab(void) { enum_tab(g_tabtiles, g_tabnodes, g_tabfull); }
static void e_vec(void) { enum_vec(gB, g_nbvps, g_nnbvp); }

static void install_handlers(void)
{
    struct sigaction sa; memset(&sa, 0, sizeof(sa)); sa.sa_handler = on_signal; sa.sa_flags = SA_NODEFER;
    int sigs[] = { SIGSEGV, SIGBUS, SIGFPE, SIGABRT, SIGILL };
    for (unsigned k = 0; k < sizeof(sigs) / sizeof(sigs[0]); k++) sigaction(sigs[k], &sa, NULL);
    sa.sa_handler = on_tick; sa.sa_flags = SA_RESTART; sigaction(SIGVTALRM, &sa, NULL);
    struct itimerval it = { { 0, 100000 }, { 0, 100000 } }; setitimer(ITIMER_VIRTUAL, &it, NULL);
}
static parsec_context_t *g_ctx;
static void rt_up(void) { int ac = 1; char *av[] = { "c20", NULL }, **pav = av; g_ctx = parsec_init(1, &ac, &pav); if (!g_ctx) { fprintf(stderr, "parsec_init failed\n"); _exit(2); } }

static int full_write(int fd, const void *p, size_t n) { const char *s = p; while (n) { ssize_t k = write(fd, s, n); if (k <= 0) { if (errno == EINTR) continue; return -1; } s += k; n -= (size_t)k; } return 0; }
static int full_read(int fd, void *p, size_t n) { char *s = p; while (n) { ssize_t k = read(fd, s, n); if (k <= 0) { if (k < 0 && errno == EINTR) continue; return -1; } s += k; n -= (size_t)k; } return 0; }

#define NHDR 12
static void scenario(const char *name, enum_fn fn, int workers, const char *bounds_json)
{
    double t0 = sx_now(); snprintf(g_scen, sizeof(g_scen), "%s", name);
    int fds[64][2]; pid_t pids[64]; if (workers > 64) workers = 64;
    if (sx_deadline > 0 && sx_now() > sx_deadline) {           /* not started: reported as not exhaustive, nothing claimed */
        char extra[400]; snprintf(extra, sizeof(extra), "\"skipped\":\"deadline reached before this leg started\",%s", bounds_json);
        sx_report(name, 0, 0, 0, 0, 0, 0, 0, 0.0, extra, NULL, 0); return;
    }
    fflush(stdout); fflush(stderr); if (sx_json) fflush(sx_json);
    for (int w = 0; w < workers; w++) {
        if (pipe(fds[w])) { perror("pipe"); exit(2); }
        pids[w] = fork();
        if (pids[w] == 0) {
            for (int q = 0; q <= w; q++) close(fds[q][0]);
            sx_json = NULL;                                   /* only the parent writes the result file */
            W = workers; w_id = w; g_idx = 0; memset(&ws, 0, sizeof(ws)); memset(&g_out, 0, sizeof(g_out)); g_nsamples = 0; g_stop = 0; n_views = n_calls = 0;
            install_handlers();                              /* the runtime was brought up once by the parent (single-threaded: safe to fork) */
            fn();
            long hdr[NHDR] = { ws.cases, ws.nontrivial, ws.violations, ws.cut || (g_stop && !ws.violations), n_views, n_calls, (long)g_out.n, g_nsamples, g_known_hits, 0, 0, 0 };
            full_write(fds[w][1], hdr, sizeof(hdr));
            { sx_h128_t *hb = malloc((g_out.n + 1) * sizeof(sx_h128_t)); size_t nh = 0;
              for (size_t k = 0; k < g_out.cap; k++) if (g_out.v[k].a || g_out.v[k].b) hb[nh++] = g_out.v[k];
              full_write(fds[w][1], hb, nh * sizeof(sx_h128_t)); }
            full_write(fds[w][1], g_samples, sizeof(g_samples));
            fflush(stdout);
            _exit(0);                                        /* no parsec_fini: the process image is discarded */
        }
        close(fds[w][1]);
    }
    long cases = 0, nontriv = 0, viol = 0, cut = 0, views = 0, calls = 0, kh = 0; int broken = 0; sx_set_t all = { 0 };
    static char samples[3][700]; int ns = 0;
    for (int w = 0; w < workers; w++) {
        long hdr[NHDR];
        if (full_read(fds[w][0], hdr, sizeof(hdr))) { broken++; fprintf(stderr, "c20: worker %d of scenario %s died without a result\n", w, name); }
        else {
            cases += hdr[0]; nontriv += hdr[1]; viol += hdr[2]; cut |= hdr[3]; views += hdr[4]; calls += hdr[5];
            kh += hdr[8];
            { sx_h128_t *hb = malloc((size_t)(hdr[6] + 1) * sizeof(sx_h128_t));
              if (full_read(fds[w][0], hb, (size_t)hdr[6] * sizeof(sx_h128_t))) broken++; else for (long k = 0; k < hdr[6]; k++) sx_set_add(&all, hb[k]);
              free(hb); }
            static char sm[3][700]; if (!full_read(fds[w][0], sm, sizeof(sm)) && w == 0) { ns = (int)hdr[7]; memcpy(samples, sm, sizeof(sm)); }
        }
        close(fds[w][0]);
        int st; waitpid(pids[w], &st, 0);
        if (!WIFEXITED(st) || WEXITSTATUS(st) != 0) { broken++; fprintf(stderr, "c20: worker %d of scenario %s ended abnormally (status 0x%x)\n", w, name, st); }
    }
    sx_total_violations += (int)viol; sx_total_broken += broken;
    const char *sp[3] = { samples[0], samples[1], samples[2] }; char extra[900];
    snprintf(extra, sizeof(extra), "\"descriptor_views_built\":%ld,\"accessor_calls_checked\":%ld,\"workers\":%d,\"broken\":%d,"
             "\"cases_attributed_to_known_finding_%s\":%ld,%s", views, calls, workers, broken, KF_ID, kh, bounds_json);
    sx_report(name, cases, calls, views, nontriv, (long)all.n, !cut && !viol && !broken, (int)viol, sx_now() - t0, extra, sp, ns);
    free(all.v);
}

static int replay_one(const char *path)
{
    char sc[128], h[4096]; case_t c;
    if (sx_read_replay(path, sc, sizeof(sc), h, sizeof(h)) || case_parse(h, &c)) { fprintf(stderr, "cannot parse replay file %s\n", path); return 2; }
    rt_up(); install_handlers();
    static char cs[600], sig[8192], err[SX_ERRLEN]; int nt; case_str(&c, cs, sizeof(cs));
    printf("replay: %s\n", cs);
    g_verbose = 1;
    int rc = run_case(&c, 0, sig, sizeof(sig), &nt, err);
    if (rc) { printf("  -> %s\nVIOLATION property=C20 replay=%s\n", err, path); return 1; }
    printf("  outcome %s\nreplay: case passes\n", sig);
    return 0;
}

int main(int argc, char **argv)
{
    sx_init(argc, argv, "C20");
    int workers = 6; const char *only = NULL;
    for (int a = 1; a < argc; a++) {
        if (!strcmp(argv[a], "--workers") && a + 1 < argc) workers = atoi(argv[++a]);
        else if (!strcmp(argv[a], "--only") && a + 1 < argc) only = argv[++a];
        else if (!strcmp(argv[a], "--known") && a + 1 < argc) { if (strstr(argv[++a], KF_ID)) g_known_rowcol = 1; }
    }
    if (sx_replay_file) return replay_one(sx_replay_file);
    { double t_init = sx_now(); rt_up();                      /* ONE parsec_init(1,...) per check process; the workers are forked from it */
      if (sx_deadline > 0) sx_deadline += sx_now() - t_init; }
    static const int vp1[] = { 1 }, vp2[] = { 1, 6 }, vpq[] = { 1, 4, 6 }, vps[] = { 1, 2, 3, 4, 6 };
    int T = sx_tier_thorough;
#define RUN(nm, fn, bj) do { if (!only || !strcmp(only, nm)) scenario(nm, fn, workers, "\"bounds\":\"" bj "\""); } while (0)
    if (!T) {
        g_nbvps = vps; g_nnbvp = 5;
        gB = (bound_t){ 12, 6, 3, 1, 1, 1 };
        RUN("vector", e_vec, "row/col/diag, mb 1..3, lm 1..12, P*Q<=6, offsets {0,1,mb} x sizes {rest,1}, nb_vp {1,2,3,4,6}");
        gB = (bound_t){ 7, 6, 3, 1, 1, 1 };
        RUN("sym", e_sym, "upper/lower, mb=nb 1..3, lm=ln 1..7, P*Q<=6, diagonal sub-blocks (offset {0,1,mb} x size {rest,1}), nb_vp {1,2,3,4,6}");
        g_tabtiles = 4; g_tabnodes = 3; g_tabfull = 0;
        RUN("tabular_le4tiles_le3ranks", e_tab, "all tables over <=4 tiles x <=3 ranks, square tiles mb=nb in 1..2 (full / partial last tile), all tile-aligned submatrices, runtime-allocated and user tables, nb_vp 2 with all vpid tables on the full matrix");
        g_nbvps = vp1; g_nnbvp = 1;
        gB = (bound_t){ 4, 6, 2, 2, 0, 0 };
        RUN("band", e_band, "mb,nb 1..2, lm,ln 1..4, P*Q<=6, kp,kq 1..2, every band grid, band k 1..2, band_size 1..3");
        gB = (bound_t){ 7, 6, 2, 2, 0, 0 };
        RUN("symband", e_sband, "upper/lower, mb=nb 1..2, lm=ln 1..7, P*Q<=6, every band grid, band k 1..2, band_size 1..3");
        g_nbvps = vpq; g_nnbvp = 3;
        gB = (bound_t){ 5, 6, 2, 3, 0, 0 };
        RUN("2dbc_lm5_pq6", e_2dbc, "mb,nb 1..2, lm,ln 1..5, submatrix {(0,rest),(tile,rest),(1,1)}^2 by constructor and by parsec_tiled_matrix_submatrix, P*Q<=6, kp,kq 1..3, ip,jq 0..1, nb_vp {1,4,6} (>1: full matrix)");
        RUN("kview_lm5_pq6", e_kview, "mb,nb 1..2, lm,ln 1..5, submatrix {(0,rest),(tile,rest),(1,1)}^2 by constructor and by parsec_tiled_matrix_submatrix, P*Q<=6, view kp,kq 1..3, ip,jq 0..1, nb_vp {1,4,6} (>1: full matrix)");
    } else {
        g_nbvps = vps; g_nnbvp = 5;
        gB = (bound_t){ 20, 16, 3, 1, 1, 1 };
        RUN("vector", e_vec, "row/col/diag, mb 1..3, lm 1..20, P*Q<=16, offsets {0,1,mb} x sizes {rest,1}, nb_vp {1,2,3,4,6}");
        gB = (bound_t){ 10, 16, 3, 1, 1, 1 };
        RUN("sym", e_sym, "upper/lower, mb=nb 1..3, lm=ln 1..10, P*Q<=16, diagonal sub-blocks (offset {0,1,mb} x size {rest,1}), nb_vp {1,2,3,4,6}");
        g_tabtiles = 4; g_tabnodes = 3; g_tabfull = 1;
        RUN("tabular_le4tiles_le3ranks", e_tab, "all tables over <=4 tiles x <=3 ranks, mb,nb in 1..2 with full / partial last tiles, all tile-aligned submatrices, nb_vp in 1..2 with all vpid tables, runtime-allocated and user tables");
        g_nbvps = vp2; g_nnbvp = 2;
        gB = (bound_t){ 7, 8, 2, 2, 0, 0 };
        RUN("band", e_band, "mb,nb 1..2, lm,ln 1..7, P*Q<=8, kp,kq 1..2, every band grid, band k 1..2, band_size 1..3, nb_vp {1,6}");
        g_nbvps = vps; g_nnbvp = 5;
        gB = (bound_t){ 10, 12, 2, 2, 0, 0 };
        RUN("symband", e_sband, "upper/lower, mb=nb 1..2, lm=ln 1..10, P*Q<=12, every band grid, band k 1..2, band_size 1..3, nb_vp {1,2,3,4,6}");
        gB = (bound_t){ 7, 6, 3, 3, 1, 0 };
        RUN("2dbc_lm7_pq6", e_2dbc, "mb,nb 1..3, lm,ln 1..7, submatrix (offset {0,1,tile} x size {rest,1})^2 by constructor and by parsec_tiled_matrix_submatrix, P*Q<=6, kp,kq 1..3, ip,jq 0..1, nb_vp {1,2,3,4,6} (>1: full matrix)");
        RUN("kview_lm7_pq6", e_kview, "mb,nb 1..3, lm,ln 1..7, submatrix (offset {0,1,tile} x size {rest,1})^2 by constructor and by parsec_tiled_matrix_submatrix, P*Q<=6, view kp,kq 1..3, ip,jq 0..1, nb_vp {1,2,3,4,6} (>1: full matrix)");
        g_nbvps = vp1; g_nnbvp = 1;
        gB = (bound_t){ 10, 16, 3, 3, 0, 0 };
        RUN("2dbc_lm10_pq16", e_2dbc, "mb,nb 1..3, lm,ln 1..10, submatrix {(0,rest),(tile,rest),(1,1)}^2, P*Q<=16, kp,kq 1..3, ip,jq 0..1, nb_vp 1");
        RUN("kview_lm10_pq16", e_kview, "mb,nb 1..3, lm,ln 1..10, submatrix {(0,rest),(tile,rest),(1,1)}^2, P*Q<=16, view kp,kq 1..3, ip,jq 0..1, nb_vp 1");
    }
    return sx_finish();
}
