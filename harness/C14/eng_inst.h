/* eng_inst.h: ONE INSTANCE of the real /repo/parsec/parsec_mpi_funnelled.c (current working tree, mutants included) per
 * including translation unit.  eng_r0.c and eng_r1.c define VM_RANK (0 / 1) and include this file: every external symbol of
 * the engine file and the global `parsec_ce` it fills are renamed with the suffix _vr<rank>, its file-static state (request
 * arrays, tag table, fifos, tag counter ...) exists once per instance, and every MPI_ call goes to the virtual MPI (vmpi.h).
 * After the engine source the TU defines a few READ-ONLY probes of the instance's static state (used to decide which
 * transitions are enabled and to attribute known findings) and the harness-side teardown helpers.
 */
#ifndef VM_RANK
#error "define VM_RANK"
#endif
#define VM_P2(a, b) a##b
#define VM_P(a, b) VM_P2(a, b)
#define VM_N(x) VM_P(x, VM_P(_vr, VM_RANK))

#define parsec_ce                                    VM_N(parsec_ce)
#define mpi_funnelled_dynamic_recvreq_fifo           VM_N(mpi_funnelled_dynamic_recvreq_fifo)
#define mpi_funnelled_dynamic_sendreq_fifo           VM_N(mpi_funnelled_dynamic_sendreq_fifo)
#define mpi_funnelled_dynamic_req_mempool            VM_N(mpi_funnelled_dynamic_req_mempool)
#define mpi_funnelled_mem_reg_handle_mempool         VM_N(mpi_funnelled_mem_reg_handle_mempool)
#define mpi_funnelled_dynamic_req_t_class            VM_N(mpi_funnelled_dynamic_req_t_class)
#define mpi_funnelled_mem_reg_handle_t_class         VM_N(mpi_funnelled_mem_reg_handle_t_class)
#define parsec_mpi_allow_gpu_memory_communications   VM_N(parsec_mpi_allow_gpu_memory_communications)
#define mpi_funnelled_init                           VM_N(mpi_funnelled_init)
#define mpi_funnelled_fini                           VM_N(mpi_funnelled_fini)
#define mpi_no_thread_can_push_more                  VM_N(mpi_no_thread_can_push_more)
#define mpi_no_thread_disable                        VM_N(mpi_no_thread_disable)
#define mpi_no_thread_enable                         VM_N(mpi_no_thread_enable)
#define mpi_no_thread_get                            VM_N(mpi_no_thread_get)
#define mpi_no_thread_get_mem_reg_handle_size        VM_N(mpi_no_thread_get_mem_reg_handle_size)
#define mpi_no_thread_mem_register                   VM_N(mpi_no_thread_mem_register)
#define mpi_no_thread_mem_retrieve                   VM_N(mpi_no_thread_mem_retrieve)
#define mpi_no_thread_mem_unregister                 VM_N(mpi_no_thread_mem_unregister)
#define mpi_no_thread_pack                           VM_N(mpi_no_thread_pack)
#define mpi_no_thread_pack_size                      VM_N(mpi_no_thread_pack_size)
#define mpi_no_thread_progress                       VM_N(mpi_no_thread_progress)
#define mpi_no_thread_put                            VM_N(mpi_no_thread_put)
#define mpi_no_thread_send_active_message            VM_N(mpi_no_thread_send_active_message)
#define mpi_no_thread_serve_cb                       VM_N(mpi_no_thread_serve_cb)
#define mpi_no_thread_sync                           VM_N(mpi_no_thread_sync)
#define mpi_no_thread_tag_register                   VM_N(mpi_no_thread_tag_register)
#define mpi_no_thread_tag_unregister                 VM_N(mpi_no_thread_tag_unregister)
#define mpi_no_thread_unpack                         VM_N(mpi_no_thread_unpack)
#define parsec_mpi_sendrecv                          VM_N(parsec_mpi_sendrecv)

#define VMPI_REDIRECT
#include "vmpi.h"                                     /* <mpi.h> for the types, then MPI_x -> vmpi_x */
#include "parsec/parsec_mpi_funnelled.c"              /* THE REAL ENGINE */
#include "eng_api.h"

parsec_comm_engine_t parsec_ce;                       /* this instance's engine object (renamed) */

static int eng_list_len(parsec_list_t *l)
{
    int n = 0;
    for (parsec_list_item_t *it = PARSEC_LIST_ITERATOR_FIRST(l); it != PARSEC_LIST_ITERATOR_END(l); it = PARSEC_LIST_ITERATOR_NEXT(it)) n++;
    return n;
}
static void eng_probe(eng_probe_t *p)
{
    memset(p, 0, sizeof(*p));
    p->posted = parsec_param_comm_mpi_am_posted_requests; p->tested = parsec_param_comm_mpi_am_tested_requests;
    p->dyn = parsec_param_comm_mpi_dynamic_requests; p->dynrecv = parsec_param_comm_mpi_dynamic_recv_requests;
    p->last_active = mpi_funnelled_last_active_req; p->static_idx = mpi_funnelled_static_req_idx; p->cur_size = current_size_of_total_reqs;
    p->num_recv = mpi_funnelled_num_recv_req_in_arr; p->next_tag = __VAL_NEXT_TAG;
    if (NULL == array_of_requests || NULL == mpi_funnelled_mem_reg_handle_mempool) return;       /* not enabled */
    p->enabled = 1;
    p->sendfifo = eng_list_len(&mpi_funnelled_dynamic_sendreq_fifo); p->recvfifo = eng_list_len(&mpi_funnelled_dynamic_recvreq_fifo);
    for (int i = 0; i < mpi_funnelled_last_active_req && i < current_size_of_total_reqs; i++) {
        if (vm_req_reportable(array_of_requests[i])) p->reportable++;
        if (i >= mpi_funnelled_static_req_idx && MPI_REQUEST_NULL != array_of_requests[i]) {
            if (array_of_callbacks[i].is_dynamic_recv) { p->dyn_recv_slots++; if (array_of_callbacks[i].type == MPI_FUNNELLED_TYPE_ONESIDED) p->dyn_get_recv_slots++; }
            else p->dyn_send_slots++;
        }
    }
    /* would the feed loop at the end of progress() install a queued request? (mirror of its condition) */
    p->feedable = mpi_funnelled_last_active_req < current_size_of_total_reqs &&
                  (p->sendfifo > 0 || (p->recvfifo > 0 && mpi_funnelled_num_recv_req_in_arr < parsec_param_comm_mpi_dynamic_recv_requests));
}
/* harness-side teardown of a run that may have ended anywhere: empty the two pending queues (the list destructor asserts
 * emptiness), release what the in-flight callbacks own.  Not part of the checked behaviour. */
static void eng_teardown_drain(void)
{
    if (NULL == mpi_funnelled_dynamic_req_mempool) return;
    parsec_list_t *fifos[2] = { &mpi_funnelled_dynamic_sendreq_fifo, &mpi_funnelled_dynamic_recvreq_fifo };
    for (int f = 0; f < 2; f++) {
        mpi_funnelled_dynamic_req_t *item;
        while (NULL != (item = (mpi_funnelled_dynamic_req_t *)parsec_list_nolock_pop_front(fifos[f]))) {
            if (item->cb.type == MPI_FUNNELLED_TYPE_ONESIDED_MIMIC_AM) free(item->cb.cb_type.onesided_mimic_am.msg);
            parsec_thread_mempool_free(mpi_funnelled_dynamic_req_mempool->thread_mempools, item);
        }
    }
    if (array_of_callbacks)
        for (int i = mpi_funnelled_static_req_idx; i < mpi_funnelled_last_active_req && i < current_size_of_total_reqs; i++)
            if (MPI_REQUEST_NULL != array_of_requests[i] && array_of_callbacks[i].type == MPI_FUNNELLED_TYPE_ONESIDED_MIMIC_AM) free(array_of_callbacks[i].cb_type.onesided_mimic_am.msg);
}
/* state that mpi_funnelled_fini() does not reset and that would otherwise leak from one explored run into the next */
static void eng_reset_hidden(void) { __VAL_NEXT_TAG = 0; mpi_funnelled_num_recv_req_in_arr = 0; parsec_atomic_unlock(&parsec_ce_am_build_lock); }

const eng_api_t VM_N(eng_api) = { mpi_funnelled_init, eng_probe, eng_teardown_drain, eng_reset_hidden };
