META = dict(
    engine='seqx',
    technique='explicit-state model checking: BFS over schedule/select/re-schedule histories on the real ap, ip and spq scheduler modules (single stream), reference priority queue, full drain checked in every state',
    level_text='All histories over the alphabet { schedule(ring of 1..3 tasks, every priority word over 3-4 priority values = every ring order, distance 0..2) , select , re-schedule-the-last-selected-task(distance 1..2) } are applied to the real ap / ip / spq module installed by parsec_init through mca_sched (single stream), deduplicated by the concrete queue contents. Quick: ap and ip to depth 6 (full alphabet), spq to depth 4 (full alphabet) and depth 5-6 (rings <= 2); thorough: ap, ip depth 8, spq depth 5 (full) and 6-8 (reduced rings). Every select - and a complete drain of every reached state - is compared with a reference queue: ap, spq highest priority first with ties in scheduling order; spq smallest distance first; ip lowest priority first whatever the distance.',
    level_note='Single execution stream, no concurrency (as the property states). Priority values from three value sets (small, mixed sign, INT_MIN/INT_MAX). ip is checked for all distances (the distance>0 defect found by this check was repaired by commit 016fb05; mutants/C09/05 re-introduces it).',
)
RULE = ("seqx BFS over operation histories on the real scheduler module, states deduplicated by the walk of the real queue(s) "
        "(priority and tie-rank of every element, existing distance sub-lists) plus the held task; every transition re-plays its "
        "history on a freshly installed scheduler, checks the select oracle and then drains the state completely under the same oracle; "
        "a state is non-trivial when its shortest history has >= 2 operations")

# (module, ringlen, nprio, ndist, depth, priority value set, extra)
def plan(tier):
    if tier == 'quick':
        return [('ap', 3, 3, 3, 6, 0, []), ('ap', 2, 3, 2, 5, 2, []), ('ap', 3, 4, 2, 5, 1, []),
                ('spq', 3, 3, 3, 4, 0, []), ('spq', 2, 3, 3, 5, 0, []), ('spq', 2, 2, 3, 6, 1, []), ('spq', 2, 3, 2, 5, 2, []),
                ('ip', 3, 3, 3, 6, 0, []), ('ip', 2, 3, 2, 5, 2, []), ('ip', 3, 4, 2, 5, 1, [])]
    return [('ap', 3, 3, 3, 8, 0, []), ('ap', 3, 4, 2, 7, 1, []), ('ap', 3, 3, 3, 7, 2, []),
            ('spq', 3, 3, 3, 5, 0, []), ('spq', 2, 3, 3, 6, 0, []), ('spq', 2, 3, 4, 5, 1, []), ('spq', 3, 2, 3, 5, 2, []), ('spq', 1, 3, 3, 8, 0, []),
            ('ip', 3, 3, 3, 8, 0, []), ('ip', 3, 4, 2, 7, 1, []), ('ip', 3, 3, 3, 7, 2, [])]

def build(ctx):
    return ctx.compile('hk-shm', 'prio', ['prio_h.c'], instr=False)

def args_for(mod, L, P, D, depth, pv, extra):
    return ['--sched', mod, '--ringlen', str(L), '--nprio', str(P), '--ndist', str(D), '--depth', str(depth), '--pv', str(pv)] + list(extra)

def check(ctx):
    import vlib
    from concurrent.futures import ThreadPoolExecutor
    exe = build(ctx)
    dl = 70 if ctx.tier == 'quick' else 1000
    legs = list(plan(ctx.tier))
    def one(leg):
        mod, L, P, D, depth, pv, extra = leg
        return ctx.run_engine(exe, args_for(mod, L, P, D, depth, pv, extra) + ['--outdir', '/verif/out', '--deadline', str(dl)],
                              label='%s_L%d_P%d_D%d_d%d_pv%d' % (mod, L, P, D, depth, pv), timeout=dl + 300)
    with ThreadPoolExecutor(max_workers=max(2, min(8, vlib.NJOBS // 2))) as ex:
        list(ex.map(one, legs))
    ctx.legs.sort(key=lambda l: l.get('leg', ''))
    return ctx.finish(RULE, ["single execution stream, no concurrent activity (as stated by the property)",
                             "the module keeps all of its state behind es->scheduler_object (true for ap, ip, spq)"])

def replay(ctx, path, obj):
    import subprocess, re
    m = re.match(r'(\w+?)_L(\d+)_P(\d+)_D(\d+)_depth(\d+)_pv(\d+)(_nr)?$', obj['scenario'])
    exe = build(ctx)
    a = args_for(m.group(1), *[int(m.group(i)) for i in range(2, 7)], ['--noresched'] if m.group(7) else [])
    return subprocess.call([exe] + a + ['--replay', path])
