"""PTG intermediate representation (E4 / rt engine): expressions, task classes, flows, deps;
renderer to .jdf, reference interpreter, emitter of the C expectation table for ptg_driver.c.

Programs are written with a compact text notation close to JDF:

    Prog('chain', colls={'A': 'NT'}, globs=['NT'], variants=[{'NT': 1}, {'NT': 3}], classes=[
        Cls('TA(k)', ['k = 0 .. NT-1'], 'A(k)', [
            Flow('RW T', ['A(k)'], ['T TB(2*k .. 2*k+1)']),
            Flow('CTL X', [], ['k == 0 ? X TC(0)']) ]), ... ])

Dep notation:  [guard ?] target [: target]   target ::= FLOW CLASS(args) | COLL(args) | NEW | NULL
args are expressions or ranges lo .. hi [.. step].  Locals: 'k = lo .. hi [.. step]', 'n = expr',
'o = [ i = lo .. hi ] expr' (local index).  An expression wrapped in %{ ... %} is rendered as inline C.

The reference interpreter REFUSES (raises Invalid) programs that PaRSEC does not define:
input/output deps that do not mirror each other, a data input flow with no or several active deps,
conflicting accesses to one data copy that are not ordered by the dependencies, write-back of a
copy to a collection element it did not come from (not performed by non-distributed builds), cycles.
"""
import itertools, re, os

M64 = (1 << 64) - 1


class Invalid(Exception):
    pass


# ----------------------------------------------------------------------------- expressions
_TOK = re.compile(r'\s*(?:(\d+)|([A-Za-z_][A-Za-z_0-9]*)|(%\{.*?%\})|(\.\.|==|!=|<=|>=|&&|\|\||[-+*/%<>!?:(),\[\]=]))')


def tokenize(s):
    out, i = [], 0
    s = s.strip()
    while i < len(s):
        m = _TOK.match(s, i)
        if not m:
            raise ValueError('cannot tokenize %r at %d' % (s, i))
        if m.group(1) is not None:
            out.append(('n', int(m.group(1))))
        elif m.group(2) is not None:
            out.append(('id', m.group(2)))
        elif m.group(3) is not None:
            out.append(('inl', m.group(3)[2:-2].strip()))
        else:
            out.append(('op', m.group(4)))
        i = m.end()
    return out


_BIN = {'||': 1, '&&': 2, '==': 4, '!=': 4, '<': 5, '<=': 5, '>': 5, '>=': 5, '+': 7, '-': 7, '*': 8, '/': 8, '%': 8}


class P:
    """Pratt parser over a token list."""
    def __init__(self, toks):
        self.t, self.i = toks, 0

    def peek(self, k=0):
        return self.t[self.i + k] if self.i + k < len(self.t) else ('eof', None)

    def next(self):
        tk = self.peek(); self.i += 1; return tk

    def accept(self, op):
        if self.peek() == ('op', op):
            self.i += 1; return True
        return False

    def expect(self, op):
        if not self.accept(op):
            raise ValueError('expected %r at token %d of %r' % (op, self.i, self.t))

    def expr(self, ternary=True):
        e = self.binary(1)
        if ternary and self.peek() == ('op', '?'):
            self.next()
            a = self.expr()
            self.expect(':')
            b = self.expr()
            return ('t', e, a, b)
        return e

    def binary(self, minp):
        lhs = self.unary()
        while True:
            k, v = self.peek()
            if k != 'op' or v not in _BIN or _BIN[v] < minp:
                return lhs
            self.next()
            rhs = self.binary(_BIN[v] + 1)
            lhs = ('b', v, lhs, rhs)

    def unary(self):
        k, v = self.peek()
        if k == 'op' and v in ('-', '!'):
            self.next()
            a = self.unary()
            if v == '-' and a[0] == 'n':
                return ('n', -a[1])
            return ('u', v, a)
        if k == 'op' and v == '(':
            self.next(); e = self.expr(); self.expect(')'); return e
        if k == 'n':
            self.next(); return ('n', v)
        if k == 'id':
            self.next(); return ('v', v)
        if k == 'inl':
            self.next()
            body = v
            m = re.match(r'return\s+(.*);$', body)
            if not m:
                raise ValueError('inline C must be "return <expr>;": %r' % body)
            return ('c', parse_expr(m.group(1)))
        raise ValueError('unexpected token %r in %r' % ((k, v), self.t))

    def range_or_expr(self):
        lo = self.expr()
        if self.accept('..'):
            hi = self.expr()
            st = ('n', 1)
            if self.accept('..'):
                st = self.expr()
            return ('r', lo, hi, st)
        return lo


def parse_expr(s):
    if isinstance(s, tuple):
        return s
    if isinstance(s, int):
        return ('n', s)
    p = P(tokenize(s))
    e = p.expr()
    if p.peek()[0] != 'eof':
        raise ValueError('trailing tokens in %r' % s)
    return e


def cdiv(a, b):
    if b == 0:
        raise Invalid('division by zero')
    q = abs(a) // abs(b)
    return q if (a >= 0) == (b >= 0) else -q


def ev(e, env):
    k = e[0]
    if k == 'n':
        return e[1]
    if k == 'v':
        if e[1] not in env:
            raise Invalid('unbound variable %s' % e[1])
        return env[e[1]]
    if k == 'c':
        return ev(e[1], env)
    if k == 'u':
        a = ev(e[2], env)
        return -a if e[1] == '-' else int(not a)
    if k == 't':
        return ev(e[2], env) if ev(e[1], env) else ev(e[3], env)
    if k == 'b':
        op = e[1]
        if op == '&&':
            return int(bool(ev(e[2], env)) and bool(ev(e[3], env)))
        if op == '||':
            return int(bool(ev(e[2], env)) or bool(ev(e[3], env)))
        a, b = ev(e[2], env), ev(e[3], env)
        if op == '+': return a + b
        if op == '-': return a - b
        if op == '*': return a * b
        if op == '/': return cdiv(a, b)
        if op == '%': return a - b * cdiv(a, b)
        return int({'==': a == b, '!=': a != b, '<': a < b, '<=': a <= b, '>': a > b, '>=': a >= b}[op])
    raise ValueError(e)


def rend(e, top=True):
    """Render an expression in JDF syntax (fully parenthesised; inline C for ('c', e))."""
    k = e[0]
    if k == 'n':
        return str(e[1]) if (e[1] >= 0 or top) else '(%d)' % e[1]
    if k == 'v':
        return e[1]
    if k == 'c':
        return '%{ return ' + rend_c(e[1]) + '; %}'
    if k == 'u':
        if e[1] == '-':
            return '(0 - %s)' % rend(e[2], False)
        return '(!%s)' % rend(e[2], False)
    if k == 't':
        return '(%s ? %s : %s)' % (rend(e[1], False), rend(e[2], False), rend(e[3], False))
    if k == 'b':
        return '(%s %s %s)' % (rend(e[2], False), e[1], rend(e[3], False))
    raise ValueError(e)


def rend_c(e):
    k = e[0]
    if k == 'n':
        return '(%d)' % e[1]
    if k == 'v':
        return e[1]
    if k == 'c':
        return rend_c(e[1])
    if k == 'u':
        return '(%s%s)' % (e[1], rend_c(e[2]))
    if k == 't':
        return '(%s ? %s : %s)' % (rend_c(e[1]), rend_c(e[2]), rend_c(e[3]))
    return '(%s %s %s)' % (rend_c(e[2]), e[1], rend_c(e[3]))


def rend_range(r):
    if r[0] != 'r':
        return rend(r)
    s = '%s .. %s' % (rend(r[1]), rend(r[2]))
    if r[3] != ('n', 1):
        s += ' .. %s' % rend(r[3])
    return s


def range_values(r, env, what=''):
    """Values of lo..hi..step. Semantics of jdf_generate_internal_init: ascending for step >= 0,
    descending (down to hi) for step < 0. step == 0 is refused."""
    lo, hi, st = ev(r[1], env), ev(r[2], env), ev(r[3], env)
    if st == 0:
        raise Invalid('zero step in %s' % what)
    out, v = [], lo
    while (v <= hi) if st > 0 else (v >= hi):
        out.append(v); v += st
        if len(out) > 4096:
            raise Invalid('range too large')
    return out


# ----------------------------------------------------------------------------- IR
class Target:
    # kind: 'task' (cls, flow, args), 'mem' (coll, args), 'new', 'null'
    def __init__(self, kind, cls=None, flow=None, args=()):
        self.kind, self.cls, self.flow, self.args = kind, cls, flow, list(args)

    def jdf(self):
        if self.kind == 'new': return 'NEW'
        if self.kind == 'null': return 'NULL'
        a = ', '.join(rend_range(x) for x in self.args)
        if self.kind == 'mem': return '%s(%s)' % (self.cls, a)
        return '%s %s(%s)' % (self.flow, self.cls, a)


class Dep:
    def __init__(self, guard, t, f=None, text=''):
        self.guard, self.t, self.f, self.text = guard, t, f, text

    def jdf(self):
        if self.guard is None: return self.t.jdf()
        s = '%s ? %s' % (rend(self.guard), self.t.jdf())
        if self.f is not None: s += ' : %s' % self.f.jdf()
        return s

    def active(self, env):
        """-> the active target or None"""
        if self.guard is None: return self.t
        return self.t if ev(self.guard, env) else self.f


def parse_target(p, colls):
    k, v = p.peek()
    if k == 'id' and v in ('NEW', 'NULL'):
        p.next(); return Target(v.lower())
    if k != 'id':
        raise ValueError('bad target')
    k2, v2 = p.peek(1)
    if k2 == 'id':
        flow = p.next()[1]; cls = p.next()[1]; kind = 'task'
    else:
        flow = None; cls = p.next()[1]; kind = 'mem'
        if cls not in colls:
            raise ValueError('%s is not a collection' % cls)
    p.expect('(')
    args = []
    if not p.accept(')'):
        while True:
            args.append(p.range_or_expr())
            if p.accept(')'): break
            p.expect(',')
    return Target(kind, cls, flow, args)


def parse_dep(s, colls):
    toks = tokenize(s)
    p = P(toks)
    k, v = p.peek(); k2, v2 = p.peek(1)
    direct = (k == 'id' and (v in ('NEW', 'NULL') or k2 == 'id' or (v in colls and (k2, v2) == ('op', '('))))
    if direct:
        t = parse_target(p, colls); d = Dep(None, t, None, s)
    else:
        g = p.expr(ternary=False)
        p.expect('?')
        t = parse_target(p, colls)
        f = parse_target(p, colls) if p.accept(':') else None
        d = Dep(g, t, f, s)
    if p.peek()[0] != 'eof':
        raise ValueError('trailing tokens in dep %r' % s)
    return d


class Flow:
    def __init__(self, decl, ins=(), outs=()):
        self.mode, self.name = decl.split()
        assert self.mode in ('RW', 'READ', 'WRITE', 'CTL')
        self.ins_s, self.outs_s = list(ins), list(outs)

    def bind(self, colls):
        self.ins = [parse_dep(s, colls) for s in self.ins_s]
        self.outs = [parse_dep(s, colls) for s in self.outs_s]

    @property
    def reads(self): return self.mode in ('RW', 'READ')

    @property
    def writes(self): return self.mode in ('RW', 'WRITE')


class Cls:
    def __init__(self, decl, locals_, aff, flows, prio=None, props=None):
        m = re.match(r'\s*(\w+)\s*\(([^)]*)\)\s*$', decl)
        self.name = m.group(1)
        self.params = [x.strip() for x in m.group(2).split(',') if x.strip()]
        self.locals = []      # (name, kind, payload): kind 'range' ('r',..) | 'expr' e | 'lidx' (var, ('r'..), e)
        for s in locals_:
            name, rhs = s.split('=', 1)
            name = name.strip()
            p = P(tokenize(rhs))
            if p.accept('['):
                var = p.next()[1]; p.expect('=')
                r = p.range_or_expr(); p.expect(']')
                e = p.expr()
                self.locals.append((name, 'lidx', (var, r, e)))
            else:
                r = p.range_or_expr()
                self.locals.append((name, 'range' if r[0] == 'r' else 'expr', r))
            if p.peek()[0] != 'eof':
                raise ValueError('trailing tokens in local %r' % s)
        self.aff_s, self.flows, self.prio_s, self.props = aff, list(flows), prio, dict(props or {})

    def bind(self, colls):
        p = P(tokenize(self.aff_s)); self.aff = parse_target(p, colls)
        assert self.aff.kind == 'mem'
        self.prio = parse_expr(self.prio_s) if self.prio_s is not None else None
        for f in self.flows:
            f.bind(colls)
        ln = [l[0] for l in self.locals]
        for q in self.params:
            assert q in ln, 'parameter %s of %s has no definition' % (q, self.name)


class Prog:
    def __init__(self, name, colls, globs, variants, classes, tags=()):
        self.name, self.globs, self.variants, self.classes, self.tags = name, list(globs), list(variants), list(classes), set(tags)
        self.backends = ('ht', 'ia')
        self.colls = {k: parse_expr(v) for k, v in colls.items()}   # name -> size expression over globals
        self.cls = {c.name: c for c in classes}
        for c in classes:
            c.bind(self.colls)

    def traits(self, backend, keyprint=False):
        """Structural traits that select a recorded finding (known_findings.json) for failures of this program.
        keyprint: also the traits that only matter for the printed form of keys (C23)."""
        t = set()
        for c in self.classes:
            if keyprint:
                decl = [l[0] for l in c.locals if l[0] in c.params]
                if decl != list(c.params):
                    t.add('keyprint-order')
                if any(kind == 'expr' and name in c.params for name, kind, pl in c.locals):
                    t.add('keyprint-derived')
            for name, kind, pl in c.locals:
                if name not in c.params:
                    continue
                if kind == 'range' and pl[3][0] == 'n' and pl[3][1] < 0:
                    t.add('negstep')
                if kind in ('expr', 'lidx') and backend == 'ia':
                    t.add('ia-nonrange-param')
        return t

    # ------------------------------------------------------------------ JDF
    def jdf(self, body_extra=''):
        L = ['extern "C" %{', '#include <stdint.h>', '#include "parsec/data_distribution.h"', '#include "ptg_exp.h"', '%}', '']
        for c in sorted(self.colls):
            L.append('%s   [type = "parsec_data_collection_t*"]' % c)
        for g in self.globs:
            L.append('%s   [type = int]' % g)
        L.append('')
        for ci, c in enumerate(self.classes):
            L.append('%s(%s)%s' % (c.name, ', '.join(c.params),
                                   (' [ %s ]' % ' '.join('%s = %s' % kv for kv in c.props.items())) if c.props else ''))
            for name, kind, pl in c.locals:
                if kind == 'lidx':
                    L.append('  %s = [ %s = %s ] %s' % (name, pl[0], rend_range(pl[1]), rend(pl[2])))
                else:
                    L.append('  %s = %s' % (name, rend_range(pl)))
            L.append('  : %s' % c.aff.jdf())
            for f in c.flows:
                first = True
                deps = [('<-', d) for d in f.ins] + [('->', d) for d in f.outs]
                if not deps:
                    L.append('  %-5s %s' % (f.mode, f.name))
                for arrow, d in deps:
                    L.append('  %-5s %-3s %s %s' % (f.mode if first else '', f.name if first else '', arrow, d.jdf()))
                    first = False
            if c.prio is not None:
                L.append('  ; %s' % rend(c.prio))
            L.append('BODY')
            L.append('{')
            L.append('    int _p[] = { %s };' % ', '.join(c.params + ['0']))
            L.append('    int _l[] = { %s };' % ', '.join([l[0] for l in c.locals] + ['0']))
            L.append('    void *_f[] = { %s };' % ', '.join([(f.name if f.mode != 'CTL' else 'NULL') for f in c.flows] + ['NULL']))
            L.append('    int _rc = ptg_body(es, (parsec_task_t*)this_task, %d, %d, _p, %d, _l, %d, _f);' % (ci, len(c.params), len(c.locals), len(c.flows)))
            L.append('    if( PARSEC_HOOK_RETURN_DONE != _rc ) return _rc;')
            L.append('}')
            L.append('END')
            L.append('')
        return '\n'.join(L)

    # ------------------------------------------------------------------ reference interpreter
    def instances(self, c, genv):
        """[(params tuple, env dict with all locals)] in start-up enumeration order."""
        out = []

        def rec(i, env):
            if i == len(c.locals):
                out.append((tuple(env[q] for q in c.params), dict(env)))
                return
            name, kind, pl = c.locals[i]
            if kind == 'range':
                for v in range_values(pl, env, '%s.%s' % (c.name, name)):
                    e2 = dict(env); e2[name] = v; rec(i + 1, e2)
            elif kind == 'expr':
                e2 = dict(env); e2[name] = ev(pl, env); rec(i + 1, e2)
            else:
                var, r, e = pl
                for v in range_values(r, env, '%s.%s' % (c.name, name)):
                    e2 = dict(env); e2[var] = v; e2[name] = ev(e, e2); del e2[var]
                    rec(i + 1, e2)
        rec(0, dict(genv))
        seen = set()
        for pr, _ in out:
            if pr in seen:
                raise Invalid('%s: parameter tuple %s produced twice' % (c.name, pr))
            seen.add(pr)
        return out

    def interpret(self, variant):
        """Reference semantics of one variant (assignment of the globals). Returns a Ref object; raises Invalid."""
        genv = dict(variant)
        for g in self.globs:
            if g not in genv:
                raise ValueError('global %s unset' % g)
        csize = {k: ev(e, genv) for k, e in self.colls.items()}
        R = Ref(self, variant, csize)
        idx = {}
        for ci, c in enumerate(self.classes):
            for pr, env in self.instances(c, genv):
                idx[(c.name, pr)] = len(R.inst)
                R.inst.append(Inst(len(R.inst), ci, c, pr, env))
        R.idx = idx
        # affinity must name an existing element
        for I in R.inst:
            a = [ev(x, I.env) for x in I.c.aff.args]
            if len(a) != 1 or not (0 <= a[0] < csize[I.c.aff.cls]):
                raise Invalid('%s: affinity %s out of range' % (I.name, a))
            if I.c.prio is not None:
                I.prio = ev(I.c.prio, I.env)
        # ---- active deps
        for I in R.inst:
            for fi, f in enumerate(I.c.flows):
                acts = []
                for d in f.ins:
                    t = d.active(I.env)
                    if t is not None:
                        acts.append(t)
                if f.mode == 'CTL':
                    srcs = []
                    for t in acts:
                        if t.kind != 'task':
                            raise Invalid('%s.%s: CTL flow refers to data' % (I.name, f.name))
                        srcs += self._expand(R, I, t)
                    if len(set(srcs)) != len(srcs):
                        raise Invalid('%s.%s: same CTL predecessor named twice' % (I.name, f.name))
                    I.fin[fi] = ('ctl', srcs)
                elif f.mode == 'WRITE':
                    if f.ins:
                        raise Invalid('%s.%s: WRITE flow with input deps not generated' % (I.name, f.name))
                    # the generated data_lookup allocates the copy only when an output dep of the flow is active
                    I.fin[fi] = ('new', None) if any(d.active(I.env) is not None for d in f.outs) else ('null', None)
                else:
                    if len(acts) != 1:
                        raise Invalid('%s.%s: %d active input deps (need exactly 1)' % (I.name, f.name, len(acts)))
                    t = acts[0]
                    if t.kind == 'task':
                        s = self._expand(R, I, t)
                        if len(s) != 1:
                            raise Invalid('%s.%s: data input from a range' % (I.name, f.name))
                        I.fin[fi] = ('task', s[0])
                    elif t.kind == 'mem':
                        a = [ev(x, I.env) for x in t.args]
                        if len(a) != 1 or not (0 <= a[0] < csize[t.cls]):
                            raise Invalid('%s.%s: input element %s(%s) out of range' % (I.name, f.name, t.cls, a))
                        I.fin[fi] = ('mem', (t.cls, a[0]))
                    else:
                        I.fin[fi] = (t.kind, None)
                outs = []
                for d in f.outs:
                    t = d.active(I.env)
                    if t is None:
                        continue
                    if t.kind == 'task':
                        for s in self._expand(R, I, t):
                            outs.append(('task', s))
                    elif t.kind == 'mem':
                        if f.mode == 'CTL':
                            raise Invalid('CTL to memory')
                        a = [ev(x, I.env) for x in t.args]
                        if len(a) != 1 or not (0 <= a[0] < csize[t.cls]):
                            raise Invalid('%s.%s: output element out of range' % (I.name, f.name))
                        outs.append(('mem', (t.cls, a[0])))
                    elif t.kind == 'null':
                        pass
                    else:
                        raise Invalid('%s.%s: output to NEW' % (I.name, f.name))
                tl = [o[1] for o in outs if o[0] == 'task']
                if len(set(tl)) != len(tl):
                    raise Invalid('%s.%s: same successor flow named twice' % (I.name, f.name))
                I.fout[fi] = outs
        # ---- mirror check
        for I in R.inst:
            for fi, f in enumerate(I.c.flows):
                for kind, s in I.fout[fi]:
                    if kind != 'task':
                        continue
                    J, gj = s
                    fin = R.inst[J].fin[gj]
                    ok = (fin[0] == 'task' and fin[1] == (I.i, fi)) or (fin[0] == 'ctl' and (I.i, fi) in fin[1])
                    if not ok:
                        raise Invalid('output %s.%s -> %s.%s has no matching active input' % (I.name, f.name, R.inst[J].name, R.inst[J].c.flows[gj].name))
                fin = I.fin[fi]
                srcs = [fin[1]] if fin[0] == 'task' else (fin[1] if fin[0] == 'ctl' else [])
                for (J, gj) in srcs:
                    if ('task', (I.i, fi)) not in R.inst[J].fout[gj]:
                        raise Invalid('input %s.%s <- %s.%s has no matching active output' % (I.name, f.name, R.inst[J].name, R.inst[J].c.flows[gj].name))
        # ---- predecessor sets, topological order
        for I in R.inst:
            ps = set()
            for fi in range(len(I.c.flows)):
                fin = I.fin[fi]
                if fin[0] == 'task': ps.add(fin[1][0])
                elif fin[0] == 'ctl': ps.update(j for j, _ in fin[1])
            if I.i in ps:
                raise Invalid('%s depends on itself' % I.name)
            I.preds = sorted(ps)
        order, done, left = [], set(), list(range(len(R.inst)))
        while left:
            ready = [i for i in left if all(p in done for p in R.inst[i].preds)]
            if not ready:
                raise Invalid('dependency cycle')
            order += ready; done.update(ready); left = [i for i in left if i not in done]
        R.topo = order
        anc = {}
        for i in order:
            a = set()
            for p in R.inst[i].preds:
                a.add(p); a |= anc[p]
            anc[i] = a
        R.anc = anc
        # ---- copies, accesses, values (sequential execution in topological order)
        cells = {}
        for cn, n in csize.items():
            for e in range(n):
                cells[('mem', cn, e)] = R.coll_init(cn, e)
        acc = {}
        for i in order:
            I = R.inst[i]
            ins = []
            for fi, f in enumerate(I.c.flows):
                fin = I.fin[fi]
                if f.mode == 'CTL':
                    I.copy[fi] = None; continue
                if fin[0] == 'mem': cp = ('mem',) + fin[1]
                elif fin[0] == 'new': cp = ('new', i, fi); cells[cp] = None      # undefined until first written
                elif fin[0] == 'null': cp = None
                else:
                    J, gj = fin[1]
                    if R.inst[J].c.flows[gj].mode == 'CTL':
                        raise Invalid('data flow fed by a CTL flow')
                    cp = R.inst[J].copy[gj]
                I.copy[fi] = cp
            cps = [c for c in I.copy if c is not None]
            for fi, f in enumerate(I.c.flows):
                cp = I.copy[fi]
                if cp is None or f.mode == 'CTL':
                    continue
                if f.writes and sum(1 for gi, g in enumerate(I.c.flows) if g.writes and I.copy[gi] == cp) > 1:
                    raise Invalid('%s: copy %s written through two flows of the same task' % (I.name, cp))
                if f.reads and cells[cp] is not None:
                    I.in_val[fi] = cells[cp]; ins.append(cells[cp])
                    acc.setdefault(cp, []).append((i, 'R'))
            for fi, f in enumerate(I.c.flows):
                cp = I.copy[fi]
                if cp is None or f.mode == 'CTL' or not f.writes:
                    continue
                v = mix(I.cls, I.params, fi, ins)
                I.out_val[fi] = v; cells[cp] = v
                acc.setdefault(cp, []).append((i, 'W'))
            for fi, f in enumerate(I.c.flows):
                for kind, s in I.fout[fi]:
                    if kind == 'mem':
                        if I.copy[fi] != ('mem',) + s:
                            raise Invalid('%s.%s: write-back to %s of a copy that is not that element (not performed by non-distributed builds)' % (I.name, f.name, s))
                    if kind == 'task' and I.copy[fi] is None and f.mode != 'CTL':
                        raise Invalid('%s.%s: NULL forwarded to a successor (the runtime aborts: "A NULL is forwarded")' % (I.name, f.name))
                    if kind == 'mem' and I.copy[fi] is None:
                        raise Invalid('%s.%s: NULL written back' % (I.name, f.name))
        for cp, al in acc.items():
            for (a, ka), (b, kb) in itertools.combinations(al, 2):
                if a == b or (ka == 'R' and kb == 'R'):
                    continue
                if a not in anc[b] and b not in anc[a]:
                    raise Invalid('unordered conflicting accesses to %s by %s and %s' % (cp, R.inst[a].name, R.inst[b].name))
        R.final = {cn: [cells[('mem', cn, e)] for e in range(n)] for cn, n in csize.items()}
        R.ncopies = len(acc)
        return R

    def _expand(self, R, I, t):
        """Instances named by a task target (ranges expanded) -> [(inst index, flow index)]"""
        if t.cls not in self.cls:
            raise Invalid('unknown class %s' % t.cls)
        c = self.cls[t.cls]
        fl = [f.name for f in c.flows]
        if t.flow not in fl:
            raise Invalid('unknown flow %s of %s' % (t.flow, t.cls))
        if len(t.args) != len(c.params):
            raise Invalid('arity mismatch calling %s' % t.cls)
        dims = [range_values(a, I.env, 'dep range') if a[0] == 'r' else [ev(a, I.env)] for a in t.args]
        out = []
        for pr in itertools.product(*dims):
            key = (t.cls, tuple(pr))
            if key not in R.idx:
                raise Invalid('%s names the non-existent instance %s%s' % (I.name, t.cls, tuple(pr)))
            out.append((R.idx[key], fl.index(t.flow)))
        return out


def mix(cls, params, flow, ins):
    h = (0x9E3779B97F4A7C15 * (cls + 1)) & M64
    for p in params:
        h = ((h ^ (p & M64)) * 0x100000001B3) & M64
    h = ((h ^ (flow + 0x51)) * 0x100000001B3) & M64
    for v in ins:
        h = ((h ^ v) * 0x100000001B3) & M64
        h ^= h >> 29
    return h


class Inst:
    def __init__(self, i, cls, c, params, env):
        self.i, self.cls, self.c, self.params, self.env = i, cls, c, params, env
        n = len(c.flows)
        self.fin, self.fout, self.copy = [None] * n, [None] * n, [None] * n
        self.in_val, self.out_val = {}, {}
        self.preds, self.prio = [], 0
        self.name = '%s(%s)' % (c.name, ', '.join(str(x) for x in params))
        self.locals = [env[l[0]] for l in c.locals]


class Ref:
    def __init__(self, prog, variant, csize):
        self.prog, self.variant, self.csize, self.inst = prog, variant, csize, []

    def coll_init(self, cn, e):
        return (0xC0FFEE0000 + 1000 * (sorted(self.csize).index(cn) + 1) + e) & M64

    def is_startup(self, I):
        return not I.preds

    def stats(self):
        n = len(self.inst)
        return dict(instances=n, edges=sum(len(I.preds) for I in self.inst), startup=sum(1 for I in self.inst if not I.preds), copies=self.ncopies)


# ----------------------------------------------------------------------------- C table
def emit_c(prog, refs):
    """C source defining `ptg_program` (see ptg_exp.h) for the given [(variant, Ref)]."""
    L = ['#include "vdc.h"', '#include "ptg_exp.h"', '#include "%s.h"' % prog.name, '#include "parsec/arena.h"', '']
    colls = sorted(prog.colls)
    selftest = os.environ.get('VERIF_PTG_SELFTEST')   # 'value': corrupt one expected input value (oracle liveness self-test)
    for vi, R in enumerate(refs):
        preds = []
        L.append('static const ptg_inst_t v%d_inst[] = {' % vi)
        for I in R.inst:
            if selftest == 'value' and I.in_val and I.preds:
                fi = sorted(I.in_val)[0]
                I.in_val = dict(I.in_val); I.in_val[fi] ^= 1; selftest = None
            off = len(preds); preds += I.preds
            nf = len(I.c.flows)
            inm = sum(1 << fi for fi in I.in_val)
            outm = sum(1 << fi for fi in I.out_val)
            nullm = sum(1 << fi for fi, f in enumerate(I.c.flows) if f.mode != 'CTL' and I.copy[fi] is None)
            L.append('  { %d, %d, {%s}, %d, {%s}, %d, %d, 0x%x, 0x%x, 0x%x, {%s}, {%s}, "%s", %d },' % (
                I.cls, len(I.params), ','.join(str(x) for x in (list(I.params) + [0] * 8)[:8]),
                len(I.locals), ','.join(str(x) for x in (I.locals + [0] * 12)[:12]),
                off, len(I.preds), inm, outm, nullm,
                ','.join('0x%xULL' % I.in_val.get(fi, 0) for fi in range(8)),
                ','.join('0x%xULL' % I.out_val.get(fi, 0) for fi in range(8)),
                I.name, I.prio))
        if not R.inst:
            L.append('  { 0 }')
        L.append('};')
        L.append('static const int v%d_preds[] = { %s };' % (vi, ', '.join(str(x) for x in preds + [0])))
        for cn in colls:
            n = R.csize[cn]
            L.append('static const uint64_t v%d_%s_init[] = { %s };' % (vi, cn, ', '.join('0x%xULL' % R.coll_init(cn, e) for e in range(n)) or '0'))
            L.append('static const uint64_t v%d_%s_final[] = { %s };' % (vi, cn, ', '.join('0x%xULL' % x for x in R.final[cn]) or '0'))
        L.append('static const int v%d_glob[] = { %s };' % (vi, ', '.join(str(R.variant[g]) for g in prog.globs) or '0'))
        L.append('static const int v%d_colln[] = { %s };' % (vi, ', '.join(str(R.csize[cn]) for cn in colls)))
        L.append('static const uint64_t *v%d_init[] = { %s };' % (vi, ', '.join('v%d_%s_init' % (vi, cn) for cn in colls)))
        L.append('static const uint64_t *v%d_final[] = { %s };' % (vi, ', '.join('v%d_%s_final' % (vi, cn) for cn in colls)))
    L.append('static const ptg_variant_t variants[] = {')
    for vi, R in enumerate(refs):
        L.append('  { "%s", %d, v%d_inst, v%d_preds, v%d_colln, v%d_init, v%d_final, v%d_glob },' % (
            ','.join('%s=%d' % (g, R.variant[g]) for g in prog.globs), len(R.inst), vi, vi, vi, vi, vi, vi))
    L.append('};')
    L.append('static const char *cls_names[] = { %s };' % ', '.join('"%s"' % c.name for c in prog.classes))
    L.append('static const int cls_nflows[] = { %s };' % ', '.join(str(len(c.flows)) for c in prog.classes))
    L.append('static const int cls_nparams[] = { %s };' % ', '.join(str(len(c.params)) for c in prog.classes))
    # index of each parameter in the class's locals list (make_key takes the full assignment array)
    L.append('static parsec_taskpool_t *make(vdc_t **colls, const int *g) {')
    args = ['&colls[%d]->super' % i for i in range(len(colls))] + ['g[%d]' % i for i in range(len(prog.globs))]
    L.append('  parsec_%s_taskpool_t *tp = parsec_%s_new(%s);' % (prog.name, prog.name, ', '.join(args)))
    L.append('  parsec_arena_datatype_set_type(&tp->arenas_datatypes[PARSEC_%s_DEFAULT_ADT_IDX], sizeof(uint64_t), PARSEC_ARENA_ALIGNMENT_SSE, PARSEC_DATATYPE_NULL);' % prog.name)
    L.append('  return &tp->super;')
    L.append('}')
    L.append('const ptg_program_t ptg_program_%s = { "%s", %d, cls_names, cls_nflows, cls_nparams, %d, %d, variants, make };' % (prog.name, 
        prog.name, len(prog.classes), len(colls), len(refs)))
    return '\n'.join(L) + '\n'
