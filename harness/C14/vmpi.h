/* vmpi: a small VIRTUAL MPI for 2 virtual ranks living in one process (C14 tier 2).
 *
 * The real parsec/parsec_mpi_funnelled.c is compiled twice into the harness (eng_r0.c / eng_r1.c); every MPI_ entry point it
 * uses is redirected (macros at the bottom of this file) to the vmpi_ functions below.  Types and constants come from the
 * installed <mpi.h> (Open MPI): MPI_Request / MPI_Comm / MPI_Info are pointer types, so vmpi hands out pointers to its own
 * objects; MPI_REQUEST_NULL, MPI_COMM_WORLD, MPI_COMM_SELF, MPI_BYTE ... are only compared by address.  NO function of the
 * real MPI library is ever called (MPI_Init is never called in this executable).
 *
 * Model (every nondeterministic choice is justified from the MPI standard, see NOTES.md "virtual MPI"):
 *  - the "current rank" (vm_set_rank) is the caller of every entry point;
 *  - point-to-point matching is the standard one: per destination a queue of posted receives (posting order) and a queue of
 *    unexpected messages (send order); a new message takes the OLDEST posted receive of its destination that matches
 *    (communicator, tag, source), a new receive takes the OLDEST unexpected message that matches: MPI's non-overtaking rule;
 *  - a message of at most vm_eager_limit bytes is EAGER: buffered at the send call, the send (request) is complete at once;
 *    a longer message is RENDEZVOUS: its send completes when the message is matched; a blocking MPI_Send of a rendezvous
 *    message that cannot be matched is a harness error (the harness only lets a rank call it when it is matchable: a blocked
 *    rank is simply not enabled);
 *  - data lands in the receive buffer at the moment of the match (the earliest moment a real MPI may write it);
 *  - WHEN a completed request is reported is owned by the explorer: MPI_Testsome finds the set K of requests of its array
 *    that are complete and asks vm_choose for the subset to report (any non-empty subset of K at the first MPI_Testsome of a
 *    progress() call, any subset - also the empty one - at the following calls); this covers every legal completion order,
 *    because a completion that a real MPI "has not noticed yet" is exactly a completed request that is not reported yet;
 *  - persistent requests become inactive when reported and stay in the caller's array; other requests are released and their
 *    handle is set to MPI_REQUEST_NULL; MPI_REQUEST_NULL and inactive persistent requests are ignored by MPI_Testsome, which
 *    returns outcount = MPI_UNDEFINED when the array holds no active request.
 * Everything the engine does that a real MPI would reject or that has undefined behaviour (stale / foreign handle, starting an
 * active persistent request, truncation, wrong datatype ...) is reported through vm_fatal() = a violation of the engine.
 */
#ifndef VMPI_H
#define VMPI_H
#include <mpi.h>
#include <stdint.h>
#include <stddef.h>

#define VM_NRANKS 2

/* ---- harness-facing interface ---- */
extern size_t vm_eager_limit;
extern int vm_strict_dup;                              /* 1: listing one active request twice in an MPI_Testsome array is reported as an error (default 0: it is completed once) */
extern int (*vm_choose)(int n, int inner);             /* explorer: pick one of n alternatives (0 = default) */
extern void (*vm_on_fatal)(const char *msg);           /* harness: record the failure and leave the engine call (does not return) */
void vm_reset(void);                                   /* forget everything (requests, messages, communicators, observation hashes) */
void vm_set_rank(int r);
int  vm_rank(void);
void vm_step_begin(void);                              /* called before every engine call: resets the per-call MPI_Testsome counter */
void vm_fatal(const char *fmt, ...) __attribute__((format(printf, 1, 2)));
/* observation hash of a rank: everything the rank did (MPI calls, address-free arguments) and everything it observed
 * (MPI_Testsome results with the identity of the matched message, immediate matches when posting a receive) */
uint64_t vm_T(int r);
void vm_obs(int r, uint64_t x);
int  vm_posted_recv_exists(int dst, int tag);          /* an unmatched, active persistent receive with this tag is posted at dst */
int  vm_req_reportable(MPI_Request r);                 /* a request MPI_Testsome would put into K */
int  vm_quiescent(char *why, size_t cap);              /* end-of-run audit: no unexpected message, no unreported completion, no active non-persistent request */
typedef struct { long sends, recvs_posted, matches, testsome_calls, testsome_choices, reported, max_K, rendezvous, eager, unexpected; } vm_stats_t;
extern vm_stats_t vm_stats;
int vm_describe(char *buf, size_t cap);                /* one-line summary of in-flight state */

/* ---- the MPI entry points used by parsec_mpi_funnelled.c ---- */
int vmpi_Comm_dup(MPI_Comm comm, MPI_Comm *newcomm);
int vmpi_Comm_dup_with_info(MPI_Comm comm, MPI_Info info, MPI_Comm *newcomm);
int vmpi_Comm_free(MPI_Comm *comm);
int vmpi_Comm_rank(MPI_Comm comm, int *rank);
int vmpi_Comm_size(MPI_Comm comm, int *size);
int vmpi_Comm_get_attr(MPI_Comm comm, int keyval, void *attr, int *flag);
int vmpi_Info_create(MPI_Info *info);
int vmpi_Info_set(MPI_Info info, const char *key, const char *value);
int vmpi_Info_free(MPI_Info *info);
int vmpi_Recv_init(void *buf, int count, MPI_Datatype dt, int source, int tag, MPI_Comm comm, MPI_Request *req);
int vmpi_Start(MPI_Request *req);
int vmpi_Startall(int count, MPI_Request *reqs);
int vmpi_Irecv(void *buf, int count, MPI_Datatype dt, int source, int tag, MPI_Comm comm, MPI_Request *req);
int vmpi_Isend(const void *buf, int count, MPI_Datatype dt, int dest, int tag, MPI_Comm comm, MPI_Request *req);
int vmpi_Send(const void *buf, int count, MPI_Datatype dt, int dest, int tag, MPI_Comm comm);
int vmpi_Test(MPI_Request *req, int *flag, MPI_Status *status);
int vmpi_Testsome(int incount, MPI_Request *reqs, int *outcount, int *indices, MPI_Status *statuses);
int vmpi_Cancel(MPI_Request *req);
int vmpi_Request_free(MPI_Request *req);
int vmpi_Get_count(const MPI_Status *status, MPI_Datatype dt, int *count);
int vmpi_Pack(const void *inbuf, int incount, MPI_Datatype dt, void *outbuf, int outsize, int *position, MPI_Comm comm);
int vmpi_Unpack(const void *inbuf, int insize, int *position, void *outbuf, int outcount, MPI_Datatype dt, MPI_Comm comm);
int vmpi_Pack_size(int incount, MPI_Datatype dt, MPI_Comm comm, int *size);
int vmpi_Barrier(MPI_Comm comm);
int vmpi_Sendrecv(const void *sbuf, int scount, MPI_Datatype sdt, int dest, int stag, void *rbuf, int rcount, MPI_Datatype rdt,
                  int source, int rtag, MPI_Comm comm, MPI_Status *status);

#ifdef VMPI_REDIRECT
/* every MPI function the engine calls goes to the virtual MPI */
#define MPI_Comm_dup vmpi_Comm_dup
#define MPI_Comm_dup_with_info vmpi_Comm_dup_with_info
#define MPI_Comm_free vmpi_Comm_free
#define MPI_Comm_rank vmpi_Comm_rank
#define MPI_Comm_size vmpi_Comm_size
#define MPI_Comm_get_attr vmpi_Comm_get_attr
#define MPI_Info_create vmpi_Info_create
#define MPI_Info_set vmpi_Info_set
#define MPI_Info_free vmpi_Info_free
#define MPI_Recv_init vmpi_Recv_init
#define MPI_Start vmpi_Start
#define MPI_Startall vmpi_Startall
#define MPI_Irecv vmpi_Irecv
#define MPI_Isend vmpi_Isend
#define MPI_Send vmpi_Send
#define MPI_Test vmpi_Test
#define MPI_Testsome vmpi_Testsome
#define MPI_Cancel vmpi_Cancel
#define MPI_Request_free vmpi_Request_free
#define MPI_Get_count vmpi_Get_count
#define MPI_Pack vmpi_Pack
#define MPI_Unpack vmpi_Unpack
#define MPI_Pack_size vmpi_Pack_size
#define MPI_Barrier vmpi_Barrier
#define MPI_Sendrecv vmpi_Sendrecv
#endif
#endif
