import os
META = dict(
    engine='cosched',
    technique='stateless model checking: preemption-bounded exhaustive schedule enumeration (CHESS) of the real local termination detector driven by token-discipline scripts',
    level_text='Every schedule with <= b preemptions (b=2 quick, 3 thorough; scheduling points = every instrumented access to nb_tasks, nb_pending_actions and tdm.monitor) of 2-3 thread scripts (10 quick, 14 thorough: PTG start-up with spawning, zero crossings while busy, ready() against the last task/action, set_nb_tasks/set_runtime_actions variants, state pollers, DTD-like insertion before ready) is executed on the real module; in each the termination callback must run exactly once, only after ready() and with no unit of work held and both counters zero, taskpool_state must not return TERMINATED before the callback returned, and termination must have been reported when all threads are done.',
    level_note='Sequential consistency at instrumented accesses; <= 3 threads, <= 4 operations per thread; scripts respect the usage contract (after ready() work is added only by a holder of work; before ready() anybody may add work, as the DTD interface does; set_* only by the owner of all units of that counter). Weak-memory effects and the object reference count of the taskpool are outside the check.',
)
RULE = ("cosched: every schedule of each 2-3 thread token-discipline script over the real termdet_local module with at most b "
        "preemptions (scheduling points = every instrumented access to tp->nb_tasks, tp->nb_pending_actions, tp->tdm.monitor, "
        "plus harness hand-off points); a schedule is non-trivial when it contains at least one preemption; states = nodes of "
        "the explored schedule tree; outcomes = (thread and script step that ran the callback, sequence of polled states)")
ASSUME = ["sequential consistency at instrumented accesses (no weak-memory effects)",
          "gcc -fsanitize=thread instrumentation reports every access to the watched words",
          "callers respect the module's usage contract (token discipline after ready(); set_* by the sole owner of the counter)"]
SRC = ['termdet_h.c']
def _exes(ctx):
    return (ctx.compile('hk-shm', 'termdet', SRC, engine='cosched', cflags=['-DLEG=1']),
            ctx.compile('hk-shm', 'termdet-preready', SRC, engine='cosched', cflags=['-DLEG=2']))
def check(ctx):
    import vlib
    e1, e2 = _exes(ctx)
    q = ctx.tier == 'quick'
    env = dict(os.environ); env['C10_QUICK'] = '1' if q else '0'
    def run(exe, bound, deadline, label):
        args = ['--bound', str(bound), '--scenario', 'all', '--jobs', str(vlib.NJOBS), '--outdir', vlib.OUT, '--deadline', str(deadline)]
        ctx.run_engine(exe, args, label=label, timeout=deadline + 600, env=env)
    run(e1, 2 if q else 3, 60 if q else 780, 'contract')     # strict token discipline (DESIGN.md scripts)
    run(e2, 2 if q else 3, 25 if q else 300, 'preready')     # work added before ready() without holding a unit (DTD pattern)
    return ctx.finish(RULE, ASSUME)
def replay(ctx, path, obj):
    import subprocess
    e1, e2 = _exes(ctx)
    exe = e2 if 'preready' in obj.get('harness', '') else e1
    return subprocess.call([exe, '--replay', path])
