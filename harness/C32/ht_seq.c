/* C32 (E2/seqx leg): all sequential operation histories on the REAL parsec_hash_table.c (included into this TU)
 * against a reference map, with max_collisions_hint in {1,2}, nb_bits = 1, colliding key hashes, and the table
 * growth capped by the real MCA parameter hash_table_max_table_nb_bits so that the state space closes. */
#include "parsec/parsec_config.h"
#include "parsec/sys/atomic.h"
#include "parsec/class/parsec_hash_table.c"
#include "parsec/utils/mca_param.h"
#include "parsec/utils/output.h"
#include "seqx.h"
#include <stddef.h>

#define NK 5                       /* keys 1..NK */
#define NVAR 2
typedef struct { parsec_hash_table_item_t hi; int id; } elt_t;
typedef struct { parsec_hash_table_t *ht; elt_t e[NK + 1][NVAR]; int model[NK + 1]; /* element id or -1 */ } obj_t;
static uint64_t hv[NK + 1];
static int g_hint = 1, g_depth = 6;

static uint64_t kh(parsec_key_t k, void *d) { (void)d; return hv[(int)k]; }
static int keq(parsec_key_t a, parsec_key_t b, void *d) { (void)d; return a == b; }
static char *kpr(char *b, size_t n, parsec_key_t k, void *d) { (void)d; snprintf(b, n, "%d", (int)k); return b; }
static parsec_key_fn_t kfn = { .key_equal = keq, .key_print = kpr, .key_hash = kh };

/* ops: ins(k) [only when absent: contract], find(k), rem(k), foi(k,var) = lock_bucket; nolock_find; insert if absent; unlock_bucket */
#define OP_INS(k)  ((k) - 1)
#define OP_FIND(k) (NK + (k) - 1)
#define OP_REM(k)  (2 * NK + (k) - 1)
#define OP_FOI(k)  (3 * NK + (k) - 1)      /* inserts variant 1 */
#define NOPS (4 * NK)

static void *fresh(void)
{
    obj_t *o = calloc(1, sizeof(obj_t));
    for (int k = 0; k <= NK; k++) { o->model[k] = -1; for (int v = 0; v < NVAR; v++) { o->e[k][v].id = k * NVAR + v; o->e[k][v].hi.key = (parsec_key_t)k; } }
    o->ht = PARSEC_OBJ_NEW(parsec_hash_table_t);
    parsec_hash_table_init(o->ht, offsetof(elt_t, hi), 1, kfn, NULL);
    if (o->ht->max_collisions_hint != g_hint) { fprintf(stderr, "C32: max_collisions_hint=%d, wanted %d\n", o->ht->max_collisions_hint, g_hint); exit(2); }
    return o;
}
static void destroy(void *p)
{
    obj_t *o = p;   /* free every table without asserting emptiness (fini asserts) */
    for (parsec_hash_table_head_t *h = o->ht->rw_hash, *n; h; h = n) { n = h->next_to_free; free(h->buckets); free(h); }
    o->ht->rw_hash = NULL; free(o->ht); free(o);
}
static int id_of(obj_t *o, void *p) { if (!p) return -1; elt_t *e = p; if (e < &o->e[0][0] || e > &o->e[NK][NVAR - 1]) return -2; return e->id; }
static int enabled(void *p, int op) { obj_t *o = p; if (op < NK) return o->model[op + 1] == -1; return 1; }

typedef struct { obj_t *o; int cnt[(NK + 1) * NVAR + 1]; } vis_t;
static void visit(void *item, void *cb) { vis_t *v = cb; int id = id_of(v->o, item); if (id >= 0) v->cnt[id]++; else v->cnt[(NK + 1) * NVAR]++; }

static int oracle(obj_t *o, char *err)
{
    int present[(NK + 1) * NVAR] = {0}, lvl = 0;
    parsec_hash_table_t *ht = o->ht;
#if PARSEC_RWLOCK_IMPL == PARSEC_RWLOCK_IMPL_TICKET
    if ((ht->rw_lock.rin & 0xFF) || ht->rw_lock.rin != ht->rw_lock.rout || ht->rw_lock.win != ht->rw_lock.wout) { snprintf(err, SX_ERRLEN, "table rwlock not released"); return 1; }
#endif
    for (parsec_hash_table_head_t *h = ht->rw_hash; h; h = h->next_to_free, lvl++) {
        int linked = 0, nitems = 0, nonempty = 0;
        for (parsec_hash_table_head_t *g = ht->rw_hash; g; g = g->next) if (g == h) linked = 1;
        if (lvl > 30) { snprintf(err, SX_ERRLEN, "more than 30 tables"); return 1; }
        for (size_t b = 0; b < (1UL << h->nb_bits); b++) {
            int len = 0;
            if (h->buckets[b].lock) { snprintf(err, SX_ERRLEN, "bucket %zu of the %u-bit table left locked", b, h->nb_bits); return 1; }
            for (parsec_hash_table_item_t *it = h->buckets[b].first_item; it; it = it->next_item) {
                int id = id_of(o, parsec_hash_table_item_lookup(ht, it));
                if (id < 0) { snprintf(err, SX_ERRLEN, "bucket holds a foreign pointer"); return 1; }
                if (++len > (NK + 1) * NVAR) { snprintf(err, SX_ERRLEN, "cycle in a bucket chain"); return 1; }
                if (present[id]) { snprintf(err, SX_ERRLEN, "element %d (key %d) stored twice", id, id / NVAR); return 1; }
                present[id] = 1;
                if (parsec_hash_table_universal_rehash(hv[id / NVAR], h->nb_bits) != b) { snprintf(err, SX_ERRLEN, "key %d in the wrong bucket (%zu) of the %u-bit table", id / NVAR, b, h->nb_bits); return 1; }
            }
            if (len != h->buckets[b].cur_len) { snprintf(err, SX_ERRLEN, "bucket %zu of the %u-bit table: cur_len=%d, %d items chained", b, h->nb_bits, h->buckets[b].cur_len, len); return 1; }
            nitems += len; nonempty += len > 0;
        }
        if (!linked && nitems) { snprintf(err, SX_ERRLEN, "the %u-bit table was unlinked while holding %d item(s)", h->nb_bits, nitems); return 1; }
    }
    for (int k = 1; k <= NK; k++) {
        int got = -1, n = 0;
        for (int v = 0; v < NVAR; v++) if (present[k * NVAR + v]) { got = k * NVAR + v; n++; }
        if (n > 1) { snprintf(err, SX_ERRLEN, "key %d stored %d times", k, n); return 1; }
        if (got != o->model[k]) { snprintf(err, SX_ERRLEN, "table holds element %d for key %d, the reference map says %d (item lost or resurrected)", got, k, o->model[k]); return 1; }
    }
    vis_t v; memset(&v, 0, sizeof(v)); v.o = o;
    parsec_hash_table_for_all(ht, visit, &v);
    if (v.cnt[(NK + 1) * NVAR]) { snprintf(err, SX_ERRLEN, "for_all visited a foreign pointer"); return 1; }
    for (int i = NVAR; i < (NK + 1) * NVAR; i++) if (v.cnt[i] != present[i]) { snprintf(err, SX_ERRLEN, "for_all visited element %d (key %d) %d time(s), stored %d time(s)", i, i / NVAR, v.cnt[i], present[i]); return 1; }
    return 0;
}

static int apply(void *p, int op, char *err)
{
    obj_t *o = p; parsec_hash_table_t *ht = o->ht; int k = op % NK + 1;
    switch (op / NK) {
    case 0: parsec_hash_table_insert(ht, &o->e[k][0].hi); o->model[k] = k * NVAR; break;
    case 1: { int id = id_of(o, parsec_hash_table_find(ht, (parsec_key_t)k)); if (id != o->model[k]) { snprintf(err, SX_ERRLEN, "find(%d) returned %d, reference map says %d", k, id, o->model[k]); return 1; } } break;
    case 2: { int id = id_of(o, parsec_hash_table_remove(ht, (parsec_key_t)k)); if (id != o->model[k]) { snprintf(err, SX_ERRLEN, "remove(%d) returned %d, reference map says %d", k, id, o->model[k]); return 1; } o->model[k] = -1; } break;
    case 3: {
        parsec_key_handle_t kh_;
        parsec_hash_table_lock_bucket_handle(ht, (parsec_key_t)k, &kh_);
        int id = id_of(o, parsec_hash_table_nolock_find_handle(ht, &kh_));
        if (id != o->model[k]) { snprintf(err, SX_ERRLEN, "nolock_find(%d) under lock_bucket returned %d, reference map says %d", k, id, o->model[k]); return 1; }
        if (id == -1) { parsec_hash_table_nolock_insert_handle(ht, &kh_, &o->e[k][1].hi); o->model[k] = k * NVAR + 1; }
        parsec_hash_table_unlock_bucket_handle(ht, &kh_);
    } break;
    }
    return oracle(o, err);
}

/* canonical state: every allocated table (newest first): bits, linked flag, per bucket the chained element ids in order */
static size_t canon(void *p, char *b, size_t cap)
{
    obj_t *o = p; size_t n = 0;
    for (parsec_hash_table_head_t *h = o->ht->rw_hash; h && n + 64 < cap; h = h->next_to_free) {
        int linked = 0; for (parsec_hash_table_head_t *g = o->ht->rw_hash; g; g = g->next) if (g == h) linked = 1;
        int any = 0; for (size_t i = 0; i < (1UL << h->nb_bits); i++) if (h->buckets[i].first_item) any = 1;
        if (!any && !linked && h != o->ht->rw_hash) continue;        /* dead table: only waits for fini */
        n += snprintf(b + n, cap - n, "T%u%c", h->nb_bits, linked ? 'l' : 'u');
        if (h != o->ht->rw_hash) n += snprintf(b + n, cap - n, "u%d", h->used_buckets);
        for (size_t i = 0; i < (1UL << h->nb_bits) && n + 32 < cap; i++) {
            if (!h->buckets[i].first_item) continue;
            n += snprintf(b + n, cap - n, "[%zu:", i);
            int guard = 0;
            for (parsec_hash_table_item_t *it = h->buckets[i].first_item; it && guard++ < 16 && n + 8 < cap; it = it->next_item) n += snprintf(b + n, cap - n, "%d,", id_of(o, parsec_hash_table_item_lookup(o->ht, it)));
            b[n++] = ']';
        }
    }
    n += snprintf(b + n, cap - n, "w%d", o->ht->warning_issued);
    return n;
}
static void opname(int op, char *b, size_t cap) { static const char *n[] = { "ins", "find", "rem", "foi" }; snprintf(b, cap, "%s%d", n[op / NK], op % NK + 1); }

static void set_mca_int(const char *name, int v)
{
    int idx = parsec_mca_param_find("parsec", NULL, name);
    if (idx < 0 || parsec_mca_param_set_int(idx, v) < 0) { fprintf(stderr, "C32: cannot set MCA parameter %s\n", name); exit(2); }
}

int main(int argc, char **argv)
{
    sx_init(argc, argv, "C32");
    parsec_mca_param_init();
    if (parsec_hash_tables_init() != PARSEC_SUCCESS) return 2;
    parsec_output_set_verbosity(0, -1);                      /* the "table cannot grow any more" warning is expected here: keep stderr readable */
    set_mca_int("hash_table_max_table_nb_bits", 5);           /* tables grow to at most 4 bits (16 buckets): the state space closes */
    /* hash values, searched with the table's own rehash function: all keys in one bucket of the 2-bucket table */
    static const int want[NK + 1][2] = { {0,0}, {0,0}, {1,0}, {0,1}, {0,0}, {0,0} };
    int B1 = (int)parsec_hash_table_universal_rehash((parsec_key_t)1, 1); uint64_t h = 1;
    for (int k = 1; k <= NK; k++) {
        if (k == 4) { hv[4] = hv[1]; continue; }               /* two different keys, same 64-bit hash */
        for (;; h++) {
            int b1 = (int)parsec_hash_table_universal_rehash((parsec_key_t)h, 1), b2 = (int)parsec_hash_table_universal_rehash((parsec_key_t)h, 2), b3 = (int)parsec_hash_table_universal_rehash((parsec_key_t)h, 3);
            if (b1 == B1 && (b2 >> 1) == want[k][0] && (b3 >> 2) == want[k][1]) { hv[k] = h++; break; }
            if (h > 1000000) return 2;
        }
    }
    char nm[2][64]; sx_system_t sys[2];
    for (int i = 0; i < 2; i++) {
        snprintf(nm[i], sizeof(nm[i]), "seq_hint%d", i + 1);
        sx_system_t s = { nm[i], NOPS, fresh, destroy, enabled, apply, canon, opname, sx_tier_thorough ? 0 : g_depth, 0 };
        sys[i] = s;
    }
    if (sx_replay_file) {
        char sc[128], hs[4096]; if (sx_read_replay(sx_replay_file, sc, sizeof(sc), hs, sizeof(hs))) return 2;
        g_hint = (strstr(sc, "hint2") != NULL) ? 2 : 1; set_mca_int("hash_table_max_collisions_hint", g_hint);
        return sx_replay_named(&sys[g_hint - 1], hs);
    }
    for (g_hint = 1; g_hint <= 2; g_hint++) {
        set_mca_int("hash_table_max_collisions_hint", g_hint);
        sx_stats_t st; sx_bfs(&sys[g_hint - 1], &st);
    }
    return sx_finish();
}
