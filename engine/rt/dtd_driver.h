/* dtd_driver (E4/E5): a table-driven DTD program interpreter + sequential reference model.
 *
 * A program is an insertion list: task i = 1..3 data parameters (tile index, mode R / W(=OUTPUT) / RW(=INOUT)),
 * optionally the same tile twice in one task (R,R / R,RW / RW,R / R,W / W,R ; never two writes of one tile in one
 * task, never W,R,W: documented as unsupported in insert_function.c), an optional extra VALUE parameter, an
 * optional placement rank (VALUE|AFFINITY) for multi-rank runs, and optionally a "generator" position g:
 * the main thread inserts tasks 0..g-1 and then a data-less generator task whose BODY inserts tasks g..n-1
 * (task inserting tasks; insertion order stays the program order).
 *
 * Every tile holds one int64. The body of task t reads every readable parameter (R / RW), logs what it saw, and then
 * writes into every writable parameter k:  dd_mix(t, k, xval, values read in parameter order).
 * The reference model executes the list in insertion order and yields the expected observation of every body
 * and the final tile values.
 *
 * Header-only; include in exactly one TU. The real DTD code of /repo is driven through its public API only
 * (parsec_dtd_taskpool_new, parsec_dtd_insert_task / parsec_dtd_create_task_class + insert_task_with_task_class,
 *  parsec_dtd_tile_of, parsec_dtd_data_flush(_all), parsec_taskpool_wait / _test).
 */
#ifndef DTD_DRIVER_H
#define DTD_DRIVER_H
#include "parsec/runtime.h"
#include "parsec/parsec_internal.h"
#include "parsec/execution_stream.h"
#include "parsec/data_internal.h"
#include "parsec/arena.h"
#include "parsec/mempool.h"
#include "parsec/class/lifo.h"
#include "parsec/interfaces/dtd/insert_function.h"
#include "parsec/interfaces/dtd/insert_function_internal.h"
#include "vdc.h"
#include <stdio.h>
#include <stdlib.h>
#include <string.h>
#include <stdint.h>
#include <sched.h>
#include <signal.h>

#define DD_MAXT 8
#define DD_MAXP 3
#define DD_MAXTILES 4
enum { DD_R = 0, DD_W = 1, DD_RW = 2 };
static const char *dd_mode_name[3] = { "R", "W", "RW" };
static const int dd_mode_flag[3] = { PARSEC_INPUT, PARSEC_OUTPUT, PARSEC_INOUT };

typedef struct { uint8_t np, tile[DD_MAXP], mode[DD_MAXP], xval; int8_t rank; } dd_task_t;
typedef struct { int nt, ntiles; dd_task_t t[DD_MAXT]; int8_t owner[DD_MAXTILES]; } dd_prog_t;
typedef struct {
    int window, threshold;      /* 0 = library default (8000/4000) */
    int api;                    /* 0 = parsec_dtd_insert_task(function pointer), 1 = explicit task classes */
    int gen_at;                 /* -1 = none; else the generator task takes over at this task index */
    int flush_mask;             /* -1 = flush_all only; else: data_flush of exactly these tiles + wait + check, then flush_all + wait */
    int spin;                   /* busy iterations between enter and exit of a body (C04 free-running legs) */
} dd_cfg_t;

/* ------------------------------------------------------------------ reference model */
static inline int64_t dd_mix(int t, int k, int xv, const int64_t *rd, int nrd)
{
    uint64_t h = 0x9E3779B97F4A7C15ULL * (uint64_t)(t + 1) + 0xC2B2AE3D27D4EB4FULL * (uint64_t)(k + 1) + (uint64_t)xv * 0x165667B19E3779F9ULL;
    for (int i = 0; i < nrd; i++) { h ^= (uint64_t)rd[i] + 0x9E3779B97F4A7C15ULL + (h << 6) + (h >> 2); h *= 0xff51afd7ed558ccdULL; h ^= h >> 31; }
    return (int64_t)(h & 0x3fffffffffffLL) + 7;    /* positive, never equal to an initial value */
}
static inline int64_t dd_init_value(int tile) { return 1000 + tile; }
static inline int dd_xval_of(int t) { return 40 + 3 * t; }

typedef struct { int64_t seen[DD_MAXT][DD_MAXP]; int64_t final[DD_MAXTILES]; int last_writer[DD_MAXTILES]; } dd_ref_t;
static void dd_reference(const dd_prog_t *p, dd_ref_t *r)
{
    int64_t v[DD_MAXTILES];
    for (int i = 0; i < DD_MAXTILES; i++) { v[i] = dd_init_value(i); r->last_writer[i] = -1; }
    for (int t = 0; t < p->nt; t++) {
        const dd_task_t *T = &p->t[t]; int64_t rd[DD_MAXP]; int nrd = 0;
        for (int k = 0; k < T->np; k++) { r->seen[t][k] = v[T->tile[k]]; if (T->mode[k] != DD_W) rd[nrd++] = v[T->tile[k]]; }
        for (int k = 0; k < T->np; k++) if (T->mode[k] != DD_R) { v[T->tile[k]] = dd_mix(t, k, T->xval ? dd_xval_of(t) : 0, rd, nrd); r->last_writer[T->tile[k]] = t; }
    }
    for (int i = 0; i < DD_MAXTILES; i++) r->final[i] = v[i];
}

/* ------------------------------------------------------------------ task alphabet / program enumeration */
/* a task is valid when, per tile: at most 2 uses (3 with allow3), at most one of them writable */
static int dd_task_valid(const dd_task_t *T, int allow3)
{
    for (int a = 0; a < DD_MAXTILES; a++) {
        int uses = 0, wr = 0;
        for (int k = 0; k < T->np; k++) if (T->tile[k] == a) { uses++; if (T->mode[k] != DD_R) wr++; }
        if (uses > (allow3 ? 3 : 2) || wr > 1) return 0;
    }
    return 1;
}
/* all valid tasks with 1..maxp parameters over ntiles tiles; modes from the given set (bitmask of 1<<mode);
 * dupw_rw_only: when a tile is used twice, its writable use must be RW (quick alphabet), else W or RW */
static int dd_alphabet(dd_task_t *out, int cap, int ntiles, int maxp, int dupw_rw_only, int allow3)
{
    int n = 0;
    for (int np = 1; np <= maxp; np++) {
        int combos = 1; for (int k = 0; k < np; k++) combos *= ntiles * 3;
        for (int c = 0; c < combos; c++) {
            dd_task_t T; memset(&T, 0, sizeof(T)); T.np = (uint8_t)np; T.rank = -1; int x = c;
            for (int k = 0; k < np; k++) { int d = x % (ntiles * 3); x /= ntiles * 3; T.tile[k] = (uint8_t)(d / 3); T.mode[k] = (uint8_t)(d % 3); }
            if (!dd_task_valid(&T, allow3)) continue;
            if (dupw_rw_only) {
                int bad = 0;
                for (int k = 0; k < np; k++) if (T.mode[k] == DD_W) for (int j = 0; j < np; j++) if (j != k && T.tile[j] == T.tile[k]) bad = 1;
                if (bad) continue;
            }
            if (n >= cap) { fprintf(stderr, "dd_alphabet: capacity\n"); abort(); }
            out[n++] = T;
        }
    }
    return n;
}
/* canonical under tile renaming: tiles appear in first-use order 0,1,2... and every tile < ntiles_used is used */
static int dd_prog_canonical(const dd_prog_t *p)
{
    int next = 0;
    for (int t = 0; t < p->nt; t++) for (int k = 0; k < p->t[t].np; k++) { int a = p->t[t].tile[k]; if (a > next) return 0; if (a == next) next++; }
    return 1;
}
static int dd_task_has_dup(const dd_task_t *T) { for (int k = 0; k < T->np; k++) for (int j = k + 1; j < T->np; j++) if (T->tile[j] == T->tile[k]) return 1; return 0; }
static int dd_prog_has_dup(const dd_prog_t *p) { for (int t = 0; t < p->nt; t++) if (dd_task_has_dup(&p->t[t])) return 1; return 0; }
static int dd_prog_tiles_used(const dd_prog_t *p)
{
    int m = 0; for (int t = 0; t < p->nt; t++) for (int k = 0; k < p->t[t].np; k++) if (p->t[t].tile[k] + 1 > m) m = p->t[t].tile[k] + 1; return m;
}
/* odometer over programs of exactly nt tasks from an alphabet; idx[] in/out; returns 0 when exhausted */
static int dd_prog_from_idx(dd_prog_t *p, const dd_task_t *alpha, const int *idx, int nt, int ntiles)
{
    memset(p, 0, sizeof(*p)); p->nt = nt; p->ntiles = ntiles;
    for (int t = 0; t < nt; t++) p->t[t] = alpha[idx[t]];
    for (int i = 0; i < DD_MAXTILES; i++) p->owner[i] = 0;
    return 1;
}
static int dd_odometer_next(int *idx, int nt, int na)
{
    for (int t = nt - 1; t >= 0; t--) { if (++idx[t] < na) return 1; idx[t] = 0; }
    return 0;
}

/* ------------------------------------------------------------------ printing / parsing (replay files, samples) */
/* "Ra.RWb|Wa|Rb.Ra x=101 rk=0,1,-1 own=0,1" : tasks separated by '|', params by '.', x flags per task, ranks, owners */
static int dd_prog_print(const dd_prog_t *p, char *b, size_t cap)
{
    size_t o = 0;
    for (int t = 0; t < p->nt; t++) {
        if (t) o += snprintf(b + o, cap - o, "|");
        for (int k = 0; k < p->t[t].np; k++) o += snprintf(b + o, cap - o, "%s%s%c", k ? "." : "", dd_mode_name[p->t[t].mode[k]], 'a' + p->t[t].tile[k]);
    }
    int anyx = 0, anyr = 0, anyo = 0;
    for (int t = 0; t < p->nt; t++) { if (p->t[t].xval) anyx = 1; if (p->t[t].rank >= 0) anyr = 1; }
    for (int i = 0; i < p->ntiles; i++) if (p->owner[i]) anyo = 1;
    if (anyx) { o += snprintf(b + o, cap - o, " x="); for (int t = 0; t < p->nt; t++) o += snprintf(b + o, cap - o, "%d", p->t[t].xval); }
    if (anyr) { o += snprintf(b + o, cap - o, " rk="); for (int t = 0; t < p->nt; t++) o += snprintf(b + o, cap - o, "%s%d", t ? "," : "", p->t[t].rank); }
    if (anyo || anyr) { o += snprintf(b + o, cap - o, " own="); for (int i = 0; i < p->ntiles; i++) o += snprintf(b + o, cap - o, "%s%d", i ? "," : "", p->owner[i]); }
    return (int)o;
}
static int dd_prog_parse(dd_prog_t *p, const char *s)
{
    memset(p, 0, sizeof(*p)); int t = 0, k = 0;
    for (int i = 0; i < DD_MAXT; i++) p->t[i].rank = -1;
    const char *c = s;
    while (*c && *c != ' ') {
        if (*c == '|') { p->t[t].np = (uint8_t)k; t++; k = 0; c++; continue; }
        if (*c == '.') { c++; continue; }
        int mode;
        if (c[0] == 'R' && c[1] == 'W') { mode = DD_RW; c += 2; } else if (c[0] == 'R') { mode = DD_R; c++; } else if (c[0] == 'W') { mode = DD_W; c++; } else return -1;
        if (*c < 'a' || *c >= 'a' + DD_MAXTILES || t >= DD_MAXT || k >= DD_MAXP) return -1;
        p->t[t].tile[k] = (uint8_t)(*c - 'a'); p->t[t].mode[k] = (uint8_t)mode; k++; c++;
    }
    p->t[t].np = (uint8_t)k; p->nt = t + 1;
    p->ntiles = dd_prog_tiles_used(p);
    const char *q;
    if ((q = strstr(s, " x="))) { q += 3; for (int i = 0; i < p->nt && (q[i] == '0' || q[i] == '1'); i++) p->t[i].xval = (uint8_t)(q[i] - '0'); }
    if ((q = strstr(s, " rk="))) { q += 4; for (int i = 0; i < p->nt; i++) { p->t[i].rank = (int8_t)strtol(q, (char **)&q, 10); if (*q == ',') q++; } }
    if ((q = strstr(s, " own="))) { q += 5; for (int i = 0; i < DD_MAXTILES && *q && *q != ' '; i++) { p->owner[i] = (int8_t)strtol(q, (char **)&q, 10); if (i + 1 > p->ntiles) p->ntiles = i + 1; if (*q == ',') q++; } }
    return 0;
}

/* ------------------------------------------------------------------ execution log (filled by the bodies) */
typedef struct {
    int32_t count;                       /* number of executions of the body */
    int32_t th, rank;
    int64_t seen[DD_MAXP];
    int64_t enter, exit;                 /* global stamps */
    int32_t conflict;                    /* bit0: writer saw another writer inside, bit1: writer saw a reader inside, bit2: reader saw a writer inside */
    int32_t with_reader;                 /* a reader saw another reader of the same tile inside (allowed; witness) */
} dd_tlog_t;
static dd_tlog_t dd_log[DD_MAXT];
static int32_t dd_gen_count;
static int64_t dd_stamp;
static int32_t dd_writers_in[DD_MAXTILES], dd_readers_in[DD_MAXTILES];
static const dd_prog_t *dd_cur_prog; static const dd_cfg_t *dd_cur_cfg;
static parsec_data_collection_t *dd_cur_dc;
static int dd_arena_id = 0;              /* region index or'ed into every flow (needed for multi-rank) */
static int dd_myrank = 0, dd_nranks = 1;
/* hooks for the harnesses */
static void (*dd_hook_before_insert)(parsec_taskpool_t *tp, int next_task /* nt = flush */) = NULL;
static void (*dd_hook_body_inside)(int tid) = NULL;     /* called between enter and exit (hold point) */
static void (*dd_hook_after_insert)(void) = NULL;       /* after every insertion / flush call made by the main thread */
static void (*dd_hook_before_wait)(void) = NULL;        /* before every parsec_taskpool_wait */
static parsec_task_class_t *dd_classes[256]; static int dd_nclasses_made;
static parsec_task_class_t *dd_class_tab[27 * 12];

static void dd_insert_one(parsec_taskpool_t *tp, int t);

static inline void dd_body_core(parsec_execution_stream_t *es, int tid, int64_t **ptr)
{
    const dd_task_t *T = &dd_cur_prog->t[tid]; dd_tlog_t *L = &dd_log[tid];
    /* per task and tile: strongest mode */
    int strongest[DD_MAXTILES]; for (int a = 0; a < DD_MAXTILES; a++) strongest[a] = -1;
    for (int k = 0; k < T->np; k++) { int a = T->tile[k]; if (T->mode[k] != DD_R) strongest[a] = 1; else if (strongest[a] < 0) strongest[a] = 0; }
    L->enter = __atomic_add_fetch(&dd_stamp, 1, __ATOMIC_SEQ_CST);
    for (int a = 0; a < DD_MAXTILES; a++) {
        if (strongest[a] == 1) {
            if (__atomic_fetch_add(&dd_writers_in[a], 1, __ATOMIC_SEQ_CST) != 0) L->conflict |= 1;
            if (__atomic_load_n(&dd_readers_in[a], __ATOMIC_SEQ_CST) != 0) L->conflict |= 2;
        } else if (strongest[a] == 0) {
            if (__atomic_fetch_add(&dd_readers_in[a], 1, __ATOMIC_SEQ_CST) != 0) L->with_reader = 1;
            if (__atomic_load_n(&dd_writers_in[a], __ATOMIC_SEQ_CST) != 0) L->conflict |= 4;
        }
    }
    int64_t rd[DD_MAXP]; int nrd = 0;
    for (int k = 0; k < T->np; k++) { L->seen[k] = *ptr[k]; if (T->mode[k] != DD_W) rd[nrd++] = *ptr[k]; }
    if (dd_hook_body_inside) dd_hook_body_inside(tid);
    for (volatile int s = 0; s < dd_cur_cfg->spin; s++) { if ((s & 63) == 63) sched_yield(); }
    /* re-read: a conflicting writer running at the same time changes what we see */
    for (int k = 0; k < T->np; k++) if (T->mode[k] != DD_W && *ptr[k] != L->seen[k]) L->conflict |= 8;
    for (int k = 0; k < T->np; k++) if (T->mode[k] != DD_R) *ptr[k] = dd_mix(tid, k, T->xval ? dd_xval_of(tid) : 0, rd, nrd);
    for (int a = 0; a < DD_MAXTILES; a++) {
        if (strongest[a] == 1) __atomic_fetch_sub(&dd_writers_in[a], 1, __ATOMIC_SEQ_CST);
        else if (strongest[a] == 0) __atomic_fetch_sub(&dd_readers_in[a], 1, __ATOMIC_SEQ_CST);
    }
    L->th = es->th_id; L->rank = dd_myrank;
    L->exit = __atomic_add_fetch(&dd_stamp, 1, __ATOMIC_SEQ_CST);
    __atomic_fetch_add(&L->count, 1, __ATOMIC_SEQ_CST);
}

/* The body: parameter list is [VALUE tid] [VALUE|AFFINITY rank]? flows... [VALUE x]? */
static int dd_body(parsec_execution_stream_t *es, parsec_task_t *this_task)
{
    int tid = -1, rk = -1, xv = -1; int64_t *p[DD_MAXP] = { NULL, NULL, NULL };
    parsec_dtd_unpack_args(this_task, &tid);
    if (tid < 0 || tid >= dd_cur_prog->nt) { fprintf(stderr, "dd_body: bad task id %d\n", tid); abort(); }
    const dd_task_t *T = &dd_cur_prog->t[tid];
    void *a[8]; int n = 0;
    a[n++] = &tid; if (T->rank >= 0) a[n++] = &rk;
    for (int k = 0; k < T->np; k++) a[n++] = &p[k];
    if (T->xval) a[n++] = &xv;
    while (n < 8) a[n++] = NULL;
    parsec_dtd_unpack_args(this_task, a[0], a[1], a[2], a[3], a[4], a[5], a[6]);
    if (T->xval && xv != dd_xval_of(tid)) { fprintf(stderr, "dd_body: VALUE parameter of task %d corrupted (%d)\n", tid, xv); dd_log[tid].conflict |= 16; }
    if (T->rank >= 0 && rk != T->rank) dd_log[tid].conflict |= 16;
    for (int k = 0; k < T->np; k++) if (NULL == p[k]) {      /* the runtime handed the body a NULL data pointer: what a user body would dereference */
        fprintf(stderr, "dd_body: NULL data pointer for parameter %d of task %d\n", k, tid); fflush(stderr); raise(SIGSEGV);
    }
    dd_body_core(es, tid, p);
    return PARSEC_HOOK_RETURN_DONE;
}
/* distinct entry points: one per parameter signature, because parsec_dtd_insert_task() caches the task class by
 * (function pointer + number of flows) and sizes the task from the FIRST parameter list it saw for that key */
#define DD_W4(n) static int __attribute__((aligned(16), noinline)) dd_body_##n(parsec_execution_stream_t *es, parsec_task_t *t) { __asm__ volatile("" :: "r"(n)); return dd_body(es, t); }
DD_W4(0) DD_W4(1) DD_W4(2) DD_W4(3) DD_W4(4) DD_W4(5) DD_W4(6) DD_W4(7) DD_W4(8) DD_W4(9) DD_W4(10) DD_W4(11)
typedef int (dd_fn_t)(parsec_execution_stream_t *, parsec_task_t *);
static dd_fn_t *dd_body_tab[12] = { dd_body_0, dd_body_1, dd_body_2, dd_body_3, dd_body_4, dd_body_5, dd_body_6, dd_body_7, dd_body_8, dd_body_9, dd_body_10, dd_body_11 };
/* shape index: (np-1) + 3*xval + 6*has_rank : parameter COUNT and SIZES are fixed per entry point; access modes vary per call,
 * as in tests/dsl/dtd (same kernel inserted with different tiles / modes) */
static inline int dd_shape(const dd_task_t *T) { return (T->np - 1) + 3 * (T->xval ? 1 : 0) + 6 * (T->rank >= 0 ? 1 : 0); }

static int dd_gen_body(parsec_execution_stream_t *es, parsec_task_t *this_task)
{
    int from = -1; (void)es;
    parsec_dtd_unpack_args(this_task, &from);
    __atomic_fetch_add(&dd_gen_count, 1, __ATOMIC_SEQ_CST);
    for (int t = from; t < dd_cur_prog->nt; t++) {
        if (dd_hook_before_insert) dd_hook_before_insert(this_task->taskpool, t);
        dd_insert_one(this_task->taskpool, t);
    }
    return PARSEC_HOOK_RETURN_DONE;
}

/* class signature index for api=1: shape * 27 + modes (base 3) */
static parsec_task_class_t *dd_class_of(parsec_taskpool_t *tp, const dd_task_t *T)
{
    int sig = 0; for (int k = 0; k < T->np; k++) sig = sig * 3 + T->mode[k];
    sig += 27 * dd_shape(T);
    if (sig >= 27 * 12) abort();
    parsec_task_class_t **tab = dd_class_tab;
    if (tab[sig]) return tab[sig];
    int m[DD_MAXP]; for (int k = 0; k < DD_MAXP; k++) m[k] = (k < T->np ? dd_mode_flag[T->mode[k]] : 0) | dd_arena_id;
    parsec_task_class_t *tc = NULL;
#define DDV sizeof(int), PARSEC_VALUE
#define DDA sizeof(int), PARSEC_VALUE | PARSEC_AFFINITY
#define DDF(k) PASSED_BY_REF, m[k]
    int hr = T->rank >= 0, hx = T->xval;
    if (!hr && !hx) {
        if (T->np == 1) tc = parsec_dtd_create_task_class(tp, "T", DDV, DDF(0), PARSEC_DTD_ARG_END);
        else if (T->np == 2) tc = parsec_dtd_create_task_class(tp, "T", DDV, DDF(0), DDF(1), PARSEC_DTD_ARG_END);
        else tc = parsec_dtd_create_task_class(tp, "T", DDV, DDF(0), DDF(1), DDF(2), PARSEC_DTD_ARG_END);
    } else if (!hr && hx) {
        if (T->np == 1) tc = parsec_dtd_create_task_class(tp, "T", DDV, DDF(0), DDV, PARSEC_DTD_ARG_END);
        else if (T->np == 2) tc = parsec_dtd_create_task_class(tp, "T", DDV, DDF(0), DDF(1), DDV, PARSEC_DTD_ARG_END);
        else tc = parsec_dtd_create_task_class(tp, "T", DDV, DDF(0), DDF(1), DDF(2), DDV, PARSEC_DTD_ARG_END);
    } else if (hr && !hx) {
        if (T->np == 1) tc = parsec_dtd_create_task_class(tp, "T", DDV, DDA, DDF(0), PARSEC_DTD_ARG_END);
        else if (T->np == 2) tc = parsec_dtd_create_task_class(tp, "T", DDV, DDA, DDF(0), DDF(1), PARSEC_DTD_ARG_END);
        else tc = parsec_dtd_create_task_class(tp, "T", DDV, DDA, DDF(0), DDF(1), DDF(2), PARSEC_DTD_ARG_END);
    } else {
        if (T->np == 1) tc = parsec_dtd_create_task_class(tp, "T", DDV, DDA, DDF(0), DDV, PARSEC_DTD_ARG_END);
        else if (T->np == 2) tc = parsec_dtd_create_task_class(tp, "T", DDV, DDA, DDF(0), DDF(1), DDV, PARSEC_DTD_ARG_END);
        else tc = parsec_dtd_create_task_class(tp, "T", DDV, DDA, DDF(0), DDF(1), DDF(2), DDV, PARSEC_DTD_ARG_END);
    }
    if (!tc) { fprintf(stderr, "dd: create_task_class failed\n"); abort(); }
    parsec_dtd_task_class_add_chore(tp, tc, PARSEC_DEV_CPU, (void *)dd_body);
    tab[sig] = tc;
    if (dd_nclasses_made >= 256) abort();
    dd_classes[dd_nclasses_made++] = tc;
    return tc;
}

/* --norecycle: keep completed task objects out of circulation while the taskpool lives. Before an insertion the
 * free list (of the inserting thread) of the task class about to be used is emptied into a side list that is given
 * back at the end of the run. Work-around for the stale tile->last_user.task pointer comparison (finding
 * C03-stale-last-user-aba): with it no new task can have the address of a completed one. */
static int dd_norecycle = 0;
typedef struct { parsec_thread_mempool_t *tm; parsec_list_item_t *elt; } dd_parked_t;
static dd_parked_t dd_parked[512]; static volatile int dd_nparked = 0; static volatile int dd_park_lock = 0;
static void dd_drain_class(parsec_task_class_t *tc)
{
    parsec_dtd_task_class_t *d = (parsec_dtd_task_class_t *)tc;
    if (!tc || !d->local_task_mempool.thread_mempools) return;
    parsec_execution_stream_t *es = parsec_my_execution_stream();
    parsec_thread_mempool_t *tm = d->local_task_mempool.thread_mempools + es->th_id;
    parsec_list_item_t *it;
    while ((it = parsec_lifo_pop(&tm->mempool)) != NULL) {
        while (__atomic_exchange_n(&dd_park_lock, 1, __ATOMIC_ACQUIRE)) ;
        if (dd_nparked >= 512) { fprintf(stderr, "dd: parked list full\n"); abort(); }
        dd_parked[dd_nparked].tm = tm; dd_parked[dd_nparked].elt = it; dd_nparked++;
        __atomic_store_n(&dd_park_lock, 0, __ATOMIC_RELEASE);
    }
}
static void dd_unpark_all(void)
{
    for (int i = 0; i < dd_nparked; i++) parsec_lifo_push(&dd_parked[i].tm->mempool, dd_parked[i].elt);
    dd_nparked = 0;
}
static void dd_insert_one(parsec_taskpool_t *tp, int t)
{
    const dd_task_t *T = &dd_cur_prog->t[t];
    if (dd_norecycle) {
        if (dd_cur_cfg->api == 0) dd_drain_class((parsec_task_class_t *)parsec_dtd_find_task_class((parsec_dtd_taskpool_t *)tp, (uint64_t)(uintptr_t)dd_body_tab[dd_shape(T)] + (uint64_t)T->np));
        else dd_drain_class(dd_class_of(tp, T));
    }
    int tid = t, rk = T->rank, xv = dd_xval_of(t);
    parsec_dtd_tile_t *tl[DD_MAXP]; int m[DD_MAXP];
    for (int k = 0; k < DD_MAXP; k++) { tl[k] = NULL; m[k] = 0; }
    for (int k = 0; k < T->np; k++) { tl[k] = parsec_dtd_tile_of(dd_cur_dc, (parsec_data_key_t)T->tile[k]); m[k] = dd_mode_flag[T->mode[k]] | dd_arena_id; }
    int hr = T->rank >= 0, hx = T->xval;
    if (dd_cur_cfg->api == 0) {
        parsec_dtd_funcptr_t *f = (parsec_dtd_funcptr_t *)dd_body_tab[dd_shape(T)];
#define IV(v) sizeof(int), &v, PARSEC_VALUE
#define IA(v) sizeof(int), &v, PARSEC_VALUE | PARSEC_AFFINITY
#define IF(k) PASSED_BY_REF, tl[k], m[k]
#define INS(...) parsec_dtd_insert_task(tp, f, 0, PARSEC_DEV_CPU, "T", __VA_ARGS__, PARSEC_DTD_ARG_END)
        if (!hr && !hx) { if (T->np == 1) INS(IV(tid), IF(0)); else if (T->np == 2) INS(IV(tid), IF(0), IF(1)); else INS(IV(tid), IF(0), IF(1), IF(2)); }
        else if (!hr && hx) { if (T->np == 1) INS(IV(tid), IF(0), IV(xv)); else if (T->np == 2) INS(IV(tid), IF(0), IF(1), IV(xv)); else INS(IV(tid), IF(0), IF(1), IF(2), IV(xv)); }
        else if (hr && !hx) { if (T->np == 1) INS(IV(tid), IA(rk), IF(0)); else if (T->np == 2) INS(IV(tid), IA(rk), IF(0), IF(1)); else INS(IV(tid), IA(rk), IF(0), IF(1), IF(2)); }
        else { if (T->np == 1) INS(IV(tid), IA(rk), IF(0), IV(xv)); else if (T->np == 2) INS(IV(tid), IA(rk), IF(0), IF(1), IV(xv)); else INS(IV(tid), IA(rk), IF(0), IF(1), IF(2), IV(xv)); }
    } else {
        parsec_task_class_t *tc = dd_class_of(tp, T);
#define CV(v) PARSEC_DTD_EMPTY_FLAG, &v
#define CF(k) PARSEC_DTD_EMPTY_FLAG, tl[k]
#define CINS(...) parsec_dtd_insert_task_with_task_class(tp, tc, 0, PARSEC_DEV_CPU, __VA_ARGS__, PARSEC_DTD_ARG_END)
        if (!hr && !hx) { if (T->np == 1) CINS(CV(tid), CF(0)); else if (T->np == 2) CINS(CV(tid), CF(0), CF(1)); else CINS(CV(tid), CF(0), CF(1), CF(2)); }
        else if (!hr && hx) { if (T->np == 1) CINS(CV(tid), CF(0), CV(xv)); else if (T->np == 2) CINS(CV(tid), CF(0), CF(1), CV(xv)); else CINS(CV(tid), CF(0), CF(1), CF(2), CV(xv)); }
        else if (hr && !hx) { if (T->np == 1) CINS(CV(tid), CV(rk), CF(0)); else if (T->np == 2) CINS(CV(tid), CV(rk), CF(0), CF(1)); else CINS(CV(tid), CV(rk), CF(0), CF(1), CF(2)); }
        else { if (T->np == 1) CINS(CV(tid), CV(rk), CF(0), CV(xv)); else if (T->np == 2) CINS(CV(tid), CV(rk), CF(0), CF(1), CV(xv)); else CINS(CV(tid), CV(rk), CF(0), CF(1), CF(2), CV(xv)); }
    }
}

/* ------------------------------------------------------------------ environment + one run */
typedef struct { parsec_context_t *ctx; vdc_t *dc; int ntiles; } dd_env_t;
typedef struct { int64_t final[DD_MAXTILES]; int64_t after_partial[DD_MAXTILES]; int partial_done; } dd_res_t;

static void dd_env_init(dd_env_t *e, parsec_context_t *ctx, int ntiles)
{
    e->ctx = ctx; e->ntiles = ntiles; e->dc = NULL;
    dd_myrank = ctx->my_rank; dd_nranks = ctx->nb_nodes;
    /* the DTD MCA parameters (hash table sizes...) are read by the first parsec_dtd_taskpool_new(): do that before
     * any parsec_dtd_data_collection_init() so that dtd_tile_hash_size is honoured */
    parsec_taskpool_t *dummy = parsec_dtd_taskpool_new(); parsec_taskpool_free(dummy);
    /* the context is started by the first dd_run AFTER its taskpool was added: parsec_context_start() wakes the workers
     * before it takes its own reference on active_taskpools, so a worker woken with no taskpool enqueued can see
     * "all tasks done", leave for the final barrier and stay away for the whole epoch */
}
/* (re)create the data collection for a given owner map (only needed when owners change) */
static void dd_env_set_owners(dd_env_t *e, const int8_t *owner)
{
    uint32_t ow[DD_MAXTILES]; int same = (e->dc != NULL);
    for (int i = 0; i < e->ntiles; i++) { ow[i] = owner ? (uint32_t)owner[i] : 0; if (e->dc && e->dc->owner[i] != ow[i]) same = 0; }
    if (same) return;
    if (e->dc) { parsec_dtd_data_collection_fini(&e->dc->super); vdc_free(e->dc); }
    e->dc = vdc_new(e->ntiles, sizeof(int64_t), dd_nranks, dd_myrank, ow);
    parsec_dtd_data_collection_init(&e->dc->super);
}
static void dd_env_fini(dd_env_t *e)
{
    parsec_context_wait(e->ctx);
    if (e->dc) { parsec_dtd_data_collection_fini(&e->dc->super); vdc_free(e->dc); e->dc = NULL; }
}

static void dd_run(dd_env_t *e, const dd_prog_t *p, const dd_cfg_t *cfg, dd_res_t *res)
{
    memset(dd_log, 0, sizeof(dd_log)); dd_gen_count = 0; dd_stamp = 0;
    memset(dd_writers_in, 0, sizeof(dd_writers_in)); memset(dd_readers_in, 0, sizeof(dd_readers_in));
    memset(res, 0, sizeof(*res));
    dd_cur_prog = p; dd_cur_cfg = cfg;
    dd_env_set_owners(e, p->owner);
    dd_cur_dc = &e->dc->super;
    for (int i = 0; i < e->ntiles; i++) if ((int)e->dc->owner[i] == dd_myrank) *(int64_t *)vdc_elem(e->dc, i) = dd_init_value(i);
    parsec_dtd_window_size = cfg->window > 0 ? cfg->window : 8000;
    parsec_dtd_threshold_size = cfg->threshold > 0 ? cfg->threshold : 4000;
    parsec_taskpool_t *tp = parsec_dtd_taskpool_new();
    dd_nclasses_made = 0; memset(dd_class_tab, 0, sizeof(dd_class_tab));
    if (parsec_context_add_taskpool(e->ctx, tp) != 0) { fprintf(stderr, "dd_run: add_taskpool failed\n"); abort(); }
    parsec_context_start(e->ctx);       /* no-op (returns 1) when already active */
    int upto = (cfg->gen_at >= 0 && cfg->gen_at <= p->nt) ? cfg->gen_at : p->nt;
    for (int t = 0; t < upto; t++) {
        if (dd_hook_before_insert) dd_hook_before_insert(tp, t);
        dd_insert_one(tp, t);
        if (dd_hook_after_insert) dd_hook_after_insert();
    }
    if (upto < p->nt || cfg->gen_at == p->nt) {
        int from = upto;
        if (dd_hook_before_insert) dd_hook_before_insert(tp, upto);
        parsec_dtd_insert_task(tp, dd_gen_body, 0, PARSEC_DEV_CPU, "G", sizeof(int), &from, PARSEC_VALUE, PARSEC_DTD_ARG_END);
        if (dd_hook_before_wait) dd_hook_before_wait();
        parsec_taskpool_wait(tp);     /* the generator must be done inserting before the flush */
    }
    if (dd_hook_before_insert) dd_hook_before_insert(tp, p->nt);
    if (cfg->flush_mask >= 0) {
        for (int i = 0; i < e->ntiles; i++) if (cfg->flush_mask & (1 << i)) parsec_dtd_data_flush(tp, parsec_dtd_tile_of(dd_cur_dc, (parsec_data_key_t)i));
        /* single process: wait right away and look at the flushed tiles. Multi-rank: a rank keeps the remote last writer of every
         * UNflushed tile retained (a pending runtime action), so a wait before everything is flushed never returns there; the
         * repository's own programs always flush everything before they wait - do the same (one wait after flush_all). */
        if (dd_nranks == 1) {
            if (dd_hook_before_wait) dd_hook_before_wait();
            parsec_taskpool_wait(tp);
            for (int i = 0; i < e->ntiles; i++) if ((int)e->dc->owner[i] == dd_myrank) res->after_partial[i] = *(int64_t *)vdc_elem(e->dc, i);
            res->partial_done = 1;
        }
    }
    if (cfg->flush_mask >= 0 && dd_hook_before_insert) dd_hook_before_insert(tp, p->nt);
    parsec_dtd_data_flush_all(tp, dd_cur_dc);
    if (dd_hook_before_wait) dd_hook_before_wait();
    parsec_taskpool_wait(tp);
    dd_unpark_all();
    for (int i = 0; i < dd_nclasses_made; i++) parsec_dtd_task_class_release(tp, dd_classes[i]);
    parsec_taskpool_free(tp);
    for (int i = 0; i < e->ntiles; i++) if ((int)e->dc->owner[i] == dd_myrank) res->final[i] = *(int64_t *)vdc_elem(e->dc, i);
}

/* ------------------------------------------------------------------ oracles (single rank; the MPI harness gathers first) */
/* C03: observations + final values equal the reference. Returns 0 ok, else fills msg. */
static int dd_check_values(const dd_prog_t *p, const dd_cfg_t *cfg, const dd_ref_t *ref, const dd_tlog_t *lg, const int64_t *final, int gen_count, char *msg, size_t cap)
{
    for (int t = 0; t < p->nt; t++) {
        if (lg[t].count != 1) { snprintf(msg, cap, "task %d executed %d times (expected once)", t, lg[t].count); return 1; }
        if (lg[t].conflict & 16) { snprintf(msg, cap, "task %d: VALUE parameter corrupted", t); return 1; }
        for (int k = 0; k < p->t[t].np; k++) if (p->t[t].mode[k] != DD_W && lg[t].seen[k] != ref->seen[t][k]) {
            snprintf(msg, cap, "task %d parameter %d (%s%c) observed %ld, sequential execution in insertion order gives %ld", t, k, dd_mode_name[p->t[t].mode[k]], 'a' + p->t[t].tile[k], (long)lg[t].seen[k], (long)ref->seen[t][k]); return 1; }
    }
    for (int i = 0; i < p->ntiles; i++) if (final[i] != ref->final[i]) { snprintf(msg, cap, "tile %c finally holds %ld, sequential execution gives %ld (last writer: task %d)", 'a' + i, (long)final[i], (long)ref->final[i], ref->last_writer[i]); return 1; }
    if (cfg->gen_at >= 0 && gen_count != 1) { snprintf(msg, cap, "generator task executed %d times", gen_count); return 1; }
    return 0;
}
/* C04: exclusion counters + order stamps of conflicting pairs. */
static int dd_check_exclusion(const dd_prog_t *p, const dd_tlog_t *lg, char *msg, size_t cap)
{
    for (int t = 0; t < p->nt; t++) if (lg[t].conflict & 15) {
        snprintf(msg, cap, "task %d ran concurrently with a conflicting access (%s%s%s%s)", t, (lg[t].conflict & 1) ? "writer saw a second writer inside; " : "",
                 (lg[t].conflict & 2) ? "writer saw a reader inside; " : "", (lg[t].conflict & 4) ? "reader saw a writer inside; " : "", (lg[t].conflict & 8) ? "a value it reads changed while it was inside" : ""); return 1; }
    for (int i = 0; i < p->nt; i++) for (int j = i + 1; j < p->nt; j++) {
        for (int a = 0; a < p->ntiles; a++) {
            int ui = 0, wi = 0, uj = 0, wj = 0;
            for (int k = 0; k < p->t[i].np; k++) if (p->t[i].tile[k] == a) { ui = 1; if (p->t[i].mode[k] != DD_R) wi = 1; }
            for (int k = 0; k < p->t[j].np; k++) if (p->t[j].tile[k] == a) { uj = 1; if (p->t[j].mode[k] != DD_R) wj = 1; }
            if (ui && uj && (wi || wj) && lg[i].count == 1 && lg[j].count == 1 && !(lg[i].exit < lg[j].enter)) {
                snprintf(msg, cap, "task %d (%s of tile %c, inserted later) entered at stamp %ld before task %d (%s) left at stamp %ld", j, wj ? "writer" : "reader", 'a' + a, (long)lg[j].enter, i, wi ? "writer" : "reader", (long)lg[i].exit); return 1; }
        }
    }
    return 0;
}
#endif
