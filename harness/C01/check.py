import os, sys
sys.path.insert(0, os.path.join(os.environ.get('VERIF_ROOT', '/verif'), 'engine', 'rt'))
import ptgfam, ptgrun
sys.path.insert(0, os.path.join(os.environ.get('VERIF_ROOT', '/verif'), 'harness', 'C02'))
import il          # instruction-level leg shared with C02 (harness/C02/il.py, c02_il.c)

META = dict(
    engine='rt+cosched',
    technique='bounded-exhaustive program family (PTG-IR -> jdf -> freshly built ptgpp) x exhaustive task-level schedule enumeration (harness scheduler + in-process DFS) x exhaustive configuration box (11 schedulers x threads x 2 dependency back-ends x start-up chunking), reference interpreter as oracle; plus (legs il-*) preemption-bounded exhaustive INSTRUCTION-level schedule enumeration (cosched) of two execution streams running real generated PTG taskpools',
    level_text='For every program of an enumerated PTG-IR family (execution-space shapes: steps, bounds depending on outer parameters, empty ranges, derived locals, local indices, inline-C bounds, negative bounds; start-up condition grid over 8x5 input-dependency forms; dependency shapes) the real runtime executes exactly the reference instance set, each instance once, and terminates: under EVERY task-level execution order for the small variants (deviation-bounded for the larger ones) and, free-running, under every scheduler module x thread count x dependency back-end x start-up chunking of the stated box. Legs il-*: five 3-4 task programs x 2 back-ends, every interleaving of stream 0 (add_taskpool + context_wait) and stream 1 (worker loop) with <= 1 preemption (thorough <= 2, <= 3 for the smallest) at instrumented accesses to the taskpool counters, dependency tables, repositories, scheduler queue: every reference instance exactly once, none other, termination callback exactly once and after the last body, nothing left in the queue, counters at zero.',
    level_note='Task bodies and runtime actions are atomic in the schedule enumeration (instruction-level races of the primitives are decided by the E1 checks C07/C10/C25... and, on whole small taskpools with 2 streams, by the il legs); the free-running leg enumerates configurations, not schedules. One process, shared memory (hk-shm). Negative-step ranges are a recorded finding (C01-negative-step-execution-space); the index-array back-end with non-range parameters is reported separately.',
)
RULE = ("programs: explicit enumeration (ptgfam.c01_family), every variant validated by the reference interpreter; "
        "hsched leg: DFS over every choice of the next ready task (all linear extensions incl. start-up tasks) for variants with <= K instances, "
        "deviation-bounded DFS above; non-trivial = an order with >= 1 non-canonical choice; distinct outcomes = distinct body completion orders; "
        "free leg: every point of schedulers x threads x back-ends x start-up pairs, non-trivial = run whose bodies ran on >= 2 threads")

ORACLE = 1


def prepare(ctx):
    quick = ctx.tier == 'quick'
    progs, refused = ptgfam.c01_family(ctx.tier)
    neg, _ = ptgfam.negstep_family()
    if quick:
        neg = [p for p in neg if p.name in ('ns_down', 'ns_downsz')]
    import time
    t0 = time.time()
    R = ptgrun.Runner(ctx)
    t1 = time.time()
    exes = R.build_all(progs + neg)
    ctx.notes.append('library build %.1fs, programs build (ptgpp + cc, %d programs x 2 back-ends) %.1fs' % (t1 - t0, len(progs + neg), time.time() - t1))
    grid = ','.join('%d:%d' % (i, c) for i in (1, 2, 3, 0) for c in (1, 2, 3, 0))
    if quick:
        hs, fr, kn = ptgrun.make_jobs(progs + neg, exes, ORACLE, True, '0,1:1', '0,1:1', (1, 2, 4), 2, 5, 2, 14, 16)
    else:
        hs, fr, kn = ptgrun.make_jobs(progs + neg, exes, ORACLE, False, '0,1:1,2:3', grid, (1, 2, 3, 4, 8), 2, 6, 3, 75, 200)
    ctx.notes.append('%d programs, %d variants; %d variants refused by the reference interpreter' % (len(progs), sum(len(p.variants) for p in progs), refused))
    return R, hs, fr, kn


def check(ctx):
    import time
    from concurrent.futures import ThreadPoolExecutor
    # Order of the legs: the exhaustive task-level leg (hsched, deterministic), then the instruction-level legs (il, deterministic,
    # replayable), then the free-running configuration box (configurations, not schedules: a failure there may not replay).
    # The il executables (ptgpp + instrumented cc) are built in the background meanwhile.
    t2 = time.time()
    fut = ThreadPoolExecutor(1).submit(il.build, ctx)
    il_only = bool(os.environ.get('VERIF_IL_ONLY'))   # debugging aid: VERIF_IL_ONLY=1 runs the il legs alone (no evidence written)
    if il_only:
        os.environ.setdefault('VERIF_NO_EVIDENCE', '1')
    else:
        R, hs, fr, kn = prepare(ctx)
        R.run_jobs(hs, 'hsched-all-task-orders')
    B = fut.result()
    ctx.notes.append('il legs: executables (ptgpp + instrumented cc, 5 programs x 2 back-ends) ready %.1fs after the start of the check' % (time.time() - t2))
    if not ctx.violations:
        il.run(ctx, B, c01_only=True)
    if not il_only:
        R.run_jobs(fr, 'free-running-configuration-box')
        if kn:
            R.run_jobs(kn, 'recorded-findings (negative steps, index-array non-range parameters)', stop_on_violation=False)
        ctx.notes += R.notes
        R.cleanup()
    return ctx.finish(RULE + '; ' + il.RULE, il.ASSUME + ['task bodies and runtime actions atomic at the task level (primitives: E1 checks)',
                             'single process, shared memory; placement always rank 0',
                             'reference interpreter (engine/rt/ptgir.py) defines the valid-program semantics'])


def family_all():
    a, _ = ptgfam.c01_family('thorough'); b, _ = ptgfam.negstep_family()
    return a + b


def replay(ctx, path, obj):
    if obj.get('engine') == 'cosched':
        return il.replay(ctx, path, obj)
    return ptgrun.replay(ctx, path, obj, family_all())
