/* C32 (E1/cosched): the concurrent hash table is a linearizable map across resizes.
 *
 * The REAL parsec/class/parsec_hash_table.c of the working tree is compiled into this TU (#include), so that
 * its private bucket structure and its static rehash function are reachable; nothing is copied.
 * Table: nb_bits = 1, max_collisions_hint = 1 (through the real MCA parameter), a key-hash function whose
 * values were searched (with the table's own rehash function) so that all keys fall into ONE bucket of the
 * 2-bucket table and split in the 4- and 8-bucket tables; two distinct keys share the same 64-bit hash.
 */
#include "parsec/parsec_config.h"
#include "parsec/sys/atomic.h"
#include "cosched.h"

#include "parsec/class/parsec_hash_table.c"
#include "parsec/utils/mca_param.h"
#include <stdlib.h>
#include <string.h>

#define NOSAN __attribute__((no_sanitize_thread, noinline))

#define NKEYS 8                    /* keys 1..7 */
#define NVAR  3
typedef struct { parsec_hash_table_item_t hi; int id; } elt_t;
static elt_t elts[NKEYS][NVAR];
static uint64_t hv[NKEYS];         /* 64-bit hash of key k */
static parsec_hash_table_t *ht;

/* ---------- watched regions: grow when a resize publishes a new table ---------- */
#define MAXHEADS 8
static parsec_hash_table_head_t *known_heads[MAXHEADS]; static int nknown_heads;
NOSAN static void watch_heads(void)
{
    for (parsec_hash_table_head_t *h = ht->rw_hash; h; h = h->next_to_free) {
        int seen = 0;
        for (int i = 0; i < nknown_heads; i++) if (known_heads[i] == h) seen = 1;
        if (seen) break;                       /* older ones are known too */
        if (nknown_heads >= MAXHEADS) abort();
        known_heads[nknown_heads++] = h;
        cs_watch(&h->next, sizeof(h->next), "head.next");
        cs_watch(&h->used_buckets, sizeof(h->used_buckets), "head.used");
        cs_watch(h->buckets, (1UL << h->nb_bits) * sizeof(parsec_hash_table_bucket_t), "buckets");
    }
}

/* key functions: called by the library right after it took the read lock => a thread entering the table after a
 * resize registers the new table before it touches it */
NOSAN static uint64_t kh(parsec_key_t k, void *d) { (void)d; if (cs_self() >= 0) watch_heads(); return hv[(int)k]; }
NOSAN static int keq(parsec_key_t a, parsec_key_t b, void *d) { (void)d; return a == b; }
static char *kpr(char *b, size_t n, parsec_key_t k, void *d) { (void)d; snprintf(b, n, "%d", (int)k); return b; }
static parsec_key_fn_t kfn = { .key_equal = keq, .key_print = kpr, .key_hash = kh };

/* ---------- one-time setup: MCA parameter, key hashes ---------- */
static int B1;  /* the bucket of the 2-bucket table that receives every key */
static void setup(void)
{
    setenv("PARSEC_MCA_parsec_hash_table_max_collisions_hint", "1", 1);
    parsec_mca_param_init();
    if (parsec_hash_tables_init() != PARSEC_SUCCESS) { fprintf(stderr, "parsec_hash_tables_init failed\n"); exit(2); }
    /* wanted (bit added at 2 bits, bit added at 3 bits) per key; key 5 gets the very same hash as key 1 */
    static const int want[NKEYS][2] = { {0,0}, {0,0}, {1,0}, {0,1}, {1,1}, {0,0}, {0,0}, {1,0} };
    B1 = (int)parsec_hash_table_universal_rehash((parsec_key_t)1, 1);
    uint64_t h = 1;
    for (int k = 1; k < NKEYS; k++) {
        if (k == 5) { hv[5] = hv[1]; continue; }
        for (;; h++) {
            int b1 = (int)parsec_hash_table_universal_rehash((parsec_key_t)h, 1), b2 = (int)parsec_hash_table_universal_rehash((parsec_key_t)h, 2),
                b3 = (int)parsec_hash_table_universal_rehash((parsec_key_t)h, 3);
            if (b1 == B1 && (b2 >> 1) == want[k][0] && (b3 >> 2) == want[k][1] && (b2 & 1) == b1 && (b3 & 3) == b2) { hv[k] = h++; break; }
            if (h > 1000000) { fprintf(stderr, "C32: no hash value found for key %d\n", k); exit(2); }
        }
    }
}

/* ---------- operations and history ---------- */
enum { OP_INS, OP_FIND, OP_REM, OP_FOI };   /* FOI = lock_bucket; nolock_find; if absent nolock_insert; unlock_bucket */
static const char *opn[] = { "ins", "find", "rem", "foi" };
typedef struct { int type, key, var; } sop_t;
typedef struct { int type, key, var, res; long call, ret; } op_t;   /* res: id of the returned element, -1 = NULL (for foi: -1 = inserted own) */
#define MAXOPS 12
static op_t ops[MAXOPS]; static int nops;
static int init_map[NKEYS];                /* model before the threads start: element id or -1 */
static int final_map[NKEYS];               /* what the real table holds at quiescence */

NOSAN static int id_of(void *p) { if (!p) return -1; elt_t *e = (elt_t *)p; if (e < &elts[0][0] || e > &elts[NKEYS - 1][NVAR - 1]) return -2; return e->id; }
NOSAN static int new_op(int type, int key, int var) { int k = __sync_fetch_and_add(&nops, 1); if (k >= MAXOPS) abort(); ops[k].type = type; ops[k].key = key; ops[k].var = var; ops[k].res = -9; return k; }
NOSAN static void op_begin(int k) { ops[k].call = cs_stamp(); }
NOSAN static void op_end(int k, int res) { ops[k].res = res; ops[k].ret = cs_stamp(); watch_heads(); }

static void do_op(sop_t s)
{
    int k = new_op(s.type, s.key, s.var);
    elt_t *e = &elts[s.key][s.var];
    switch (s.type) {
    case OP_INS:  op_begin(k); parsec_hash_table_insert(ht, &e->hi); op_end(k, -1); break;
    case OP_FIND: { op_begin(k); void *p = parsec_hash_table_find(ht, (parsec_key_t)s.key); op_end(k, id_of(p)); } break;
    case OP_REM:  { op_begin(k); void *p = parsec_hash_table_remove(ht, (parsec_key_t)s.key); op_end(k, id_of(p)); } break;
    case OP_FOI: {
        op_begin(k);
        parsec_hash_table_lock_bucket(ht, (parsec_key_t)s.key);
        void *p = parsec_hash_table_nolock_find(ht, (parsec_key_t)s.key);
        if (NULL == p) parsec_hash_table_nolock_insert(ht, &e->hi);
        parsec_hash_table_unlock_bucket(ht, (parsec_key_t)s.key);
        op_end(k, id_of(p));
    } break;
    }
}

/* sequential map with unique keys */
static int seq_check(const int *order, int n, void *ctx)
{
    (void)ctx; int m[NKEYS];
    memcpy(m, init_map, sizeof(m));
    for (int i = 0; i < n; i++) {
        op_t *o = &ops[order[i]];
        switch (o->type) {
        case OP_INS:  if (m[o->key] != -1) return 0; /* contract: never happens with the scripts below */ m[o->key] = o->key * NVAR + o->var; break;
        case OP_FIND: if (o->res != m[o->key]) return 0; break;
        case OP_REM:  if (o->res != m[o->key]) return 0; m[o->key] = -1; break;
        case OP_FOI:  if (o->res != m[o->key]) return 0; if (m[o->key] == -1) m[o->key] = o->key * NVAR + o->var; break;
        }
    }
    for (int k = 1; k < NKEYS; k++) if (m[k] != final_map[k]) return 0;
    return 1;
}

/* ---------- scenario table ---------- */
typedef struct {
    const char *name;
    int npre; sop_t pre[8];
    int nthr; int len[3]; sop_t s[3][4];
} sdef_t;
#define I(k)   { OP_INS, k, 0 }
#define F(k)   { OP_FIND, k, 0 }
#define R(k)   { OP_REM, k, 0 }
#define FO(k,v) { OP_FOI, k, v }
static const sdef_t defs[] = {
    /* 0: DESIGN's scenario, 2-thread halves: a resize (1 -> 2 bits) is triggered by T0 while T1 finds/removes the item that stays in the old table */
    { "resize_vs_find_remove", 1, { I(1) }, 2, { 1, 2 }, { { I(2) }, { F(1), R(1) } } },
    /* 1: resize by T0 while T1 inserts into the (old or new) table and looks up T0's item */
    { "resize_vs_insert_find", 1, { I(1) }, 2, { 1, 2 }, { { I(2) }, { I(3), F(2) } } },
    /* 2: both threads overflow the same bucket: who resizes (cur_head == rw_hash test), nobody resizes twice wrongly */
    { "double_overflow", 1, { I(1) }, 2, { 2, 2 }, { { I(2), F(3) }, { I(3), F(2) } } },
    /* 3: after a resize: find(1) migrates 1 to the new table while remove(2) takes 2 out of the SAME old bucket from another new bucket; the old table empties and is unlinked */
    { "migrate_vs_remove_old", 2, { I(1), I(2) }, 2, { 2, 2 }, { { F(1), F(2) }, { R(2), F(1) } } },
    /* 4: two migrations out of the same old bucket + removal of a migrating key */
    { "migrate_migrate_remove", 2, { I(1), I(2) }, 3, { 1, 1, 1 }, { { F(1) }, { F(2) }, { R(1) } } },
    /* 5: find-or-insert of the SAME key (different elements) racing with each other; key 5 has the same 64-bit hash as key 1; the unlock triggers the resize */
    { "find_or_insert_same_key", 1, { I(1) }, 2, { 2, 2 }, { { FO(5, 0), F(5) }, { FO(5, 1), F(1) } } },
    /* 6: find-or-insert vs remove of that key, with resize */
    { "find_or_insert_vs_remove", 1, { I(1) }, 3, { 1, 1, 1 }, { { FO(5, 0) }, { FO(5, 1) }, { R(5) } } },
    /* 7: three table generations (8 -> 4 -> 2 buckets), both old ones populated; both old tables are emptied concurrently (adjacent unlinks) */
    { "two_old_tables_emptied", 4, { I(1), I(6), I(3), FO(5, 0) }, 2, { 2, 2 }, { { R(1), R(6) }, { R(3), R(5) } } },
    /* 8: three generations: a lookup walks both old tables while they are being emptied/unlinked, then inserts */
    { "walk_old_tables_during_unlink", 4, { I(1), I(6), I(3), FO(5, 0) }, 3, { 1, 2, 1 }, { { R(6) }, { R(3), R(5) }, { F(1) } } },
    /* 9: DESIGN's full 3-thread scenario */
    { "design_3threads", 1, { I(1) }, 3, { 1, 2, 2 }, { { I(2) }, { F(1), R(1) }, { I(3), F(2) } } },
    /* 10: keys 2 and 7 share a bucket of the NEW (2-bit) table only: T1's insert(3) resizes, its insert(7) then updates that bucket while T0's
     *     insert(2) - which may have looked at the table before the resize - pushes into the same bucket (seeded change C32-1: bucket index
     *     computed before the read lock => wrong bucket locked, lost update) */
    { "inserts_meet_in_new_bucket", 1, { I(1) }, 2, { 2, 2 }, { { I(2), F(7) }, { I(3), I(7) } } },
    /* 11: the same with three threads (resizer, and two inserters into one new bucket) */
    { "inserts_meet_in_new_bucket_3t", 1, { I(1) }, 3, { 1, 1, 1 }, { { I(2) }, { I(3) }, { I(7) } } },
};
#define NDEFS ((int)(sizeof(defs) / sizeof(defs[0])))
static const sdef_t *cur_def;
static void body0(void *a) { (void)a; for (int i = 0; i < cur_def->len[0]; i++) do_op(cur_def->s[0][i]); }
static void body1(void *a) { (void)a; for (int i = 0; i < cur_def->len[1]; i++) do_op(cur_def->s[1][i]); }
static void body2(void *a) { (void)a; for (int i = 0; i < cur_def->len[2]; i++) do_op(cur_def->s[2][i]); }

/* ---------- oracle at quiescence ---------- */
static void visit(void *item, void *cb) { int *cnt = cb; int id = id_of(item); if (id >= 0) cnt[id]++; else cnt[NKEYS * NVAR]++; }

static void check_quiescent(void)
{
    char lay[256]; int lo = 0;
    int where[NKEYS * NVAR]; for (int i = 0; i < NKEYS * NVAR; i++) where[i] = -1;
    int present[NKEYS * NVAR] = {0};
    /* the lock must be free: no reader inside, no writer pending */
#if PARSEC_RWLOCK_IMPL == PARSEC_RWLOCK_IMPL_TICKET
    CS_CHECK((ht->rw_lock.rin & 0xFF) == 0 && ht->rw_lock.rin == ht->rw_lock.rout && ht->rw_lock.win == ht->rw_lock.wout,
             "table rwlock not released at quiescence (rin=%x rout=%x win=%d wout=%d)", ht->rw_lock.rin, ht->rw_lock.rout, ht->rw_lock.win, ht->rw_lock.wout);
#endif
    /* every table ever allocated (next_to_free chain) */
    int lvl = 0, nlinked = 0;
    for (parsec_hash_table_head_t *h = ht->rw_hash; h; h = h->next_to_free, lvl++) {
        int linked = 0; for (parsec_hash_table_head_t *g = ht->rw_hash; g; g = g->next) if (g == h) linked = 1;
        int nitems = 0, nonempty = 0;
        CS_CHECK(lvl < MAXHEADS, "more than %d tables allocated", MAXHEADS);
        for (size_t b = 0; b < (1UL << h->nb_bits); b++) {
            int len = 0;
            CS_CHECK(h->buckets[b].lock == 0, "bucket %zu of the %u-bit table is still locked at quiescence", b, h->nb_bits);
            for (parsec_hash_table_item_t *it = h->buckets[b].first_item; it; it = it->next_item) {
                int id = id_of(parsec_hash_table_item_lookup(ht, it));
                CS_CHECK(id >= 0, "bucket holds a pointer that is not an element");
                CS_CHECK(++len <= NKEYS * NVAR, "cycle in a bucket chain");
                CS_CHECK(!present[id], "element %d (key %d) is stored twice", id, id / NVAR);
                present[id] = 1; where[id] = lvl;
                CS_CHECK(parsec_hash_table_universal_rehash(hv[id / NVAR], h->nb_bits) == b, "key %d sits in bucket %zu of the %u-bit table, its hash selects bucket %d", id / NVAR, b, h->nb_bits, (int)parsec_hash_table_universal_rehash(hv[id / NVAR], h->nb_bits));
            }
            CS_CHECK(len == h->buckets[b].cur_len, "bucket %zu of the %u-bit table: cur_len=%d but %d items chained", b, h->nb_bits, h->buckets[b].cur_len, len);
            nitems += len; nonempty += (len > 0);
        }
        CS_CHECK(linked || nitems == 0, "the %u-bit table was unlinked while it still holds %d item(s): they are lost", h->nb_bits, nitems);
        nlinked += linked;
        lo += snprintf(lay + lo, sizeof(lay) - lo, "%s%ub:%d%s", lvl ? "," : "", h->nb_bits, nitems, linked ? "" : "u");
    }
    /* unique keys; contents */
    for (int k = 1; k < NKEYS; k++) {
        int n = 0; final_map[k] = -1;
        for (int v = 0; v < NVAR; v++) if (present[k * NVAR + v]) { n++; final_map[k] = k * NVAR + v; }
        CS_CHECK(n <= 1, "key %d is stored %d times", k, n);
    }
    /* for_all visits each stored element exactly once */
    int cnt[NKEYS * NVAR + 1] = {0};
    parsec_hash_table_for_all(ht, visit, cnt);
    CS_CHECK(cnt[NKEYS * NVAR] == 0, "for_all visited a foreign pointer");
    for (int i = NVAR; i < NKEYS * NVAR; i++)
        CS_CHECK(cnt[i] == present[i], "for_all visited element %d (key %d) %d time(s), it is stored %d time(s)", i, i / NVAR, cnt[i], present[i]);
    /* linearizability of the concurrent history, ending in exactly this content */
    char buf[600]; int o = 0;
    for (int k = 0; k < nops; k++) o += snprintf(buf + o, sizeof(buf) - o, "%s(%d%s)=%d ", opn[ops[k].type], ops[k].key, ops[k].type == OP_FOI ? (ops[k].var == 0 ? "a" : ops[k].var == 1 ? "b" : "c") : "", ops[k].res);
    o += snprintf(buf + o, sizeof(buf) - o, "| final:");
    for (int k = 1; k < NKEYS; k++) if (final_map[k] >= 0) o += snprintf(buf + o, sizeof(buf) - o, " %d@%d", final_map[k], where[final_map[k]]);
    o += snprintf(buf + o, sizeof(buf) - o, " | tables %s", lay);
    for (int k = 0; k < nops; k++) CS_CHECK(ops[k].res != -2 && ops[k].res != -9, "operation %d returned a foreign pointer / did not finish: %s", k, buf);
    cs_span_t sp[MAXOPS];
    for (int k = 0; k < nops; k++) { sp[k].call = ops[k].call; sp[k].ret = ops[k].ret; }
    CS_CHECK(cs_linearizable(sp, nops, seq_check, NULL), "history not linearizable w.r.t. a sequential map with unique keys: %s", buf);
    cs_observe("%s", buf);
    /* sequential epilogue on the real table: every key answers like the model, then drain and destroy (fini asserts emptiness) */
    for (int k = 1; k < NKEYS; k++) {
        int id = id_of(parsec_hash_table_find(ht, (parsec_key_t)k));
        CS_CHECK(id == final_map[k], "after quiescence find(%d) returned %d, the table holds %d: %s", k, id, final_map[k], buf);
    }
    for (int k = 1; k < NKEYS; k++) {
        int id = id_of(parsec_hash_table_remove(ht, (parsec_key_t)k));
        CS_CHECK(id == final_map[k], "after quiescence remove(%d) returned %d, the table holds %d", k, id, final_map[k]);
        CS_CHECK(NULL == parsec_hash_table_find(ht, (parsec_key_t)k), "key %d still found after its removal", k);
    }
    int cnt2[NKEYS * NVAR + 1] = {0};
    parsec_hash_table_for_all(ht, visit, cnt2);
    for (int i = 0; i <= NKEYS * NVAR; i++) CS_CHECK(cnt2[i] == 0, "table not empty after removing every key");
    parsec_hash_table_fini(ht);
}

static void run_def(const sdef_t *d)
{
    cur_def = d; nops = 0; nknown_heads = 0;
    memset(ops, 0, sizeof(ops));
    for (int k = 0; k < NKEYS; k++) for (int v = 0; v < NVAR; v++) { memset(&elts[k][v], 0, sizeof(elt_t)); elts[k][v].id = k * NVAR + v; elts[k][v].hi.key = (parsec_key_t)k; }
    ht = PARSEC_OBJ_NEW(parsec_hash_table_t);
    parsec_hash_table_init(ht, offsetof(elt_t, hi), 1, kfn, NULL);
    CS_CHECK(ht->max_collisions_hint == 1, "harness: max_collisions_hint is %d, expected 1 (MCA parameter not applied)", ht->max_collisions_hint);
    for (int k = 0; k < NKEYS; k++) init_map[k] = -1;
    for (int i = 0; i < d->npre; i++) {          /* sequential prefix (uncontrolled), through the same real API */
        do_op(d->pre[i]);
        if (d->pre[i].type == OP_INS || d->pre[i].type == OP_FOI) init_map[d->pre[i].key] = d->pre[i].key * NVAR + d->pre[i].var;
        if (d->pre[i].type == OP_REM) init_map[d->pre[i].key] = -1;
    }
    nops = 0;
    cs_watch(&ht->rw_lock, sizeof(ht->rw_lock), "rw_lock");
    cs_watch(&ht->rw_hash, sizeof(ht->rw_hash), "rw_hash");
    for (int k = 1; k < NKEYS; k++) for (int v = 0; v < NVAR; v++) cs_watch(&elts[k][v].hi, 2 * sizeof(void *), "item");
    watch_heads();
    cs_body_t b[] = { body0, body1, body2 };
    cs_run(d->nthr, b, NULL);
    check_quiescent();
}


/* ==================================================================================================================
 * Generated (bounded-exhaustive) script families.
 *
 *   script  =  pre-state P (sequential prefix through the real API)  x  T0: a ops || T1: b ops (|| T2: c ops)
 *   op      =  {i(nsert), f(ind), r(emove), o = find-or-insert under lock_bucket}  x  key in a tiny domain
 *
 * The key domain is chosen so that operations collide: all keys share THE bucket of the 1-bit table; 1 and 2 are split
 * by the first resize, 2 and 7 never split (distinct hashes), 1 and 5 never split and have the SAME 64-bit hash,
 * 1 and 3 are split by the second resize only.
 * Family = ALL scripts of a shape over the alphabet, minus (1) scripts that violate the usage contract (insert of a key
 * that may be present), minus (2) scripts that cannot collide (see relevance()), up to (3) symmetry (renaming of threads
 * of equal length; renaming 2 <-> 7 where the pre-state mentions neither). Deterministic order, simplest first.
 *
 * Text of a script (= its scenario name, stored in the replay file): g.P<n>.<t0>.<t1>[.<t2>]  with  <t> = op-op-..., op = <letter><key>
 *   e.g. g.P1.i7.i1-f2       The text alone rebuilds the script (parse_script), so a replay file is self-contained.
 * Selection: C32_GEN="shape=2,1;keys=127;ops=ifro;pre=01234;void=0;range=lo:hi"
 * ================================================================================================================== */
#define NPRE 7
static const struct { int n; sop_t s[5]; const char *what; } pres[NPRE] = {
    /* P0 */ { 0, { {0,0,0} }, "empty 1-bit table" },
    /* P1 */ { 1, { I(2) }, "{2} in the 1-bit table: the next insert overflows the bucket and resizes" },
    /* P2 */ { 2, { I(2), I(1) }, "resized: 2-bit table empty, 1 and 2 chained in the bucket of the old 1-bit table" },
    /* P3 */ { 3, { I(2), I(1), F(1) }, "resized, 1 migrated to the 2-bit table, 2 still in the old table" },
    /* P4 */ { 4, { I(2), I(1), I(7), FO(2, 0) }, "three generations: 3-bit table empty, 2-bit table holds 2 and 7 in one bucket, 1-bit table holds 1" },
    /* P5 */ { 1, { I(1) }, "{1} in the 1-bit table" },
    /* P6 */ { 3, { I(2), I(1), F(2) }, "resized, 2 migrated to the 2-bit table, 1 still in the old table" },
};
static const char opl[] = "ifro";

typedef struct { sdef_t d; char name[96]; } gdef_t;
static gdef_t *gdefs; static int ngdefs, capgdefs;
static long gen_raw, gen_contract, gen_relevant;      /* family counters: all / after the contract filter / after the relevance filter; ngen_all = after symmetry */

static void script_name(const sdef_t *d, int pre, char *out, size_t n)
{
    int o = snprintf(out, n, "g.P%d", pre);
    for (int t = 0; t < d->nthr; t++)
        for (int j = 0; j < d->len[t]; j++) o += snprintf(out + o, n - o, "%c%c%d", j ? '-' : '.', opl[d->s[t][j].type], d->s[t][j].key);
}

/* rebuild a script from its text; returns 0 on success */
static int parse_script(const char *txt, gdef_t *g)
{
    memset(g, 0, sizeof(*g));
    if (strncmp(txt, "g.P", 3) || strlen(txt) >= sizeof(g->name)) return -1;
    const char *q = txt + 3; int pre = 0;
    if (*q < '0' || *q > '9') return -1;
    while (*q >= '0' && *q <= '9') pre = pre * 10 + (*q++ - '0');
    if (pre >= NPRE) return -1;
    g->d.npre = pres[pre].n; memcpy(g->d.pre, pres[pre].s, sizeof(pres[pre].s));
    int t = -1;
    while (*q) {
        if (*q == '.') { if (++t >= 3) return -1; q++; }
        else if (*q == '-') { if (t < 0) return -1; q++; }
        else return -1;
        const char *l = strchr(opl, *q); if (!l || !*q) return -1;
        int key = q[1] - '0'; if (key < 1 || key >= NKEYS) return -1;
        if (t < 0 || g->d.len[t] >= 4) return -1;
        sop_t so = { (int)(l - opl), key, (l - opl) == OP_FOI ? t : 0 };
        g->d.s[t][g->d.len[t]++] = so; q += 2;
    }
    if (t < 1) return -1;
    g->d.nthr = t + 1;
    strcpy(g->name, txt); g->d.name = g->name;
    return 0;
}

static int key_in_pre(int pre, int key)
{
    int present = 0;
    for (int i = 0; i < pres[pre].n; i++) if (pres[pre].s[i].key == key) { if (pres[pre].s[i].type == OP_INS || pres[pre].s[i].type == OP_FOI) present = 1; if (pres[pre].s[i].type == OP_REM) present = 0; }
    return present;
}
static int pre_mentions(int pre, int key) { for (int i = 0; i < pres[pre].n; i++) if (pres[pre].s[i].key == key) return 1; return 0; }

/* (1) usage contract: parsec_hash_table_insert / nolock_insert must not be called for a key that is present (the table keeps duplicates
 * silently; the property speaks of a map with unique keys). insert(k) is generated only where k is DEFINITELY absent in every interleaving:
 * no other thread may insert k (i or o), and in the own thread's program order k is absent (not in P or removed by the thread itself, and
 * not re-inserted since; an own insert followed by a foreign remove leaves k "unknown", which is not good enough). */
static int contract_ok(const sdef_t *d, int pre)
{
    for (int t = 0; t < d->nthr; t++) for (int j = 0; j < d->len[t]; j++) {
        if (d->s[t][j].type != OP_INS) continue;
        int k = d->s[t][j].key, others_rem = 0;
        for (int u = 0; u < d->nthr; u++) if (u != t) for (int i = 0; i < d->len[u]; i++) if (d->s[u][i].key == k) {
            if (d->s[u][i].type == OP_INS || d->s[u][i].type == OP_FOI) return 0;
            if (d->s[u][i].type == OP_REM) others_rem = 1;
        }
        enum { A, P, U } st = key_in_pre(pre, k) ? (others_rem ? U : P) : A;
        for (int i = 0; i < j; i++) if (d->s[t][i].key == k) {
            if (d->s[t][i].type == OP_INS || d->s[t][i].type == OP_FOI) st = others_rem ? U : P;
            else if (d->s[t][i].type == OP_REM) st = A;
        }
        if (st != A) return 0;
    }
    return 1;
}

/* (2) relevance: a find/remove of a key that is in no pre-state and that nobody inserts ("void" operation) can only answer NULL; scripts
 * containing one are generated only with void=1 (thorough). A script whose operations are all finds on a single-table pre-state reads only. */
static int relevant(const sdef_t *d, int pre, int allow_void)
{
    int mut = 0;
    for (int t = 0; t < d->nthr; t++) for (int j = 0; j < d->len[t]; j++) {
        const sop_t *o = &d->s[t][j];
        if (o->type != OP_FIND) mut = 1;
        if ((o->type == OP_FIND || o->type == OP_REM) && !allow_void && !key_in_pre(pre, o->key)) {
            int ins = 0;
            for (int u = 0; u < d->nthr; u++) for (int i = 0; i < d->len[u]; i++) if (d->s[u][i].key == o->key && (d->s[u][i].type == OP_INS || d->s[u][i].type == OP_FOI)) ins = 1;
            if (!ins) return 0;
        }
    }
    if (!mut && pres[pre].n <= 1) return 0;
    return 1;
}

/* (3) symmetry: threads are interchangeable (the element a thread brings for 'o' is named after the thread, nothing else depends on the
 * thread index); keys 2 and 7 are interchangeable when the pre-state mentions neither (same bucket at every level, distinct hashes, both
 * distinct from every other hash). A script is kept iff its text is the smallest of its orbit. */
static void enc(const sdef_t *d, const int *perm, int swap27, char *out)
{
    int o = 0;
    for (int t = 0; t < d->nthr; t++) {
        int u = perm[t];
        for (int j = 0; j < d->len[u]; j++) { int k = d->s[u][j].key; if (swap27) k = k == 2 ? 7 : k == 7 ? 2 : k; out[o++] = (char)('0' + d->s[u][j].type); out[o++] = (char)('0' + k); }
        out[o++] = '.';
    }
    out[o] = 0;
}
static int canonical(const sdef_t *d, int pre)
{
    static const int perms[6][3] = { {0,1,2}, {1,0,2}, {0,2,1}, {2,1,0}, {1,2,0}, {2,0,1} };
    char me[64], other[64]; enc(d, perms[0], 0, me);
    int can27 = !pre_mentions(pre, 2) && !pre_mentions(pre, 7);
    for (int p = 0; p < 6; p++) {
        int ok = 1;
        for (int t = 0; t < 3; t++) { if (perms[p][t] != t && (t >= d->nthr || perms[p][t] >= d->nthr)) ok = 0; if (ok && t < d->nthr && d->len[perms[p][t]] != d->len[t]) ok = 0; }
        if (!ok) continue;
        for (int sw = 0; sw <= can27; sw++) { enc(d, perms[p], sw, other); if (strcmp(other, me) < 0) return 0; }
    }
    return 1;
}

static void gen_family(const char *spec, int list_only)
{
    int shape[3] = {1, 1, 0}, nthr = 2, keys[NKEYS], nkeys = 0, types[4], ntypes = 0, prel[NPRE], npre = 0, allow_void = 0; long lo = 0, hi = -1;
    char buf[256]; snprintf(buf, sizeof(buf), "%s", spec);
    for (char *tok = strtok(buf, ";"); tok; tok = strtok(NULL, ";")) {
        if (!strncmp(tok, "shape=", 6)) { nthr = sscanf(tok + 6, "%d,%d,%d", &shape[0], &shape[1], &shape[2]); }
        else if (!strncmp(tok, "keys=", 5)) { for (char *c = tok + 5; *c; c++) if (*c >= '1' && *c < '0' + NKEYS && nkeys < NKEYS) keys[nkeys++] = *c - '0'; }
        else if (!strncmp(tok, "ops=", 4)) { for (char *c = tok + 4; *c; c++) { const char *l = strchr(opl, *c); if (l && ntypes < 4) types[ntypes++] = (int)(l - opl); } }
        else if (!strncmp(tok, "pre=", 4)) { for (char *c = tok + 4; *c; c++) if (*c >= '0' && *c < '0' + NPRE && npre < NPRE) prel[npre++] = *c - '0'; }
        else if (!strncmp(tok, "void=", 5)) allow_void = atoi(tok + 5);
        else if (!strncmp(tok, "range=", 6)) sscanf(tok + 6, "%ld:%ld", &lo, &hi);
        else { fprintf(stderr, "C32: bad C32_GEN token '%s'\n", tok); exit(2); }
    }
    if (nthr < 2 || nthr > 3 || !nkeys || !ntypes || !npre) { fprintf(stderr, "C32: incomplete C32_GEN '%s'\n", spec); exit(2); }
    int total = 0; for (int t = 0; t < nthr; t++) { if (shape[t] < 1 || shape[t] > 4) { fprintf(stderr, "C32: bad shape\n"); exit(2); } total += shape[t]; }
    if (total > 6) { fprintf(stderr, "C32: shape too large\n"); exit(2); }
    int na = nkeys * ntypes; long ncomb = 1; for (int i = 0; i < total; i++) ncomb *= na;
    long idx = 0;          /* index in the family (after all filters) */
    for (int pi = 0; pi < npre; pi++) {
        int pre = prel[pi];
        for (long c = 0; c < ncomb; c++) {
            sdef_t d; memset(&d, 0, sizeof(d));
            d.npre = pres[pre].n; memcpy(d.pre, pres[pre].s, sizeof(pres[pre].s)); d.nthr = nthr;
            long r = c;
            /* the LAST operation varies fastest, types before keys: scripts on the first key / with inserts come first */
            int dig[6]; for (int i = total - 1; i >= 0; i--) { dig[i] = (int)(r % na); r /= na; }
            int q = 0;
            for (int t = 0; t < nthr; t++) { d.len[t] = shape[t]; for (int j = 0; j < shape[t]; j++, q++) { int ty = types[dig[q] % ntypes]; sop_t so = { ty, keys[dig[q] / ntypes], ty == OP_FOI ? t : 0 }; d.s[t][j] = so; } }
            gen_raw++;
            if (!contract_ok(&d, pre)) continue;
            gen_contract++;
            if (!relevant(&d, pre, allow_void)) continue;
            gen_relevant++;
            if (!canonical(&d, pre)) continue;
            long me = idx++;
            if (me < lo || (hi >= 0 && me >= hi)) continue;
            if (ngdefs == capgdefs) { capgdefs = capgdefs ? 2 * capgdefs : 256; gdefs = realloc(gdefs, capgdefs * sizeof(gdef_t)); }
            gdef_t *g = &gdefs[ngdefs++]; memset(g, 0, sizeof(*g)); g->d = d;
            script_name(&d, pre, g->name, sizeof(g->name));
        }
    }
    for (int i = 0; i < ngdefs; i++) gdefs[i].d.name = gdefs[i].name;      /* after the last realloc */
    if (list_only) {
        printf("{\"spec\":\"%s\",\"alphabet\":%d,\"generated\":%ld,\"after_contract\":%ld,\"after_relevance\":%ld,\"after_symmetry\":%ld,\"scripts\":[", spec, na, gen_raw, gen_contract, gen_relevant, idx);
        for (int i = 0; i < ngdefs; i++) printf("%s\"%s\"", i ? "," : "", gdefs[i].name);
        printf("]}\n");
    }
}

/* cosched scenarios carry a parameterless run(): one trampoline per slot of gdefs[] */
#define MAXGEN 4096
#define G1(h)   static void gr_##h(void) { run_def(&gdefs[0x##h].d); }
#define G16(h)  G1(h##0) G1(h##1) G1(h##2) G1(h##3) G1(h##4) G1(h##5) G1(h##6) G1(h##7) G1(h##8) G1(h##9) G1(h##a) G1(h##b) G1(h##c) G1(h##d) G1(h##e) G1(h##f)
#define G256(h) G16(h##0) G16(h##1) G16(h##2) G16(h##3) G16(h##4) G16(h##5) G16(h##6) G16(h##7) G16(h##8) G16(h##9) G16(h##a) G16(h##b) G16(h##c) G16(h##d) G16(h##e) G16(h##f)
G256(0) G256(1) G256(2) G256(3) G256(4) G256(5) G256(6) G256(7) G256(8) G256(9) G256(a) G256(b) G256(c) G256(d) G256(e) G256(f)
#define A1(h)   gr_##h,
#define A16(h)  A1(h##0) A1(h##1) A1(h##2) A1(h##3) A1(h##4) A1(h##5) A1(h##6) A1(h##7) A1(h##8) A1(h##9) A1(h##a) A1(h##b) A1(h##c) A1(h##d) A1(h##e) A1(h##f)
#define A256(h) A16(h##0) A16(h##1) A16(h##2) A16(h##3) A16(h##4) A16(h##5) A16(h##6) A16(h##7) A16(h##8) A16(h##9) A16(h##a) A16(h##b) A16(h##c) A16(h##d) A16(h##e) A16(h##f)
static void (*const gtramp[MAXGEN])(void) = { A256(0) A256(1) A256(2) A256(3) A256(4) A256(5) A256(6) A256(7) A256(8) A256(9) A256(a) A256(b) A256(c) A256(d) A256(e) A256(f) };

static int gen_main(int argc, char **argv)
{
    if (ngdefs > MAXGEN) { fprintf(stderr, "C32: %d generated scripts in one invocation (max %d): use range=\n", ngdefs, MAXGEN); return 2; }
    if (ngdefs == 0) { fprintf(stderr, "C32: the selection holds no script\n"); return 2; }
    cs_scenario_t *sc = calloc(ngdefs, sizeof(*sc));
    for (int i = 0; i < ngdefs; i++) { sc[i].name = gdefs[i].name; sc[i].run = gtramp[i]; sc[i].max_bound = 0; }
    return cs_main(argc, argv, "C32", sc, ngdefs, setup);
}

#define RUNFN(i) static void run_##i(void) { run_def(&defs[i]); }
RUNFN(0) RUNFN(1) RUNFN(2) RUNFN(3) RUNFN(4) RUNFN(5) RUNFN(6) RUNFN(7) RUNFN(8) RUNFN(9) RUNFN(10) RUNFN(11)
static cs_scenario_t scenarios[] = {
    { "resize_vs_find_remove", run_0, 0 }, { "resize_vs_insert_find", run_1, 0 }, { "double_overflow", run_2, 0 },
    { "migrate_vs_remove_old", run_3, 0 }, { "migrate_migrate_remove", run_4, 0 }, { "find_or_insert_same_key", run_5, 0 },
    { "find_or_insert_vs_remove", run_6, 0 }, { "two_old_tables_emptied", run_7, 0 }, { "walk_old_tables_during_unlink", run_8, 0 },
    { "design_3threads", run_9, 0 }, { "inserts_meet_in_new_bucket", run_10, 0 }, { "inserts_meet_in_new_bucket_3t", run_11, 0 },
};
int main(int argc, char **argv)
{
    if (NDEFS != (int)(sizeof(scenarios) / sizeof(scenarios[0]))) return 2;
    /* generated families: C32_GEN=<spec> explores (a range of) a family; --gen-list prints it; a replay file of a generated script
     * carries the script text as its scenario name, from which the script is rebuilt */
    for (int i = 1; i < argc; i++) {
        if (!strcmp(argv[i], "--gen-list")) { const char *g = getenv("C32_GEN"); if (!g) return 2; gen_family(g, 1); return 0; }
        if (!strcmp(argv[i], "--replay") && i + 1 < argc) {
            FILE *f = fopen(argv[i + 1], "r"); char buf[4096]; size_t n = f ? fread(buf, 1, sizeof(buf) - 1, f) : 0; if (f) fclose(f); buf[n] = 0;
            char *q = strstr(buf, "\"scenario\":\"g.");
            if (q) {
                q += 12; char *e = strchr(q, '"'); if (!e) return 2; *e = 0;
                gdefs = calloc(1, sizeof(gdef_t)); ngdefs = 1;
                if (parse_script(q, &gdefs[0])) { fprintf(stderr, "C32: cannot parse the script text '%s'\n", q); return 2; }
                printf("generated script %s (rebuilt from the scenario text of the replay file)\n", q);
                return gen_main(argc, argv);
            }
        }
    }
    if (getenv("C32_GEN") && *getenv("C32_GEN")) { gen_family(getenv("C32_GEN"), 0); return gen_main(argc, argv); }
    /* C32_SET=name,name,... restricts the run to a subset (check.py explores groups at different bounds); replay sees all */
    const char *set = getenv("C32_SET"); int n = NDEFS;
    if (set && *set) {
        n = 0;
        for (int i = 0; i < NDEFS; i++) {
            const char *q = strstr(set, scenarios[i].name); size_t l = strlen(scenarios[i].name);
            if (q && (q == set || q[-1] == ',') && (q[l] == 0 || q[l] == ',')) scenarios[n++] = scenarios[i];
        }
        if (n == 0) { fprintf(stderr, "C32: C32_SET selects no scenario\n"); return 2; }
    }
    return cs_main(argc, argv, "C32", scenarios, n, setup);
}
