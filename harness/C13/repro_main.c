/* C13 / E5 reproduction driver: mpiexec -n NR repro ALO AHI BLO BHI [-- --mca runtime_comm_coll_bcast T]
 * Every rank checks that exactly its own consumers ran, once, with the producer's values; prints "RANK r OK". */
#include <mpi.h>
#include "parsec.h"
#include "parsec/arena.h"
#include "vdc.h"
#include "repro.h"

static int nrun[3][64]; static int64_t val[3][64];
void vrec(int cls, int k, int64_t v) { nrun[cls][k]++; val[cls][k] = v; }

int main(int argc, char **argv)
{
    int provided, rank, nr;
    MPI_Init_thread(&argc, &argv, MPI_THREAD_SERIALIZED, &provided);
    MPI_Comm_rank(MPI_COMM_WORLD, &rank); MPI_Comm_size(MPI_COMM_WORLD, &nr);
    if (argc < 5) { if (!rank) fprintf(stderr, "usage: repro ALO AHI BLO BHI [-- parsec args]\n"); MPI_Finalize(); return 2; }
    int alo = atoi(argv[1]), ahi = atoi(argv[2]), blo = atoi(argv[3]), bhi = atoi(argv[4]);
    parsec_context_t *parsec = parsec_init(1, &argc, &argv);
    if (!parsec) return 2;
    uint32_t owner[65]; for (int i = 0; i < nr; i++) owner[i] = i; owner[nr] = 0;
    vdc_t *D = vdc_new(nr + 1, sizeof(int64_t), nr, rank, owner);
    D->super.default_dtt = parsec_datatype_int64_t;
    parsec_repro_taskpool_t *tp = parsec_repro_new(&D->super, nr, alo, ahi, blo, bhi);
    parsec_arena_datatype_set_type(&tp->arenas_datatypes[PARSEC_repro_DEFAULT_ADT_IDX], sizeof(int64_t), PARSEC_ARENA_ALIGNMENT_SSE, parsec_datatype_int64_t);
    parsec_context_add_taskpool(parsec, &tp->super);
    parsec_context_start(parsec);
    parsec_context_wait(parsec);
    int bad = 0;
    if ((rank == 0) != (nrun[0][0] == 1)) bad = 1;
    for (int i = 0; i < nr; i++) {
        int w1 = (i == rank && i >= alo && i <= ahi), w2 = (i == rank && i >= blo && i <= bhi);
        if (nrun[1][i] != w1 || (w1 && val[1][i] != 1111)) bad = 1;
        if (nrun[2][i] != w2 || (w2 && val[2][i] != 2222)) bad = 1;
    }
    printf("RANK %d %s c1=%d(%ld) c2=%d(%ld)\n", rank, bad ? "BAD" : "OK", nrun[1][rank], (long)val[1][rank], nrun[2][rank], (long)val[2][rank]);
    fflush(stdout);
    parsec_taskpool_free(&tp->super);
    parsec_fini(&parsec);
    MPI_Finalize();
    return bad;
}
