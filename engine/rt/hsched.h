/* hsched (E4 leg 2): a harness-owned scheduler module installed through the exported
 * `parsec_current_scheduler` pointer, plus an in-process DFS explorer over its choices.
 *
 * With ONE execution stream (parsec_init(1,...)) every call to select() is a choice among the
 * currently pending ready tasks, kept in a canonical order (by printed task name), so the
 * explorer enumerates every task-level execution order (every linear extension of the
 * ready-set process, including the runtime's start-up tasks and AGAIN re-submissions).
 * Task bodies and runtime actions are atomic at this level.
 *
 * Usage:
 *    parsec = parsec_init(1, &argc, &argv);
 *    hs_install(parsec);
 *    hs_explorer_t ex; hs_begin(&ex, max_deviations (-1 = unbounded), deadline_s);
 *    while (hs_next(&ex)) { build taskpool; add; start; wait; oracle...; hs_end_run(&ex); }
 *    hs_uninstall(parsec); parsec_fini(&parsec);
 * Header-only; include in exactly one TU.
 */
#ifndef HSCHED_H
#define HSCHED_H
#include "parsec/runtime.h"
#include "parsec/parsec_internal.h"
#include "parsec/mca/sched/sched.h"
#include "parsec/scheduling.h"
#include "parsec/execution_stream.h"
#include "parsec/class/list_item.h"
#include <stdio.h>
#include <stdlib.h>
#include <string.h>
#include <time.h>

#define HS_MAXPEND 256
#define HS_MAXPTS  4096

typedef struct hs_item_s { struct hs_item_s *next; int len; int dev; unsigned char ch[]; } hs_item_t;
typedef struct {
    /* current run */
    const unsigned char *prefix; int prefix_len;
    int npts; unsigned char nch[HS_MAXPTS]; unsigned char cho[HS_MAXPTS];
    char order[8192]; int order_len;          /* names of the tasks in selection order (sample / replay) */
    /* search */
    hs_item_t *stack; hs_item_t *cur;
    int max_dev; double deadline;
    long runs, nodes, transitions, nontrivial; int max_points, exhaustive, started;
    long max_runs;
} hs_explorer_t;

static hs_explorer_t *hs_ex = NULL;
static parsec_task_t *hs_pend[HS_MAXPEND]; static char hs_name[HS_MAXPEND][96]; static int hs_npend = 0;
static long hs_seq = 0; static long hs_ord[HS_MAXPEND];
static void (*hs_on_select)(parsec_task_t *t) = NULL;  /* optional observer */

static double hs_now(void) { struct timespec ts; clock_gettime(CLOCK_MONOTONIC, &ts); return ts.tv_sec + ts.tv_nsec * 1e-9; }

static int hs_sched_install(parsec_context_t *c) { (void)c; hs_npend = 0; return 0; }
static int hs_sched_flow_init(parsec_execution_stream_t *es, struct parsec_barrier_t *b) { (void)es; (void)b; return 0; }
static void hs_sched_remove(parsec_context_t *c) { (void)c; }

static uint32_t hs_tpid[HS_MAXPEND];
/* canonical name: the printed task name up to the first '[' ("TB(1)", "Startup for TA()"); the rest of
 * parsec_task_snprintf's output contains data keys that may depend on addresses */
static void hs_canon_name(parsec_task_t *t, char *nm, size_t n)
{
    parsec_task_snprintf(nm, n, t);
    char *b = strchr(nm, '['); if (b) *b = 0;
}
static void hs_insert(parsec_task_t *t)
{
    char nm[96];
    hs_canon_name(t, nm, sizeof(nm));
    uint32_t tpid = t->taskpool ? t->taskpool->taskpool_id : 0;
    if (hs_npend >= HS_MAXPEND) { fprintf(stderr, "hsched: too many pending tasks\n"); abort(); }
    /* canonical order: by name, then taskpool id (monotone across runs), ties (re-submissions) by arrival */
    int i = hs_npend;
    while (i > 0) {
        int c = strcmp(hs_name[i - 1], nm);
        if (c < 0 || (c == 0 && hs_tpid[i - 1] <= tpid)) break;
        hs_pend[i] = hs_pend[i - 1]; memcpy(hs_name[i], hs_name[i - 1], 96); hs_ord[i] = hs_ord[i - 1]; hs_tpid[i] = hs_tpid[i - 1]; i--;
    }
    hs_pend[i] = t; memcpy(hs_name[i], nm, 96); hs_ord[i] = hs_seq++; hs_tpid[i] = tpid;
    hs_npend++;
}

static int hs_sched_schedule(parsec_execution_stream_t *es, parsec_task_t *ring, int32_t distance)
{
    (void)es; (void)distance;
    /* detach every task of the ring and insert it */
    parsec_task_t *arr[HS_MAXPEND]; int n = 0;
    parsec_list_item_t *it = &ring->super;
    do { if (n >= HS_MAXPEND) abort(); arr[n++] = (parsec_task_t *)it; it = (parsec_list_item_t *)it->list_next; } while (it != &ring->super);
    for (int i = 0; i < n; i++) { PARSEC_LIST_ITEM_SINGLETON(&arr[i]->super); hs_insert(arr[i]); }
    return 0;
}

static parsec_task_t *hs_sched_select(parsec_execution_stream_t *es, int32_t *distance)
{
    (void)es; *distance = 0;
    if (hs_npend == 0) return NULL;
    int c = 0;
    hs_explorer_t *ex = hs_ex;
    if (ex && hs_npend > 1) {
        int i = ex->npts;
        if (i >= HS_MAXPTS) { fprintf(stderr, "hsched: too many choice points\n"); abort(); }
        if (i < ex->prefix_len) { c = ex->prefix[i]; if (c >= hs_npend) { fprintf(stderr, "hsched: replay diverged at point %d (choice %d of %d)\n", i, c, hs_npend); abort(); } }
        ex->nch[i] = (unsigned char)hs_npend; ex->cho[i] = (unsigned char)c; ex->npts = i + 1;
    }
    parsec_task_t *t = hs_pend[c];
    if (ex && ex->order_len + 100 < (int)sizeof(ex->order)) ex->order_len += snprintf(ex->order + ex->order_len, sizeof(ex->order) - ex->order_len, "%s%s", ex->order_len ? " " : "", hs_name[c]);
    for (int i = c; i + 1 < hs_npend; i++) { hs_pend[i] = hs_pend[i + 1]; memcpy(hs_name[i], hs_name[i + 1], 96); hs_ord[i] = hs_ord[i + 1]; hs_tpid[i] = hs_tpid[i + 1]; }
    hs_npend--;
    if (hs_on_select) hs_on_select(t);
    return t;
}

static parsec_sched_module_t hs_module = { NULL, { hs_sched_install, hs_sched_flow_init, hs_sched_schedule, hs_sched_select, NULL, hs_sched_remove } };

static void hs_install(parsec_context_t *ctx)
{
    parsec_remove_scheduler(ctx);
    parsec_current_scheduler = &hs_module;
    hs_module.module.install(ctx);
}
static void hs_uninstall(parsec_context_t *ctx) { (void)ctx; parsec_current_scheduler = NULL; }

static void hs_begin(hs_explorer_t *ex, int max_dev, double deadline_s)
{
    memset(ex, 0, sizeof(*ex));
    ex->max_dev = max_dev; ex->deadline = deadline_s > 0 ? hs_now() + deadline_s : 0; ex->exhaustive = 1;
    hs_item_t *root = (hs_item_t *)calloc(1, sizeof(hs_item_t)); ex->stack = root;
    hs_ex = ex;
}
/* start the next run; returns 0 when the search is complete (or the deadline / max_runs hit) */
static int hs_next(hs_explorer_t *ex)
{
    if (ex->cur) { fprintf(stderr, "hsched: hs_end_run missing\n"); abort(); }
    if (!ex->stack) { hs_ex = NULL; return 0; }
    if ((ex->deadline > 0 && hs_now() > ex->deadline) || (ex->max_runs && ex->runs >= ex->max_runs)) {
        ex->exhaustive = 0; while (ex->stack) { hs_item_t *n = ex->stack->next; free(ex->stack); ex->stack = n; } hs_ex = NULL; return 0;
    }
    ex->cur = ex->stack; ex->stack = ex->cur->next;
    ex->prefix = ex->cur->ch; ex->prefix_len = ex->cur->len; ex->npts = 0; ex->order_len = 0; ex->order[0] = 0;
    hs_npend = 0; hs_ex = ex;
    return 1;
}
static void hs_end_run(hs_explorer_t *ex)
{
    hs_item_t *it = ex->cur; ex->cur = NULL;
    if (ex->npts < it->len) { fprintf(stderr, "hsched: run shorter (%d points) than its prefix (%d): nondeterminism\n", ex->npts, it->len); abort(); }
    if (hs_npend != 0) { fprintf(stderr, "hsched: %d tasks still pending at end of run\n", hs_npend); abort(); }
    ex->runs++; ex->transitions += ex->npts; ex->nodes += ex->npts - (it->len ? it->len - 1 : 0);
    if (ex->npts > ex->max_points) ex->max_points = ex->npts;
    int dev = 0; for (int i = 0; i < ex->npts; i++) if (ex->cho[i]) dev++;
    if (dev) ex->nontrivial++;
    int d = it->dev;
    for (int i = it->len; i < ex->npts; i++) {
        if (ex->max_dev >= 0 && d + 1 > ex->max_dev) { if (ex->nch[i] > 1) ex->exhaustive = ex->exhaustive; continue; }
        for (int alt = ex->nch[i] - 1; alt >= 1; alt--) {
            hs_item_t *ni = (hs_item_t *)malloc(sizeof(hs_item_t) + i + 1);
            ni->len = i + 1; ni->dev = d + 1; memcpy(ni->ch, ex->cho, i); ni->ch[i] = (unsigned char)alt;
            ni->next = ex->stack; ex->stack = ni;
        }
    }
    free(it);
}
#endif
