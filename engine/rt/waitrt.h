/* waitrt (E4 helper, used by C06 / C15 / C22): harness protocol + guarded worker processes.
 *
 *  - protocol: --json <file> --outdir <dir> --deadline <s> --replay <file> --thorough   (same as cosched / seqx)
 *  - wr_run_legs(): the enumeration of one scenario is split into `nslices` worker processes (fork, no exec).
 *    Every worker owns a MAP_SHARED block: the case it is currently executing (so that a crash / failed
 *    assertion / hang of the REAL runtime is reported as a violation together with the exact case), a progress
 *    counter (stall detection), its counters, samples and the hashes of the distinct outcomes it observed.
 *    The parent unions the outcome hashes, sums the counters and writes one scenario record.
 *  - a global stamp counter (wr_stamp) for call/return/enter/exit times.
 * Header-only; include in exactly one TU.
 */
#ifndef WAITRT_H
#define WAITRT_H
#include <stdio.h>
#include <stdlib.h>
#include <string.h>
#include <stdint.h>
#include <stdarg.h>
#include <time.h>
#include <errno.h>
#include <signal.h>
#include <unistd.h>
#include <sys/mman.h>
#include <sys/stat.h>
#include <sys/wait.h>

#define WR_MAXOUT   (1 << 16)
#define WR_CASELEN  8192
#define WR_NSAMPLES 4

typedef struct { uint64_t a, b; } wr_h128_t;
static wr_h128_t wr_hash(const void *p, size_t n)
{
    const uint8_t *s = (const uint8_t *)p; wr_h128_t h = { 1469598103934665603ULL, 0x9E3779B97F4A7C15ULL };
    for (size_t i = 0; i < n; i++) { h.a ^= s[i]; h.a *= 1099511628211ULL; h.b = (h.b ^ s[i]) * 0xff51afd7ed558ccdULL; h.b ^= h.b >> 29; }
    if (!h.a && !h.b) h.a = 1;
    return h;
}
typedef struct { wr_h128_t *v; size_t cap, n; } wr_set_t;
static int wr_set_add(wr_set_t *s, wr_h128_t h)
{
    if (s->n * 2 >= s->cap) {
        size_t nc = s->cap ? s->cap * 2 : 4096; wr_h128_t *nv = (wr_h128_t *)calloc(nc, sizeof(wr_h128_t));
        for (size_t i = 0; i < s->cap; i++) if (s->v[i].a || s->v[i].b) { size_t j = s->v[i].a & (nc - 1); while (nv[j].a || nv[j].b) j = (j + 1) & (nc - 1); nv[j] = s->v[i]; }
        free(s->v); s->v = nv; s->cap = nc;
    }
    size_t j = h.a & (s->cap - 1);
    while (s->v[j].a || s->v[j].b) { if (s->v[j].a == h.a && s->v[j].b == h.b) return 0; j = (j + 1) & (s->cap - 1); }
    s->v[j] = h; s->n++; return 1;
}

typedef struct {
    char curcase[WR_CASELEN];            /* the case being executed right now (crash / hang attribution) */
    volatile long progress;              /* bumped by the worker; the parent kills a worker that stalls */
    long states, transitions, executions, nontrivial;
    int exhaustive, violations, broken, done;
    char samples[WR_NSAMPLES][1024]; int nsamples;
    long nout, nout_dropped; wr_h128_t out[WR_MAXOUT];
    long aux[8];                          /* harness-defined extra counters (summed by the parent) */
} wr_leg_t;

static const char *wr_property = "C00";
static char wr_outdir[512] = "/verif/out";
static FILE *wr_json = NULL; static int wr_json_first = 1;
static int wr_total_violations = 0, wr_total_broken = 0;
static double wr_deadline = 0;           /* absolute (wr_now) or 0 */
static int wr_thorough = 0;
static const char *wr_replay_file = NULL;
static wr_leg_t *wr_leg = NULL;          /* in a worker: its shared block */
static wr_set_t wr_outset;               /* in a worker: local set of outcome hashes */
static const char *wr_scen = "";         /* in a worker: scenario name */
static int wr_verbose = 0;
static char wr_known[16][256]; static int wr_nknown = 0;

static double wr_now(void) { struct timespec ts; clock_gettime(CLOCK_MONOTONIC, &ts); return ts.tv_sec + ts.tv_nsec * 1e-9; }
static int wr_expired(void) { return wr_deadline > 0 && wr_now() > wr_deadline; }

static long wr_seq = 0;
static inline long wr_stamp(void) { return __sync_add_and_fetch(&wr_seq, 1); }

static void wr_json_str(FILE *f, const char *s)
{
    fputc('"', f);
    for (; *s; s++) { unsigned char c = (unsigned char)*s; if (c == '"' || c == '\\') { fputc('\\', f); fputc(c, f); } else if (c == '\n') fputs("\\n", f); else if (c < 0x20) fprintf(f, "\\u%04x", c); else fputc(c, f); }
    fputc('"', f);
}

/* write a replay file and print the VIOLATION line (callable from workers and from the parent) */
static void wr_violation(const char *scen, const char *casestr, const char *msg)
{
    static int seq = 0; char dir[600], path[900];
    snprintf(dir, sizeof(dir), "%s/replay", wr_outdir); mkdir(wr_outdir, 0777); mkdir(dir, 0777);
    snprintf(path, sizeof(path), "%s/%s-%s-%d-%d.json", dir, wr_property, scen, (int)getpid(), seq++);
    FILE *f = fopen(path, "w");
    if (f) {
        fprintf(f, "{\"property\":\"%s\",\"engine\":\"rt\",\"scenario\":\"%s\",\n \"case\":", wr_property, scen); wr_json_str(f, casestr);
        fprintf(f, ",\n \"message\":"); wr_json_str(f, msg); fprintf(f, "}\n"); fclose(f);
    }
    printf("VIOLATION property=%s replay=%s\n", wr_property, wr_replay_file ? wr_replay_file : path);
    printf("  scenario=%s case=[%s]: %s\n", scen, casestr, msg);
    fflush(stdout);
    if (wr_leg) wr_leg->violations++; else wr_total_violations++;
}
static void wr_known_finding(const char *fmt, ...)
{
    char b[256]; va_list ap; va_start(ap, fmt); vsnprintf(b, sizeof(b), fmt, ap); va_end(ap);
    for (int i = 0; i < wr_nknown; i++) if (!strcmp(wr_known[i], b)) return;
    if (wr_nknown < 16) strcpy(wr_known[wr_nknown++], b);
    printf("KNOWN-FINDING: property=%s %s\n", wr_property, b); fflush(stdout);
}

/* ---- worker-side helpers ---- */
static void wr_setcase(const char *fmt, ...)
{
    va_list ap; va_start(ap, fmt);
    if (wr_leg) { vsnprintf(wr_leg->curcase, WR_CASELEN, fmt, ap); wr_leg->progress++; }
    va_end(ap);
}
static void wr_outcome(const char *s)
{
    wr_h128_t h = wr_hash(s, strlen(s));
    if (wr_set_add(&wr_outset, h) && wr_leg) { if (wr_leg->nout < WR_MAXOUT) wr_leg->out[wr_leg->nout++] = h; else wr_leg->nout_dropped++; }
}
static void wr_sample(const char *s)
{
    if (wr_leg && wr_leg->nsamples < WR_NSAMPLES) { snprintf(wr_leg->samples[wr_leg->nsamples], 1024, "%s", s); wr_leg->nsamples++; }
}
static void wr_fail(const char *fmt, ...)   /* violation on the current case */
{
    char b[1024]; va_list ap; va_start(ap, fmt); vsnprintf(b, sizeof(b), fmt, ap); va_end(ap);
    wr_violation(wr_scen, wr_leg ? wr_leg->curcase : "?", b);
}

static void wr_report(const char *name, long states, long transitions, long executions, long nontrivial,
                      long distinct_outcomes, int exhaustive, int violations, double wall, const char *extra_json,
                      const char **samples, int nsamples)
{
    if (wr_json) {
        fprintf(wr_json, "%s{\"name\":\"%s\",\"engine\":\"rt\",\"states\":%ld,\"transitions\":%ld,\"executions\":%ld,\"nontrivial\":%ld,\"distinct_outcomes\":%ld,"
                "\"exhaustive\":%s,\"violations\":%d,\"wall_s\":%.2f", wr_json_first ? "" : ",\n", name, states, transitions, executions, nontrivial, distinct_outcomes,
                exhaustive ? "true" : "false", violations, wall);
        if (extra_json && *extra_json) fprintf(wr_json, ",%s", extra_json);
        fprintf(wr_json, ",\"samples\":[");
        for (int i = 0; i < nsamples; i++) { if (i) fputc(',', wr_json); wr_json_str(wr_json, samples[i]); }
        fprintf(wr_json, "]}");
        wr_json_first = 0; fflush(wr_json);
    }
    fprintf(stderr, "rt[%s/%s]: states=%ld transitions=%ld executions=%ld nontrivial=%ld outcomes=%ld exhaustive=%d violations=%d %.1fs\n",
            wr_property, name, states, transitions, executions, nontrivial, distinct_outcomes, exhaustive, violations, wall);
}

/* Run fn(slice, nslices, arg) in `nslices` forked workers; aggregate into one scenario record `name`.
 * stall_s: a worker whose progress counter does not move for that long is killed and reported as a hang
 * (violation, with the case it was executing). aux_names: optional names for the aux counters (extra JSON). */
typedef void (*wr_leg_fn)(int slice, int nslices, void *arg);
static int wr_run_legs(const char *name, int nslices, wr_leg_fn fn, void *arg, double stall_s, const char **aux_names)
{
    double t0 = wr_now();
    wr_leg_t **legs = (wr_leg_t **)calloc(nslices, sizeof(*legs)); pid_t *pids = (pid_t *)calloc(nslices, sizeof(pid_t));
    fflush(stdout); fflush(stderr); if (wr_json) fflush(wr_json);
    for (int s = 0; s < nslices; s++) {
        legs[s] = (wr_leg_t *)mmap(NULL, sizeof(wr_leg_t), PROT_READ | PROT_WRITE, MAP_SHARED | MAP_ANONYMOUS, -1, 0);
        if (legs[s] == MAP_FAILED) { perror("mmap"); exit(2); }
        legs[s]->exhaustive = 1;
        pid_t p = fork();
        if (p < 0) { perror("fork"); exit(2); }
        if (p == 0) {
            wr_leg = legs[s]; wr_scen = name; wr_json = NULL; memset(&wr_outset, 0, sizeof(wr_outset));
            snprintf(wr_leg->curcase, WR_CASELEN, "(worker %d/%d start-up)", s, nslices);
            fn(s, nslices, arg);
            wr_leg->done = 1;
            fflush(stdout); fflush(stderr);
            _exit(0);
        }
        pids[s] = p;
    }
    int viol = 0, broken = 0;
    long *lastp = (long *)calloc(nslices, sizeof(long)); double *lastt = (double *)calloc(nslices, sizeof(double)); int *alive = (int *)calloc(nslices, sizeof(int));
    double *lastseen = (double *)calloc(nslices, sizeof(double));
    for (int s = 0; s < nslices; s++) { alive[s] = 1; lastt[s] = 0; lastseen[s] = wr_now(); lastp[s] = -1; }
    int nalive = nslices;
    while (nalive > 0) {
        int any = 0;
        for (int s = 0; s < nslices; s++) {
            if (!alive[s]) continue;
            int st; pid_t r = waitpid(pids[s], &st, WNOHANG);
            if (r == pids[s]) {
                alive[s] = 0; nalive--; any = 1;
                if (!(WIFEXITED(st) && WEXITSTATUS(st) == 0 && legs[s]->done)) {
                    char msg[512];
                    if (WIFSIGNALED(st)) snprintf(msg, sizeof(msg), "the runtime crashed (signal %d%s) while executing this case", WTERMSIG(st), WTERMSIG(st) == SIGABRT ? ": abort / failed assertion" : WTERMSIG(st) == SIGSEGV ? ": segmentation fault" : "");
                    else snprintf(msg, sizeof(msg), "worker exited with status %d while executing this case", WIFEXITED(st) ? WEXITSTATUS(st) : -1);
                    if ((WIFEXITED(st) && WEXITSTATUS(st) == 3) || !strncmp(legs[s]->curcase, "(worker", 7)) { broken++; fprintf(stderr, "rt: worker %d failed outside any case (%s) [%s]\n", s, msg, legs[s]->curcase); }
                    else { wr_violation(name, legs[s]->curcase, msg); viol++; }
                    legs[s]->exhaustive = 0;
                }
                continue;
            }
            /* stall time = sum of the parent's own poll intervals, each capped at 0.1 s: a frozen / starved machine (VM pause,
             * clock jump) stalls the parent as well and must not be mistaken for a hang of the worker */
            double now = wr_now(), dt = now - lastseen[s]; lastseen[s] = now; if (dt > 0.1) dt = 0.1;
            if (legs[s]->progress != lastp[s]) { lastp[s] = legs[s]->progress; lastt[s] = 0; }
            else lastt[s] += dt;
            if (stall_s > 0 && lastt[s] > (strncmp(legs[s]->curcase, "(worker", 7) ? stall_s : 600)) {   /* start-up (parsec_init) may take long on a loaded machine */
                kill(pids[s], SIGKILL); waitpid(pids[s], &st, 0); alive[s] = 0; nalive--; any = 1;
                char msg[256]; snprintf(msg, sizeof(msg), "hang: no progress for %.0f s while executing this case (a wait call never returns)", stall_s);
                if (!strncmp(legs[s]->curcase, "(worker", 7)) { broken++; fprintf(stderr, "rt: worker %d stalled during start-up\n", s); }
                else { wr_violation(name, legs[s]->curcase, msg); viol++; }
                legs[s]->exhaustive = 0;
            }
        }
        if (!any) { struct timespec ts = { 0, 5000000 }; nanosleep(&ts, NULL); }
    }
    /* aggregate */
    long states = 0, trans = 0, execs = 0, nontriv = 0, dropped = 0; int exh = 1; long aux[8] = {0};
    wr_set_t u = {0}; const char *sp[WR_NSAMPLES * 4]; int nsp = 0;
    for (int s = 0; s < nslices; s++) {
        wr_leg_t *l = legs[s];
        states += l->states; trans += l->transitions; execs += l->executions; nontriv += l->nontrivial; exh &= l->exhaustive; viol += l->violations; broken += l->broken; dropped += l->nout_dropped;
        for (int k = 0; k < 8; k++) aux[k] += l->aux[k];
        for (long i = 0; i < l->nout; i++) wr_set_add(&u, l->out[i]);
        for (int i = 0; i < l->nsamples && nsp < WR_NSAMPLES; i++) if (s == 0 || nsp < WR_NSAMPLES) sp[nsp++] = l->samples[i];
    }
    if (viol || broken) exh = 0;
    char extra[1024]; int o = snprintf(extra, sizeof(extra), "\"workers\":%d,\"outcomes_dropped\":%ld,\"broken\":%s", nslices, dropped, broken ? "true" : "false");
    for (int k = 0; aux_names && k < 8 && aux_names[k]; k++) o += snprintf(extra + o, sizeof(extra) - o, ",\"%s\":%ld", aux_names[k], aux[k]);
    wr_report(name, states, trans, execs, nontriv, (long)u.n + dropped, exh, viol, wr_now() - t0, extra, sp, nsp);
    wr_total_violations += viol; wr_total_broken += broken;
    for (int s = 0; s < nslices; s++) munmap(legs[s], sizeof(wr_leg_t));
    free(legs); free(pids); free(lastp); free(lastt); free(lastseen); free(alive); free(u.v);
    return viol;
}

/* common argument handling */
static int wr_init(int argc, char **argv, const char *property)
{
    wr_property = property; const char *json = NULL; double dl = 0;
    for (int i = 1; i < argc; i++) {
        if (!strcmp(argv[i], "--json") && i + 1 < argc) json = argv[++i];
        else if (!strcmp(argv[i], "--outdir") && i + 1 < argc) snprintf(wr_outdir, sizeof(wr_outdir), "%s", argv[++i]);
        else if (!strcmp(argv[i], "--deadline") && i + 1 < argc) dl = atof(argv[++i]);
        else if (!strcmp(argv[i], "--thorough")) wr_thorough = 1;
        else if (!strcmp(argv[i], "--verbose")) wr_verbose = 1;
        else if (!strcmp(argv[i], "--replay") && i + 1 < argc) wr_replay_file = argv[++i];
    }
    if (dl > 0) wr_deadline = wr_now() + dl;
    setvbuf(stdout, NULL, _IOLBF, 0);
    wr_json = fopen(json ? json : "/dev/null", "w");
    if (!wr_json) { perror(json); exit(2); }
    fprintf(wr_json, "{\"engine\":\"rt\",\"property\":\"%s\",\"scenarios\":[\n", property);
    return 0;
}
static int wr_finish(void)
{
    if (wr_json) { fprintf(wr_json, "\n]}\n"); fclose(wr_json); wr_json = NULL; }
    return wr_total_violations ? 1 : wr_total_broken ? 2 : 0;
}
/* read the "scenario" and "case" strings of a replay file */
static int wr_read_replay(const char *path, char *scen, size_t slen, char *cas, size_t clen)
{
    FILE *f = fopen(path, "r"); if (!f) return -1;
    static char buf[1 << 16]; size_t n = fread(buf, 1, sizeof(buf) - 1, f); buf[n] = 0; fclose(f);
    char *s = strstr(buf, "\"scenario\":\""); if (!s) return -1; s += 12; char *e = strchr(s, '"'); if (!e) return -1; snprintf(scen, slen, "%.*s", (int)(e - s), s);
    char *h = strstr(buf, "\"case\":\""); if (!h) return -1; h += 8; e = strchr(h, '"'); if (!e) return -1; snprintf(cas, clen, "%.*s", (int)(e - h), h);
    return 0;
}
/* find "key=value" in a case string; value ends at a space */
static int wr_case_get(const char *cas, const char *key, char *val, size_t vlen)
{
    size_t kl = strlen(key); const char *p = cas;
    while ((p = strstr(p, key)) != NULL) {
        if ((p == cas || p[-1] == ' ') && p[kl] == '=') { p += kl + 1; const char *e = strchr(p, ' '); size_t l = e ? (size_t)(e - p) : strlen(p); if (l >= vlen) l = vlen - 1; memcpy(val, p, l); val[l] = 0; return 1; }
        p += kl;
    }
    return 0;
}
static long wr_case_int(const char *cas, const char *key, long dflt) { char v[64]; return wr_case_get(cas, key, v, sizeof(v)) ? atol(v) : dflt; }
#endif
