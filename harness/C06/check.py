import os, subprocess, sys
sys.path.insert(0, os.path.join(os.environ.get('VERIF_ROOT', '/verif'), 'harness', 'C02'))
import il          # instruction-level leg of the real PTG runtime (harness/C02/il.py, c02_il.c), here with taskpool_wait on stream 0
META = dict(
    engine='rt+cosched',
    technique='bounded-exhaustive enumeration of legal start/add/wait/test/insert histories of the real runtime, each executed under every task-level order of a harness-owned scheduler (one stream), plus a free-running configuration box; plus (legs il-*-tpwait) preemption-bounded exhaustive instruction-level schedule enumeration (cosched) of parsec_taskpool_wait on stream 0 against the worker loop on stream 1 on real generated PTG taskpools',
    level_text='All complete legal histories (alphabet: context_start, context_wait, add_taskpool(root of a tree of "first task adds" / "completion callback adds" links), taskpool_wait, taskpool_test, DTD batch insertion) of length <= 5 over pool kinds {1-task PTG, 2-task PTG, DTD}, <= 6 over {1-task PTG, DTD} and <= 4 with 2-task PTG chains (quick; thorough: <= 6 over all three kinds, then 7, then 8 over {1-task PTG, DTD} as far as the deadline allows) over <= 3 taskpools and <= 3 epochs are executed on the real runtime with EVERY task-level order on one execution stream; after every call the stamps (global counter, stamped by task bodies, completion callbacks and call returns) must show: context_wait returned after every task and completion callback of every taskpool added before or while it ran (transitively); taskpool_wait(tp) returned after every task and the callback of tp; every task ran exactly once; every PTG completion callback ran exactly once after its last task (DTD: once per wait that covers the pool); return codes are the documented ones in every epoch. The same histories run free on threads {1,2,4} x schedulers {default, ap, ll}. Legs il-*-tpwait: three 3-4 task PTG taskpools (join, fan-out, chain through the scheduler queue) x 2 dependency back-ends on two controlled execution streams - stream 0: add_taskpool, parsec_taskpool_wait(tp), parsec_context_wait; stream 1: the worker loop - every interleaving with <= 1 preemption (thorough <= 2) at instrumented accesses to the taskpool counters, termination monitor, dependency tables, repositories, scheduler queue: when parsec_taskpool_wait returns every task has completed and the completion callback has run exactly once, and the epoch closes normally.',
    level_note='Task bodies, callbacks and runtime actions are atomic at the task level (one stream under hsched); the instruction-level races of the termination detector are C10 (and, on whole taskpools with 2 streams under sequential consistency, the il legs). Restrictions of the alphabet: link targets and sources are PTG pools; DTD pools are added and fed by the main thread only and only while the context is started; taskpool_wait/test are issued only on pools that are certainly registered (the API returns -1 otherwise). A crash / failed assertion / hang on a case counts as a violation. Free-running legs enumerate configurations, not schedules.',
)
RULE = ("one execution = one complete history run on the real runtime under one choice list of the harness scheduler (every select() with >1 pending "
        "ready tasks is a choice point); states = nodes of the choice trees; transitions = scheduling decisions (orders legs) / operations (threads leg); "
        "non-trivial = executions deviating from the canonical task order at least once (orders) or running on >1 thread (threads); "
        "outcomes = distinct event strings (call returns, task entries, callbacks in stamp order)")
ASSUME = ["task bodies and runtime-internal actions are atomic at the task level (one execution stream under hsched)",
          "single process (hk-shm); remote dependencies are not involved",
          "DTD taskpools: 'completion' is interpreted per wait (the runtime re-arms the detector when a wait leaves)"]
def _exe(ctx):
    b = ctx.build('hk-shm')
    gen = os.path.join('/verif/out', 'gen', 'C06'); os.makedirs(gen, exist_ok=True)
    hdir = os.path.dirname(os.path.abspath(__file__))
    r = subprocess.run([os.path.join(b, 'parsec/interfaces/ptg/ptg-compiler/parsec-ptgpp'), '-E', '-i', os.path.join(hdir, 'chain.jdf'), '-o', 'chain', '-f', 'chain'],
                       cwd=gen, capture_output=True, text=True)
    if r.returncode != 0 or not os.path.exists(os.path.join(gen, 'chain.c')):
        import sys, vlib
        sys.stderr.write(r.stdout + r.stderr); raise vlib.Broken('ptgpp failed on chain.jdf')
    return ctx.compile('hk-shm', 'wait', ['wait_h.c', os.path.join(gen, 'chain.c')], instr=False,
                       cflags=['-I' + gen, '-I/verif/engine/rt', '-I/repo/parsec', '-Wno-unused-but-set-variable', '-Wno-format-truncation'])
IL_PROGS = ['il_join', 'il_fanout', 'il_chain']
def check(ctx):
    import vlib
    from concurrent.futures import ThreadPoolExecutor
    fut = ThreadPoolExecutor(1).submit(il.build, ctx, IL_PROGS)      # built in the background
    exe = _exe(ctx)
    q = ctx.tier == 'quick'
    jobs = str(min(vlib.NJOBS, 12))
    if q:
        args = ['--plan', '4:abcd:0,6:ad:0,5:abd:0', '--len-free', '5', '--kinds', 'abd', '--reps', '1', '--deadline', '50']
    else:
        args = ['--plan', '6:abcd:0,7:abd:6,8:ad:7', '--len-free', '6', '--kinds', 'abcd', '--reps', '2', '--deadline', '1000', '--thorough']
    ctx.run_engine(exe, args + ['--outdir', vlib.OUT, '--jobs', jobs], label='wait', timeout=(600 if q else 2400))
    B = fut.result()
    if not ctx.violations:
        # starved variant: stream 0 never gets a task, it only polls inside parsec_taskpool_wait while stream 1 runs everything
        # (termination detected on stream 1; the return of the wait on stream 0 anywhere inside costs one preemption)
        il.run(ctx, B, c01_only=True, mode='tpwait', names=IL_PROGS, starve0='both', names_starve0=['il_join', 'il_chain'])
    return ctx.finish(RULE + '; ' + il.RULE, ASSUME + il.ASSUME)
def replay(ctx, path, obj):
    if obj.get('engine') == 'cosched':
        return il.replay(ctx, path, obj)
    return subprocess.call([_exe(ctx), '--replay', path])
