/* C21: parsec_redistribute copies exactly the requested window.
 *
 * Exhaustive enumeration of a finite box of (source descriptor, target descriptor, window) points, all executed
 * in ONE process with ONE parsec_init (per MPI rank).  The code under test is the real parsec_redistribute() of
 * libparsec (wrapper + redistribute.jdf + redistribute_reshuffle.jdf); the oracle is an analytic reference:
 *   source element (gi,gj)  = SRC(gi,gj)   (unique per element, padding of partial tiles included)
 *   target pre-fill (gi,gj) = SENT(gi,gj)  (unique per element, padding included)
 *   after the call: target(gi,gj) == SRC(gi-disi_T+disi_Y, gj-disj_T+disj_Y) inside the window, SENT(gi,gj) elsewhere,
 *   for every element of every locally stored target tile (whole mb x nb tile buffers), and the source is untouched.
 * Under mpiexec every rank checks its own tiles; verdicts are combined with MPI_Allreduce.
 */
#include "parsec.h"
#include "parsec/parsec_internal.h"
#include "parsec/data_dist/matrix/matrix.h"
#include "parsec/data_dist/matrix/two_dim_rectangle_cyclic.h"
#include "parsec/data_dist/matrix/sbc.h"
#include <mpi.h>
#include <dlfcn.h>
#include <signal.h>
#include <unistd.h>
#include "seqx.h"

enum { D_BC = 0, D_SBCL = 1, D_SBCU = 2 };
static const char *dist_name[] = { "bc", "sbcL", "sbcU" };

typedef struct { int dist, M, N, t, u, P, Q, kq; } mdesc_t;     /* matrix M x N elements, tiles t x u (mb x nb; a tile code c < 10 is the square c x c, c >= 10 is (c/10) x (c%10)), grid P x Q, k-cyclicity kq (columns) */
typedef struct { int sr, sc, iY, jY, iT, jT; } win_t;
typedef struct {
    mdesc_t d;
    parsec_matrix_block_cyclic_t bc;
    parsec_matrix_sbc_t sbc;
    parsec_tiled_matrix_t *tm;
    void *mat;
} mat_t;

static parsec_context_t *parsec;
static int world = 1, myrank = 0;

/* ---- observation of the path really taken: interpose parsec_context_add_taskpool (called by parsec_redistribute) ---- */
static char last_tp_name[64];
static long n_add_taskpool;
int parsec_context_add_taskpool(parsec_context_t *ctx, parsec_taskpool_t *tp)
{
    static int (*real)(parsec_context_t *, parsec_taskpool_t *) = NULL;
    if (!real) real = (int (*)(parsec_context_t *, parsec_taskpool_t *))dlsym(RTLD_NEXT, "parsec_context_add_taskpool");
    snprintf(last_tp_name, sizeof(last_tp_name), "%s", tp->taskpool_name ? tp->taskpool_name : "?");
    n_add_taskpool++;
    return real(ctx, tp);
}

static inline double SRC(int gi, int gj)  { return 1000.0 + 32.0 * gi + gj; }
static inline double SENT(int gi, int gj) { return -(1000.0 + 32.0 * gi + gj); }

static int sbc_r_for(int nodes) { return nodes == 1 ? 2 : nodes == 2 ? 2 : nodes == 3 ? 3 : nodes == 6 ? 4 : 0; }

static int mat_init(mat_t *a, mdesc_t d, const char *key)
{
    memset(a, 0, sizeof(*a)); a->d = d;
    if (d.dist == D_BC) {
        parsec_matrix_block_cyclic_init(&a->bc, PARSEC_MATRIX_DOUBLE, PARSEC_MATRIX_TILE, myrank, d.t, d.u, d.M, d.N, 0, 0, d.M, d.N, d.P, d.Q, 1, d.kq, 0, 0);
        a->tm = &a->bc.super;
    } else {
        int r = sbc_r_for(world);
        if (!r) return -1;
        if (PARSEC_SUCCESS != parsec_matrix_sbc_init(&a->sbc, PARSEC_MATRIX_DOUBLE, myrank, d.t, d.u, d.M, d.N, 0, 0, d.M, d.N, world, r,
                                                     d.dist == D_SBCL ? PARSEC_MATRIX_LOWER : PARSEC_MATRIX_UPPER)) return -1;
        a->tm = &a->sbc.super;
    }
    size_t bytes = (size_t)a->tm->nb_local_tiles * a->tm->bsiz * sizeof(double);
    a->mat = bytes ? parsec_data_allocate(bytes) : NULL;
    if (d.dist == D_BC) a->bc.mat = a->mat; else a->sbc.mat = a->mat;
    parsec_data_collection_set_key(&a->tm->super, key);
    return 0;
}
static void mat_fini(mat_t *a)
{
    parsec_tiled_matrix_destroy(a->tm);
    if (a->mat) parsec_data_free(a->mat);
}
static int tile_stored(const mat_t *a, int m, int n)
{
    if (a->d.dist == D_SBCL) return m >= n;
    if (a->d.dist == D_SBCU) return n >= m;
    return 1;
}
static double *tile_ptr(mat_t *a, int m, int n)
{
    parsec_data_collection_t *dc = &a->tm->super;
    if (!tile_stored(a, m, n)) return NULL;
    if (dc->rank_of(dc, m, n) != (uint32_t)myrank) return NULL;
    parsec_data_t *d = dc->data_of(dc, m, n);
    parsec_data_copy_t *c = parsec_data_get_copy(d, 0);
    return (double *)c->device_private;
}
static void mat_fill(mat_t *a, int sentinel)
{
    int t = a->d.t, u = a->d.u;
    for (int n = 0; n < a->tm->lnt; n++) for (int m = 0; m < a->tm->lmt; m++) {
        double *p = tile_ptr(a, m, n); if (!p) continue;
        for (int j = 0; j < u; j++) for (int i = 0; i < t; i++) p[j * t + i] = sentinel ? SENT(m * t + i, n * u + j) : SRC(m * t + i, n * u + j);
    }
}
/* the window must lie in stored tiles of a triangular descriptor (documented restriction, enforced by the wrapper too) */
static int win_stored(const mdesc_t *d, int size_row, int size_col, int disi, int disj)
{
    int ms = disi / d->t, me = (disi + size_row - 1) / d->t, ns = disj / d->u, ne = (disj + size_col - 1) / d->u;
    if (d->dist == D_SBCL) return ms >= ne;
    if (d->dist == D_SBCU) return ns >= me;
    return 1;
}

/* ---- box parameters ---- */
typedef struct {
    int ydists[3], nyd, tdists[3], ntd;
    int minm, maxm;
    int tiles[12], ntiles;
    int kqs[3], nkq;
    int grids[8][2], ngrids;      /* process grids (P,Q) with P*Q == world, used for source and target independently */
    int reduced;                  /* 0: all displacements; 1: displacements restricted to {0, mid, max} in each dimension */
    int shard, nshards;
    int skip_k11;                 /* leave (kq_source, kq_target) = (1,1) to another invocation */
} box_t;

typedef struct {
    long cases, elems, nontrivial, reshuffle, general, unaligned, multi_src_tiles, multi_tgt_tiles, configs;
    sx_set_t outcomes;
    char samples[3][512]; int nsamples;
    int violations, exhaustive;
} stat_t;

static void case_str(char *b, size_t cap, const mdesc_t *y, const mdesc_t *t, const win_t *w)
{
    snprintf(b, cap, "np=%d Y=%s:%dx%d/t%dx%d/g%dx%d/k%d T=%s:%dx%d/t%dx%d/g%dx%d/k%d win=%dx%d@Y(%d,%d)->T(%d,%d)", world,
             dist_name[y->dist], y->M, y->N, y->t, y->u, y->P, y->Q, y->kq, dist_name[t->dist], t->M, t->N, t->t, t->u, t->P, t->Q, t->kq,
             w->sr, w->sc, w->iY, w->jY, w->iT, w->jT);
}
static int case_parse(const char *s, mdesc_t *y, mdesc_t *t, win_t *w, int *np)
{
    char yd[16], td[16];
    int n = sscanf(s, "np=%d Y=%15[^:]:%dx%d/t%dx%d/g%dx%d/k%d T=%15[^:]:%dx%d/t%dx%d/g%dx%d/k%d win=%dx%d@Y(%d,%d)->T(%d,%d)", np,
                   yd, &y->M, &y->N, &y->t, &y->u, &y->P, &y->Q, &y->kq, td, &t->M, &t->N, &t->t, &t->u, &t->P, &t->Q, &t->kq,
                   &w->sr, &w->sc, &w->iY, &w->jY, &w->iT, &w->jT);
    if (n != 23) return -1;
    y->dist = t->dist = -1;
    for (int i = 0; i < 3; i++) { if (!strcmp(yd, dist_name[i])) y->dist = i; if (!strcmp(td, dist_name[i])) t->dist = i; }
    return (y->dist < 0 || t->dist < 0) ? -1 : 0;
}

/* run one window on prepared matrices; returns 0 ok, 1 violation (msg filled; only meaningful on every rank after the allreduce) */
static int run_case(mat_t *Y, mat_t *T, const win_t *w, stat_t *st, char *msg, size_t mcap, int verbose)
{
    int bad = 0; long elems = 0;
    msg[0] = 0;
    mat_fill(T, 1);
    last_tp_name[0] = 0;
    if (world > 1) alarm(600);
    int rc = parsec_redistribute(parsec, Y->tm, T->tm, w->sr, w->sc, w->iY, w->jY, w->iT, w->jT);
    if (rc != PARSEC_SUCCESS) { snprintf(msg, mcap, "parsec_redistribute refused a valid window (rc=%d)", rc); bad = 1; }
    uint64_t h = 1469598103934665603ULL;
    int tt = T->d.t, tu = T->d.u, ty = Y->d.t, yu = Y->d.u;
    for (int n = 0; n < T->tm->lnt && !bad; n++) for (int m = 0; m < T->tm->lmt && !bad; m++) {
        double *p = tile_ptr(T, m, n); if (!p) continue;
        for (int j = 0; j < tu && !bad; j++) for (int i = 0; i < tt; i++) {
            int gi = m * tt + i, gj = n * tu + j;
            int in = gi >= w->iT && gi < w->iT + w->sr && gj >= w->jT && gj < w->jT + w->sc;
            double exp = in ? SRC(gi - w->iT + w->iY, gj - w->jT + w->jY) : SENT(gi, gj), got = p[j * tt + i];
            elems++;
            h = (h ^ (uint64_t)(int64_t)got) * 1099511628211ULL;
            if (verbose) printf("    T(%d,%d) = %g%s\n", gi, gj, got, got == exp ? "" : "   <-- WRONG");
            if (got != exp && !bad) {
                snprintf(msg, mcap, "rank %d: target element (%d,%d) [tile (%d,%d) local (%d,%d)] is %g, expected %g (%s the window) path=%s",
                         myrank, gi, gj, m, n, i, j, got, exp, in ? "inside" : "outside", last_tp_name);
                bad = 1; if (!verbose) break;
            }
        }
    }
    for (int n = 0; n < Y->tm->lnt && !bad; n++) for (int m = 0; m < Y->tm->lmt && !bad; m++) {
        double *p = tile_ptr(Y, m, n); if (!p) continue;
        for (int j = 0; j < yu && !bad; j++) for (int i = 0; i < ty; i++) {
            elems++;
            if (p[j * ty + i] != SRC(m * ty + i, n * yu + j)) {
                snprintf(msg, mcap, "rank %d: SOURCE element (%d,%d) changed to %g path=%s", myrank, m * ty + i, n * yu + j, p[j * ty + i], last_tp_name);
                bad = 1; break;
            }
        }
    }
    if (world > 1) {
        /* combine: lowest failing rank's message wins */
        int who = bad ? myrank : world, first;
        MPI_Allreduce(&who, &first, 1, MPI_INT, MPI_MIN, MPI_COMM_WORLD);
        uint64_t hs[2] = { h, (uint64_t)elems }, hr[2];
        MPI_Allreduce(hs, hr, 2, MPI_UINT64_T, MPI_SUM, MPI_COMM_WORLD);
        h = hr[0]; elems = (long)hr[1];
        if (first < world) { char tmp[SX_ERRLEN]; snprintf(tmp, sizeof(tmp), "%s", msg); MPI_Bcast(tmp, sizeof(tmp), MPI_CHAR, first, MPI_COMM_WORLD); snprintf(msg, mcap, "%s", tmp); bad = 1; }
    }
    if (world > 1) alarm(0);
    if (st) {
        st->cases++; st->elems += elems;
        int resh = !strcmp(last_tp_name, "redistribute_reshuffle");
        if (resh) st->reshuffle++; else st->general++;
        int unal = (w->iY % ty) || (w->jY % yu) || (w->iT % tt) || (w->jT % tu);
        int msrc = ((w->iY + w->sr - 1) / ty > w->iY / ty) || ((w->jY + w->sc - 1) / yu > w->jY / yu);
        int mtgt = ((w->iT + w->sr - 1) / tt > w->iT / tt) || ((w->jT + w->sc - 1) / tu > w->jT / tu);
        st->unaligned += unal; st->multi_src_tiles += msrc; st->multi_tgt_tiles += mtgt;
        if (unal || msrc || mtgt) st->nontrivial++;
        h = (h ^ (uint64_t)resh) * 1099511628211ULL;
        sx_h128_t hh = { h, h * 0x9E3779B97F4A7C15ULL + 1 };
        sx_set_add(&st->outcomes, hh);
    }
    return bad;
}

/* deadline: rank 0's clock decides (broadcast); single process: looked at every 256 cases */
static double pair_deadline = 0;   /* the time left is shared equally among the distribution pairs still to run */
static int deadline_cut(int force)
{
    static unsigned cnt = 0; int cut = 0;
    if (sx_deadline <= 0) return 0;
    if (world == 1) { if (!force && (++cnt & 255)) return 0; return sx_now() > pair_deadline; }
    if (myrank == 0) cut = sx_now() > pair_deadline;
    MPI_Bcast(&cut, 1, MPI_INT, 0, MPI_COMM_WORLD);
    return cut;
}
/* a crash (assert / SIGSEGV) inside the library while a valid case runs is reported as a violation of that case */
static const mdesc_t *cur_y, *cur_t; static const win_t *cur_w; static const char *cur_tag;
static void crash_handler(int sig)
{
    char cs[512], msg[256];
    if (cur_w) {
        case_str(cs, sizeof(cs), cur_y, cur_t, cur_w);
        if (sig == SIGALRM) snprintf(msg, sizeof(msg), "rank %d: parsec_redistribute did not return within the 600 s watchdog delay (path=%s)", myrank, last_tp_name);
        else snprintf(msg, sizeof(msg), "rank %d: the library crashed with signal %d while redistributing a valid window (path=%s)", myrank, sig, last_tp_name);
        sx_violation(cur_tag, cs, msg);
        sx_report(cur_tag, 0, 0, 0, 0, 0, 0, 1, 0.0, "\"crashed\":true", NULL, 0);
        sx_finish();
        _exit(1);
    }
    signal(sig, SIG_DFL); raise(sig);
}
static void mpi_error_hook(MPI_Comm *comm, int *code, ...)
{
    char es[MPI_MAX_ERROR_STRING] = "?", cs[512], msg[700]; int l = 0;
    (void)comm; MPI_Error_string(*code, es, &l);
    if (cur_w) {
        case_str(cs, sizeof(cs), cur_y, cur_t, cur_w);
        snprintf(msg, sizeof(msg), "rank %d: MPI error inside the library while redistributing a valid window: %s (path=%s)", myrank, es, last_tp_name);
        sx_violation(cur_tag, cs, msg);
        sx_report(cur_tag, 0, 0, 0, 0, 0, 0, 1, 0.0, "\"aborted\":true", NULL, 0);
        sx_finish(); fflush(NULL);
        _exit(1);
    }
    fprintf(stderr, "C21: MPI error outside a case: %s\n", es); _exit(2);
}
static const char *outcome_file = NULL, *skip_pairs = NULL;   /* skip_pairs: e.g. "bc-to-bc," : (source,target) distribution pairs left to another invocation */
static void dump_outcomes(const char *tag, const sx_set_t *s)
{
    if (!outcome_file || myrank) return;
    FILE *f = fopen(outcome_file, "a"); if (!f) return;
    for (size_t i = 0; i < s->cap; i++) if (s->v[i].a || s->v[i].b) fprintf(f, "%s %016llx\n", tag, (unsigned long long)s->v[i].a);
    fclose(f);
}

static int disp_ok(int reduced, int d, int maxd) { return !reduced || d == 0 || d == maxd || d == maxd / 2; }

static void run_pair(const box_t *b, int yd, int td, const char *tag)
{
    stat_t st; memset(&st, 0, sizeof(st)); st.exhaustive = 1;
    double t0 = sx_now(); long cfg = 0; char cs[512], msg[SX_ERRLEN];
    int stop = 0;
    for (int gy = 0; gy < b->ngrids && !stop; gy++) for (int gt = 0; gt < b->ngrids && !stop; gt++)
    for (int ky = 0; ky < b->nkq && !stop; ky++) for (int kt = 0; kt < b->nkq && !stop; kt++)
    for (int ity = 0; ity < b->ntiles && !stop; ity++) for (int itt = 0; itt < b->ntiles && !stop; itt++)
    for (int M = b->minm; M <= b->maxm && !stop; M++) for (int N = b->minm; N <= b->maxm && !stop; N++)
    for (int MR = b->minm; MR <= b->maxm && !stop; MR++) for (int NR = b->minm; NR <= b->maxm && !stop; NR++) {
#define TM_(c) ((c) < 10 ? (c) : (c) / 10)
#define TN_(c) ((c) < 10 ? (c) : (c) % 10)
        mdesc_t y = { yd, M, N, TM_(b->tiles[ity]), TN_(b->tiles[ity]), b->grids[gy][0], b->grids[gy][1], b->kqs[ky] };
        mdesc_t t = { td, MR, NR, TM_(b->tiles[itt]), TN_(b->tiles[itt]), b->grids[gt][0], b->grids[gt][1], b->kqs[kt] };
        if ((yd != D_BC && y.t != y.u) || (td != D_BC && t.t != t.u)) continue;      /* rectangular tiles only for 2D block-cyclic descriptors */
        /* non-2DBC descriptors ignore grid and k: enumerate them once */
        if (b->skip_k11 && yd == D_BC && td == D_BC && b->kqs[ky] == 1 && b->kqs[kt] == 1) continue;
        if (yd != D_BC && (gy || ky)) continue;
        if (td != D_BC && (gt || kt)) continue;
        if ((cfg++ % b->nshards) != b->shard) continue;
        if (deadline_cut(1)) { st.exhaustive = 0; stop = 1; break; }
        mat_t Y, T;
        if (mat_init(&Y, y, "dcY") || mat_init(&T, t, "dcT")) { fprintf(stderr, "C21: descriptor init failed\n"); exit(2); }
        mat_fill(&Y, 0);
        st.configs++;
        int smax = M < MR ? M : MR, cmax = N < NR ? N : NR;
        for (int sr = 1; sr <= smax && !stop; sr++) for (int sc = 1; sc <= cmax && !stop; sc++)
        for (int iY = 0; iY + sr <= M && !stop; iY++) { if (!disp_ok(b->reduced, iY, M - sr)) continue;
        for (int jY = 0; jY + sc <= N && !stop; jY++) { if (!disp_ok(b->reduced, jY, N - sc)) continue;
            if (!win_stored(&y, sr, sc, iY, jY)) continue;
        for (int iT = 0; iT + sr <= MR && !stop; iT++) { if (!disp_ok(b->reduced, iT, MR - sr)) continue;
        for (int jT = 0; jT + sc <= NR && !stop; jT++) { if (!disp_ok(b->reduced, jT, NR - sc)) continue;
            if (!win_stored(&t, sr, sc, iT, jT)) continue;
            win_t w = { sr, sc, iY, jY, iT, jT };
            if (deadline_cut(0)) { st.exhaustive = 0; stop = 1; break; }
            cur_y = &y; cur_t = &t; cur_w = &w; cur_tag = tag;
            int bad = run_case(&Y, &T, &w, &st, msg, sizeof(msg), 0);
            cur_w = NULL;
            if (bad || (st.nsamples < 3 && (st.cases == 7 || st.cases == 1500 || st.cases == 40000))) {
                case_str(cs, sizeof(cs), &y, &t, &w);
                if (!bad) snprintf(st.samples[st.nsamples++], 512, "%s path=%s", cs, last_tp_name);
            }
            if (bad) {
                if (myrank == 0) { char vtag[96]; snprintf(vtag, sizeof(vtag), "%s-s%d", tag, b->shard); sx_violation(vtag, cs, msg); }   /* replay file names unique per shard */
                st.violations++; st.exhaustive = 0;
                mat_fill(&Y, 0);              /* the source may have been damaged */
                if (st.violations >= 3) stop = 1;
            }
        } } } }
        mat_fini(&T); mat_fini(&Y);
    }
    if (myrank == 0) {
        char extra[512]; const char *sp[3] = { st.samples[0], st.samples[1], st.samples[2] };
        snprintf(extra, sizeof(extra), "\"descriptor_pairs\":%ld,\"reshuffle_path\":%ld,\"general_path\":%ld,\"unaligned_disp\":%ld,\"multi_source_tiles\":%ld,"
                 "\"multi_target_tiles\":%ld,\"elements_checked\":%ld,\"ranks\":%d,\"shard\":\"%d/%d\"",
                 st.configs, st.reshuffle, st.general, st.unaligned, st.multi_src_tiles, st.multi_tgt_tiles, st.elems, world, b->shard, b->nshards);
        sx_report(tag, st.cases, st.elems, st.cases, st.nontrivial, (long)st.outcomes.n, st.exhaustive, st.violations, sx_now() - t0, extra, sp, st.nsamples);
    }
    dump_outcomes(tag, &st.outcomes);
    free(st.outcomes.v);
}

static int parse_list(const char *s, int *out, int cap)
{
    int n = 0; char *d = strdup(s);
    for (char *tok = strtok(d, ","); tok && n < cap; tok = strtok(NULL, ",")) out[n++] = atoi(tok);
    free(d); return n;
}
static int parse_dists(const char *s, int *out)
{
    int n = 0; char *d = strdup(s);
    for (char *tok = strtok(d, ","); tok && n < 3; tok = strtok(NULL, ",")) for (int i = 0; i < 3; i++) if (!strcmp(tok, dist_name[i])) out[n++] = i;
    free(d); return n;
}

int main(int argc, char **argv)
{
    int prov;
    MPI_Init_thread(&argc, &argv, MPI_THREAD_SERIALIZED, &prov);
    MPI_Comm_size(MPI_COMM_WORLD, &world); MPI_Comm_rank(MPI_COMM_WORLD, &myrank);
    box_t b; memset(&b, 0, sizeof(b));
    b.nyd = parse_dists("bc", b.ydists); b.ntd = parse_dists("bc", b.tdists);
    b.minm = 1; b.maxm = 4; b.ntiles = parse_list("1,2,3", b.tiles, 12); b.nkq = parse_list("1", b.kqs, 3);
    b.nshards = 1; b.shard = 0;
    const char *grids = NULL, *json = NULL;
    for (int i = 1; i < argc; i++) {
        if (!strcmp(argv[i], "--ydist") && i + 1 < argc) b.nyd = parse_dists(argv[++i], b.ydists);
        else if (!strcmp(argv[i], "--tdist") && i + 1 < argc) b.ntd = parse_dists(argv[++i], b.tdists);
        else if (!strcmp(argv[i], "--minm") && i + 1 < argc) b.minm = atoi(argv[++i]);
        else if (!strcmp(argv[i], "--maxm") && i + 1 < argc) b.maxm = atoi(argv[++i]);
        else if (!strcmp(argv[i], "--tiles") && i + 1 < argc) b.ntiles = parse_list(argv[++i], b.tiles, 12);
        else if (!strcmp(argv[i], "--kq") && i + 1 < argc) b.nkq = parse_list(argv[++i], b.kqs, 3);
        else if (!strcmp(argv[i], "--grids") && i + 1 < argc) grids = argv[++i];
        else if (!strcmp(argv[i], "--reduced")) b.reduced = 1;
        else if (!strcmp(argv[i], "--skip-k11")) b.skip_k11 = 1;
        else if (!strcmp(argv[i], "--shard") && i + 1 < argc) { sscanf(argv[++i], "%d/%d", &b.shard, &b.nshards); }
        else if (!strcmp(argv[i], "--outcomes") && i + 1 < argc) outcome_file = argv[++i];
        else if (!strcmp(argv[i], "--skip") && i + 1 < argc) skip_pairs = argv[++i];
        else if (!strcmp(argv[i], "--json") && i + 1 < argc) json = argv[i + 1];
    }
    if (grids) { int v[16]; int n = parse_list(grids, v, 16); for (int i = 0; i + 1 < n; i += 2) { b.grids[b.ngrids][0] = v[i]; b.grids[b.ngrids][1] = v[i + 1]; b.ngrids++; } }
    else { b.grids[0][0] = 1; b.grids[0][1] = world; b.ngrids = 1; }
    for (int g = 0; g < b.ngrids; g++) if (b.grids[g][0] * b.grids[g][1] != world) { fprintf(stderr, "C21: grid %dx%d does not match %d ranks\n", b.grids[g][0], b.grids[g][1], world); MPI_Finalize(); return 2; }

    /* only rank 0 writes the result file / replay files */
    if (myrank != 0) { for (int i = 1; i < argc; i++) if (!strcmp(argv[i], "--json") && i + 1 < argc) argv[i + 1] = (char *)"/dev/null"; }
    (void)json;
    sx_init(argc, argv, "C21");

    /* timing knobs only: do not pin every process' worker to core 0; let the communication thread yield when idle */
    setenv("PARSEC_MCA_bind_threads", "0", 0);
    if (world > 1) setenv("PARSEC_MCA_runtime_comm_thread_yield", "2", 0);
    { MPI_Errhandler eh; MPI_Comm_create_errhandler(mpi_error_hook, &eh); MPI_Comm_set_errhandler(MPI_COMM_WORLD, eh); MPI_Comm_set_errhandler(MPI_COMM_SELF, eh); }   /* inherited by the communicators parsec duplicates */
    signal(SIGSEGV, crash_handler); signal(SIGABRT, crash_handler); signal(SIGBUS, crash_handler); signal(SIGFPE, crash_handler); signal(SIGALRM, crash_handler);
    int pargc = 1; char *pargv_s[2] = { argv[0], NULL }; char **pargv = pargv_s;
    parsec = parsec_init(1, &pargc, &pargv);
    if (!parsec) { fprintf(stderr, "C21: parsec_init failed\n"); return 2; }

    int rc = 0;
    if (sx_replay_file) {
        char scen[128], hist[1024]; mdesc_t y, t; win_t w; int np;
        if (sx_read_replay(sx_replay_file, scen, sizeof(scen), hist, sizeof(hist)) || case_parse(hist, &y, &t, &w, &np)) { fprintf(stderr, "C21: cannot parse replay file\n"); rc = 2; }
        else if (np != world) { fprintf(stderr, "C21: replay needs %d ranks (launched with %d)\n", np, world); rc = 2; }
        else {
            mat_t Y, T; char msg[SX_ERRLEN];
            if (mat_init(&Y, y, "dcY") || mat_init(&T, t, "dcT")) { fprintf(stderr, "C21: descriptor init failed\n"); exit(2); }
            mat_fill(&Y, 0);
            if (myrank == 0) printf("replay: %s\n", hist);
            int bad = run_case(&Y, &T, &w, NULL, msg, sizeof(msg), world == 1);
            if (myrank == 0) {
                printf("  taskpool used: %s\n", last_tp_name);
                if (bad) { printf("  %s\n", msg); printf("VIOLATION property=C21 replay=%s\n", sx_replay_file); sx_total_violations++; }
                else printf("replay: case passes\n");
            }
            mat_fini(&T); mat_fini(&Y);
        }
    } else {
        int npairs = 0, done = 0;
        for (int i = 0; i < b.nyd; i++) for (int j = 0; j < b.ntd; j++) { char pr[32]; snprintf(pr, sizeof(pr), "%s-to-%s,", dist_name[b.ydists[i]], dist_name[b.tdists[j]]); if (!(skip_pairs && strstr(skip_pairs, pr))) npairs++; }
        for (int i = 0; i < b.nyd; i++) for (int j = 0; j < b.ntd; j++) {
            char tag[64]; snprintf(tag, sizeof(tag), "np%d-%s-to-%s%s", world, dist_name[b.ydists[i]], dist_name[b.tdists[j]], b.reduced ? "-reduced" : b.skip_k11 ? "-kcyclic" : "");
            char pr[32]; snprintf(pr, sizeof(pr), "%s-to-%s,", dist_name[b.ydists[i]], dist_name[b.tdists[j]]);
            if (skip_pairs && strstr(skip_pairs, pr)) continue;
            if (sx_deadline > 0) { double now = sx_now(); pair_deadline = now + (sx_deadline > now ? (sx_deadline - now) / (npairs - done) : 0); }
            done++;
            run_pair(&b, b.ydists[i], b.tdists[j], tag);
        }
    }
    int v = sx_total_violations;
    if (world > 1) MPI_Bcast(&v, 1, MPI_INT, 0, MPI_COMM_WORLD);
    parsec_fini(&parsec);
    int fr = sx_finish();
    MPI_Finalize();
    if (rc) return rc;
    return myrank == 0 ? fr : (v ? 1 : 0);
}
