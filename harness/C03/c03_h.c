/* C03: DTD results equal sequential execution in insertion order. All the machinery is in engine/rt/dtd_main.h. */
#define DTD_PROPERTY "C03"
#define DTD_DEFAULT_ORACLE 1      /* observations + final values against the sequential reference */
#include "dtd_main.h"
