"""Instruction-level leg of the real PTG runtime (E4 leg 4): programs, build and job list shared by the C01 and C02 checks.

build(ctx): renders the il_* programs (ptgir), runs the FRESHLY BUILT parsec-ptgpp once per dependency back-end, emits the
expectation tables with the reference interpreter and compiles one cosched executable per back-end THROUGH tools/vcc
(the generated code is instrumented, unlike in the task-level legs).  Nothing depending on /repo is cached except by
vlib's preprocessed-source object cache.
"""
import json, os, shutil, subprocess, sys, time
from concurrent.futures import ThreadPoolExecutor
VERIF = os.environ.get('VERIF_ROOT', '/verif')
sys.path.insert(0, os.path.join(VERIF, 'engine', 'rt'))
import ptgir
from ptgir import Prog, Cls, Flow
import vlib

BACKENDS = {'ht': 'dynamic-hash-table', 'ia': 'index-array'}
HERE = os.path.join(VERIF, 'harness', 'C02')


def V(**kw):
    return [dict(kw)]


class IL:
    """One program of the leg: startup_iter / startup_chunk (0 = runtime default), join shape?, keep_next (-1 = runtime
    default (on), 0 = MCA runtime_keep_highest_priority_task off: every ready task goes through the scheduler queue
    instead of being retained in es->next_task)."""
    def __init__(self, prog, it=0, ch=0, join=False, keep=-1, compose_only=False):
        self.prog, self.it, self.ch, self.join, self.keep, self.compose_only = prog, it, ch, join, keep, compose_only
        self.name = prog.name


def programs():
    P = []
    # (a) two producers of ONE class feed the two input flows of one consumer (mask mode): both release_deps race on
    #     J(0)'s dependency word; the producers share a repository and a dependency table
    P.append(IL(Prog('il_join', {'A': '2'}, ['N'], V(N=2), [
        Cls('J(z)', ['z = 0 .. 0'], 'A(0)', [Flow('RW X', ['X P(0)'], ['A(0)']), Flow('READ Y', ['X P(1)'])]),
        Cls('P(k)', ['k = 0 .. N-1'], 'A(k)', [Flow('RW X', ['A(k)'], ['k == 0 ? X J(0) : Y J(0)'])])]), join=True))
    #     (class order J, P: the internal_init task of P is parked in the startup_queue and published by
    #      parsec_taskpool_enable from the last internal_init; il_gather has the other order: the start-up class is
    #      initialised last and its start-up task continues in place)
    # (b) range fan-in through a CTL gather (counter mode)
    P.append(IL(Prog('il_gather', {'A': 'N', 'B': '1'}, ['N'], V(N=2), [
        Cls('P(k)', ['k = 0 .. N-1'], 'A(k)', [Flow('READ X', ['A(k)']), Flow('CTL C', [], ['C G(0)'])]),
        Cls('G(z)', ['z = 0 .. 0'], 'B(0)', [Flow('RW Y', ['B(0)'], ['B(0)']), Flow('CTL C', ['C P(0 .. N-1)'])])]), join=True))
    # (c) one producer, fan-out 2: the consumers' completions race on the producer's repo entry (usage limit 2)
    P.append(IL(Prog('il_fanout', {'A': '1'}, ['N'], V(N=2), [
        Cls('W(z)', ['z = 0 .. 0'], 'A(0)', [Flow('RW X', ['A(0)'], ['X R(0 .. N-1)'])]),
        Cls('R(k)', ['k = 0 .. N-1'], 'A(0)', [Flow('READ X', ['X W(0)'])])])))
    # (d) RW chain of 3 with a side READ consumer of the middle version (write-after-read protected by a CTL).  A chain
    #     has one ready task at a time, which the releasing stream retains in es->next_task: run with the retention off
    #     so that the next task can start on the other stream while the predecessor is still completing
    #     (release_task, nb_tasks accounting, termination detection racing with the last tasks)
    P.append(IL(Prog('il_chain', {'A': '1'}, ['N'], V(N=3), [
        Cls('T(k)', ['k = 0 .. N-1'], 'A(0)', [Flow('RW X', ['k == 0 ? A(0) : X T(k-1)'], ['k < N-1 ? X T(k+1) : A(0)', 'k == 1 ? X S(0)']),
                                              Flow('CTL C', ['k == 2 ? C S(0)'])]),
        Cls('S(z)', ['z = 0 .. 0'], 'A(0)', [Flow('READ X', ['X T(1)']), Flow('CTL C', [], ['C T(2)'])])]), keep=0))
    # (e) chunked start-up (task_startup_iter = task_startup_chunk = 1): 3 independent start-up tasks of two classes
    #     (S's start-up task answers AGAIN after its first chunk and is re-scheduled) + one join gathering both
    P.append(IL(Prog('il_startup', {'A': 'N', 'B': '1', 'E': '1'}, ['N'], V(N=2), [
        Cls('S(k)', ['k = 0 .. N-1'], 'A(k)', [Flow('READ X', ['A(k)']), Flow('CTL C', [], ['C J(0)'])]),
        Cls('U(z)', ['z = 0 .. 0'], 'E(0)', [Flow('READ X', ['E(0)']), Flow('CTL D', [], ['D J(0)'])]),
        Cls('J(z)', ['z = 0 .. 0'], 'B(0)', [Flow('RW Y', ['B(0)'], ['B(0)']), Flow('CTL C', ['C S(0 .. N-1)']), Flow('CTL D', ['D U(0)'])])]), it=1, ch=1))
    # (f) member of the compounds of C15 (legs il-compose-*): one task; two tasks of one class.  Run with the next_task
    #     retention off: the pool enabled by a completion callback is then picked up from the queue by the other stream
    #     while the enabling stream is still inside the callback
    P.append(IL(Prog('il_one', {'A': '1'}, ['N'], V(N=1), [
        Cls('T(k)', ['k = 0 .. N-1'], 'A(0)', [Flow('READ X', ['A(0)'])])]), keep=0, compose_only=True))
    P.append(IL(Prog('il_two', {'A': '1'}, ['N'], V(N=2), [
        Cls('T(k)', ['k = 0 .. N-1'], 'A(0)', [Flow('READ X', ['A(0)'])])]), keep=0, compose_only=True))
    return P


class Built:
    pass


def build(ctx, only=None):
    """-> Built(exes={be: path}, progs=[...], refs={name: [Ref]}, work=dir)
    The generated sources live in a directory named after the hash of their contents (jdf, ptgpp output of the current
    tree, expectation tables): an unchanged tree gives the same absolute paths, so vlib's object cache (keyed by the
    preprocessed translation unit) hits; a changed ptgpp / runtime header gives new objects."""
    import hashlib
    b = ctx.build('hk-shm')
    root = os.path.join(VERIF, 'out', 'ptg-il')
    os.makedirs(root, exist_ok=True)
    tmp = os.path.join(root, 'tmp.%s.%d' % (ctx.pid, os.getpid()))
    shutil.rmtree(tmp, ignore_errors=True)
    os.makedirs(tmp)
    ptgpp = os.path.join(b, 'parsec/interfaces/ptg/ptg-compiler/parsec-ptgpp')
    progs = [x for x in programs() if (x.name in only if only else not x.compose_only)]
    B = Built(); B.progs = progs; B.refs = {}; B.exes = {}
    h = hashlib.sha256()
    for il_ in progs:
        p = il_.prog
        refs = [p.interpret(v) for v in p.variants]          # Invalid propagates: only valid programs
        B.refs[p.name] = refs
        for be, opt in BACKENDS.items():
            d = os.path.join(tmp, be, p.name); os.makedirs(d, exist_ok=True)
            open(os.path.join(d, p.name + '.jdf'), 'w').write(p.jdf())
            open(os.path.join(d, 'exp.c'), 'w').write(ptgir.emit_c(p, refs))
            r = subprocess.run([ptgpp, '-E', '-M', opt, '-i', p.name + '.jdf', '-o', p.name, '-f', p.name], cwd=d, capture_output=True, text=True)
            if r.returncode != 0:
                raise vlib.Broken('ptgpp failed on %s (%s): %s' % (p.name, be, (r.stdout + r.stderr)[-2000:]))
            for f in (p.name + '.c', p.name + '.h', 'exp.c'):
                h.update(('%s/%s/%s\0' % (be, p.name, f)).encode()); h.update(open(os.path.join(d, f), 'rb').read())
    names = [x.name for x in progs]
    for be in BACKENDS:
        reg = ('#include "ptg_exp.h"\n#include <stddef.h>\n' + ''.join('extern const ptg_program_t ptg_program_%s;\nextern const size_t il_pubsize_%s;\n' % (n, n) for n in names) +
               'const ptg_program_t *ptg_programs[] = { %s NULL };\n' % ''.join('&ptg_program_%s, ' % n for n in names) +
               'typedef struct { const char *prog; int startup_iter, startup_chunk; int max_bound; const size_t *pubsize; int keep_next; } il_cfg_t;\n' +
               'const il_cfg_t il_cfgs[] = { %s {0,0,0,0,0,0} };\n' % ''.join('{ "%s", %d, %d, 0, &il_pubsize_%s, %d }, ' % (x.name, x.it, x.ch, x.name, x.keep) for x in progs) +
               'const char *il_backend = "%s";\n' % be)
        open(os.path.join(tmp, be, 'registry.c'), 'w').write(reg)
        h.update(reg.encode())
    work = os.path.join(root, h.hexdigest()[:20])
    if os.path.isdir(work):
        shutil.rmtree(tmp, ignore_errors=True)
    else:
        for x in progs:
            p = x.prog
            for be in BACKENDS:
                d = os.path.join(work, be, p.name)
                open(os.path.join(tmp, be, p.name, 'all.c'), 'w').write('#include "%s"\n#include "%s"\nconst size_t il_pubsize_%s = sizeof(parsec_%s_taskpool_t);\n' % (
                    os.path.join(d, p.name + '.c'), os.path.join(d, 'exp.c'), p.name, p.name))
        try:
            os.rename(tmp, work)
        except OSError:                                   # a concurrent run created it meanwhile
            shutil.rmtree(tmp, ignore_errors=True)
    B.work = work
    srcs = {be: [os.path.join(work, be, x.name, 'all.c') for x in progs] + [os.path.join(work, be, 'registry.c')] for be in BACKENDS}

    def one(be):
        # generated code: same warning set as ptgrun (-w)
        return be, ctx.compile('hk-shm', 'il-%s' % be, [os.path.join(HERE, 'c02_il.c')] + srcs[be], engine='cosched',
                               cflags=['-w'], ldflags=['-ldl'])
    with ThreadPoolExecutor(2) as ex:
        for be, exe in ex.map(one, BACKENDS):
            B.exes[be] = exe
    return B


def scen_name(p, be, variant):
    return '%s-%s-%s' % (p.name, be, ','.join('%s_%d' % (g, variant[g]) for g in p.globs))


def plan(tier, c01_only):
    """-> [(program name, grain, bound, deadline_s, share of the workers)].
    quick: bound 1 at full grain for every program; bound 2 at coarse grain for the join shapes (C02 only).
    thorough: bound 2 at full grain for every program (deadline 300 s); bound 3 at coarse grain for the join shapes (360 s).
    (coarse grain: lock-protected internals of the repo / hash-table / queue primitives are atomic, see c02_il.c)"""
    pl = []
    for x in programs():
        if x.compose_only:
            continue
        if tier == 'quick':
            pl.append((x.name, 'fine', 1, 40, 1))
            if x.join and not c01_only:
                pl.append((x.name, 'coarse', 2, 50, 3))
        else:
            pl.append((x.name, 'fine', 2, 240 if c01_only else 300, 2))
            if x.join and not c01_only:
                pl.append((x.name, 'coarse', 3, 360, 3))
    return pl


def plan_mode(tier, names):
    """C06 / C16 variants of the leg (taskpool_wait on stream 0, AGAIN-answering bodies): bound 1 (quick) / 2 (thorough), fine grain."""
    return [(n, 'fine', 1, 40, 1) if tier == 'quick' else (n, 'fine', 2, 300, 2) for n in names]


def run(ctx, B, c01_only=False, mode=None, again=0, names=None, starve0=False, names_starve0=None, task_fields=1, compose=0):
    """Run the il legs (all in parallel); one evidence leg per (program, back-end, grain) with the per-region point counts.
    mode='tpwait' / again=K select the C06 / C16 variants of the two thread bodies, starve0 the variant in which stream 0
    never gets a task (see c02_il.c)."""
    os.environ['PARSEC_MCA_bind_threads'] = '0'
    byname = {x.name: x for x in B.progs}
    jobs = []
    # starve0: False | True | 'both' (the normal variant and the one in which stream 0 never gets a task; names_starve0
    # restricts the starved variant to some programs)
    for st in ([False, True] if starve0 == 'both' else [bool(starve0)]):
        sfx = ('-tpwait' if mode == 'tpwait' else '') + ('-compose%d' % compose if compose else '') + ('-starve0' if st else '') + ('-tf%d' % task_fields if task_fields != 1 else '') + ('-again%d' % again if again else '')
        extra = (['--mode', mode] if mode else []) + (['--compose', str(compose)] if compose else []) + (['--starve0'] if st else []) + (['--task-fields', str(task_fields)] if task_fields != 1 else []) + (['--again', str(again)] if again else [])
        for name, grain, bound, dl, share in (plan_mode(ctx.tier, names) if names else plan(ctx.tier, c01_only)):
            if name not in byname or (st and names_starve0 and name not in names_starve0):
                continue
            p = byname[name].prog
            for be in BACKENDS:
                jobs.append((scen_name(p, be, p.variants[0]) + ('-coarse' if grain == 'coarse' else '') + sfx, be, grain, bound, dl, share, extra))
    tot = sum(j[5] for j in jobs) or 1
    jobs.sort(key=lambda j: -j[5])

    def one(j):
        sc, be, grain, bound, dl, share, extra = j
        nw = max(1, int(round(share * vlib.NJOBS * 1.25 / tot)))
        args = ['--bound', str(bound), '--scenario', sc, '--jobs', str(nw), '--outdir', vlib.OUT, '--deadline', str(dl), '--prop', ctx.pid, '--grain', grain] + extra
        if c01_only:
            args.append('--c01-only')
        label = 'il-%s-b%d' % (sc, bound)
        return label, ctx.run_engine(B.exes[be], args, label=label, timeout=dl + 300)
    with ThreadPoolExecutor(max_workers=len(jobs)) as ex:
        list(ex.map(one, jobs))
    # merge <json>.regions (written by the harness next to its result JSON) into the legs
    resdir = os.path.join(vlib.OUT, 'res')
    for l in ctx.legs:
        lab = l.get('leg', '')
        if not lab.startswith('il-'):
            continue
        l['engine'] = 'cosched'
        l['grain'] = 'coarse' if '-coarse-' in lab else 'fine'
        for f in [f for f in os.listdir(resdir) if f.startswith('%s-%s-' % (ctx.pid, lab)) and f.endswith('.json.regions')]:
            try:
                r = json.load(open(os.path.join(resdir, f)))
            except Exception as e:
                ctx.broken.append('%s: unreadable region file (%s)' % (lab, e)); continue
            if l.get('name') in r:
                x = r[l['name']]
                l['il'] = x
                if x.get('executions_with_bodies_on_both_streams', 0) == 0:
                    ctx.broken.append('%s: no execution ran task bodies on both streams' % lab)
                skip = {'task', 'data-copy'} | (set() if '-compose' in lab else {'compound'}) | ({'task.status'} if ('-tf0' in lab or l['grain'] == 'coarse') else set()) | ({'dep-table'} if '-ia-' in lab else set()) | ({'stream.next_task'} if l['grain'] == 'coarse' else set())
                z = [k for k, v in x['points_per_region'].items() if v == 0 and k not in skip]
                if z:
                    ctx.broken.append('%s: watched region classes without a single access: %s' % (lab, z))
            try:
                os.unlink(os.path.join(resdir, f))
            except OSError:
                pass


RULE = ("il legs: every schedule of the 2 controlled threads (stream 0: add_taskpool + context_wait, stream 1: worker loop) with at most b preemptions; "
        "scheduling points = instrumented accesses (generated code and libparsec) to the taskpool object, dependency tables and items, data repositories and entries, "
        "tasks handed to the scheduler, the scheduler queue, es->next_task, context->active_taskpools, the collections' data copies; "
        "non-trivial = schedule with >= 1 preemption; distinct outcomes = distinct (completion order, executing stream) lists; states = nodes of the schedule tree")
ASSUME = ['il legs: sequential consistency at instrumented accesses (no weak-memory effects); 2 streams; harness FIFO scheduler (schedulers: C08); mempool LIFOs, data-copy reference counts and futures are atomic at this level (C30, C27, C34, C29)']


def replay(ctx, path, obj):
    """Re-execute exactly the schedule of a replay file (fresh process), print cosched's trace and the last scheduling
    points with the source location of each access (thread, kind, region class, function at file:line <- caller)."""
    sc = obj.get('scenario', '')
    B = build(ctx, only=[sc.split('-')[0]])
    be = 'ia' if '-ia-' in sc else 'ht'
    os.environ['PARSEC_MCA_bind_threads'] = '0'
    env = dict(os.environ); env['IL_TRACE'] = '1'
    import re
    args = [B.exes[be], '--replay', path, '--prop', obj.get('property', ctx.pid), '--grain', 'coarse' if '-coarse' in sc else 'fine']
    if '-tpwait' in sc:
        args += ['--mode', 'tpwait']
    if '-starve0' in sc:
        args.append('--starve0')
    m = re.search(r'-compose(\d+)', sc)
    if m:
        args += ['--compose', m.group(1)]
    m = re.search(r'-tf(\d)', sc)
    if m:
        args += ['--task-fields', m.group(1)]
    m = re.search(r'-again(\d+)', sc)
    if m:
        args += ['--again', m.group(1)]
    if obj.get('property') == 'C01':
        args.append('--c01-only')
    r = subprocess.run(args, env=env, capture_output=True, text=True)
    lines = r.stdout.splitlines()
    # cosched prints one line per scheduling point: keep the head and the tail of long traces
    tr = [l for l in lines if l.startswith('  #')]
    rest = [l for l in lines if not l.startswith('  #')]
    if len(tr) > 80:
        tr = tr[:10] + ['  ... (%d points) ...' % (len(tr) - 50)] + tr[-40:]
    print('\n'.join(rest[:1] + tr + rest[1:]))
    pts = [l for l in r.stderr.splitlines() if l.startswith('IL-POINT')]
    other = [l for l in r.stderr.splitlines() if not l.startswith('IL-POINT')]
    if other:
        sys.stderr.write('\n'.join(other[-30:]) + '\n')
    n = int(os.environ.get('IL_TRACE_TAIL', '60'))
    tail = pts[-n:]
    if tail:
        print('last %d of %d instrumented accesses to watched memory (each is a scheduling point):' % (len(tail), len(pts)))
        print(symbolize(tail))
    return r.returncode if r.returncode in (0, 1) else 2


def symbolize(lines):
    """IL-POINT lines carry module+offset return addresses; resolve them with addr2line (function at file:line)."""
    want = {}
    for l in lines:
        for fr in l.split(' bt:')[1].split():
            m, _, off = fr.rpartition('+')
            if m and m != '?':
                want.setdefault(m, set()).add(off)
    loc = {}
    for m, offs in want.items():
        offs = sorted(offs)
        try:
            out = subprocess.run(['addr2line', '-f', '-s', '-e', m] + offs, capture_output=True, text=True).stdout.splitlines()
            for i, o in enumerate(offs):
                loc[(m, o)] = '%s at %s' % (out[2 * i], out[2 * i + 1])
        except Exception:
            pass
    out = []
    for l in lines:
        head, bt = l.split(' bt:')
        frs = []
        for fr in bt.split()[:3]:
            m, _, off = fr.rpartition('+')
            frs.append(loc.get((m, off), fr))
        out.append('  %-58s %s' % (head[9:], ' <- '.join(frs)))
    return '\n'.join(out)
