/* C28: the zone allocator is a correct best-fit allocator (E2, closure BFS on the real zone_malloc.c).
 *
 * The real translation unit is #included so that the harness can read the private chunk-list type
 * (needed for the canonical state: red-black tree shape + per-size free-list order both influence
 * later answers). All allocator functions executed are the ones of /repo's working tree.
 */
#include "parsec/utils/zone_malloc.c"
#include "guard.h"

#define MAXU 24
#define US 16                               /* unit size in bytes */
#define BASE ((char *)(uintptr_t)0x40000000)   /* never dereferenced by the allocator */

static int NU = 8;                          /* zone size in units (per scenario) */
typedef struct { zone_malloc_t *z; int live[MAXU]; /* live[u] = length of the live allocation starting at unit u */
                 int pend, pend_nonbest, final, shadow_replay; } obj_t;

/* observations (not part of the verdict) */
/* They are counted once per explored transition: seqx re-applies the prefix of a history on a fresh object before the
 * new operation, so apply() only remembers what the last operation did (pend) and destroy() commits it when the object
 * was canonicalised after that operation (= it was the new transition, not a prefix replay). */
enum { P_NONE, P_NULL, P_SPLIT, P_EXACT, P_MERGE2, P_MERGE1, P_NOMERGE, P_N };
static long obs[P_N], obs_nonbest, obs_maxtree, obs_maxlist, obs_maxlive;
static int nalive = 0;

static void opname(int op, char *b, size_t cap) { if (op < NU) snprintf(b, cap, "m%d", op + 1); else snprintf(b, cap, "f%d", op - NU); }

static void *fresh(void)
{
    obj_t *o = calloc(1, sizeof(obj_t));
    o->z = zone_malloc_init(BASE, NU, US);
    o->shadow_replay = nalive > 0;           /* second replay made by the engine's canon-stability check */
    nalive++;
    g_hist_reset();
    return o;
}
static void destroy(void *p)
{
    obj_t *o = p; nalive--;
    if (o->final && !o->shadow_replay) { obs[o->pend]++; obs_nonbest += o->pend_nonbest; }
    if (o->z) zone_malloc_fini(&o->z);
    free(o);
}
static int enabled(void *p, int op) { obj_t *o = p; o->final = 0; if (op < NU) return 1; return o->live[op - NU] > 0; }

static void shadow(obj_t *o, int *used) { memset(used, 0, sizeof(int) * MAXU); for (int u = 0; u < NU; u++) for (int j = 0; j < o->live[u]; j++) used[u + j] = 1; }

#define FAIL(...) do { snprintf(err, SX_ERRLEN, __VA_ARGS__); return 1; } while (0)

/* ---- structural oracle ---- */
static int tree_sub(obj_t *o, parsec_rbtree_node_t *x, int lo, int hi, int depth, int *mark, int *nnodes, char *err)
{
    zone_malloc_t *z = o->z;
    if (x == z->rbtree.nil) return 0;
    if (depth > 2 * MAXU) FAIL("size tree deeper than possible (cycle)");
    zone_malloc_chunk_list_t *fl = (zone_malloc_chunk_list_t *)x;
    ++*nnodes;
    if (fl->nb_units <= lo || fl->nb_units >= hi) FAIL("size tree: key %d violates the search order (must be in (%d,%d))", fl->nb_units, lo, hi);
    int n = 0; parsec_list_item_t *g = &fl->list.ghost_element, *prev = g;
    for (parsec_list_item_t *it = (parsec_list_item_t *)g->list_next; it != g; prev = it, it = (parsec_list_item_t *)it->list_next) {
        if (++n > NU) FAIL("free list of size %d is longer than the zone (cycle)", fl->nb_units);
        segment_t *s = (segment_t *)it;
        if (s < z->segments || s >= z->segments + NU || ((char *)s - (char *)z->segments) % sizeof(segment_t)) FAIL("free list of size %d holds a pointer that is not a segment", fl->nb_units);
        if ((parsec_list_item_t *)it->list_prev != prev) FAIL("free list of size %d: prev link inconsistent", fl->nb_units);
        int tid = (int)(s - z->segments);
        if (s->status != SEGMENT_EMPTY) FAIL("free list of size %d holds segment %d which is not free", fl->nb_units, tid);
        if (s->nb_units != fl->nb_units) FAIL("free run at unit %d has %d units but sits in the list of size %d", tid, s->nb_units, fl->nb_units);
        if (mark[tid] != 1) FAIL("free run at unit %d is %s", tid, mark[tid] == 2 ? "in two size lists" : "not a segment start");
        mark[tid] = 2;
    }
    if ((parsec_list_item_t *)g->list_prev != prev) FAIL("free list of size %d: tail link inconsistent", fl->nb_units);
    if (n == 0) FAIL("an empty size list (key %d) stays in the tree", fl->nb_units);
    if (n > obs_maxlist) obs_maxlist = n;
    if (tree_sub(o, (parsec_rbtree_node_t *)x->super.list_prev, lo, fl->nb_units, depth + 1, mark, nnodes, err)) return 1;
    return tree_sub(o, (parsec_rbtree_node_t *)x->super.list_next, fl->nb_units, hi, depth + 1, mark, nnodes, err);
}

static int check_state(obj_t *o, char *err)
{
    zone_malloc_t *z = o->z; int used[MAXU], mark[MAXU] = {0};
    shadow(o, used);
    int sum = 0, nlive = 0; for (int u = 0; u < NU; u++) { sum += o->live[u]; nlive += o->live[u] > 0; }
    if (nlive > obs_maxlive) obs_maxlive = nlive;
    size_t iu = zone_in_use(z);
    if (iu != (size_t)sum * US) FAIL("zone_in_use = %zu bytes, live allocations sum to %d bytes", iu, sum * US);
    size_t fr = zone_debug(z, 100, -1, NULL);
    if (fr != (size_t)(NU - sum) * US) FAIL("zone_debug reports %zu free bytes, expected %d", fr, (NU - sum) * US);
    /* segmentation */
    int tid = 0, prev_empty = 0, nfull = 0, steps = 0;
    while (tid < NU) {
        segment_t *s = &z->segments[tid];
        if (++steps > NU) FAIL("segment walk does not terminate");
        if (s->status != SEGMENT_EMPTY && s->status != SEGMENT_FULL) FAIL("segment at unit %d has undefined status %d", tid, s->status);
        if (s->nb_units < 1 || tid + s->nb_units > NU) FAIL("segment at unit %d has bad length %d", tid, s->nb_units);
        if (s->status == SEGMENT_FULL) {
            if (o->live[tid] != s->nb_units) FAIL("segment at unit %d is in use with %d units, but the live allocation there has %d units", tid, s->nb_units, o->live[tid]);
            nfull++; prev_empty = 0;
        } else {
            for (int j = 0; j < s->nb_units; j++) if (used[tid + j]) FAIL("free run at unit %d (%d units) covers unit %d of a live allocation", tid, s->nb_units, tid + j);
            if (prev_empty) FAIL("adjacent free runs not merged: a free run ends at unit %d and another starts there", tid);
            prev_empty = 1; mark[tid] = 1;
        }
        tid += s->nb_units;
    }
    if (nfull != nlive) FAIL("%d segments in use, %d live allocations", nfull, nlive);
    /* size tree and free lists */
    int nnodes = 0;
    if (tree_sub(o, z->rbtree.root, 0, 1 << 30, 0, mark, &nnodes, err)) return 1;
    if (nnodes > obs_maxtree) obs_maxtree = nnodes;
    for (int u = 0; u < NU; u++) if (mark[u] == 1) FAIL("free run at unit %d (%d units) is in no size list", u, z->segments[u].nb_units);
    return 0;
}

static int apply(void *p, int op, char *err)
{
    obj_t *o = p; zone_malloc_t *z = o->z; char nm[16]; opname(op, nm, sizeof(nm)); g_hist_add(nm);
    int used[MAXU]; shadow(o, used);
    o->final = 0; o->pend = P_NONE; o->pend_nonbest = 0;
    if (op < NU) {
        int k = op + 1;
        size_t size = (k & 1) ? (size_t)(k - 1) * US + 1 : (size_t)k * US;       /* odd k: exercises the round-up */
        int maxrun = 0, best = MAXU + 1;
        for (int u = 0; u < NU;) { if (used[u]) { u++; continue; } int e = u; while (e < NU && !used[e]) e++; int len = e - u; if (len > maxrun) maxrun = len; if (len >= k && len < best) best = len; u = e; }
        G_OP_BEGIN(); char *a = zone_malloc(z, size); G_OP_END();
        if (a == NULL) {
            if (maxrun >= k) FAIL("malloc(%d units) failed although a free run of %d units exists", k, maxrun);
            o->pend = P_NULL;
        } else {
            ptrdiff_t off = a - BASE;
            if (off < 0 || off >= (ptrdiff_t)NU * US) FAIL("malloc(%d units) returned an address outside the zone (offset %td)", k, off);
            if (off % US) FAIL("malloc(%d units) returned an address not aligned to the unit (offset %td)", k, off);
            int u = (int)(off / US);
            if (u + k > NU) FAIL("malloc(%d units) at unit %d runs past the end of the zone", k, u);
            for (int j = 0; j < k; j++) if (used[u + j]) FAIL("malloc(%d units) returned units %d..%d overlapping a live allocation at unit %d", k, u, u + k - 1, u + j);
            int s = u, e = u + k; while (s > 0 && !used[s - 1]) s--; while (e < NU && !used[e]) e++;
            o->pend_nonbest = (e - s != best); o->pend = (e - s == k) ? P_EXACT : P_SPLIT;
            o->live[u] = k;
        }
    } else {
        int u = op - NU, k = o->live[u];
        int l = u > 0 && !used[u - 1], r = u + k < NU && !used[u + k];
        o->pend = (l && r) ? P_MERGE2 : (l || r) ? P_MERGE1 : P_NOMERGE;
        G_OP_BEGIN(); zone_free(z, BASE + (size_t)u * US); G_OP_END();
        o->live[u] = 0;
    }
    G_OP_BEGIN(); int rc = check_state(o, err); G_OP_END();
    return rc;
}

/* canonical state: segmentation (status, length, back pointer) + tree (shape, colour, key, list order) */
static size_t canon_sub(obj_t *o, parsec_rbtree_node_t *x, char *b, size_t off, size_t cap, int depth)
{
    if (off + 16 + NU > cap || depth > 2 * MAXU) return off;
    if (x == o->z->rbtree.nil) { b[off++] = '.'; return off; }
    zone_malloc_chunk_list_t *fl = (zone_malloc_chunk_list_t *)x;
    b[off++] = '('; b[off++] = (char)('A' + fl->nb_units); b[off++] = x->color == PARSEC_RBTREE_RED ? 'r' : 'b';
    parsec_list_item_t *g = &fl->list.ghost_element; int n = 0;
    for (parsec_list_item_t *it = (parsec_list_item_t *)g->list_next; it != g && n++ < NU; it = (parsec_list_item_t *)it->list_next) b[off++] = (char)('a' + (int)((segment_t *)it - o->z->segments));
    off = canon_sub(o, (parsec_rbtree_node_t *)x->super.list_prev, b, off, cap, depth + 1);
    off = canon_sub(o, (parsec_rbtree_node_t *)x->super.list_next, b, off, cap, depth + 1);
    b[off++] = ')'; return off;
}
static size_t canon(void *p, char *b, size_t cap)
{
    obj_t *o = p; zone_malloc_t *z = o->z; size_t off = 0;
    o->final = 1;
    for (int tid = 0, steps = 0; tid < NU && steps < NU; steps++) {
        segment_t *s = &z->segments[tid];
        b[off++] = s->status == SEGMENT_FULL ? 'F' : 'E'; b[off++] = (char)('A' + s->nb_units); b[off++] = (char)('A' + (tid ? s->nb_prev : 0));
        tid += s->nb_units > 0 ? s->nb_units : 1;
    }
    b[off++] = '|';
    return canon_sub(o, z->rbtree.root, b, off, cap, 0);
}

static FILE *saved_json;
static void on_fault(void) { if (!sx_json) sx_json = saved_json; }     /* so that sx_finish() closes the result file */

static void run_scenario(int nu, int max_depth)
{
    NU = nu;
    static char nm[64]; snprintf(nm, sizeof(nm), max_depth ? "zone_%d_units_depth%d" : "zone_%d_units", nu, max_depth);
    g_scen = nm;
    memset(obs, 0, sizeof(obs)); obs_nonbest = obs_maxtree = obs_maxlist = obs_maxlive = 0;
    sx_system_t sys = { nm, 2 * nu, fresh, destroy, enabled, apply, canon, opname, max_depth, 0 };
    sx_stats_t st; FILE *save = sx_json; saved_json = save; g_on_fault = on_fault; sx_json = NULL;
    sx_bfs(&sys, &st);
    sx_json = save;
    char extra[700];
    snprintf(extra, sizeof(extra), "\"depth_reached\":%d,\"closure\":%s,\"max_depth\":%d,\"replays_checked\":%ld,\"broken\":%d,"
             "\"observed_per_transition\":{\"malloc_null\":%ld,\"malloc_split\":%ld,\"malloc_exact_fit\":%ld,\"free_merge_both\":%ld,\"free_merge_one\":%ld,\"free_no_merge\":%ld,"
             "\"non_best_fit_choices\":%ld,\"max_tree_nodes\":%ld,\"max_size_list_len\":%ld,\"max_live_allocations\":%ld}",
             st.depth_reached, st.closed ? "true" : "false", max_depth, st.replays_checked, st.broken,
             obs[P_NULL], obs[P_SPLIT], obs[P_EXACT], obs[P_MERGE2], obs[P_MERGE1], obs[P_NOMERGE], obs_nonbest, obs_maxtree, obs_maxlist, obs_maxlive);
    const char *sp[3] = { st.samples[0], st.samples[1], st.samples[2] };
    sx_report(nm, st.states, st.transitions, st.evaluations, st.nontrivial, st.states, st.exhaustive, st.violations, st.wall, extra, sp, st.nsamples);
}

int main(int argc, char **argv)
{
    sx_init(argc, argv, "C28");
    g_install();
    int lo = 1, hi = 8, dlo = 0, dhi = -1, depth = 9;
    for (int i = 1; i < argc; i++) {
        if (!strcmp(argv[i], "--closure") && i + 2 < argc) { lo = atoi(argv[i + 1]); hi = atoi(argv[i + 2]); i += 2; }
        else if (!strcmp(argv[i], "--bounded") && i + 3 < argc) { dlo = atoi(argv[i + 1]); dhi = atoi(argv[i + 2]); depth = atoi(argv[i + 3]); i += 3; }
    }
    if (sx_replay_file) {
        char sc[128], h[4096]; if (sx_read_replay(sx_replay_file, sc, sizeof(sc), h, sizeof(h))) return 2;
        if (sscanf(sc, "zone_%d_units", &NU) != 1 || NU < 1 || NU > MAXU) return 2;
        sx_system_t sys = { sc, 2 * NU, fresh, destroy, enabled, apply, canon, opname, 0, 0 };
        return sx_replay_named(&sys, h);
    }
    for (int n = lo; n <= hi && n <= MAXU; n++) run_scenario(n, 0);
    for (int n = dlo; n <= dhi && n <= MAXU; n++) run_scenario(n, depth);
    return sx_finish();
}
