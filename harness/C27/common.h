/* C27 shared helpers: a tracking allocator plugged into arena->data_malloc/data_free (the arena's documented
 * customisation point), block-level checks, and the per-thread holders. Used by both the E1 and the E2 harness. */
#include "parsec/parsec_config.h"
#include "parsec/parsec_internal.h"
#include "parsec/arena.h"
#include "parsec/data_internal.h"
#include "parsec/mempool.h"
#include "parsec/class/lifo.h"
#include <stdio.h>
#include <string.h>
#include <stdlib.h>
#include <stdint.h>
#include <limits.h>

#ifndef C27_FAIL
#error "define C27_FAIL(fmt, ...) before including common.h"
#endif
#define CHK(cond, ...) do { if (!(cond)) C27_FAIL(__VA_ARGS__); } while (0)

/* ---- tracking allocator: never reuses an address, so a stale pointer can never alias a new block ---- */
#define NSLOT 12
#define SLOTSZ 512
static char *slab;                                    /* NSLOT * SLOTSZ bytes, 64-aligned, fresh per run */
enum { SL_NEVER = 0, SL_LIVE = 1, SL_FREED = 2 };
static int slot_state[NSLOT], slot_owner[NSLOT], nslot_used; static size_t slot_size[NSLOT];
static long n_sys_alloc, n_sys_free;
static void slab_reset(void)
{
    void *p = NULL; if (posix_memalign(&p, 64, NSLOT * SLOTSZ)) abort();
    slab = p; memset(slab, 0xEE, NSLOT * SLOTSZ);
    memset(slot_state, 0, sizeof(slot_state)); memset(slot_size, 0, sizeof(slot_size)); nslot_used = 0; n_sys_alloc = n_sys_free = 0;
    for (int i = 0; i < NSLOT; i++) slot_owner[i] = -1;
}
static int slot_of(const void *p)
{
    if ((const char *)p < slab || (const char *)p >= slab + NSLOT * SLOTSZ) return -1;
    size_t off = (const char *)p - slab; return (off % SLOTSZ) ? -2 : (int)(off / SLOTSZ);
}
static void *trk_alloc(size_t size)
{
    CHK(size <= SLOTSZ, "harness: arena asked the allocator for %zu bytes (slot size %d)", size, SLOTSZ);
    if (nslot_used >= NSLOT) return NULL;             /* the arena must cope with an allocator that runs dry */
    int s = nslot_used++;
    slot_state[s] = SL_LIVE; slot_size[s] = size; slot_owner[s] = -1; n_sys_alloc++;
    return slab + (size_t)s * SLOTSZ;
}
static void trk_free(void *p)
{
    int s = slot_of(p);
    CHK(s >= 0, "arena freed a pointer it never obtained from its allocator (%p)", p);
    CHK(slot_state[s] == SL_LIVE, "arena freed block #%d twice", s);
    CHK(slot_owner[s] < 0, "arena freed block #%d while owner %d still holds it", s, slot_owner[s]);
    slot_state[s] = SL_FREED; n_sys_free++;
}
static int live_slots(void) { int n = 0; for (int i = 0; i < NSLOT; i++) if (slot_state[i] == SL_LIVE) n++; return n; }

/* ---- holders ---- */
#define MAXHOLD 6
typedef struct { parsec_data_copy_t copy; parsec_data_t data; int slot; int count; int in_use; } hold_t;
static parsec_arena_t *arena;
static size_t a_elem, a_align; static int32_t a_max_used, a_max_released;
static int owned_elems;                                /* elements currently owned by users (ground truth) */

static void arena_setup(size_t elem, size_t align, int32_t max_used, int32_t max_released)
{
    slab_reset(); owned_elems = 0;
    a_elem = elem; a_align = align; a_max_used = max_used; a_max_released = max_released;
    arena = PARSEC_OBJ_NEW(parsec_arena_t);
    int rc = parsec_arena_construct_ex(arena, elem, align,
                                       max_used == INT32_MAX ? SIZE_MAX : (size_t)max_used * elem,
                                       max_released == INT32_MAX ? SIZE_MAX : (size_t)max_released * elem);
    CHK(rc == PARSEC_SUCCESS, "parsec_arena_construct_ex failed (%d)", rc);
    CHK(arena->max_used == max_used && arena->max_released == max_released, "arena limits are (%d,%d), asked for (%d,%d)", arena->max_used, arena->max_released, max_used, max_released);
    arena->data_malloc = trk_alloc; arena->data_free = trk_free;
}

/* allocate `count` elements for `owner`; returns 1 on success, 0 when the arena refused */
static int hold_alloc(hold_t *h, int owner, int count)
{
    memset(h, 0, sizeof(*h));
    h->copy.original = &h->data; h->copy.device_index = 0;
    long before = n_sys_alloc;
    int rc = parsec_arena_allocate_device_private(&h->copy, arena, count, 0, PARSEC_DATATYPE_NULL);
    if (rc != PARSEC_SUCCESS) {
        CHK(rc == PARSEC_ERR_OUT_OF_RESOURCE, "allocate returned %d", rc);
        CHK(a_max_used != INT32_MAX || nslot_used >= NSLOT, "an arena without allocation limit refused an allocation");
        return 0;
    }
    (void)before;
    parsec_arena_chunk_t *ch = h->copy.arena_chunk;
    int s = slot_of(ch);
    CHK(s >= 0 && slot_state[s] == SL_LIVE, "arena handed out a block that is not a live allocation (%p, slot %d)", (void *)ch, s);
    CHK(slot_owner[s] < 0, "block #%d handed to owner %d while owner %d still holds it", s, owner, slot_owner[s]);
    CHK(ch->origin == arena && ch->count == (uint32_t)count, "chunk header: origin %p count %u (expected %p, %d)", (void *)ch->origin, ch->count, (void *)arena, count);
    char *d = h->copy.device_private;
    CHK(d == (char *)ch->data, "copy->device_private differs from chunk->data");
    CHK(((uintptr_t)d % a_align) == 0, "block not aligned on %zu bytes (%p)", a_align, (void *)d);
    CHK(d >= (char *)ch + sizeof(parsec_arena_chunk_t), "data area overlaps the chunk header");
    CHK(d + (size_t)count * a_elem <= (char *)ch + slot_size[s], "block too small: %zu bytes asked, %td available after the aligned start", (size_t)count * a_elem, ((char *)ch + slot_size[s]) - d);
    CHK(h->data.span == (size_t)count * a_elem, "data->span is %zu", (size_t)h->data.span);
    CHK((h->copy.flags & PARSEC_DATA_FLAG_ARENA), "copy not flagged as arena-owned");
    slot_owner[s] = owner; h->slot = s; h->count = count; h->in_use = 1;
    memset(d, 0x40 + owner, (size_t)count * a_elem);                    /* ownership tag over the whole block */
    owned_elems += count;
    CHK(a_max_used == INT32_MAX || owned_elems <= a_max_used, "%d elements are in use although the arena is limited to %d", owned_elems, a_max_used);
    return 1;
}
static void hold_release(hold_t *h, int owner)
{
    unsigned char *d = h->copy.device_private;
    for (size_t i = 0; i < (size_t)h->count * a_elem; i++)
        CHK(d[i] == 0x40 + owner, "block #%d of owner %d was overwritten (byte %zu = 0x%02x): somebody else owns it too", h->slot, owner, i, d[i]);
    CHK(slot_owner[h->slot] == owner, "harness: ownership table corrupt");
    slot_owner[h->slot] = -1; owned_elems -= h->count; h->in_use = 0;
    h->copy.original = NULL;                       /* as parsec_data_copy_destruct does: detached before the chunk goes back */
    parsec_arena_release(&h->copy);
}
/* number of chunks cached in the arena's free list (quiescent state only) + sanity of each */
static int arena_cached(void)
{
    int n = 0; unsigned seen = 0;
    for (parsec_list_item_t *it = arena->area_lifo.lifo_head.data.item; it; it = (parsec_list_item_t *)it->list_next) {
        int s = slot_of(it);
        CHK(s >= 0 && slot_state[s] == SL_LIVE, "free list holds a pointer that is not a live allocation");
        CHK(slot_owner[s] < 0, "free list holds block #%d which owner %d still holds", s, slot_owner[s]);
        CHK(!(seen & (1u << s)), "block #%d is twice in the free list", s);
        seen |= 1u << s; CHK(++n <= NSLOT, "free list is cyclic");
    }
    return n;
}
