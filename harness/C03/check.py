import os, json, subprocess, glob
META = dict(
    engine='rt+cosched',
    technique='bounded-exhaustive DTD program family x configuration box on the real runtime against a sequential reference model; '
              'one-stream leg: stateless DFS over every {insert next task | execute ready task T} interleaving through a harness-owned scheduler; '
              'instruction-level leg: preemption-bounded exhaustive schedule enumeration (cosched) of the real insertion path against the real completion path on 2 controlled threads',
    level_text='Every DTD program with <= 3 tasks (1-2 data parameters each, modes INPUT/OUTPUT/INOUT) over 2 tiles, canonical under tile renaming, '
               'is inserted into the real runtime (parsec_dtd_insert_task and explicit task classes, window/threshold in {(1,1),(2,1),(4,2),default}, '
               'generator task inserting the tail of the program from a task body at every position) and every body observation and final tile value is '
               'compared with sequential execution in insertion order; on one execution stream every interleaving of insertions with task executions and '
               'every task order chosen by the runtime\'s own select calls is enumerated (all programs <= 2 tasks; 3-task programs per the leg bounds); '
               '8 scheduler modules are run on a deterministic stride of the family. Thorough: 3 parameters per task, 3-task interleavings for the whole family, 4 tasks over 3 tiles. '
               'Instruction-level legs (il-*, executable of harness/C04/c04_il.c with the value oracle): every schedule with <= 1 preemption (thorough: 2) of an inserting thread against a worker thread for every program '
               '<= 2 tasks with one parameter per task, and <= 2 preemptions for (R a ; W a).',
    level_note='Task bodies and runtime actions are atomic in the rt legs; instruction-level races inside the DTD engine are explored only by the il legs within their bounds (2 threads, preemption bound 1-2, programs <= 2 tasks, see harness/C04/NOTES.md); they reproduce finding F5, attributed to C04-reader-chain-end-published-before-retain only if known_findings.json lists it. '
               'Main legs run with task-object recycling suppressed by the driver and without tasks naming a tile twice, because both trip genuine defects of the tree '
               '(findings C03-stale-last-user-aba, C03-dup-tile-reader-count, reproduced by dedicated legs); schedulers ip/llp (and ll on one thread, documented) '
               'livelock on the writer-retry path and are reproduced separately (C03-sched-distance-livelock). The multi-thread leg (mt) serialises every insertion against task '
               'prepare/execute/complete on the other streams (tasks still run concurrently with each other under the real scheduler module): the window of NOTES.md/F5 is excluded by construction.',
)
RULE = ("states = distinct (canonical program) cases per leg; executions = complete create/insert/flush/wait/free cycles of a real DTD taskpool; "
        "transitions = task executions (inproc legs) or scheduling/gate decisions taken (gate legs); a run is non-trivial when tasks executed out of insertion "
        "order or on more than one thread (inproc) / when its choice list deviates from the default (gate); outcomes = distinct (program, configuration, "
        "execution order, thread placement[, interleaving trace]) signatures")
ASSUME = ["task bodies touch only the data they declare; the driver waits with parsec_taskpool_wait before reading results and flushes every tile (documented DTD usage)",
          "rt legs: task-level atomicity; races at instruction granularity inside insert/complete are explored only by the il legs (bounds in their names)",
          "multi-thread leg: the main thread inserts only while no other stream holds a task (wrapped scheduler module, Dekker handshake); default window only",
          "driver keeps completed task objects out of the class free lists while a taskpool lives (--norecycle): hides finding C03-stale-last-user-aba from the main legs",
          "no task names the same tile twice in the main legs (finding C03-dup-tile-reader-count is reproduced by its own leg)",
          "hash table sizes of the DTD engine reduced to 64 buckets (dtd_task_hash_size, dtd_tile_hash_size) for speed",
          "il legs: see the assumptions of the C04 check (sequential consistency at instrumented accesses, lock-based reduction, harness queue, spin loops turned into waits)"]
CFLAGS = ['-I/repo/parsec', '-I/verif/engine/rt']
HERE = os.path.dirname(os.path.abspath(__file__))

def build(ctx):
    return ctx.compile('hk-shm', 'c03', ['c03_h.c'], instr=False, cflags=CFLAGS)

FINDINGS = {
    # id -> (replay file in findings/, what it shows); the two findings recorded by the lead are exercised by the legs 'recycle-on' and 'dup'
    'C03-sched-distance-livelock': ('f3-llp-livelock.json', 'scheduler llp ignores the distance hint: the refused (AGAIN) flush task is re-selected forever'),
    'C03-sched-distance-livelock/ip': ('f3-ip-livelock.json', 'scheduler ip ignores the distance hint and selects the lowest priority first: the refused (AGAIN, demoted) flush task is re-selected forever'),
}

def known_ids():
    import vlib
    return [f.get('id') for f in vlib.known_findings() if f.get('id', '').startswith('C03-')]

def run_findings(ctx, exe):
    import shutil
    known = set(known_ids())
    for fid, (fn, what) in FINDINGS.items():
        path = os.path.join('/verif/out/replay', 'C03-' + fn)
        shutil.copyfile(os.path.join(HERE, 'findings', fn), path)
        r = subprocess.run([exe, '--replay', path, '--outdir', '/verif/out', '--hang', '2'], capture_output=True, text=True, timeout=300)
        hang = 'no progress for' in r.stdout
        if r.returncode == 1 and hang:      # a hang is believed only after a re-run alone with a 4x limit
            r = subprocess.run([exe, '--replay', path, '--outdir', '/verif/out', '--hang', '8'], capture_output=True, text=True, timeout=600)
            hang = 'no progress for' in r.stdout
        failed = (r.returncode == 1)
        fid_full, fid = fid, fid.split('/')[0]
        ctx.add_leg(name='finding-' + fid_full.replace('/', '-'), leg='repro', states=1, transitions=0, executions=1, nontrivial=1 if failed else 0, distinct_outcomes=1, exhaustive=True,
                    samples=['%s: %s' % (fid, 'reproduced' if failed else 'NOT reproduced (fixed?)')])
        if r.returncode not in (0, 1):
            ctx.broken.append('finding repro %s: exit %d\n%s' % (fid, r.returncode, r.stderr[-1500:]))
        elif failed:
            if fid in known and hang:      # only the hang signature under llp / ip is the known finding; a wrong value is not
                ctx.known_finding('%s reproduced: %s (replay %s)' % (fid, what, path))
            else:
                ctx.violation(path, 'GENUINE DEFECT (not listed in known_findings.json): %s: %s' % (fid, what))
        else:
            ctx.notes.append('finding %s did not reproduce' % fid)

# ---- instruction-level leg (E4 leg 4): the executable of harness/C04/c04_il.c with the C03 value oracle
def build_il(ctx):
    return ctx.compile('hk-shm', 'il', ['c03_il.c'], engine='cosched', cflags=CFLAGS, ldflags=['-ldl'])

def c04_check():
    import importlib.util
    spec = importlib.util.spec_from_file_location('check_C04_for_il', os.path.join(os.path.dirname(HERE), 'C04', 'check.py'))
    m = importlib.util.module_from_spec(spec); spec.loader.exec_module(m)
    return m

def il_legs(ctx, only):
    c4 = c04_check()
    exe = build_il(ctx)
    if os.environ.get('VERIF_KNOWN_FINDINGS'):
        ctx.notes.append('il legs: known findings read from %s (VERIF_KNOWN_FINDINGS), ids used: %s' % (os.environ['VERIF_KNOWN_FINDINGS'], ','.join(c4.il_known_ids())))
    if ctx.tier == 'quick':
        c4.il_leg(ctx, exe, 'il-le2p1-b1', ['--nt', '1:2', '--maxp', '1'], 1, 120, only=only)
        c4.il_leg(ctx, exe, 'il-f5', ['--prog', 'Ra_Wa'], 2, 75, only=only)
    else:
        c4.il_leg(ctx, exe, 'il-le2p1-b2', ['--nt', '1:2', '--maxp', '1'], 2, 240, jobs=12, only=only)
        c4.il_leg(ctx, exe, 'il-le2p2-b1', ['--nt', '1:2', '--maxp', '2', '--stride', '3'], 1, 180, jobs=12, only=only)

def check(ctx):
    exe = build(ctx)
    q = ctx.tier == 'quick'
    base = ['--outdir', '/verif/out', '--known', ','.join(known_ids())]
    common = base + ['--norecycle', '1', '--dup', '0']
    only = os.environ.get('C03_LEGS')
    def leg(name, args, deadline):
        if only and name not in only.split(','):
            return
        extra = base if ('--isolate' in args) else common
        ctx.run_engine(exe, ['--name', name] + args + extra + ['--deadline', str(deadline)], label=name, timeout=deadline + 400)
    if q:
        leg('inproc-1t', ['--leg', 'inproc', '--threads', '1', '--nt', '1:3', '--maxp', '2', '--nest', '1', '--jobs', '8'], 150)
        leg('scheds-1t', ['--leg', 'scheds', '--threads', '1', '--exclude', 'll,llp,ip', '--nt', '1:3', '--maxp', '2', '--nest', '1', '--stride', '36'], 150)
        leg('gate-le2', ['--leg', 'gate', '--nt', '1:2', '--maxp', '2', '--win', '1,1;2,1;0,0', '--jobs', '8'], 150)
        leg('gate-3x1', ['--leg', 'gate', '--nt', '3:3', '--maxp', '1', '--win', '0,0', '--stride', '18', '--jobs', '8'], 150)
        # 2 free-running streams behind the real scheduler module; insertion serialised against task completion (see level_note)
        leg('mt-2t', ['--leg', 'mt', '--threads', '2', '--nt', '1:3', '--maxp', '2', '--win', '0,0', '--api', '3', '--spin', '500', '--stride', '12', '--jobs', '6'], 150)
        # the real configuration (task objects recycled): every case in a forked child, failures attributed by differential re-run
        leg('recycle-on', ['--leg', 'gate', '--nt', '1:2', '--maxp', '2', '--win', '1,1;0,0', '--stride', '5', '--jobs', '8', '--isolate', '1', '--norecycle', '0', '--dup', '0'], 150)
        # tasks naming one tile twice (R,R / R,RW / RW,R)
        leg('dup', ['--leg', 'gate', '--nt', '1:1', '--maxp', '2', '--win', '0,0;1,1', '--jobs', '3', '--isolate', '1', '--norecycle', '1', '--dup', '2', '--hang', '8'], 150)
    else:
        leg('inproc-1t', ['--leg', 'inproc', '--threads', '1', '--nt', '1:3', '--maxp', '3', '--alpha', 't', '--nest', '1', '--jobs', '12'], 300)
        leg('scheds-1t', ['--leg', 'scheds', '--threads', '1', '--exclude', 'll,llp,ip', '--nt', '1:3', '--maxp', '2', '--nest', '1', '--stride', '1'], 300)
        leg('inproc-4t3', ['--leg', 'inproc', '--threads', '1', '--nt', '4:4', '--tiles', '3', '--maxp', '2', '--win', '1,1;0,0', '--api', '1', '--jobs', '12', '--stride', '7'], 240)
        leg('gate-le2', ['--leg', 'gate', '--nt', '1:2', '--maxp', '2', '--nest', '1', '--jobs', '12'], 200)
        leg('gate-3', ['--leg', 'gate', '--nt', '3:3', '--maxp', '2', '--win', '1,1;0,0', '--jobs', '12'], 420)
        leg('mt-2t', ['--leg', 'mt', '--threads', '2', '--nt', '1:3', '--maxp', '2', '--win', '0,0', '--api', '3', '--spin', '500', '--stride', '2', '--jobs', '8'], 200)
        leg('mt-4t-scheds', ['--leg', 'mt', '--threads', '4', '--nt', '1:3', '--maxp', '2', '--win', '0,0', '--api', '1', '--spin', '500', '--stride', '24', '--allscheds', '1', '--exclude', 'll,llp,ip'], 300)
        leg('recycle-on', ['--leg', 'gate', '--nt', '1:2', '--maxp', '2', '--win', '1,1;2,1;0,0', '--jobs', '12', '--isolate', '1', '--norecycle', '0', '--dup', '0'], 240)
        leg('dup', ['--leg', 'gate', '--nt', '1:2', '--maxp', '2', '--win', '0,0;1,1', '--jobs', '12', '--isolate', '1', '--norecycle', '1', '--dup', '2', '--hang', '8'], 600)
    il_legs(ctx, only)
    if not os.environ.get('C03_SKIP_FINDINGS'):
        run_findings(ctx, exe)
    return ctx.finish(RULE, ASSUME)

def replay(ctx, path, obj):
    if obj.get('engine') == 'cosched':
        return c04_check().replay_il(ctx, build_il(ctx), path)
    exe = build(ctx)
    return subprocess.call([exe, '--replay', path, '--outdir', '/verif/out'])
