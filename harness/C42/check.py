import os, subprocess

META = dict(
    engine='seqx',
    technique='exhaustive enumeration of event sequences x buffer-boundary placements, and of multi-process traces (2-3 rank files with different dictionaries x argument orders, opened together and alone): each case is written with the real profiling.c writer API into fresh binary trace files and read back with the real dbpreader.c; field-by-field comparison with a reference list of the events written',
    level_text='Every sequence of 5 (quick) / 7 (thorough) events over {key A, key B} x {begin, end} x {stream 0, stream 1} is traced as a window of a de Bruijn stream (4-10 configurations of info lengths {0,4,24,+odd} x payload policy x API variant, many buffer alignments); every sequence of length <= 2 (quick) / <= 3 (thorough) is traced from a fresh trace, once into empty buffers and once for every (event i, d in {-1,0,+1}) with the stream pre-filled so that event i ends d bytes around the end of its buffer; plus uniform runs filling exactly k = 1..2 (quick) / 1..4 (thorough) buffers -1/0/+1 event (by count and to the byte), dictionaries of 4..52 entries x convertor lengths (all lengths 0..255 in thorough), and global-info values ending around 1..3 buffer ends. Multi-process traces (leg multi): 2 and 3 rank files whose dictionaries differ - every registration order of the three keys on ranks 1, 2 relative to rank 0 x 0..2 extra keys that only one rank (or two of three) registers before / after / around the shared ones x the same or different info lengths for one key name on different ranks x every argument order of the files - are opened together with dbp_reader_open_files(n) and each alone; event programs: every sequence of length <= 1 (quick) / <= 2, and <= 3 without extra keys (thorough) from fresh traces, every sequence of 2 (quick) / 3 (thorough) events as a window of a de Bruijn stream, 5 programs crossing buffer boundaries; part of the cases with one forked fresh writer process per rank. Checked for every file of the joint reader: the events as written by that rank (key number and key NAME through the dictionary mapping of the file, flags, ids, timestamp, payload length and bytes), rank, dictionary entries; the merged dictionary holds every registered (name, info length, convertor) exactly once and the local-to-global translation of every file points at its own key. Each trace is written with the real profiling.c and read back through the real dbpreader.c (dbp_reader_open_files / iterators) and compared per stream, in order: key, flags, event_id, taskpool_id, timestamp (against a deterministic clock), payload length and bytes; dictionary names / info lengths / convertors / colours, global and per-stream infos, stream names, rank and trace id.',
    level_note='Single writer thread per process (streams are per-thread objects by contract); one trace file per case except in leg multi (2-3 files; all files of a case share buffer size and trace id, as the reader requires; in quick only 36 of the 984 multi cases use forked writer processes, the others write the rank files one after the other in one process with the writer statics reset, and reuse a rank file between neighbouring cases of a worker); info lengths {0,4,24} (+1 for filler events), buffer size 1 page (thorough: also 2 pages); user flags are a fixed function of the event position, not enumerated independently. profiling.c is compiled into the harness by #include so that its file-scope state can be reset between cases (the API cannot restart a trace in one process) and its clock replaced by a tick counter; a fork-per-case leg cross-checks the reset.',
)
RULE = ("one execution = one trace written through the writer API and read back through the reader API; states/distinct outcomes = distinct file layouts "
        "(events per buffer per stream, number of dictionary/info buffers) found by an independent raw walk of the file; transitions = events written and compared; "
        "a case is non-trivial when a stream spans >= 2 buffers or both streams carry events. Leg multi: one execution = one joint opening of n rank files "
        "(each rank file also read alone once; trace_files_written = files actually written), outcome = file layouts + merged dictionary size + the local->global "
        "dictionary map of every file, non-trivial = some file's map is not the identity")


def build(ctx):
    return ctx.compile('hk-prof', 'prof', ['prof_h.c', '/repo/tools/profiling/dbpreader.c'], instr=False,
                       cflags=['-Wno-unused-but-set-variable', '-Wno-sign-compare', '-Wno-maybe-uninitialized', '-Wno-stringop-truncation', '-Wno-format-truncation'])


def check(ctx):
    exe = build(ctx)
    jobs = str(min(16, os.cpu_count() or 4))
    if ctx.tier == 'quick':
        ctx.run_engine(exe, ['--outdir', '/verif/out', '--jobs', jobs, '--maxlen', '5', '--deadline', '70'], label='prof', timeout=300)
    else:
        ctx.run_engine(exe, ['--outdir', '/verif/out', '--jobs', jobs, '--maxlen', '7', '--thorough', '--deadline', '1100'], label='prof', timeout=1700)
    return ctx.finish(RULE, ["events of one stream are traced by one thread at a time (documented contract of parsec_profiling_stream_t)",
                             "the trace is complete: parsec_profiling_dbp_dump / fini returned before the file is read"])


def replay(ctx, path, obj):
    return subprocess.call([build(ctx), '--replay', path])
