/* C40 child: one vpmap specification on one (synthetic) topology, through the real parsec_init.
 * usage: vpmap_child <nb_cores> <spec|@null>      (HWLOC_SYNTHETIC is set by the driver)
 * Prints one JSON object describing the resulting virtual-process map, then "FINI-OK" after parsec_fini. */
#include "parsec/parsec_config.h"
#include "parsec/runtime.h"
#include "parsec/parsec_internal.h"
#include "parsec/execution_stream.h"
#include "parsec/vpmap.h"
#include "parsec/parsec_hwloc.h"
#include <stdio.h>
#include <stdlib.h>
#include <string.h>
#ifdef DEV_INCLUDE_VPMAP   /* development aid only: test a candidate vpmap.c without rebuilding the library */
#include "parsec/vpmap.c"
#endif

static void print_set(hwloc_cpuset_t s)
{
    printf("[");
    if (s) {
        if (hwloc_bitmap_weight(s) < 0) printf("\"inf\"");          /* infinitely set bitmap */
        else { int first = 1; for (int i = hwloc_bitmap_first(s); i >= 0; i = hwloc_bitmap_next(s, i)) { printf("%s%d", first ? "" : ",", i); first = 0; } }
    }
    printf("]");
}
int main(int argc, char **argv)
{
    if (argc < 3) return 2;
    int nc = atoi(argv[1]); int usenull = !strcmp(argv[2], "@null");
    char *a[4] = { "--mca", "runtime_vpmap", argv[2], NULL }; int ac = 3; char **av = a;
    parsec_context_t *c = usenull ? parsec_init(nc, NULL, NULL) : parsec_init(nc, &ac, &av);
    if (!c) { printf("{\"init\":0}\n"); fflush(stdout); return 0; }
    printf("{\"init\":1,\"real_cores\":%d,\"nb_vp\":%d,\"api_nb_vp\":%d,\"api_total\":%d,\"allowed\":", parsec_hwloc_nb_real_cores(), c->nb_vp, parsec_vpmap_get_nb_vp(), parsec_vpmap_get_nb_total_threads());
    print_set(c->cpuset_allowed_mask);
    printf(",\"vps\":[");
    for (int p = 0; p < c->nb_vp; p++) {
        parsec_vp_t *vp = c->virtual_processes[p];
        printf("%s{\"vp_id\":%d,\"threads\":%d,\"api_threads\":%d,\"th\":[", p ? "," : "", vp->vp_id, vp->nb_cores, parsec_vpmap_get_vp_threads(p));
        for (int t = 0; t < vp->nb_cores; t++) {
            parsec_execution_stream_t *es = vp->execution_streams[t]; int ht = -7;
            hwloc_cpuset_t s = parsec_vpmap_get_vp_thread_affinity(p, t, &ht);
            printf("%s{\"th_id\":%d,\"core\":%d,\"ht\":%d,\"aff\":", t ? "," : "", es ? es->th_id : -99, es ? es->core_id : -99, ht);
            print_set(s); printf("}");
        }
        printf("]}");
    }
    printf("],\"oob\":[%d,%d,%d]}\n", parsec_vpmap_get_vp_threads(-1), parsec_vpmap_get_vp_threads(c->nb_vp), parsec_vpmap_get_vp_thread_cores(0, -1));
    fflush(stdout);
    parsec_fini(&c);
    printf("FINI-OK\n");
    return 0;
}
