import os
META = dict(
    engine='cosched',
    technique='stateless model checking: preemption-bounded exhaustive schedule enumeration (CHESS) of the real data repository (datarepo.c over the real hash table and thread mempools)',
    level_text='Every schedule with <= b preemptions (two-thread scripts: b=2 quick / 3 thorough; three-thread scripts: b=1 quick / 2 thorough) of creator/consumer/observer scripts (1-3 creators of one key, uses before and after the limit announcement, observers; thorough also: two keys in one bucket, re-creation after reclamation) over the real data_repo_t is executed; a held entry must stay findable, be the same object and keep its data; an entry with announced-but-missing uses must be findable; at the end every entry is absent from the table and back in its owning mempool exactly once.',
    level_note='Sequential consistency at instrumented accesses (bucket array, entry headers, mempool LIFO heads are scheduling points; the table rwlock is not); <= 3 threads, <= 5 operations per thread; scripts follow the runtime protocol (a use is activated by a creator that still holds the entry).',
)
RULE = ("cosched: every schedule of each 2-3 thread creator/consumer/observer script over the real data repository with at most b "
        "preemptions (scheduling points = every instrumented access to the hash-table buckets, the entries' headers and the mempool "
        "LIFO heads, plus harness hand-off points); non-trivial = at least one preemption; states = nodes of the explored schedule tree; "
        "outcomes = which mempool element each create returned and what each observer lookup saw")
ASSUME = ["sequential consistency at instrumented accesses (no weak-memory effects)",
          "gcc -fsanitize=thread instrumentation reports every access to the watched objects",
          "callers follow the repository protocol: used_once only for uses activated by a creator between its lookup_entry_and_create and its addto_usage_limit"]
SRC = ['datarepo_h.c']
def _run_each(ctx, exe, bound, budget, env, label, cost):
    """One engine invocation per scenario (the engine gives every scenario of one invocation only an equal share of the
    deadline): cheap scenarios first, each may use all the time that is left of this leg's budget."""
    import subprocess, time, vlib
    names = subprocess.run([exe, '--list'], capture_output=True, text=True, env=env).stdout.split()
    names.sort(key=lambda n: (cost.get(n, 10**9), n))
    t_end = time.time() + budget
    for n in names:
        left = max(3, int(t_end - time.time()))
        jobs = max(2, min(vlib.NJOBS, cost.get(n, 10**9) // 60))   # do not fork 16 workers for a few dozen schedules
        args = ['--bound', str(bound), '--scenario', n, '--jobs', str(jobs), '--outdir', vlib.OUT, '--deadline', str(left)]
        ctx.run_engine(exe, args, label='%s.%s' % (label, n), timeout=left + 600, env=env)
# measured number of schedules in the quick tier, used only to order the scenarios
COST = dict(creator_consumer_observer=502, creator_vs_consumer=528, three_creators=538, creator_two_uses=580, two_creators_one_consumer=738,
            zero_limit_and_recreate=782, one_creator_two_consumers=784, two_creators_self_use=856, two_keys_same_bucket=1284, two_creators_two_uses=2000)
# measured / estimated number of schedules under the thorough caps (2 threads: bound 3, 3 threads: bound 2), for ordering only
COST_T = dict(creator_vs_consumer=3892, creator_two_uses=4818, two_creators_self_use=9000, two_keys_same_bucket=15000, creator_consumer_observer=16502,
              one_creator_two_consumers=22000, three_creators=25630, two_creators_one_consumer=35722, zero_limit_and_recreate=40000, two_creators_two_uses=50000)
def check(ctx):
    import time
    exe = ctx.compile('hk-shm', 'datarepo', SRC, engine='cosched')
    q = ctx.tier == 'quick'
    envq = dict(os.environ); envq['C25_QUICK'] = '1'
    envt = dict(os.environ); envt['C25_QUICK'] = '0'
    if q:
        _run_each(ctx, exe, 4, 85, envq, 'datarepo', COST)              # per-scenario bound caps are in the harness source
    else:
        t0 = time.time()
        _run_each(ctx, exe, 4, 300, envq, 'datarepo-quickcaps', COST)   # pass A: the quick tier's set and bounds, so that nothing is starved
        _run_each(ctx, exe, 4, max(60, 1080 - (time.time() - t0)), envt, 'datarepo-deep', COST_T)   # pass B: the thorough caps, cheapest first
    return ctx.finish(RULE, ASSUME)
def replay(ctx, path, obj):
    import subprocess
    exe = ctx.compile('hk-shm', 'datarepo', SRC, engine='cosched')
    return subprocess.call([exe, '--replay', path])
