#!/usr/bin/env python3
"""Print a markdown table of what the evidence files currently say (one row per property)."""
import json, glob, os
VERIF = os.path.dirname(os.path.dirname(os.path.abspath(__file__)))
rows = []
for f in sorted(glob.glob(os.path.join(VERIF, 'evidence', 'C*.json'))):
    e = json.load(open(f)); c = e['coverage']
    rows.append((e['property_id'], e['tier'], len(c.get('legs', [])), c.get('states', 0), c.get('transitions', 0), c.get('evaluations', 0),
                 c.get('distinct_nontrivial', 0), c.get('exhaustive'), e.get('violations', 0), len(c.get('known_findings_reported', [])), e['wall_s']))
print('| id | tier | legs | states | transitions | executions | non-trivial | exhaustive | violations | known | wall s |')
print('|---|---|---|---|---|---|---|---|---|---|---|')
for r in rows:
    print('| ' + ' | '.join(str(x) for x in r) + ' |')
