META = dict(
    engine='cosched',
    technique='stateless model checking: preemption-bounded exhaustive schedule enumeration (CHESS) of the real parsec_lifo_t, linearizability by brute force',
    level_text='Every schedule with <= b preemptions (b=2 quick, 4 thorough) of six 2-3 thread scripts (ABA seekers, chain, try_pop) over the real LIFO is executed; each history is checked for linearizability against a sequential stack plus conservation of items and absence of cycles.',
    level_note='Sequential consistency at instrumented accesses (gcc -fsanitize=thread instrumentation + own runtime); 2-3 threads, <= 4 operations per thread; weak-memory effects (missing fences) are out of reach.',
)
RULE = ("cosched: every schedule of each 2-3 thread script over the real parsec_lifo_t with at most b preemptions "
        "(scheduling points = every instrumented access to the lifo head and the items' links); a schedule is "
        "non-trivial when it contains at least one preemption; states = nodes of the explored schedule tree")
def check(ctx):
    exe = ctx.compile('hk-shm', 'lifo', ['lifo_h.c'], engine='cosched')
    bound = 2 if ctx.tier == 'quick' else 4
    ctx.run_cosched(exe, bound, deadline=(240 if ctx.tier == 'quick' else 1500))
    return ctx.finish(RULE, ["sequential consistency at instrumented accesses (no weak-memory effects)",
                             "gcc -fsanitize=thread instrumentation reports every access to the watched objects"])
def replay(ctx, path, obj):
    import subprocess
    exe = ctx.compile('hk-shm', 'lifo', ['lifo_h.c'], engine='cosched')
    return subprocess.call([exe, '--replay', path])
