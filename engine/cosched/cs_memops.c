/* Optional: interposed memcpy/memset/memmove that report range accesses on
 * watched regions as scheduling points (libc's versions are not instrumented).
 * Compiled WITHOUT instrumentation and with -fno-builtin. */
#include <stddef.h>
#include "vtsan.h"
void *memcpy(void *d, const void *s, size_t n)
{
    vtsan_cb_t cb = vtsan_cb;
    if (cb && n) { cb(VTSAN_READ, (void *)s, (int)n); cb(VTSAN_WRITE, d, (int)n); }
    void *r = d;
    __asm__ __volatile__("rep movsb" : "+D"(d), "+S"(s), "+c"(n) : : "memory");
    return r;
}
void *memset(void *d, int c, size_t n)
{
    vtsan_cb_t cb = vtsan_cb;
    if (cb && n) cb(VTSAN_WRITE, d, (int)n);
    void *r = d;
    __asm__ __volatile__("rep stosb" : "+D"(d), "+c"(n) : "a"(c) : "memory");
    return r;
}
void *memmove(void *d, const void *s, size_t n)
{
    vtsan_cb_t cb = vtsan_cb;
    if (cb && n) { cb(VTSAN_READ, (void *)s, (int)n); cb(VTSAN_WRITE, d, (int)n); }
    unsigned char *dd = d; const unsigned char *ss = s;
    if (dd < ss) { for (size_t i = 0; i < n; i++) dd[i] = ss[i]; }
    else { for (size_t i = n; i > 0; i--) dd[i - 1] = ss[i - 1]; }
    return d;
}
