/* seqx (E2): exhaustive operation-sequence / reachable-state search of sequential code on the
 * REAL object, against a reference model kept by the harness. Header-only.
 *
 * A state is identified with the (shortest) operation history that reaches it; objects are
 * rebuilt by replaying the history on a fresh object (live objects rarely copy). States are
 * deduplicated by a canonical encoding supplied by the harness; the encoding is re-computed on
 * replay and must match (catches uninitialised fields / hidden state).
 */
#ifndef SEQX_H
#define SEQX_H
#include <stdio.h>
#include <stdlib.h>
#include <string.h>
#include <stdint.h>
#include <stdarg.h>
#include <time.h>
#include <sys/stat.h>

#define SX_MAXDEPTH 64
#define SX_ERRLEN 1024

typedef struct sx_system_s {
    const char *name;
    int nops;                                  /* alphabet size: ops are 0..nops-1 */
    void *(*fresh)(void);                      /* new real object + model */
    void (*destroy)(void *o);
    int (*enabled)(void *o, int op);           /* op applicable in this state? (NULL = always) */
    int (*apply)(void *o, int op, char *err);  /* apply to real object AND model, run oracle; !=0 => violation (err filled) */
    size_t (*canon)(void *o, char *buf, size_t cap); /* canonical state encoding */
    void (*opname)(int op, char *buf, size_t cap);
    int max_depth;                             /* histories longer than this are not expanded (0 = until closure) */
    int nontrivial_op_from;                    /* histories containing an op >= this count as non-trivial (default 0: depth>=2) */
} sx_system_t;

typedef struct {
    long states, transitions, evaluations, nontrivial, replays_checked;
    int depth_reached, closed, exhaustive, violations, broken;
    char samples[3][512]; int nsamples;
    double wall;
} sx_stats_t;

typedef struct { uint64_t a, b; } sx_h128_t;
static sx_h128_t sx_hash(const void *p, size_t n)
{
    const uint8_t *s = (const uint8_t *)p; sx_h128_t h = { 1469598103934665603ULL, 0x9E3779B97F4A7C15ULL };
    for (size_t i = 0; i < n; i++) { h.a ^= s[i]; h.a *= 1099511628211ULL; h.b = (h.b ^ s[i]) * 0xff51afd7ed558ccdULL; h.b ^= h.b >> 29; }
    return h;
}
typedef struct { sx_h128_t *v; size_t cap, n; } sx_set_t;
static int sx_set_add(sx_set_t *s, sx_h128_t h)
{
    if (!h.a && !h.b) h.a = 1;
    if (s->n * 2 >= s->cap) {
        size_t nc = s->cap ? s->cap * 2 : 4096; sx_h128_t *nv = (sx_h128_t *)calloc(nc, sizeof(sx_h128_t));
        for (size_t i = 0; i < s->cap; i++) if (s->v[i].a || s->v[i].b) { size_t j = s->v[i].a & (nc - 1); while (nv[j].a || nv[j].b) j = (j + 1) & (nc - 1); nv[j] = s->v[i]; }
        free(s->v); s->v = nv; s->cap = nc;
    }
    size_t j = h.a & (s->cap - 1);
    while (s->v[j].a || s->v[j].b) { if (s->v[j].a == h.a && s->v[j].b == h.b) return 0; j = (j + 1) & (s->cap - 1); }
    s->v[j] = h; s->n++; return 1;
}

static double sx_now(void) { struct timespec ts; clock_gettime(CLOCK_MONOTONIC, &ts); return ts.tv_sec + ts.tv_nsec * 1e-9; }

/* ---- global reporting context ---- */
static const char *sx_property = "C00";
static char sx_outdir[512] = "/verif/out";
static FILE *sx_json = NULL; static int sx_json_first = 1;
static int sx_total_violations = 0, sx_total_broken = 0;
static double sx_deadline = 0;
static int sx_tier_thorough = 0;
static const char *sx_replay_file = NULL;
static char sx_known[16][256]; static int sx_nknown = 0;

/* ---- crash / hang guard: a signal or a non-returning call INSIDE the code under test is a violation of the run that
 * is reported with the operation history being executed (not a broken check).  sx_bfs and sx_replay_named maintain the
 * current case; harnesses with their own loops may call sx_guard_set()/sx_guard_clear() around calls into the library. */
#include <signal.h>
#include <pthread.h>
static volatile int sx_guard_active = 0;            /* 1 while inside sys->fresh/apply/canon (code under test) */
static char sx_guard_scen[128], sx_guard_case[2304];
static const void *sx_guard_sys = NULL; static unsigned char sx_guard_h[256]; static int sx_guard_n = 0;   /* raw history (formatted lazily) */
static void sx_guard_format(void);
static volatile long sx_guard_progress = 0;
static int sx_hang_seconds = 60;                    /* a single operation that runs longer than this is a hang */
static void sx_violation(const char *scen, const char *history, const char *msg);
static void sx_report(const char *name, long states, long transitions, long evaluations, long nontrivial,
                      long distinct_outcomes, int exhaustive, int violations, double wall, const char *extra_json,
                      const char **samples, int nsamples);
static int sx_finish(void);
static void sx_guard_set(const char *scen, const char *casestr) { sx_guard_sys = NULL; snprintf(sx_guard_scen, sizeof(sx_guard_scen), "%s", scen); snprintf(sx_guard_case, sizeof(sx_guard_case), "%s", casestr); sx_guard_progress++; sx_guard_active = 1; }
static void sx_guard_clear(void) { sx_guard_active = 0; sx_guard_progress++; }
static void sx_guard_fail(const char *what)
{
    static volatile int once = 0; if (__sync_lock_test_and_set(&once, 1)) _exit(1);
    if (sx_guard_sys) sx_guard_format();
    char msg[400]; snprintf(msg, sizeof(msg), "%s inside the code under test while executing the last operation of this history (earlier operations passed)", what);
    if (sx_replay_file) { printf("  %s\nVIOLATION property=%s replay=%s\n", msg, sx_property, sx_replay_file); fflush(stdout); _exit(1); }
    sx_violation(sx_guard_scen, sx_guard_case, msg);
    const char *sp[1] = { sx_guard_case };
    sx_report(sx_guard_scen, 0, 0, 0, 0, 0, 0, 1, 0.0, "\"crashed\":true", sp, 1);
    sx_finish(); fflush(NULL); _exit(1);
}
static void sx_guard_sig(int sig)
{
    if (!sx_guard_active) { signal(sig, SIG_DFL); raise(sig); return; }     /* a crash of the harness itself stays a broken check */
    char w[64]; snprintf(w, sizeof(w), "crash (signal %d%s)", sig, sig == SIGSEGV ? ", SIGSEGV" : sig == SIGABRT ? ", SIGABRT: abort/failed assertion" : sig == SIGFPE ? ", SIGFPE" : sig == SIGBUS ? ", SIGBUS" : "");
    sx_guard_fail(w);
}
static void *sx_guard_watchdog(void *a)
{
    (void)a; long last = -1; int still = 0;
    for (;;) {
        struct timespec ts = { 2, 0 }; nanosleep(&ts, NULL);
        long p = sx_guard_progress;
        if (sx_guard_active && p == last) { if (++still * 2 >= sx_hang_seconds) { char w[96]; snprintf(w, sizeof(w), "hang (one operation did not return within %d s)", sx_hang_seconds); sx_guard_fail(w); } }
        else still = 0;
        last = p;
    }
    return NULL;
}
static void sx_guard_install(void)
{
    static char altstack[1 << 16]; stack_t ss = { .ss_sp = altstack, .ss_size = sizeof(altstack), .ss_flags = 0 }; sigaltstack(&ss, NULL);
    struct sigaction sa; memset(&sa, 0, sizeof(sa)); sa.sa_handler = sx_guard_sig; sa.sa_flags = SA_ONSTACK | SA_NODEFER;
    int sigs[] = { SIGSEGV, SIGBUS, SIGFPE, SIGILL, SIGABRT }; for (unsigned i = 0; i < sizeof(sigs) / sizeof(sigs[0]); i++) sigaction(sigs[i], &sa, NULL);
    const char *hs = getenv("SX_HANG_SECONDS"); if (hs && atoi(hs) > 0) sx_hang_seconds = atoi(hs);
    pthread_t th; pthread_attr_t at; pthread_attr_init(&at); pthread_attr_setdetachstate(&at, PTHREAD_CREATE_DETACHED);
    pthread_create(&th, &at, sx_guard_watchdog, NULL);
}

static void sx_json_str(FILE *f, const char *s)
{
    fputc('"', f);
    for (; *s; s++) { unsigned char c = (unsigned char)*s; if (c == '"' || c == '\\') { fputc('\\', f); fputc(c, f); } else if (c == '\n') fputs("\\n", f); else if (c < 0x20) fprintf(f, "\\u%04x", c); else fputc(c, f); }
    fputc('"', f);
}

/* write a replay file and print the VIOLATION line */
static void sx_violation(const char *scen, const char *history, const char *msg)
{
    static int seq = 0; char dir[600], path[800];
    snprintf(dir, sizeof(dir), "%s/replay", sx_outdir); mkdir(sx_outdir, 0777); mkdir(dir, 0777);
    snprintf(path, sizeof(path), "%s/%s-%s-%d.json", dir, sx_property, scen, seq++);
    FILE *f = fopen(path, "w");
    if (f) {
        fprintf(f, "{\"property\":\"%s\",\"engine\":\"seqx\",\"scenario\":\"%s\",\n \"history\":", sx_property, scen); sx_json_str(f, history);
        fprintf(f, ",\n \"message\":"); sx_json_str(f, msg); fprintf(f, "}\n"); fclose(f);
    }
    printf("VIOLATION property=%s replay=%s\n", sx_property, path);
    printf("  scenario=%s history=[%s]: %s\n", scen, history, msg);
    fflush(stdout);
    sx_total_violations++;
}
static void sx_known_finding(const char *fmt, ...)
{
    char b[256]; va_list ap; va_start(ap, fmt); vsnprintf(b, sizeof(b), fmt, ap); va_end(ap);
    for (int i = 0; i < sx_nknown; i++) if (!strcmp(sx_known[i], b)) return;
    if (sx_nknown < 16) strcpy(sx_known[sx_nknown++], b);
    printf("KNOWN-FINDING: property=%s %s\n", sx_property, b); fflush(stdout);
}

/* generic scenario report (for harnesses that enumerate a box themselves) */
static void sx_report(const char *name, long states, long transitions, long evaluations, long nontrivial,
                      long distinct_outcomes, int exhaustive, int violations, double wall, const char *extra_json,
                      const char **samples, int nsamples)
{
    if (!sx_json) return;
    fprintf(sx_json, "%s{\"name\":\"%s\",\"engine\":\"seqx\",\"states\":%ld,\"transitions\":%ld,\"executions\":%ld,\"nontrivial\":%ld,\"distinct_outcomes\":%ld,"
            "\"exhaustive\":%s,\"violations\":%d,\"wall_s\":%.2f", sx_json_first ? "" : ",\n", name, states, transitions, evaluations, nontrivial, distinct_outcomes,
            exhaustive ? "true" : "false", violations, wall);
    if (extra_json && *extra_json) fprintf(sx_json, ",%s", extra_json);
    fprintf(sx_json, ",\"samples\":[");
    for (int i = 0; i < nsamples; i++) { if (i) fputc(',', sx_json); sx_json_str(sx_json, samples[i]); }
    fprintf(sx_json, "]}");
    sx_json_first = 0; fflush(sx_json);
    fprintf(stderr, "seqx[%s/%s]: states=%ld transitions=%ld evaluations=%ld nontrivial=%ld exhaustive=%d violations=%d %.1fs\n",
            sx_property, name, states, transitions, evaluations, nontrivial, exhaustive, violations, wall);
}

static void sx_hist_str(const sx_system_t *sys, const uint8_t *h, int n, char *buf, size_t cap)
{
    size_t o = 0; buf[0] = 0;
    for (int i = 0; i < n && o + 40 < cap; i++) { char nm[64]; if (sys->opname) sys->opname(h[i], nm, sizeof(nm)); else snprintf(nm, sizeof(nm), "%d", h[i]); o += snprintf(buf + o, cap - o, "%s%s", i ? " " : "", nm); }
}

/* replay a history; returns the object (or NULL on violation with err filled) */
static void sx_guard_hist(const sx_system_t *sys, const uint8_t *h, int n) { sx_guard_sys = sys; sx_guard_n = n < (int)sizeof(sx_guard_h) ? n : (int)sizeof(sx_guard_h); memcpy(sx_guard_h, h, sx_guard_n); sx_guard_progress++; sx_guard_active = 1; }
static void sx_guard_format(void) { const sx_system_t *sys = (const sx_system_t *)sx_guard_sys; snprintf(sx_guard_scen, sizeof(sx_guard_scen), "%s", sys->name); sx_hist_str(sys, sx_guard_h, sx_guard_n, sx_guard_case, sizeof(sx_guard_case)); }
static void *sx_replay(const sx_system_t *sys, const uint8_t *h, int n, char *err)
{
    sx_guard_set(sys->name, "(fresh object)");
    void *o = sys->fresh();
    sx_guard_clear();
    for (int i = 0; i < n; i++) {
        if (sys->enabled && !sys->enabled(o, h[i])) { snprintf(err, SX_ERRLEN, "internal: op %d not enabled on replay at step %d", h[i], i); sys->destroy(o); return NULL; }
        sx_guard_hist(sys, h, i + 1);
        int bad = sys->apply(o, h[i], err);
        sx_guard_clear();
        if (bad) { sys->destroy(o); return NULL; }
    }
    return o;
}

typedef struct sx_node_s { uint8_t len; uint8_t h[SX_MAXDEPTH]; } sx_node_t;

/* BFS over histories. */
static int sx_bfs(const sx_system_t *sys, sx_stats_t *st)
{
    memset(st, 0, sizeof(*st));
    double t0 = sx_now();
    sx_set_t seen = {0};
    size_t qcap = 1 << 16, qh = 0, qt = 0;
    sx_node_t *q = (sx_node_t *)malloc(qcap * sizeof(sx_node_t));
    char *cbuf = (char *)malloc(1 << 16), *cbuf2 = (char *)malloc(1 << 16); char err[SX_ERRLEN];
    err[0] = 0;
    void *o = sys->fresh(); size_t cl = sys->canon(o, cbuf, 1 << 16); sys->destroy(o);
    sx_set_add(&seen, sx_hash(cbuf, cl)); st->states = 1;
    q[qt].len = 0; qt++;
    st->exhaustive = 1; st->closed = 1;
    int maxd = sys->max_depth ? sys->max_depth : SX_MAXDEPTH - 1;
    while (qh < qt) {
        sx_node_t cur = q[qh++];
        if (sx_deadline > 0 && (qh & 255) == 0 && sx_now() > sx_deadline) { st->exhaustive = 0; st->closed = 0; break; }
        if (cur.len >= maxd) { st->closed = 0; continue; }
        for (int op = 0; op < sys->nops; op++) {
            err[0] = 0;
            void *ob = sx_replay(sys, cur.h, cur.len, err);
            if (!ob) { char hs[2048]; sx_hist_str(sys, cur.h, cur.len, hs, sizeof(hs)); sx_violation(sys->name, hs, err[0] ? err : "replay of an already accepted history failed (non-determinism)"); st->broken++; goto out; }
            /* canon-on-replay must be stable: checked for a sample of nodes */
            if (op == 0 && (qh & 63) == 1) { size_t l1 = sys->canon(ob, cbuf, 1 << 16); void *ob2 = sx_replay(sys, cur.h, cur.len, err); size_t l2 = ob2 ? sys->canon(ob2, cbuf2, 1 << 16) : 0; st->replays_checked++;
                if (!ob2 || l1 != l2 || memcmp(cbuf, cbuf2, l1)) { fprintf(stderr, "seqx: BROKEN: canonical state differs between two replays of the same history (hidden/uninitialised state)\n"); st->broken++; if (ob2) sys->destroy(ob2); sys->destroy(ob); goto out; }
                sys->destroy(ob2); }
            if (sys->enabled && !sys->enabled(ob, op)) { sys->destroy(ob); continue; }
            st->transitions++; st->evaluations++;
            { uint8_t gh[SX_MAXDEPTH]; memcpy(gh, cur.h, cur.len); gh[cur.len] = (uint8_t)op; sx_guard_hist(sys, gh, cur.len + 1); }
            int bad = sys->apply(ob, op, err);
            sx_guard_clear();
            if (cur.len + 1 > st->depth_reached) st->depth_reached = cur.len + 1;
            if (bad) {
                char hs[2048]; uint8_t hh[SX_MAXDEPTH]; memcpy(hh, cur.h, cur.len); hh[cur.len] = (uint8_t)op;
                sx_hist_str(sys, hh, cur.len + 1, hs, sizeof(hs));
                sx_violation(sys->name, hs, err);
                st->violations++; st->exhaustive = 0;
                sys->destroy(ob);
                if (st->violations >= 3) goto out;
                continue;
            }
            { uint8_t gh[SX_MAXDEPTH]; memcpy(gh, cur.h, cur.len); gh[cur.len] = (uint8_t)op; sx_guard_hist(sys, gh, cur.len + 1); }
            cl = sys->canon(ob, cbuf, 1 << 16);      /* the canonical walk reads the real structure: a crash in it is the last operation's doing */
            sys->destroy(ob);
            sx_guard_clear();
            if (sx_set_add(&seen, sx_hash(cbuf, cl))) {
                st->states++;
                if (cur.len + 1 >= 2) st->nontrivial++;
                if (qt == qcap) { qcap *= 2; q = (sx_node_t *)realloc(q, qcap * sizeof(sx_node_t)); }
                q[qt] = cur; q[qt].h[cur.len] = (uint8_t)op; q[qt].len = cur.len + 1; qt++;
                if (st->nsamples < 3 && (st->states == 5 || st->states == 50 || st->states == 500)) { sx_hist_str(sys, q[qt - 1].h, q[qt - 1].len, st->samples[st->nsamples], 512); st->nsamples++; }
            }
        }
    }
out:
    if (st->nsamples == 0 && qt > 1) { sx_hist_str(sys, q[qt - 1].h, q[qt - 1].len, st->samples[0], 512); st->nsamples = 1; }
    if (st->broken || st->violations) st->exhaustive = 0;
    st->wall = sx_now() - t0;
    free(q); free(cbuf); free(cbuf2); free(seen.v);
    {
        const char *sp[3] = { st->samples[0], st->samples[1], st->samples[2] }; char extra[256];
        snprintf(extra, sizeof(extra), "\"depth_reached\":%d,\"closure\":%s,\"max_depth\":%d,\"replays_checked\":%ld,\"broken\":%d", st->depth_reached, st->closed ? "true" : "false", sys->max_depth, st->replays_checked, st->broken);
        sx_report(sys->name, st->states, st->transitions, st->evaluations, st->nontrivial, st->states, st->exhaustive, st->violations, st->wall, extra, sp, st->nsamples);
    }
    sx_total_broken += st->broken;
    return st->violations ? 1 : st->broken ? 2 : 0;
}

/* replay a history string "opname opname ..." (names as produced by opname) */
static int sx_replay_named(const sx_system_t *sys, const char *hist)
{
    char *dup = strdup(hist); uint8_t h[SX_MAXDEPTH]; int n = 0;
    for (char *tok = strtok(dup, " "); tok; tok = strtok(NULL, " ")) {
        int found = -1; for (int op = 0; op < sys->nops; op++) { char nm[64]; sys->opname(op, nm, sizeof(nm)); if (!strcmp(nm, tok)) { found = op; break; } }
        if (found < 0) { fprintf(stderr, "unknown op %s\n", tok); free(dup); return 2; }
        h[n++] = (uint8_t)found;
    }
    free(dup);
    char err[SX_ERRLEN]; err[0] = 0;
    void *o = sys->fresh();
    for (int i = 0; i < n; i++) {
        char nm[64]; sys->opname(h[i], nm, sizeof(nm));
        sx_guard_set(sys->name, hist);
        int bad = sys->apply(o, h[i], err);
        if (!bad && i == n - 1) { static char cb[1 << 16]; sys->canon(o, cb, sizeof(cb)); }
        sx_guard_clear();
        printf("  step %d: %s -> %s\n", i, nm, bad ? err : "ok");
        if (bad) { printf("VIOLATION property=%s replay=%s\n", sx_property, sx_replay_file ? sx_replay_file : "-"); return 1; }
    }
    printf("replay: history passes\n");
    return 0;
}

/* common argument handling; returns 0 to continue */
static int sx_init(int argc, char **argv, const char *property)
{
    sx_property = property; const char *json = NULL; double dl = 0;
    for (int i = 1; i < argc; i++) {
        if (!strcmp(argv[i], "--json") && i + 1 < argc) json = argv[++i];
        else if (!strcmp(argv[i], "--outdir") && i + 1 < argc) snprintf(sx_outdir, sizeof(sx_outdir), "%s", argv[++i]);
        else if (!strcmp(argv[i], "--deadline") && i + 1 < argc) dl = atof(argv[++i]);
        else if (!strcmp(argv[i], "--thorough")) sx_tier_thorough = 1;
        else if (!strcmp(argv[i], "--replay") && i + 1 < argc) sx_replay_file = argv[++i];
    }
    if (dl > 0) sx_deadline = sx_now() + dl;
    setvbuf(stdout, NULL, _IOLBF, 0);
    sx_guard_install();
    sx_json = fopen(json ? json : "/dev/null", "w");
    if (!sx_json) { perror(json); exit(2); }
    fprintf(sx_json, "{\"engine\":\"seqx\",\"property\":\"%s\",\"scenarios\":[\n", property);
    return 0;
}
static int sx_finish(void)
{
    if (sx_json) { fprintf(sx_json, "\n]}\n"); fclose(sx_json); sx_json = NULL; }
    return sx_total_violations ? 1 : sx_total_broken ? 2 : 0;
}
/* read the "history" and "scenario" strings of a replay file */
static int sx_read_replay(const char *path, char *scen, size_t slen, char *hist, size_t hlen)
{
    FILE *f = fopen(path, "r"); if (!f) return -1;
    static char buf[1 << 16]; size_t n = fread(buf, 1, sizeof(buf) - 1, f); buf[n] = 0; fclose(f);
    char *s = strstr(buf, "\"scenario\":\""); if (!s) return -1; s += 12; char *e = strchr(s, '"'); snprintf(scen, slen, "%.*s", (int)(e - s), s);
    char *h = strstr(buf, "\"history\":\""); if (!h) return -1; h += 11; e = strchr(h, '"'); snprintf(hist, hlen, "%.*s", (int)(e - h), h);
    return 0;
}
#endif
