"""C13 / E5 leg (thorough tier): real multi-process runs of a generated two-output PTG program over an enumerated box.

Program (repro.jdf): producer P(0) on rank 0 with two output flows, A -> C1(ALO..AHI) and B -> C2(BLO..BHI); C1(i)/C2(i) run on rank i.
Box: n in {3, 4} processes x every pair of contiguous non-empty rank ranges within 1..n-1 x runtime_comm_coll_bcast in {0, 1, 2}
(the topology is selected with the environment variable PARSEC_MCA_runtime_comm_coll_bcast).
Oracle: every rank terminates, each consumer ran exactly once with the producer's value. For each launch the verdict of the E3 harness on
the same (n, root 0, sets, topology) is computed too: a real failure is a KNOWN-FINDING only if E3 says every lost pair is attributable and
the finding is recorded; a real failure that E3 does not predict is a VIOLATION; a predicted loss that real MPI does not show means the
E3 model is unfaithful (BROKEN).
"""
import json
import os
import subprocess
import time
from concurrent.futures import ThreadPoolExecutor

import vlib

HERE = os.path.dirname(os.path.abspath(__file__))
TOPO = ('star', 'chain', 'binomial')
FINDINGS = {1: 'C13-chain-relay-missing-output', 2: 'C13-binomial-relay-missing-output'}
ENV = dict(os.environ, OMPI_ALLOW_RUN_AS_ROOT='1', OMPI_ALLOW_RUN_AS_ROOT_CONFIRM='1', PARSEC_MCA_bind_threads='0',
           PARSEC_MCA_runtime_comm_thread_yield='2')


def build(ctx):
    ctx.build('hk-mpi')
    b = os.path.join(vlib.BUILD, 'hk-mpi')
    d = os.path.join(vlib.OUT, 'bin', 'C13-mp')
    os.makedirs(d, exist_ok=True)
    exe = os.path.join(d, 'repro')
    ptgpp = os.path.join(b, 'parsec/interfaces/ptg/ptg-compiler/parsec-ptgpp')
    deps = [os.path.join(HERE, 'repro.jdf'), os.path.join(HERE, 'repro_main.c'), ptgpp, os.path.join(b, 'parsec/libparsec.so'),
            os.path.join(vlib.VERIF, 'engine/rt/vdc.h')]
    if os.path.exists(exe) and all(os.path.getmtime(exe) > os.path.getmtime(f) for f in deps):
        return exe                                   # up to date (the library itself is found through rpath at run time)
    subprocess.run(['cp', os.path.join(HERE, 'repro.jdf'), d], check=True)
    r = subprocess.run([ptgpp, '-i', 'repro.jdf', '-o', 'repro', '-f', 'repro'], cwd=d, capture_output=True, text=True)
    if not os.path.exists(os.path.join(d, 'repro.c')):
        raise vlib.Broken('ptgpp failed on repro.jdf:\n' + r.stdout + r.stderr)
    inc = ['-I' + d, '-I%s/parsec/include' % b, '-I' + b, '-I%s/parsec/include' % vlib.REPO, '-I' + vlib.REPO, '-I%s/parsec' % vlib.REPO,
           '-I%s/engine/rt' % vlib.VERIF]
    cmd = (['mpicc', '-std=gnu11', '-O1', '-g', '-mcx16', '-D_GNU_SOURCE', '-DPARSEC_VERIF_HOOKS', '-w'] + inc +
           [os.path.join(d, 'repro.c'), os.path.join(HERE, 'repro_main.c'), '-o', exe,
            '-L%s/parsec' % b, '-Wl,-rpath,%s/parsec' % b, '-lparsec', '-lpthread', '-lm', '-ldl', '-lhwloc'])
    r = subprocess.run(cmd, capture_output=True, text=True)
    if r.returncode != 0:
        raise vlib.Broken('compilation of the MPI reproduction failed:\n' + r.stdout + r.stderr)
    return exe


_seq = [0]


def launch(exe, n, rng, topo, timeout):
    import signal
    env = dict(ENV, PARSEC_MCA_runtime_comm_coll_bcast=str(topo))
    _seq[0] += 1
    tag = 'c13tag%d_%d' % (os.getpid(), _seq[0])                       # unique argv token: lets us find stray ranks of this launch
    cmd = ['mpiexec', '-n', str(n), '--oversubscribe', exe] + [str(x) for x in rng] + [tag]
    t0 = time.time()
    p = subprocess.Popen(cmd, env=env, stdout=subprocess.PIPE, stderr=subprocess.STDOUT, text=True, start_new_session=True)
    hung = False
    try:
        out, _ = p.communicate(timeout=timeout)
        rc = p.returncode
    except subprocess.TimeoutExpired:
        hung = True
        p.terminate()                                                   # mpiexec forwards the signal and cleans its ranks up
        try:
            out, _ = p.communicate(timeout=10)
        except subprocess.TimeoutExpired:
            try:
                os.killpg(p.pid, signal.SIGKILL)
            except OSError:
                pass
            out, _ = p.communicate()
        rc = -1
    subprocess.run(['pkill', '-9', '-f', tag], capture_output=True)
    out = out or ''
    ok = sum(1 for l in out.splitlines() if l.startswith('RANK ') and ' OK ' in l)
    bad = [l for l in out.splitlines() if (l.startswith('RANK ') and ' BAD ' in l) or 'Assertion' in l]
    good = (rc == 0 and ok == n and not bad)
    how = 'ok' if good else ('hang (timeout %ds)' % timeout if hung else 'exit %d; %d/%d ranks OK; %s' % (rc, ok, n, '; '.join(bad)[:300]))
    return good, how, time.time() - t0


def predict(ctx, coll_exe, n, rng, topo, known):
    """Verdict of the E3 harness for the same case: 'pass', 'known' (all lost pairs attributable), or 'violation'."""
    sets = [list(range(rng[0], rng[1] + 1)), list(range(rng[2], rng[3] + 1))]
    obj = dict(property='C13', engine='vranks', scenario='mp-predict', topology=topo, N=n, root=0, outputs=2, variant=0, sets=sets, message='')
    p = os.path.join(vlib.OUT, 'res', 'C13-mp-predict-%d-%d-%s.json' % (n, topo, '-'.join(map(str, rng))))
    json.dump(obj, open(p, 'w'), separators=(',', ':'))
    r = subprocess.run([coll_exe, '--replay', p, '--known-topos', '6'], capture_output=True, text=True)   # 6: ask for attributability itself
    os.unlink(p)
    if 'replay: the case passes' in r.stdout:
        return 'pass'
    if 'KNOWN-FINDING:' in r.stdout:
        return 'known'
    if 'VIOLATION' in r.stdout:
        return 'violation'
    raise vlib.Broken('E3 prediction failed: ' + r.stdout + r.stderr)


def cases():
    """The two designated reproducers first, then the rest of the box."""
    first = [(3, (1, 2, 2, 2), t) for t in (0, 1, 2)] + [(4, (1, 3, 3, 3), t) for t in (0, 1, 2)]
    rest = []
    for n in (3, 4):
        rngs = [(lo, hi) for lo in range(1, n) for hi in range(lo, n)]
        for a in rngs:
            for b in rngs:
                for topo in (0, 1, 2):
                    c = (n, (a[0], a[1], b[0], b[1]), topo)
                    if c not in first:
                        rest.append(c)
    return first + rest


def run(ctx, known, coll_exe, only=None, budget=420):
    exe = build(ctx)
    todo = cases() if only is None else [only]
    t0 = time.time()
    # the machine is shared: generous limits, two launches at a time, and a wall-clock budget after which no new launch is started
    limit1, limit2 = 90, 300

    def first_pass(c):
        if time.time() - t0 > budget:
            return None
        return launch(exe, c[0], c[1], c[2], limit1)
    with ThreadPoolExecutor(max_workers=2) as ex:
        res = list(ex.map(first_pass, todo))
    skipped = sum(1 for r in res if r is None)
    todo, res = [c for c, r in zip(todo, res) if r is not None], [r for r in res if r is not None]
    nfail = nknown = nviol = 0
    outcomes = set()
    samples = []
    per = {}
    kn = {}
    for (n, rng, topo), (good, how, dt) in zip(todo, res):
        pred = predict(ctx, coll_exe, n, rng, topo, known)
        label = 'n=%d P(0)@0: A->C1(%d..%d) B->C2(%d..%d) topology=%s' % (n, rng[0], rng[1], rng[2], rng[3], TOPO[topo])
        if not good:                                     # never believe a failure seen under load: re-run alone, longer limit
            good, how, dt = launch(exe, n, rng, topo, limit2)
        key = (TOPO[topo], n)
        per.setdefault(key, [0, 0])
        per[key][0] += 1
        outcomes.add((good, pred))
        if len(samples) < 3 and (not good or rng[1] > rng[0]):
            samples.append('%s: real MPI %s; E3 predicts %s' % (label, how, pred))
        if good and pred == 'pass':
            continue
        if good and pred != 'pass':
            ctx.broken.append('E3 predicts a lost delivery (%s) for %s but the real MPI run completes correctly: the model is unfaithful' % (pred, label))
            continue
        nfail += 1
        per[key][1] += 1
        replay_obj = dict(engine='mp', n=n, ranges=list(rng), topology=topo, topology_name=TOPO[topo], e3_prediction=pred, observed=how)
        if pred == 'known' and (known >> topo) & 1:
            nknown += 1
            kn.setdefault((topo, n), []).append('%s: %s' % (label, how[:120]))
        else:
            nviol += 1
            why = ('fails although the E3 search finds no lost delivery' if pred == 'pass' else
                   'fails; E3 says the loss is not attributable' if pred == 'violation' else
                   'fails with an attributable loss but known_findings.json has no entry %s' % FINDINGS.get(topo, '(none for star)'))
            ctx.violation(ctx.write_replay('mp-n%d-%s-%s' % (n, TOPO[topo], '-'.join(map(str, rng))), replay_obj), '%s: %s (%s)' % (label, why, how))
    for (topo, n), l in sorted(kn.items()):            # one line per (topology, n) class
        ctx.known_finding('id=%s topology=%s real MPI runs on %d processes: %d launch(es) fail exactly where the E3 search predicts an attributable loss; e.g. %s'
                          % (FINDINGS[topo], TOPO[topo], n, len(l), l[0]))
    ctx.add_leg(name='mpi_two_output_program', leg='mp', engine='mp', states=len(todo), transitions=sum(c[0] for c in todo), executions=len(todo),
                nontrivial=sum(1 for c in todo if c[1][:2] != c[1][2:]), distinct_outcomes=len(outcomes), exhaustive=(skipped == 0),
                launches_not_started_budget=skipped,
                launches=len(todo), failing_launches=nfail, failing_attributed_to_known_finding=nknown, violations=nviol,
                per_topology_n={'%s/n=%d' % k: {'launches': v[0], 'failing': v[1]} for k, v in sorted(per.items())},
                wall_s=round(time.time() - t0, 1), samples=samples)
    return nviol


def replay(ctx, path, obj, known):
    import importlib.util
    spec = importlib.util.spec_from_file_location('c13check', os.path.join(HERE, 'check.py'))
    m = importlib.util.module_from_spec(spec)
    spec.loader.exec_module(m)
    nviol = run(ctx, known, m.build(ctx), only=(obj['n'], tuple(obj['ranges']), obj['topology']))
    for l in ctx.legs:
        print('  ' + json.dumps({k: l[k] for k in ('launches', 'failing_launches', 'samples')}))
    if ctx.broken:
        return 2
    return 1 if nviol else 0
