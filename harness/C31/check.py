META = dict(
    engine='seqx+cosched',
    technique='explicit-state model checking: BFS to closure over all arrangements of 5-7 distinguishable items (tied priorities) of the real parsec_list_t/dequeue/fifo/sorted-ring code against an array model with stable sorted insertion; plus preemption-bounded exhaustive schedule enumeration (CHESS) of the locked variants with brute-force linearizability',
    level_text='Sequential: every reachable list arrangement of N items (N=5,6 quick; 5,6,7 thorough) x every operation of the alphabet (push/pop/try_pop front/back, push_sorted, chain_sorted, chain_front/back with rings <= 3, unchain, sort, remove, add_before/after, ring_push_sorted/chop; nolock, locked, dequeue and fifo entry points) is executed on the real inline code and compared with the model after a both-ways walk. Concurrent: every schedule with <= b preemptions (quick: b=1 on eight of the scripts; thorough: b=2 on all fourteen - the four longest at b=1 - and b=3 on the three shortest) of 2-3 thread scripts over the locked list/dequeue/fifo operations is executed and checked for linearizability, conservation of items and link consistency.',
    level_note='Sorted operations are only applied to sorted lists (documented precondition). Sort oracle: permutation ordered by priority, either direction. Sequential consistency at instrumented accesses; <= 3 threads, <= 2 operations per thread; try_pop may return NULL when it overlaps another operation (documented).',
)
RULE = ("seqx legs: BFS over operation histories on the real list, states = distinct list arrangements (canonical = sequence of item ids), every transition compared with the array model "
        "(non-trivial = shortest history >= 2 ops); cosched legs: every schedule with at most b preemptions, scheduling points = every instrumented access to the list head/tail, "
        "its lock and the items' links (non-trivial = at least one preemption); states = nodes of the explored schedule tree")
KNOWN_ID = 'C31-sort-hides-items-from-unlocked-empty-test'
def build_seq(ctx, ni):
    return ctx.compile('hk-shm', 'listseq%d' % ni, ['list_seq.c'], instr=False, cflags=['-DNI=%d' % ni])
def build_conc(ctx):
    return ctx.compile('hk-shm', 'listconc', ['list_conc.c'], engine='cosched')
def finding_listed():
    import os, json
    p = os.environ.get('VERIF_KNOWN_FINDINGS') or '/verif/known_findings.json'
    try:
        return any(f.get('id') == KNOWN_ID for f in json.load(open(p)).get('findings', []))
    except Exception:
        return False
def conc_env():
    import os
    env = dict(os.environ)
    env.pop('C31_KNOWN_SORT_EMPTY', None)
    if finding_listed():
        env['C31_KNOWN_SORT_EMPTY'] = '1'
    return env
def check(ctx):
    import os
    quick = ctx.tier == 'quick'
    for ni in ([5, 6] if quick else [5, 6, 7]):
        ctx.run_engine(build_seq(ctx, ni), ['--outdir', '/verif/out', '--deadline', '300'] + ([] if quick else ['--thorough']), label='listseq%d' % ni, timeout=900)
    exe = build_conc(ctx)
    # The machine is shared by many checks (30-400 executions/s): quick = bound 1 on the 8 shorter scripts (1.43k schedules);
    # thorough = bound 2 on all scripts (the three longest ones and sort||push at bound 1) + bound 3 on the three shortest ones.
    bound = 1 if quick else 2
    # run_cosched passes os.environ to the harness: leg selection and the known-finding switch travel by environment
    os.environ.pop('C31_KNOWN_SORT_EMPTY', None)
    os.environ['C31_CAP_HEAVY'] = '1'
    os.environ['C31_LEG'] = 'main'
    if quick:
        os.environ['C31_QUICK'] = '1'
    ctx.run_cosched(exe, bound, deadline=(160 if quick else 1100), label='listconc')
    if not quick:
        for sc in ('fifo_push2_pop2', 'dequeue_2x2', 'isempty_pushf_popf'):
            ctx.run_cosched(exe, 3, scenario=sc, deadline=200, label='listconc-b3-' + sc)
    # sort || pop leg: histories that match the known finding are attributed to it only if known_findings.json lists it
    os.environ['C31_LEG'] = 'sort'
    os.environ['C31_CAP_HEAVY'] = '1' if quick else '2'
    if finding_listed():
        os.environ['C31_KNOWN_SORT_EMPTY'] = '1'
    ctx.run_cosched(exe, bound, deadline=(60 if quick else 750), label='listconc-sort')
    for k in ('C31_LEG', 'C31_CAP_HEAVY', 'C31_KNOWN_SORT_EMPTY', 'C31_QUICK'):
        os.environ.pop(k, None)
    return ctx.finish(RULE, ["sequential consistency at instrumented accesses (no weak-memory effects)",
                             "sorted insertion is only applied to lists that are sorted (documented precondition)",
                             "gcc -fsanitize=thread instrumentation reports every access to the watched objects"])
def replay(ctx, path, obj):
    import subprocess, re, os
    if obj.get('engine') == 'seqx':
        ni = int(re.search(r'_n(\d+)$', obj['scenario']).group(1))
        return subprocess.call([build_seq(ctx, ni), '--replay', path])
    env = conc_env(); env.pop('C31_LEG', None)
    return subprocess.call([build_conc(ctx), '--replay', path], env=env)
