import os, sys, time
sys.path.insert(0, os.path.join(os.environ.get('VERIF_ROOT', '/verif'), 'engine', 'rt'))
import ptgfam, ptgrun

META = dict(
    engine='rt',
    technique='full-box enumeration of PTG parameter-space shapes (1..3(4) parameters x 4-7 range forms per parameter incl. negative bounds, steps, bounds depending on the previous parameter, plus derived / local-index / permuted parameters), real generated make_key / key_print called for every instance of the reference execution space',
    level_text='For every enumerated parameter-space shape and size the keys the generated make_key assigns to the instances of a task class are pairwise distinct, equal to the key the running task computes for itself, and key_print on that key prints exactly the class name and the parameter values (in parameter order); both dependency back-ends.',
    level_note='Shapes: depth <= 2 in quick, all depth <= 3 shapes and every 7th depth-4 shape in thorough, N in 1..3(4); ranges are small (the mixed-radix encoding cannot overflow 64 bits here). index-array back-end with non-range parameters is a recorded finding (the programs are run with the hash back-end).',
)
RULE = ("shapes: product of per-parameter range forms (key_classes) + explicit extra list; for every instance of the reference execution space: key = make_key(assignment), "
        "compared with every other instance of the class and with the key computed inside the running task, key_print(key) compared with the reference name; "
        "non-trivial = instance whose class has >= 2 instances; distinct outcomes = distinct (class, key) pairs")
ORACLE = 32 | 64 | 1


def check(ctx):
    quick = ctx.tier == 'quick'
    progs, refused = ptgfam.c23_family(ctx.tier)
    t0 = time.time()
    R = ptgrun.Runner(ctx)
    t1 = time.time()
    exes = R.build_all(progs)
    ctx.notes.append('library build %.1fs, programs build %.1fs; %d bundles, %d task classes, %d variants' % (t1 - t0, time.time() - t1, len(progs), sum(len(p.classes) for p in progs), sum(len(p.variants) for p in progs)))
    jobs, kn = [], []
    for be, exe in exes.items():
        for p in progs:
            if be not in p.backends:
                continue
            base = ['--mode', 'keys', '--programs', p.name, '--backend', be, '--sched', 'lfq', '--threads', '1', '--reps', '1']
            rt_traits = p.traits(be)                       # the run itself fails (index-array back-end, non-range parameter)
            pr_traits = p.traits(be, True) - rt_traits     # only the printed form is affected
            if rt_traits:
                kn.append(dict(exe=exe, args=base + ['--oracle', str(ORACLE)], label='%s-%s-keys' % (p.name, be), known=ptgrun.finding_for(p, be), timeout=600))
            elif pr_traits:
                jobs.append(dict(exe=exe, args=base + ['--oracle', str(32 | 1)], label='%s-%s-keys' % (p.name, be), timeout=600))
                kn.append(dict(exe=exe, args=base + ['--oracle', '64'], label='%s-%s-keyprint' % (p.name, be), known=ptgrun.finding_for(p, be, True), timeout=600))
            else:
                jobs.append(dict(exe=exe, args=base + ['--oracle', str(ORACLE)], label='%s-%s-keys' % (p.name, be), timeout=600))
    R.run_jobs(jobs, 'keys-all-shapes')
    if kn:
        R.run_jobs(kn, 'recorded-findings (key_print of permuted / derived parameters; index-array back-end with non-range parameters)', stop_on_violation=False)
    ctx.notes += R.notes
    R.cleanup()
    return ctx.finish(RULE, ['keys are checked after a complete run of the taskpool (the min/range fields the key functions use are set by the generated internal_init tasks)',
                             'bounded ranges: no 64-bit overflow of the mixed-radix product is reachable in this box'])


def replay(ctx, path, obj):
    return ptgrun.replay(ctx, path, obj, ptgfam.c23_family('thorough')[0])
