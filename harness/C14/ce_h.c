/* C14 tier-1 harness: the real communication engine (parsec_mpi_funnelled.c) driven directly.
 *
 * Initialisation (the sound way, see NOTES.md): MPI_Init_thread(SERIALIZED) + parsec_init().  parsec_init() runs the
 * engine's own initialisation (parsec_comm_engine_init -> mpi_funnelled_init, registration of the runtime's tags) and
 * creates the communication thread, which then SLEEPS on its condition variable until a context is started
 * (remote_dep_dequeue_on).  This harness never starts the context, so the communication thread never touches MPI or the
 * engine; the main thread registers its own tags on free tag ids, calls parsec_ce.enable() itself (exactly what
 * scheduling.c does when the main thread is in charge of communications) and then is the only caller of
 * parsec_ce.progress / send_am / put / get.
 *
 * Every rank runs the same deterministic script (a pure function of n, rank, and the phase), so each receiver can
 * compute what it must receive.  Oracle, evaluated on every rank:
 *   - AM: for every (src, tag) every scripted message is delivered exactly once to the callback registered for THAT tag,
 *     with the scripted size and identical bytes; nothing unscripted is delivered; (per-(src,tag) order inversions are
 *     counted and reported, not required);
 *   - put/get: the completion callbacks run exactly once per transfer, report exactly the requested number of bytes,
 *     the target window holds exactly the source bytes when the completion is signalled, the guard bytes on both sides
 *     of the window are untouched, and nothing is signalled for a transfer that was not requested.
 * A phase that does not complete within --phase-timeout seconds is reported as a hang (lost message).
 */
#include <mpi.h>
#include <stdio.h>
#include <stdlib.h>
#include <string.h>
#include <stdint.h>
#include <stdarg.h>
#include <unistd.h>
#include <time.h>
#include "parsec/runtime.h"
#include "parsec/parsec_comm_engine.h"
#include "parsec/class/list.h"
#include "parsec/datatype.h"

extern parsec_list_t mpi_funnelled_dynamic_sendreq_fifo, mpi_funnelled_dynamic_recvreq_fifo;

#define TAG_D 4u    /* PARSEC_CE_REMOTE_DEP_PUT_END_TAG: never registered by the runtime */
#define TAG_A 9u    /* PARSEC_CE_REMOTE_DEP_MAX_CTRL_TAG .. PARSEC_MAX_REGISTERED_TAGS-1 are free */
#define TAG_B 10u
#define TAG_C 11u   /* harness control messages (put/get handshakes) */
#define LEN_A 65536
#define LEN_B 1001  /* deliberately not a multiple of 16: the engine rounds buffers up to 1008 */
#define LEN_D 4096
#define LEN_C 512
#define NSTREAM 3
static const unsigned stream_tag[NSTREAM] = { TAG_A, TAG_B, TAG_D };
static const size_t stream_len[NSTREAM] = { LEN_A, LEN_B, LEN_D };
#define MAXR 4
#define MAXQ 4096
#define GUARD 64
#define MAXX 2048      /* transfers per (peer, direction) */

static int rank, nproc;
static parsec_comm_engine_t *ce;
static double phase_timeout = 25.0;
static int scale = 1;
static char outdir[1024] = ".";
static char failmsg[4096];
static int nfail;
static const char *phase_name = "init";

static double now(void) { struct timespec ts; clock_gettime(CLOCK_MONOTONIC, &ts); return ts.tv_sec + 1e-9 * ts.tv_nsec; }

static void fail(const char *fmt, ...)
{
    va_list ap; va_start(ap, fmt);
    if (nfail < 6) {
        size_t l = strlen(failmsg);
        int k = snprintf(failmsg + l, sizeof(failmsg) - l, "%s[rank %d phase %s] ", nfail ? " ;; " : "", rank, phase_name);
        if (k > 0) vsnprintf(failmsg + l + k, sizeof(failmsg) - l - k, fmt, ap);
    }
    va_end(ap);
    nfail++;
}

/* ---------------- deterministic data ---------------- */
static inline uint64_t mix64(uint64_t x) { x += 0x9e3779b97f4a7c15ull; x = (x ^ (x >> 30)) * 0xbf58476d1ce4e5b9ull; x = (x ^ (x >> 27)) * 0x94d049bb133111ebull; return x ^ (x >> 31); }
static uint64_t seed_of(int kind, int src, int dst, unsigned tag, unsigned q) { return mix64(((uint64_t)kind << 56) ^ ((uint64_t)src << 48) ^ ((uint64_t)dst << 40) ^ ((uint64_t)tag << 32) ^ q); }
static inline uint8_t pat(uint64_t seed, size_t i) { return (uint8_t)(mix64(seed ^ (i >> 3)) >> ((i & 7) * 8)); }
static void fill(uint8_t *b, size_t n, uint64_t seed)
{
    size_t i = 0;
    for (; i + 8 <= n; i += 8) { uint64_t w = mix64(seed ^ (i >> 3)); memcpy(b + i, &w, 8); }
    for (; i < n; i++) b[i] = pat(seed, i);
}
static long first_diff(const uint8_t *b, size_t n, uint64_t seed, size_t from)
{
    size_t i = from;
    for (; i < n && (i & 7); i++) if (b[i] != pat(seed, i)) return (long)i;
    for (; i + 8 <= n; i += 8) { uint64_t w = mix64(seed ^ (i >> 3)); if (memcmp(b + i, &w, 8)) { for (size_t j = i; j < i + 8; j++) if (b[j] != pat(seed, j)) return (long)j; } }
    for (; i < n; i++) if (b[i] != pat(seed, i)) return (long)i;
    return -1;
}

/* ---------------- the AM script ---------------- */
/* size of the q-th message of stream s from src to dst.  q ranges: see the phases below. */
static const int short_sizes_A[] = { 0, 1, 2, 3, 16, 1000, 4000, 0, 1, 333 };           /* all eager (<= vader eager limit) */
static const int short_sizes_B[] = { 1001, 0, 1, 1000, 17, 1001, 2, 992, 1, 0 };        /* LEN_B itself included */
static const int short_sizes_D[] = { 8, 4000, 0, 1, 64, 1, 0, 4000, 5, 100 };
static const int long_sizes_A[]  = { 4095, 4096, 4097, 65535, 65536, 30000, 4096, 65536 };   /* rendezvous side of the eager limit, LEN_A itself */
static int n_short, n_long;           /* messages per (src,dst,stream) in a short phase / per (src,dst) in a long phase */
/* q layout per (src,dst,stream): [0,n_short) phase P1, [n_short, 2 n_short) phase P6 (mixed);
 * stream A only: [2 n_short, 2 n_short + n_long) phase P2/P3 (long, whichever direction applies to the pair). */
static int script_size(int s, int src, int dst, int q)
{
    int v = q + src * 3 + dst;
    if (q < 2 * n_short) {
        if (s == 0) return short_sizes_A[v % 10];
        if (s == 1) return short_sizes_B[v % 10];
        return short_sizes_D[v % 10];
    }
    return long_sizes_A[v % 8];
}
static int script_count(int s) { return 2 * n_short + (s == 0 ? n_long : 0); }

static uint8_t *sendbuf;
static long am_sent, am_bytes_sent;
static void am_send(int s, int dst, int q)
{
    int sz = script_size(s, rank, dst, q);
    unsigned tag = stream_tag[s];
    fill(sendbuf, sz, seed_of(1, rank, dst, tag, q));
    if (sz >= 1) sendbuf[0] = (uint8_t)(q & 0xff);
    if (sz >= 2) sendbuf[1] = (uint8_t)(q >> 8);
    ce->send_am(ce, tag, dst, sendbuf, sz);
    am_sent++; am_bytes_sent += sz;
}

/* receiver-side bookkeeping */
static uint8_t am_got[MAXR][NSTREAM][MAXQ];      /* deliveries per decoded q */
static int am_zero[MAXR][NSTREAM];               /* zero-size deliveries */
static int am_lastq[MAXR][NSTREAM];
static long am_delivered, am_bytes_delivered, am_inversions, am_delivered_phase;
static long in_progress_deliveries, max_batch, batches_over_tested;
static int tested_eff, posted_eff;
static long seen_sendfifo, seen_recvfifo;

static void sample_fifos(void)
{
    if (!parsec_list_nolock_is_empty(&mpi_funnelled_dynamic_sendreq_fifo)) seen_sendfifo++;
    if (!parsec_list_nolock_is_empty(&mpi_funnelled_dynamic_recvreq_fifo)) seen_recvfifo++;
}

static int am_cb(parsec_comm_engine_t *e, parsec_ce_tag_t tag, void *msg, size_t size, int src, void *cb_data)
{
    int s = (int)(intptr_t)cb_data;      /* the stream this callback was registered for */
    (void)e;
    in_progress_deliveries++;
    am_delivered++; am_delivered_phase++; am_bytes_delivered += (long)size;
    if (s < 0 || s >= NSTREAM) { fail("AM callback with foreign cb_data %p", cb_data); return 1; }
    if (tag != stream_tag[s]) { fail("callback of tag %u invoked with tag %lu (src %d size %zu)", stream_tag[s], (unsigned long)tag, src, size); return 1; }
    if (src < 0 || src >= nproc || src == rank) { fail("AM on tag %lu from impossible source %d", (unsigned long)tag, src); return 1; }
    if (size > stream_len[s]) { fail("AM on tag %lu from %d longer (%zu) than the registered length", (unsigned long)tag, src, size); return 1; }
    if (size == 0) { am_zero[src][s]++; return 1; }
    const uint8_t *b = (const uint8_t *)msg;
    int q = b[0];
    if (size >= 2) q |= b[1] << 8;
    else {
        /* one byte carries q mod 256: find the (unique by construction) not-yet-delivered size-1 message with that low byte */
        int found = -1;
        for (int c = q; c < script_count(s); c += 256) if (script_size(s, src, rank, c) == 1 && !am_got[src][s][c]) { found = c; break; }
        if (found < 0) for (int c = q; c < script_count(s); c += 256) if (script_size(s, src, rank, c) == 1) { found = c; break; }
        if (found < 0) { fail("1-byte AM on tag %lu from %d with byte %d matches no scripted message", (unsigned long)tag, src, q); return 1; }
        q = found;
    }
    if (q >= script_count(s)) { fail("AM on tag %lu from %d: sequence number %d was never sent (size %zu)", (unsigned long)tag, src, q, size); return 1; }
    if ((int)size != script_size(s, src, rank, q)) { fail("AM tag %lu src %d seq %d: delivered size %zu, sent size %d", (unsigned long)tag, src, q, size, script_size(s, src, rank, q)); return 1; }
    long d = first_diff(b, size, seed_of(1, src, rank, (unsigned)tag, q), 2);
    if (d >= 0) { fail("AM tag %lu src %d seq %d size %zu: payload differs at byte %ld", (unsigned long)tag, src, q, size, d); return 1; }
    if (am_got[src][s][q] < 255) am_got[src][s][q]++;
    if (am_got[src][s][q] > 1) fail("AM tag %lu src %d seq %d size %zu delivered %d times", (unsigned long)tag, src, q, size, am_got[src][s][q]);
    if (q < am_lastq[src][s]) am_inversions++; else am_lastq[src][s] = q;
    return 1;
}

/* ---------------- put / get ---------------- */
enum { OP_PUT_REQ = 1, OP_GET_OFFER = 2 };
typedef struct { uint32_t op, id, cseq, pad; uint64_t size; uint64_t cb_fn; } ctl_hdr_t;
typedef struct { uint32_t id, kind; uint64_t size; int32_t requester, pad; } rcb_t;     /* travels as r_cb_data */
typedef struct xfer_s {
    int used, peer, id; size_t size; uint8_t *base;   /* base: GUARD | window | GUARD (target side) or source buffer */
    parsec_ce_mem_reg_handle_t h; int local_done, remote_done; uint8_t rcopy[256];
} xfer_t;
/* [kind 0: put target, 1: put source, 2: get source, 3: get target][peer][id] */
static xfer_t *xf[4][MAXR];
static long x_expected[4], x_done[4], x_bytes;
static int handle_size;
static uint32_t cseq_out[MAXR];
static uint8_t ctl_got[MAXR][2 * MAXX + 8];
static long ctl_delivered;

typedef struct pend_s { struct pend_s *next; int src; ctl_hdr_t h; uint8_t handle[256]; } pend_t;
static pend_t *pend_head, *pend_tail;
static long deferred_puts;

static const uint8_t guard_byte = 0xA5, stale_byte = 0x5C;
static uint8_t *win_alloc(size_t size)
{
    uint8_t *b = (uint8_t *)malloc(size + 2 * GUARD);
    memset(b, guard_byte, GUARD); memset(b + GUARD, stale_byte, size); memset(b + GUARD + size, guard_byte, GUARD);
    return b;
}
static int guards_ok(const uint8_t *b, size_t size)
{
    for (int i = 0; i < GUARD; i++) if (b[i] != guard_byte || b[GUARD + size + i] != guard_byte) return 0;
    return 1;
}
static void reg(xfer_t *x, uint8_t *mem)
{
    size_t hs;
    ce->mem_register(mem, PARSEC_MEM_TYPE_NONCONTIGUOUS, x->size, MPI_BYTE, x->size, &x->h, &hs);
    if ((int)hs != handle_size) fail("mem_register reports handle size %zu, get_mem_handle_size %d", hs, handle_size);
}
static void send_ctl(int dst, uint32_t op, uint32_t id, size_t size, uintptr_t cb_fn, parsec_ce_mem_reg_handle_t h)
{
    uint8_t buf[sizeof(ctl_hdr_t) + 256];
    ctl_hdr_t c = { op, id, cseq_out[dst]++, 0, size, (uint64_t)cb_fn };
    memcpy(buf, &c, sizeof(c)); memcpy(buf + sizeof(c), h, handle_size);
    ce->send_am(ce, TAG_C, dst, buf, sizeof(c) + handle_size);
}

/* -- put: target R asks source S to put `size` bytes into R's window -- */
static int put_remote_done(parsec_comm_engine_t *e, parsec_ce_tag_t tag, void *msg, size_t msg_size, int src, void *cb_data)
{   /* runs on the target when the data has arrived (AM-like signature) */
    (void)e; (void)tag; (void)cb_data;
    rcb_t r; memcpy(&r, msg, sizeof(r));
    sample_fifos();
    if (src < 0 || src >= nproc || r.kind != 0 || r.id >= MAXX || !xf[0][src] || !xf[0][src][r.id].used) { fail("put completion for an unknown transfer (src %d id %u kind %u)", src, r.id, r.kind); return 1; }
    xfer_t *x = &xf[0][src][r.id];
    if (++x->remote_done > 1) { fail("put %d<-%d id %d size %zu: remote completion signalled %d times", rank, src, x->id, x->size, x->remote_done); return 1; }
    if (msg_size != x->size) fail("put %d<-%d id %d: %zu bytes arrived, %zu requested", rank, src, x->id, msg_size, x->size);
    long d = first_diff(x->base + GUARD, x->size, seed_of(2, src, rank, 0, x->id), 0);
    if (d >= 0) fail("put %d<-%d id %d size %zu: window differs from the source at byte %ld when completion is signalled", rank, src, x->id, x->size, d);
    if (!guards_ok(x->base, x->size)) fail("put %d<-%d id %d size %zu: guard bytes around the window were overwritten", rank, src, x->id, x->size);
    ce->mem_unregister(&x->h);
    x_done[0]++; x_bytes += (long)x->size;
    return 1;
}
static int put_local_done(parsec_comm_engine_t *e, parsec_ce_mem_reg_handle_t lreg, ptrdiff_t ldispl, parsec_ce_mem_reg_handle_t rreg,
                          ptrdiff_t rdispl, size_t size, int remote, void *cb_data)
{   /* runs on the source when its send completed */
    (void)e; (void)rreg;
    xfer_t *x = (xfer_t *)cb_data;
    sample_fifos();
    if (++x->local_done > 1) { fail("put %d->%d id %d: local completion signalled %d times", rank, x->peer, x->id, x->local_done); return 1; }
    if (lreg != x->h || remote != x->peer || ldispl != 0 || rdispl != 0 || size != x->size)
        fail("put %d->%d id %d: local completion with foreign arguments (remote %d size %zu/%zu)", rank, x->peer, x->id, remote, size, x->size);
    long d = first_diff(x->base, x->size, seed_of(2, rank, x->peer, 0, x->id), 0);
    if (d >= 0) fail("put %d->%d id %d: the SOURCE buffer was modified (byte %ld)", rank, x->peer, x->id, d);
    ce->mem_unregister(&x->h);
    free(x->base); x->base = NULL;
    x_done[1]++;
    return 1;
}
static void serve_put(int src, const ctl_hdr_t *c, const uint8_t *handle)
{
    if (c->id >= MAXX) { fail("put request with id %u", c->id); return; }
    xfer_t *x = &xf[1][src][c->id];
    if (x->used) { fail("put request %d<-%d id %u served twice", src, rank, c->id); return; }
    x->used = 1; x->peer = src; x->id = c->id; x->size = c->size;
    x->base = (uint8_t *)malloc(x->size + 8);
    fill(x->base, x->size, seed_of(2, rank, src, 0, x->id));
    reg(x, x->base);
    memcpy(x->rcopy, handle, handle_size);
    rcb_t r = { c->id, 0, c->size, rank, 0 };
    ce->put(ce, x->h, 0, (parsec_ce_mem_reg_handle_t)x->rcopy, 0, x->size, src, put_local_done, x, (parsec_ce_tag_t)c->cb_fn, &r, sizeof(r));
    sample_fifos();
}
/* -- get: source S offers a buffer, target R gets it -- */
static int get_served(parsec_comm_engine_t *e, parsec_ce_tag_t tag, void *msg, size_t msg_size, int src, void *cb_data)
{   /* runs on the source when its send completed (AM-like signature) */
    (void)e; (void)tag; (void)cb_data; (void)msg_size;
    rcb_t r; memcpy(&r, msg, sizeof(r));
    sample_fifos();
    /* this notification is triggered by the completion of a SEND request: the engine forwards the MPI status of that send,
     * whose source and count are undefined - the peer therefore travels in the forwarded callback data */
    src = r.requester;
    if (src < 0 || src >= nproc || r.kind != 2 || r.id >= MAXX || !xf[2][src] || !xf[2][src][r.id].used) { fail("get-served notification for an unknown transfer (peer %d id %u kind %u)", src, r.id, r.kind); return 1; }
    xfer_t *x = &xf[2][src][r.id];
    if (++x->remote_done > 1) { fail("get %d->%d id %d: served notification signalled %d times", rank, src, x->id, x->remote_done); return 1; }
    if (r.size != x->size) fail("get %d->%d id %d: notification carries size %zu, %zu offered", rank, src, x->id, (size_t)r.size, x->size);
    long d = first_diff(x->base, x->size, seed_of(3, rank, src, 0, x->id), 0);
    if (d >= 0) fail("get %d->%d id %d: the SOURCE buffer was modified (byte %ld)", rank, src, x->id, d);
    ce->mem_unregister(&x->h);
    free(x->base); x->base = NULL;
    x_done[2]++;
    return 1;
}
static int get_local_done(parsec_comm_engine_t *e, parsec_ce_mem_reg_handle_t lreg, ptrdiff_t ldispl, parsec_ce_mem_reg_handle_t rreg,
                          ptrdiff_t rdispl, size_t size, int remote, void *cb_data)
{   /* runs on the target when the data has arrived */
    (void)e; (void)rreg;
    xfer_t *x = (xfer_t *)cb_data;
    sample_fifos();
    if (++x->local_done > 1) { fail("get %d<-%d id %d size %zu: completion signalled %d times", rank, x->peer, x->id, x->size, x->local_done); return 1; }
    if (lreg != x->h || remote != x->peer || ldispl != 0 || rdispl != 0 || size != x->size)
        fail("get %d<-%d id %d: completion with foreign arguments (remote %d size %zu/%zu)", rank, x->peer, x->id, remote, size, x->size);
    long d = first_diff(x->base + GUARD, x->size, seed_of(3, x->peer, rank, 0, x->id), 0);
    if (d >= 0) fail("get %d<-%d id %d size %zu: window differs from the source at byte %ld when completion is signalled", rank, x->peer, x->id, x->size, d);
    if (!guards_ok(x->base, x->size)) fail("get %d<-%d id %d size %zu: guard bytes around the window were overwritten", rank, x->peer, x->id, x->size);
    ce->mem_unregister(&x->h);
    x_done[3]++; x_bytes += (long)x->size;
    return 1;
}
static void do_get(int src, const ctl_hdr_t *c, const uint8_t *handle)
{
    if (c->id >= MAXX) { fail("get offer with id %u", c->id); return; }
    xfer_t *x = &xf[3][src][c->id];
    if (x->used) { fail("get offer %d->%d id %u seen twice", src, rank, c->id); return; }
    x->used = 1; x->peer = src; x->id = c->id; x->size = c->size;
    x->base = win_alloc(x->size);
    reg(x, x->base + GUARD);
    memcpy(x->rcopy, handle, handle_size);
    rcb_t r = { c->id, 2, c->size, rank, 0 };
    ce->get(ce, x->h, 0, (parsec_ce_mem_reg_handle_t)x->rcopy, 0, x->size, src, get_local_done, x, (parsec_ce_tag_t)c->cb_fn, &r, sizeof(r));
    sample_fifos();
}

static int ctl_cb(parsec_comm_engine_t *e, parsec_ce_tag_t tag, void *msg, size_t size, int src, void *cb_data)
{
    (void)e;
    ctl_hdr_t c;
    in_progress_deliveries++;
    ctl_delivered++;
    if (tag != TAG_C || cb_data != (void *)ctl_cb) { fail("control callback invoked with tag %lu", (unsigned long)tag); return 1; }
    if (size != sizeof(c) + (size_t)handle_size || src < 0 || src >= nproc || src == rank) { fail("control message from %d with size %zu", src, size); return 1; }
    memcpy(&c, msg, sizeof(c));
    if (c.cseq >= 2 * MAXX) { fail("control message from %d with sequence %u", src, c.cseq); return 1; }
    if (++ctl_got[src][c.cseq] > 1) { fail("control message %u from %d delivered %d times", c.cseq, src, ctl_got[src][c.cseq]); return 1; }
    const uint8_t *handle = (const uint8_t *)msg + sizeof(c);
    if (c.op == OP_PUT_REQ) {
        /* same pattern as remote_dep_mpi_save_put_cb: put from inside the callback if the engine can serve, else defer */
        if (ce->can_serve(ce) && NULL == pend_head) serve_put(src, &c, handle);
        else {
            pend_t *p = (pend_t *)calloc(1, sizeof(*p)); p->src = src; p->h = c; memcpy(p->handle, handle, handle_size);
            if (pend_tail) pend_tail->next = p; else pend_head = p;
            pend_tail = p; deferred_puts++;
        }
    } else if (c.op == OP_GET_OFFER) do_get(src, &c, handle);
    else fail("control message from %d with op %u", src, c.op);
    return 1;
}

static long progress_calls;
static void progress_once(void)
{
    in_progress_deliveries = 0;
    ce->progress(ce);
    progress_calls++;
    sample_fifos();
    if (in_progress_deliveries > max_batch) max_batch = in_progress_deliveries;
    while (pend_head && ce->can_serve(ce)) {
        pend_t *p = pend_head; pend_head = p->next; if (!pend_head) pend_tail = NULL;
        serve_put(p->src, &p->h, p->handle); free(p);
    }
}

/* ---------------- phases ---------------- */
static long exp_am_phase;          /* deliveries on the stream tags expected in the current phase */
static int hang;
static double t_phase0, ptimes[8]; static int nphase;
static void wait_phase(void)
{
    double t0 = now();
    for (;;) {
        progress_once();
        int done = am_delivered_phase >= exp_am_phase && pend_head == NULL;
        for (int k = 0; k < 4; k++) if (x_done[k] < x_expected[k]) done = 0;
        if (done) break;
        if (now() - t0 > phase_timeout) {
            fail("HANG: after %.0f s: AM deliveries %ld/%ld, put-target %ld/%ld put-source %ld/%ld get-source %ld/%ld get-target %ld/%ld, deferred puts pending %d, sendfifo %s recvfifo %s",
                 phase_timeout, am_delivered_phase, exp_am_phase, x_done[0], x_expected[0], x_done[1], x_expected[1], x_done[2], x_expected[2], x_done[3], x_expected[3],
                 pend_head != NULL, parsec_list_nolock_is_empty(&mpi_funnelled_dynamic_sendreq_fifo) ? "empty" : "NON-EMPTY",
                 parsec_list_nolock_is_empty(&mpi_funnelled_dynamic_recvreq_fifo) ? "empty" : "NON-EMPTY");
            hang = 1;
            return;
        }
        if (in_progress_deliveries == 0) sched_yield();
    }
}
static void write_result(const char *status);
static void end_phase(void)
{
    if (hang) { write_result("hang"); fflush(NULL); MPI_Abort(MPI_COMM_WORLD, 3); }
    /* every rank has what it expects: everything sent in this phase has been delivered.  A few more rounds so that a
     * duplicate delivery has a chance to show up, then synchronise. */
    MPI_Barrier(MPI_COMM_WORLD);
    for (int i = 0; i < 20; i++) progress_once();
    MPI_Barrier(MPI_COMM_WORLD);
    am_delivered_phase = 0; exp_am_phase = 0;
    for (int r = 0; r < MAXR; r++) for (int s = 0; s < NSTREAM; s++) am_lastq[r][s] = -1;
    if (nphase < 8) ptimes[nphase++] = now() - t_phase0;
    t_phase0 = now();
}
static long expected_stream_deliveries(int q0, int q1, int s0, int s1, int dir /* 0 all, +1 only from lower ranks, -1 only from higher */)
{
    long e = 0;
    for (int src = 0; src < nproc; src++) {
        if (src == rank || (dir > 0 && src > rank) || (dir < 0 && src < rank)) continue;
        e += (long)(q1 - q0) * (s1 - s0);
    }
    return e;
}
static void phase_short(const char *name, int q0)
{
    phase_name = name;
    exp_am_phase += expected_stream_deliveries(q0, q0 + n_short, 0, NSTREAM, 0);
    int k = 0, every = 1 + 2 * rank;           /* ranks progress at different paces: bursts longer than the posted pool */
    for (int q = q0; q < q0 + n_short; q++)
        for (int d = 1; d < nproc; d++)
            for (int s = 0; s < NSTREAM; s++) {
                am_send((s + q) % NSTREAM, (rank + d) % nproc, q);
                if (++k % every == 0 && rank != 0) progress_once();    /* rank 0 never progresses while sending */
            }
}
static void phase_long(const char *name, int dir)
{   /* rendezvous-size messages only flow from lower to higher ranks (dir=+1) or the reverse: send_am is a blocking MPI_Send,
     * so two ranks that send long messages to each other without progressing would wait for each other by design. */
    phase_name = name;
    exp_am_phase += expected_stream_deliveries(0, n_long, 0, 1, dir);
    int q0 = 2 * n_short;
    for (int q = q0; q < q0 + n_long; q++)
        for (int dst = 0; dst < nproc; dst++) {
            if (dst == rank || (dir > 0 && dst < rank) || (dir < 0 && dst > rank)) continue;
            am_send(0, dst, q);
            if ((q + rank) % 3) progress_once();
        }
}
/* transfer sizes: {0, 1, 4 KiB} everywhere; per (peer, direction, phase) the transfers number 2 and 5 are 1 MiB and 4 MiB
 * (P4/P5) or 1 MiB (P6, second id range), so that long-lived requests hold slots while the short ones queue up. */
static const size_t xfer_small[] = { 0, 1, 4096, 4096, 1, 0, 1, 4096 };
static int n_put, n_get, big = 2;
static size_t xsize(int id, int a, int b)
{
    int phase6 = id >= n_put, k = phase6 ? id - n_put : id;
    if (big >= 1 && k == 2) return 1 << 20;
    if (big >= 2 && k == 5 && !phase6) return 4 << 20;
    return xfer_small[(id + a + 2 * b) % 8];
}
static void phase_put(const char *name, int id0, int cnt)
{
    phase_name = name;
    for (int d = 1; d < nproc; d++) {
        int s = (rank + d) % nproc;
        for (int id = id0; id < id0 + cnt; id++) {
            xfer_t *x = &xf[0][s][id];
            x->used = 1; x->peer = s; x->id = id; x->size = xsize(id, s, rank);
            x->base = win_alloc(x->size);
            reg(x, x->base + GUARD);
            send_ctl(s, OP_PUT_REQ, id, x->size, (uintptr_t)put_remote_done, x->h);
        }
    }
    x_expected[0] += (long)cnt * (nproc - 1); x_expected[1] += (long)cnt * (nproc - 1);
}
static void phase_get(const char *name, int id0, int cnt)
{
    phase_name = name;
    for (int d = 1; d < nproc; d++) {
        int t = (rank + d) % nproc;
        for (int id = id0; id < id0 + cnt; id++) {
            xfer_t *x = &xf[2][t][id];
            x->used = 1; x->peer = t; x->id = id; x->size = xsize(id, rank, t);
            x->base = (uint8_t *)malloc(x->size + 8);
            fill(x->base, x->size, seed_of(3, rank, t, 0, id));
            reg(x, x->base);
            send_ctl(t, OP_GET_OFFER, id, x->size, (uintptr_t)get_served, x->h);
        }
    }
    x_expected[2] += (long)cnt * (nproc - 1); x_expected[3] += (long)cnt * (nproc - 1);
}

/* ---------------- final audit ---------------- */
static void audit(void)
{
    phase_name = "audit";
    for (int src = 0; src < nproc; src++) {
        if (src == rank) continue;
        for (int s = 0; s < NSTREAM; s++) {
            int zeros = 0;
            for (int q = 0; q < script_count(s); q++) {
                int sz = script_size(s, src, rank, q);
                if (sz == 0) { zeros++; continue; }
                if (am_got[src][s][q] != 1) fail("AM tag %u src %d seq %d size %d delivered %d times", stream_tag[s], src, q, sz, am_got[src][s][q]);
            }
            if (am_zero[src][s] != zeros) fail("AM tag %u src %d: %d zero-size messages delivered, %d sent", stream_tag[s], src, am_zero[src][s], zeros);
        }
        for (unsigned c = 0; c < cseq_out[src]; c++) (void)c;
        for (int k = 0; k < 4; k++)
            for (int id = 0; id < MAXX; id++) {
                xfer_t *x = &xf[k][src][id];
                if (!x->used) continue;
                int ld = (k == 1 || k == 3) ? 1 : 0, rd = (k == 0 || k == 2) ? 1 : 0;
                if (x->local_done != ld || x->remote_done != rd) fail("transfer kind %d peer %d id %d size %zu: local completions %d (want %d), remote completions %d (want %d)", k, src, id, x->size, x->local_done, ld, x->remote_done, rd);
                if ((k == 0 || k == 3) && x->base) {   /* the windows stay allocated: late writes would show here */
                    long d = first_diff(x->base + GUARD, x->size, seed_of(k == 0 ? 2 : 3, src, rank, 0, id), 0);
                    if (d >= 0 || !guards_ok(x->base, x->size)) fail("transfer kind %d peer %d id %d size %zu: window or guards changed after completion", k, src, id, x->size);
                }
            }
    }
    /* control messages: every rank told us how many it sent */
    unsigned sent_to[MAXR * MAXR]; unsigned mine[MAXR];
    for (int i = 0; i < MAXR; i++) mine[i] = cseq_out[i];
    MPI_Allgather(mine, MAXR, MPI_UNSIGNED, sent_to, MAXR, MPI_UNSIGNED, MPI_COMM_WORLD);
    for (int src = 0; src < nproc; src++) {
        if (src == rank) continue;
        unsigned cnt = sent_to[src * MAXR + rank];
        for (unsigned c = 0; c < 2 * MAXX; c++)
            if (ctl_got[src][c] != (c < cnt ? 1 : 0)) fail("control message %u from %d delivered %d times (sent %u messages)", c, src, ctl_got[src][c], cnt);
    }
}

static void write_result(const char *status)
{
    char fn[1200];
    snprintf(fn, sizeof(fn), "%s/r%d.json.tmp", outdir, rank);
    FILE *f = fopen(fn, "w");
    if (!f) return;
    for (char *p = failmsg; *p; p++) if (*p == '"' || *p == '\\' || (unsigned char)*p < 32) *p = '\'';
    fprintf(f, "{\"rank\": %d, \"n\": %d, \"status\": \"%s\", \"phase\": \"%s\", \"failures\": %d, \"message\": \"%s\",\n", rank, nproc, status, phase_name, nfail, failmsg);
    fprintf(f, " \"am_sent\": %ld, \"am_delivered\": %ld, \"am_bytes\": %ld, \"ctl_delivered\": %ld, \"am_inversions\": %ld,\n", am_sent, am_delivered, am_bytes_delivered, ctl_delivered, am_inversions);
    fprintf(f, " \"put_target\": %ld, \"put_source\": %ld, \"get_source\": %ld, \"get_target\": %ld, \"xfer_bytes\": %ld,\n", x_done[0], x_done[1], x_done[2], x_done[3], x_bytes);
    fprintf(f, " \"progress_calls\": %ld, \"max_batch\": %ld, \"seen_sendfifo\": %ld, \"seen_recvfifo\": %ld, \"deferred_puts\": %ld,\n", progress_calls, max_batch, seen_sendfifo, seen_recvfifo, deferred_puts);
    fprintf(f, " \"phase_s\": [");
    for (int i = 0; i < nphase; i++) fprintf(f, "%s%.3f", i ? ", " : "", ptimes[i]);
    fprintf(f, "], \"posted\": %d, \"tested\": %d}\n", posted_eff, tested_eff);
    fclose(f);
    char fn2[1200]; snprintf(fn2, sizeof(fn2), "%s/r%d.json", outdir, rank);
    rename(fn, fn2);
}

static int env_int(const char *name, int dflt) { const char *v = getenv(name); return (v && *v) ? atoi(v) : dflt; }

int main(int argc, char **argv)
{
    int provided, only = 0;
    for (int i = 1; i < argc; i++) {
        if (!strcmp(argv[i], "--outdir") && i + 1 < argc) snprintf(outdir, sizeof(outdir), "%s", argv[++i]);
        else if (!strcmp(argv[i], "--phase-timeout") && i + 1 < argc) phase_timeout = atof(argv[++i]);
        else if (!strcmp(argv[i], "--scale") && i + 1 < argc) scale = atoi(argv[++i]);
        else if (!strcmp(argv[i], "--only") && i + 1 < argc) only = atoi(argv[++i]);
        else if (!strcmp(argv[i], "--big") && i + 1 < argc) big = atoi(argv[++i]);
    }
    double t_a = now();
    MPI_Init_thread(&argc, &argv, MPI_THREAD_SERIALIZED, &provided);
    double t_b = now();
    MPI_Comm_rank(MPI_COMM_WORLD, &rank); MPI_Comm_size(MPI_COMM_WORLD, &nproc);
    if (nproc < 2 || nproc > MAXR) { fprintf(stderr, "ce_h: needs 2..%d ranks\n", MAXR); MPI_Abort(MPI_COMM_WORLD, 2); }
    int pargc = 1; char *pargv_[2] = { argv[0], NULL }; char **pargv = pargv_;
    parsec_context_t *parsec = parsec_init(1, &pargc, &pargv);
    if (!parsec) { fprintf(stderr, "ce_h: parsec_init failed\n"); MPI_Abort(MPI_COMM_WORLD, 2); }
    ce = &parsec_ce;
    double t_c = now();

    /* effective window parameters (same normalisation as mpi_funnelled_normalize_params; only used to size the script
     * and to label the evidence, never by the oracle) */
    posted_eff = env_int("PARSEC_MCA_runtime_comm_mpi_am_posted_requests", 0); if (posted_eff <= 0) posted_eff = 6;
    tested_eff = env_int("PARSEC_MCA_runtime_comm_mpi_am_tested_requests", 0); if (tested_eff <= 0) tested_eff = posted_eff / 4 > 0 ? posted_eff / 4 : 1;
    if (tested_eff > posted_eff) tested_eff = posted_eff;
    int dyn = env_int("PARSEC_MCA_runtime_comm_mpi_dynamic_requests", 0); if (dyn <= 0) dyn = 30;
    n_short = (3 * posted_eff + 2) * scale;      /* > 3 rounds of the posted pool per (src, tag) */
    n_long = (posted_eff + 2) * scale;
    /* more concurrent transfers per peer than dynamic slots */
    n_put = dyn + 3 > 16 ? dyn + 3 : 16;
    n_get = n_put;
    n_put *= scale; n_get *= scale;
    if (2 * (n_put + n_get) > MAXX || script_count(0) > MAXQ) { fprintf(stderr, "ce_h: scale too large\n"); MPI_Abort(MPI_COMM_WORLD, 2); }

    for (int k = 0; k < 4; k++) for (int r = 0; r < MAXR; r++) xf[k][r] = (xfer_t *)calloc(MAXX, sizeof(xfer_t));
    for (int r = 0; r < MAXR; r++) for (int s = 0; s < NSTREAM; s++) am_lastq[r][s] = -1;
    sendbuf = (uint8_t *)malloc(LEN_A + 16);

    /* tags must be registered before enable(): the request arrays are only (re)built there */
    for (int s = 0; s < NSTREAM; s++)
        if (PARSEC_SUCCESS != ce->tag_register(stream_tag[s], am_cb, (void *)(intptr_t)s, stream_len[s])) { fprintf(stderr, "ce_h: tag %u is not free\n", stream_tag[s]); MPI_Abort(MPI_COMM_WORLD, 2); }
    if (PARSEC_SUCCESS != ce->tag_register(TAG_C, ctl_cb, (void *)ctl_cb, LEN_C)) { fprintf(stderr, "ce_h: tag %u is not free\n", TAG_C); MPI_Abort(MPI_COMM_WORLD, 2); }
    ce->enable(ce);
    handle_size = ce->get_mem_handle_size();
    if (handle_size > 256 || (size_t)handle_size + sizeof(ctl_hdr_t) > LEN_C) { fprintf(stderr, "ce_h: handle size %d\n", handle_size); MPI_Abort(MPI_COMM_WORLD, 2); }
    MPI_Barrier(MPI_COMM_WORLD);
    t_phase0 = now();
    if (getenv("CE_H_TIMES") && rank == 0) fprintf(stderr, "mpi_init %.3f parsec_init %.3f enable %.3f\n", t_b - t_a, t_c - t_b, t_phase0 - t_c);

    if (!only || only == 1) { phase_short("P1-short-all2all", 0); wait_phase(); end_phase(); }
    if (!only || only == 2) { phase_long("P2-long-up", +1); wait_phase(); end_phase(); }
    if (!only || only == 3) { phase_long("P3-long-down", -1); wait_phase(); end_phase(); }
    if (!only || only == 4) { phase_put("P4-put", 0, n_put); wait_phase(); end_phase(); }
    if (!only || only == 5) { phase_get("P5-get", 0, n_get); wait_phase(); end_phase(); }
    if (!only || only == 6) {   /* everything at once: AM completions, handshakes and data requests share the Testsome array */
        phase_put("P6-mixed", n_put, n_put); phase_get("P6-mixed", n_get, n_get); phase_short("P6-mixed", n_short);
        wait_phase(); end_phase();
    }
    if (!only) audit();

    write_result(nfail ? "violation" : "ok");
    MPI_Barrier(MPI_COMM_WORLD);
    for (int s = 0; s < NSTREAM; s++) ce->tag_unregister(stream_tag[s]);
    ce->tag_unregister(TAG_C);
    parsec_fini(&parsec);
    MPI_Finalize();
    return 0;
}
