/* C37 (E1/cosched): concurrent reserve/register/lookup/unregister on the taskpool registry of parsec/parsec.c.
 * The REAL parsec.c is compiled (instrumented) into this TU so that its file-static registry can be reset per
 * execution and watched. */
#include "parsec/parsec.c"
#include "cosched.h"

#define NOSAN __attribute__((no_sanitize_thread, noinline))
#define NT 3
static parsec_taskpool_t tp[NT + 2];
static int got_id[NT + 2];
static void *seen_array[16]; static int nseen;

static size_t seen_size[16];
NOSAN static void watch_array(void)
{
    /* (address, size) pairs: the allocator may hand a freed address out again with another size */
    void *a = (void *)taskpool_array; size_t sz = taskpool_array_size * sizeof(void *); if (!a) return;
    for (int i = 0; i < nseen; i++) if (seen_array[i] == a && seen_size[i] == sz) return;
    if (nseen >= 16) abort();
    seen_array[nseen] = a; seen_size[nseen++] = sz;
    cs_watch(a, sz, "array");
}
NOSAN static void note(int who, int id) { got_id[who] = id; }

static int v_reserve(int who) { int id = parsec_taskpool_reserve_id(&tp[who]); note(who, id); watch_array(); return id; }
static void v_register(int who) { parsec_taskpool_register(&tp[who]); watch_array(); }
static void v_unregister(int who) { parsec_taskpool_unregister(&tp[who]); }
static parsec_taskpool_t *v_lookup(int id) { return parsec_taskpool_lookup((uint32_t)id); }
NOSAN static int idx_of(parsec_taskpool_t *p) { if (!p) return -1; if (p < &tp[0] || p >= &tp[NT + 2]) return -2; return (int)(p - &tp[0]); }

static void begin(int npre)
{
    parsec_taskpool_release_resources(); nseen = 0;
    memset(tp, 0, sizeof(tp)); for (int i = 0; i < NT + 2; i++) { tp[i].taskpool_name = "h"; got_id[i] = 0; }
    for (int i = 0; i < npre; i++) { int id = parsec_taskpool_reserve_id(&tp[NT + i]); got_id[NT + i] = id; parsec_taskpool_register(&tp[NT + i]); }
    cs_watch(&taskpool_array_lock, sizeof(taskpool_array_lock), "lock");
    cs_watch(&taskpool_array, sizeof(taskpool_array), "array_ptr");
    cs_watch(&taskpool_array_size, sizeof(taskpool_array_size), "size");
    cs_watch(&taskpool_array_pos, sizeof(taskpool_array_pos), "pos");
    watch_array();
}
static void finish(int npre, int nres, const int *registered)
{
    /* identifiers distinct, >= 1, and exactly the next nres values */
    int n = npre + nres; int used[16] = {0};
    for (int i = 0; i < NT + 2; i++) {
        if (got_id[i] == 0) continue;
        CS_CHECK(got_id[i] >= 1 && got_id[i] <= n, "identifier %d out of the range 1..%d", got_id[i], n);
        CS_CHECK(!used[got_id[i]], "identifier %d was handed out twice (concurrent reservations must be distinct)", got_id[i]);
        used[got_id[i]] = 1;
        CS_CHECK((int)tp[i].taskpool_id == got_id[i], "taskpool %d stores identifier %u but reserve_id returned %d", i, tp[i].taskpool_id, got_id[i]);
    }
    CS_CHECK((int)taskpool_array_pos == n, "registry position is %u after %d reservations", taskpool_array_pos, n);
    CS_CHECK(taskpool_array_lock == 0, "registry lock left locked");
    for (int id = 1; id <= n + 2; id++) {
        int want = -1; for (int i = 0; i < NT + 2; i++) if (registered[i] && got_id[i] == id) want = i;
        int g = idx_of(parsec_taskpool_lookup((uint32_t)id));
        CS_CHECK(g == want, "at quiescence lookup(%d) returned taskpool %d, expected %d (-1 = nothing)", id, g, want);
    }
    cs_observe("ids");
    for (int i = 0; i < NT + 2; i++) cs_observe(" %d", got_id[i]);
    cs_observe(" size=%u", taskpool_array_size);
}

/* --- scenario 1: three concurrent reservations on a fresh registry (two array doublings inside the window) --- */
static void s1_body(void *a) { int me = (int)(intptr_t)a; v_reserve(me); }
static void scen1(void)
{
    begin(0); cs_body_t b[] = { s1_body, s1_body, s1_body }; void *args[] = { (void *)0, (void *)1, (void *)2 };
    cs_run(3, b, args);
    int reg[NT + 2] = { 0, 0, 0, 0, 0 }; finish(0, 3, reg);
}
/* --- scenario 1b: two threads: reserve; lookup(own) = nothing; register; lookup(own) = it --- */
static int s1_mid[NT];
static void s1b_body(void *a)
{
    int me = (int)(intptr_t)a; int id = v_reserve(me);
    int before = idx_of(v_lookup(id));                      /* reserved, not yet registered: nothing */
    v_register(me);
    int after = idx_of(v_lookup(id));                       /* registered: it */
    s1_mid[me] = (before == -1 && after == me) ? 0 : (before != -1 ? 1 : 2);
}
static void scen1b(void)
{
    begin(0); cs_body_t b[] = { s1b_body, s1b_body }; void *args[] = { (void *)0, (void *)1 };
    cs_run(2, b, args);
    for (int i = 0; i < 2; i++) { CS_CHECK(s1_mid[i] != 1, "thread %d: lookup of its reserved but unregistered identifier %d returned a taskpool", i, got_id[i]); CS_CHECK(s1_mid[i] != 2, "thread %d: lookup of its registered identifier %d did not return its taskpool", i, got_id[i]); }
    int reg[NT + 2] = { 1, 1, 0, 0, 0 }; finish(0, 2, reg);
}
/* --- scenario 2: one pre-registered pool (array size 2): T0 reserve+register+unregister, T1 reserve+register, T2 looks up ids 1..3 twice --- */
static int s2_bad; static char s2_msg[200];
static void s2_t0(void *a) { (void)a; int id = v_reserve(0); v_register(0); v_unregister(0); if (idx_of(v_lookup(id)) != -1) { s2_bad = 1; snprintf(s2_msg, sizeof(s2_msg), "lookup(%d) after unregister still returns a taskpool", id); } }
static void s2_t1(void *a) { (void)a; int id = v_reserve(1); v_register(1); if (idx_of(v_lookup(id)) != 1) { s2_bad = 1; snprintf(s2_msg, sizeof(s2_msg), "lookup(%d) of a registered taskpool failed", id); } }
static void s2_t2(void *a)
{
    (void)a;
    for (int round = 0; round < 1; round++) for (int id = 1; id <= 3; id++) {
        parsec_taskpool_t *p = v_lookup(id); int k = idx_of(p);
        if (k == -2) { s2_bad = 1; snprintf(s2_msg, sizeof(s2_msg), "lookup(%d) returned a pointer that is no taskpool", id); }
        else if (k >= 0 && (int)p->taskpool_id != id) { s2_bad = 1; snprintf(s2_msg, sizeof(s2_msg), "lookup(%d) returned taskpool %d whose identifier is %u", id, k, p->taskpool_id); }
        else if (id == 1 && k != NT) { s2_bad = 1; snprintf(s2_msg, sizeof(s2_msg), "lookup(1) of the taskpool registered before the threads started returned %d", k); }
    }
}
static void scen2(void)
{
    s2_bad = 0; begin(1); cs_body_t b[] = { s2_t0, s2_t1, s2_t2 };
    cs_run(3, b, NULL);
    CS_CHECK(!s2_bad, "%s", s2_msg);
    int reg[NT + 2] = { 0, 1, 0, 1, 0 }; finish(1, 2, reg);
}
/* --- scenario 3: two threads, two reservations each (ids 1..4: doublings 2,4,8), interleaved with lookups of the other's ids --- */
static void s3_body(void *a)
{
    int me = (int)(intptr_t)a;                     /* pools me and me+2 */
    v_reserve(me); v_register(me);
    v_reserve(me + 2); v_register(me + 2);
    for (int id = 1; id <= 4; id++) { parsec_taskpool_t *p = v_lookup(id); int k = idx_of(p); if (k == -2 || (k >= 0 && (int)p->taskpool_id != id)) { s2_bad = 1; snprintf(s2_msg, sizeof(s2_msg), "lookup(%d) returned taskpool %d (identifier mismatch or foreign pointer)", id, k); } }
}
static void scen3(void)
{
    s2_bad = 0; begin(0); cs_body_t b[] = { s3_body, s3_body }; void *args[] = { (void *)0, (void *)1 };
    cs_run(2, b, args);
    CS_CHECK(!s2_bad, "%s", s2_msg);
    int reg[NT + 2] = { 1, 1, 1, 1, 0 }; finish(0, 4, reg);
}
static cs_scenario_t scenarios[] = {
    { "reserve_register_lookup", scen1b, 0 }, { "two_by_two_growth", scen3, 0 }, { "reserve3_fresh", scen1, 0 }, { "reserve_unregister_lookup", scen2, 0 },
};
int main(int argc, char **argv)
{
    int n = 4; const char *set = getenv("C37_SET");       /* C37_SET=a,b restricts the run (check.py uses different bounds per group) */
    if (set && *set) { n = 0; for (int i = 0; i < 4; i++) { const char *q = strstr(set, scenarios[i].name); size_t l = strlen(scenarios[i].name); if (q && (q == set || q[-1] == ',') && (q[l] == 0 || q[l] == ',')) scenarios[n++] = scenarios[i]; } if (!n) return 2; }
    return cs_main(argc, argv, "C37", scenarios, n, NULL);
}
