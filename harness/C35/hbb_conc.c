/* C35 (E1 leg): concurrent push / pop on one hierarchical bounded buffer never loses or duplicates a task
 * (real parsec/hbbuffer.c from libparsec, every schedule with a bounded number of preemptions).
 * The priority preference of pop_best is only claimed at quiescence (the source documents an ABA window for
 * push_all_by_priority), so under concurrency the oracle is conservation; a final quiescent drain checks the order. */
#include "parsec/parsec_config.h"
#include "parsec/parsec_internal.h"
#include "parsec/hbbuffer.h"
#include "cosched.h"
#include <stdio.h>
#include <string.h>
#include <stdlib.h>

#define NT 20                      /* 0..5: the hand-written scripts; generated scripts: 0,1 = initial content, 2 + 6 t + j = j-th fresh task of thread t */
enum { O_PUSH, O_PUSHPRIO, O_POP, O_END, O_PUSHBACK };   /* O_PUSHBACK (generated scripts): push_all of the oldest task this thread popped and still holds */
typedef struct { int type, a, b, c; } step_t;           /* ring a[,b[,c]] */
typedef struct { const char *name; int size; int prios[NT]; int ninit, init[NT]; int nthreads; step_t script[3][3]; } scen_t;
static const scen_t *cur;
static parsec_hbbuffer_t *buf;
static parsec_task_t *tasks;
/* per-thread logs (private to each controlled thread: no sharing, no scheduling points) */
static int popped[3][4], npopped[3], pop_null[3];
static int repushed[3][4], nrepushed[3];                /* O_PUSHBACK: what was pushed again (oldest popped first) */
static int parent_got[4][NT], nparent[4];               /* index 3 = main thread */
static char perr[4][160];

static int id_of(volatile void *p) { parsec_task_t *t = (parsec_task_t *)p; if (!p) return -1; if (t < tasks || t >= tasks + NT) return -2; return (int)(t - tasks); }
static void parent_push(void *store, parsec_list_item_t *elt, int32_t distance)
{
    (void)store; (void)distance; int me = cs_self(); if (me < 0 || me > 2) me = 3;
    if (!elt) { snprintf(perr[me], sizeof(perr[me]), "parent store received NULL"); return; }
    volatile parsec_list_item_t *x = elt; int n = 0;
    do {
        int id = id_of(x);
        if (id < 0 || n++ >= NT) { snprintf(perr[me], sizeof(perr[me]), "ring given to the parent store is broken (foreign pointer or does not close)"); return; }
        if (nparent[me] < NT) parent_got[me][nparent[me]++] = id;
        x = x->list_next;
    } while (x != elt);
}
static parsec_list_item_t *mkring(const step_t *s)
{
    parsec_list_item_t *r = PARSEC_LIST_ITEM_SINGLETON(&tasks[s->a].super);
    if (s->b >= 0) { PARSEC_LIST_ITEM_SINGLETON(&tasks[s->b].super); parsec_list_item_ring_push(r, &tasks[s->b].super); }
    if (s->c >= 0) { PARSEC_LIST_ITEM_SINGLETON(&tasks[s->c].super); parsec_list_item_ring_push(r, &tasks[s->c].super); }
    return r;
}
static void body(void *arg)
{
    int t = (int)(intptr_t)arg;
    for (int i = 0; i < 3 && cur->script[t][i].type != O_END; i++) {
        const step_t *s = &cur->script[t][i];
        if (s->type == O_PUSH) parsec_hbbuffer_push_all(buf, mkring(s), 0);
        else if (s->type == O_PUSHPRIO) parsec_hbbuffer_push_all_by_priority(buf, mkring(s), 0);
        else if (s->type == O_PUSHBACK) {
            if (nrepushed[t] < npopped[t]) { step_t st = { O_PUSH, popped[t][nrepushed[t]], -1, -1 }; repushed[t][nrepushed[t]++] = st.a; parsec_hbbuffer_push_all(buf, mkring(&st), 0); }
        }
        else { parsec_list_item_t *it = parsec_hbbuffer_pop_best(buf, parsec_execution_context_priority_comparator); if (it) popped[t][npopped[t]++] = id_of(it); else pop_null[t]++; }
    }
}
static void run_scen(const scen_t *s)
{
    cur = s; memset(popped, 0, sizeof(popped)); memset(npopped, 0, sizeof(npopped)); memset(pop_null, 0, sizeof(pop_null));
    memset(nparent, 0, sizeof(nparent)); memset(perr, 0, sizeof(perr)); memset(nrepushed, 0, sizeof(nrepushed));
    tasks = calloc(NT, sizeof(parsec_task_t));
    for (int i = 0; i < NT; i++) { PARSEC_OBJ_CONSTRUCT(&tasks[i].super, parsec_list_item_t); tasks[i].priority = s->prios[i]; }
    buf = parsec_hbbuffer_new(s->size, 1, parent_push, (void *)1);
    int pushed[NT] = {0};
    for (int i = 0; i < s->ninit; i++) { step_t st = { O_PUSH, s->init[i], -1, -1 }; parsec_hbbuffer_push_all(buf, mkring(&st), 0); pushed[s->init[i]] = 1; }
    CS_CHECK(nparent[3] == 0, "scenario set-up overflowed the buffer");
    cs_watch(&buf->items[0], s->size * sizeof(void *), "hbbuffer_slots");
    cs_body_t b[3] = { body, body, body }; void *args[3] = { (void *)0, (void *)1, (void *)2 };
    cs_run(s->nthreads, b, args);

    for (int t = 0; t < s->nthreads; t++) for (int i = 0; i < 3 && s->script[t][i].type != O_END; i++) if (s->script[t][i].type != O_POP && s->script[t][i].type != O_PUSHBACK) { const step_t *x = &s->script[t][i]; pushed[x->a]++; if (x->b >= 0) pushed[x->b]++; if (x->c >= 0) pushed[x->c]++; }
    for (int t = 0; t < 3; t++) for (int i = 0; i < nrepushed[t]; i++) pushed[repushed[t][i]]++;
    for (int t = 0; t < 4; t++) CS_CHECK(!perr[t][0], "%s", perr[t]);
    /* conservation: every pushed task is in exactly one place */
    int inbuf[NT] = {0}, inpar[NT] = {0}, inpop[NT] = {0}, held = 0;
    for (int k = 0; k < s->size; k++) { volatile parsec_list_item_t *x = buf->items[k]; if (!x) continue; int id = id_of(x); CS_CHECK(id >= 0, "slot %d holds a pointer that is not a task", k); inbuf[id]++; held++; }
    for (int t = 0; t < 3; t++) { for (int i = 0; i < nparent[t]; i++) inpar[parent_got[t][i]]++; for (int i = 0; i < npopped[t]; i++) { CS_CHECK(popped[t][i] >= 0, "pop_best returned a pointer that is not a task"); inpop[popped[t][i]]++; } }
    char out[300]; int o = 0;
    for (int i = 0; i < NT; i++) {
        int total = inbuf[i] + inpar[i] + inpop[i];
        CS_CHECK((pushed[i] <= 1 ? total <= 1 : inbuf[i] + inpar[i] <= 1) || !pushed[i], "task %d is in %d places (buffer %d, parent store %d, popped %d): duplicated", i, total, inbuf[i], inpar[i], inpop[i]);
        CS_CHECK(total == pushed[i], "task %d pushed %d time(s) but found %d time(s) (buffer %d, parent store %d, popped %d): %s", i, pushed[i], total, inbuf[i], inpar[i], inpop[i], total < pushed[i] ? "lost" : "appeared from nowhere");
        if (pushed[i]) o += snprintf(out + o, sizeof(out) - o, "%d:%c ", i, inbuf[i] ? 'B' : inpar[i] ? 'P' : 'X');
    }
    for (int t = 0; t < s->nthreads; t++) { o += snprintf(out + o, sizeof(out) - o, "| T%d pops:", t); for (int i = 0; i < npopped[t]; i++) o += snprintf(out + o, sizeof(out) - o, " %d", popped[t][i]); if (pop_null[t]) o += snprintf(out + o, sizeof(out) - o, " null*%d", pop_null[t]); }
    /* a pop may return NULL only if the buffer could have been empty at some point: with more pushed-and-kept tasks than pops this
     * is not decidable without linearization; the quiescent part of the statement is checked by draining now */
    int last = 1000000, drained = 0;
    for (;;) {
        parsec_list_item_t *it = parsec_hbbuffer_pop_best(buf, parsec_execution_context_priority_comparator);
        if (!it) break;
        int id = id_of(it); CS_CHECK(id >= 0 && inbuf[id] == 1, "quiescent pop_best returned a task the buffer did not hold"); inbuf[id] = 0;
        CS_CHECK(tasks[id].priority <= last, "quiescent pop_best returned priority %d after priority %d (not the best first)", tasks[id].priority, last);
        last = tasks[id].priority; drained++;
    }
    CS_CHECK(drained == held, "quiescent drain returned %d tasks, buffer held %d", drained, held);
    cs_observe("%s", out);
}
#define E { O_END, -1, -1, -1 }
static const scen_t scens[] = {
    /* size 1: overflow and CAS contention on the single slot */
    { "s1_push2_push1_pop", 1, { 1, 2, 3, 1, 2, 3 }, 0, { 0 }, 3, { { { O_PUSH, 0, 1, -1 }, E }, { { O_PUSH, 2, -1, -1 }, E }, { { O_POP, -1, -1, -1 }, E } } },
    { "s1_prio_prio_pop", 1, { 1, 2, 3, 1, 2, 3 }, 1, { 0 }, 3, { { { O_PUSHPRIO, 2, -1, -1 }, E }, { { O_PUSHPRIO, 1, -1, -1 }, E }, { { O_POP, -1, -1, -1 }, E } } },
    /* size 2 */
    { "s2_prio2_prio1_pop2", 2, { 1, 2, 3, 1, 2, 3 }, 0, { 0 }, 3, { { { O_PUSHPRIO, 2, 0, -1 }, E }, { { O_PUSHPRIO, 1, -1, -1 }, E }, { { O_POP, -1, -1, -1 }, { O_POP, -1, -1, -1 }, E } } },
    { "s2_full_prio_pop_pop", 2, { 1, 2, 3, 1, 2, 3 }, 2, { 0, 1 }, 3, { { { O_PUSHPRIO, 2, -1, -1 }, E }, { { O_POP, -1, -1, -1 }, E }, { { O_POP, -1, -1, -1 }, E } } },
    { "s2_push_prio_pop", 2, { 1, 2, 3, 1, 2, 3 }, 1, { 3 }, 3, { { { O_PUSH, 0, 1, -1 }, E }, { { O_PUSHPRIO, 2, 4, -1 }, E }, { { O_POP, -1, -1, -1 }, E } } },
    /* ABA seeker: the popper removes the candidate a by-priority pusher is about to replace, and pushes it back */
    { "s2_aba_prio_vs_pop_push", 2, { 1, 2, 3, 1, 2, 3 }, 2, { 0, 1 }, 2, { { { O_PUSHPRIO, 2, -1, -1 }, E }, { { O_POP, -1, -1, -1 }, { O_PUSH, 3, -1, -1 }, E } } },
    { "s2_pop_pop_push3", 2, { 1, 2, 3, 1, 2, 3 }, 1, { 0 }, 3, { { { O_POP, -1, -1, -1 }, E }, { { O_POP, -1, -1, -1 }, E }, { { O_PUSH, 1, 2, 3 }, E } } },
};

/* ==================================================================================================================
 * Generated (bounded-exhaustive) script families.
 *
 *   script = pre-state S<size>F<fill> (buffer of 1-2 slots holding <fill> tasks of priority 2)  x  T0: a ops || T1: b ops (|| T2: c ops)
 *   op     = p  pop_best                                  b  push_all of the OLDEST task this thread popped and still holds
 *            u  push_all [H]        U  push_all [H,L]      (fresh tasks; H = priority 3, L = priority 1: above / below the initial content)
 *            l / m / h  push_all_by_priority [L] / [M = priority 2, ties with the content] / [H]        Q / R  push_all_by_priority [H,L] / [H,H]
 *                       (R on a full buffer ejects two incumbents in one call)
 * Tiny domains chosen to collide: 1-2 slots (every operation meets every other on the same slot; rings of 2 overflow), three
 * priorities (a by-priority push ejects or not depending on L/M/H), and re-use of a popped task ('b': the ABA window of by-priority).
 * Family = ALL scripts of a shape minus contract violations ('b' where the thread cannot hold a task; by-priority rings are built in
 * decreasing priority order), up to renaming of threads of equal length.
 * Text (= scenario name, stored in the replay file): g.S<s>F<f>.<ops T0>.<ops T1>[.<ops T2>]    e.g.  g.S2F2.h.pb
 * Selection: C35_GEN="shape=2,1;ops=pbuUlhQ;pre=01234;range=lo:hi"   (pre: 0 = S1F0, 1 = S1F1, 2 = S2F0, 3 = S2F1, 4 = S2F2)
 * ================================================================================================================== */
static const char gopl[] = "pbuUlmhQR";
static const struct { int size, fill; } gpre[5] = { {1, 0}, {1, 1}, {2, 0}, {2, 1}, {2, 2} };
typedef struct { scen_t sc; char name[48]; char txt[3][4]; int len[3]; } gdef_t;
static gdef_t *gdefs; static int ngdefs, capgdefs;
static long gen_raw, gen_contract;

/* fill sc from (pre, txt): fresh task ids and priorities are assigned statically */
static void g_build(gdef_t *g, int pre, int nthr)
{
    scen_t *sc = &g->sc; memset(sc, 0, sizeof(*sc));
    sc->size = gpre[pre].size; sc->ninit = gpre[pre].fill; sc->nthreads = nthr;
    for (int i = 0; i < NT; i++) sc->prios[i] = 2;
    for (int i = 0; i < sc->ninit; i++) sc->init[i] = i;
    for (int t = 0; t < 3; t++) {
        int fresh = 2 + 6 * t;
        for (int j = 0; j < 3; j++) {
            step_t st = { O_END, -1, -1, -1 };
            if (t < nthr && j < g->len[t]) switch (g->txt[t][j]) {
                case 'p': st.type = O_POP; break;
                case 'b': st.type = O_PUSHBACK; break;
                case 'u': st.type = O_PUSH; st.a = fresh++; sc->prios[st.a] = 3; break;
                case 'U': st.type = O_PUSH; st.a = fresh++; st.b = fresh++; sc->prios[st.a] = 3; sc->prios[st.b] = 1; break;
                case 'l': st.type = O_PUSHPRIO; st.a = fresh++; sc->prios[st.a] = 1; break;
                case 'm': st.type = O_PUSHPRIO; st.a = fresh++; sc->prios[st.a] = 2; break;
                case 'h': st.type = O_PUSHPRIO; st.a = fresh++; sc->prios[st.a] = 3; break;
                case 'Q': st.type = O_PUSHPRIO; st.a = fresh++; st.b = fresh++; sc->prios[st.a] = 3; sc->prios[st.b] = 1; break;
                case 'R': st.type = O_PUSHPRIO; st.a = fresh++; st.b = fresh++; sc->prios[st.a] = 3; sc->prios[st.b] = 3; break;
            }
            sc->script[t][j] = st;
        }
    }
    int o = snprintf(g->name, sizeof(g->name), "g.S%dF%d", sc->size, sc->ninit);
    for (int t = 0; t < nthr; t++) { g->name[o++] = '.'; for (int j = 0; j < g->len[t]; j++) g->name[o++] = g->txt[t][j]; }
    g->name[o] = 0;
}
static int g_parse(const char *txt, gdef_t *g)
{
    memset(g, 0, sizeof(*g));
    int S, F; if (sscanf(txt, "g.S%1dF%1d", &S, &F) != 2 || strlen(txt) >= sizeof(g->name)) return -1;
    int pre = -1; for (int i = 0; i < 5; i++) if (gpre[i].size == S && gpre[i].fill == F) pre = i;
    if (pre < 0) return -1;
    int t = -1;
    for (const char *q = txt + 6; *q; q++) {
        if (*q == '.') { if (++t >= 3) return -1; continue; }
        if (t < 0 || !strchr(gopl, *q) || g->len[t] >= 3) return -1;
        g->txt[t][g->len[t]++] = *q;
    }
    if (t < 1) return -1;
    for (int i = 0; i <= t; i++) if (!g->len[i]) return -1;
    g_build(g, pre, t + 1);
    return strcmp(g->name, txt) ? -1 : 0;
}
/* usage contract: a thread pushes only tasks it owns: 'b' only where the thread may hold a popped task (skipped at run time if the pops
 * returned NULL). By-priority rings are generated in decreasing priority order only. */
static int g_contract(const gdef_t *g, int nthr)
{
    for (int t = 0; t < nthr; t++) { int h = 0; for (int j = 0; j < g->len[t]; j++) { char c = g->txt[t][j]; if (c == 'p') h++; if (c == 'b' && --h < 0) return 0; } }
    return 1;
}
static int g_canonical(const gdef_t *g, int nthr)
{
    for (int t = 0; t + 1 < nthr; t++) if (g->len[t] == g->len[t + 1] && strncmp(g->txt[t], g->txt[t + 1], g->len[t]) > 0) return 0;
    return 1;
}
static void gen_family(const char *spec, int list_only)
{
    int shape[3] = {1, 1, 0}, nthr = 2, prel[5], npre = 0; char opsel[12] = ""; long lo = 0, hi = -1;
    char buf[256]; snprintf(buf, sizeof(buf), "%s", spec);
    for (char *tok = strtok(buf, ";"); tok; tok = strtok(NULL, ";")) {
        if (!strncmp(tok, "shape=", 6)) nthr = sscanf(tok + 6, "%d,%d,%d", &shape[0], &shape[1], &shape[2]);
        else if (!strncmp(tok, "ops=", 4)) { int n = 0; for (char *c = tok + 4; *c; c++) if (strchr(gopl, *c) && n < 9) opsel[n++] = *c; opsel[n] = 0; }
        else if (!strncmp(tok, "pre=", 4)) { for (char *c = tok + 4; *c; c++) if (*c >= '0' && *c <= '4' && npre < 5) prel[npre++] = *c - '0'; }
        else if (!strncmp(tok, "range=", 6)) sscanf(tok + 6, "%ld:%ld", &lo, &hi);
        else { fprintf(stderr, "C35: bad C35_GEN token '%s'\n", tok); exit(2); }
    }
    int na = (int)strlen(opsel), total = 0;
    if (nthr < 2 || nthr > 3 || !na || !npre) { fprintf(stderr, "C35: incomplete C35_GEN '%s'\n", spec); exit(2); }
    for (int t = 0; t < nthr; t++) { if (shape[t] < 1 || shape[t] > 3) { fprintf(stderr, "C35: bad shape (1..3 operations per thread)\n"); exit(2); } total += shape[t]; }
    long ncomb = 1; for (int i = 0; i < total; i++) ncomb *= na;
    long idx = 0;
    for (int pi = 0; pi < npre; pi++) for (long c = 0; c < ncomb; c++) {
        gdef_t g; memset(&g, 0, sizeof(g));
        int dig[9]; long r = c; for (int i = total - 1; i >= 0; i--) { dig[i] = (int)(r % na); r /= na; }
        int q = 0; for (int t = 0; t < nthr; t++) { g.len[t] = shape[t]; for (int j = 0; j < shape[t]; j++) g.txt[t][j] = opsel[dig[q++]]; }
        gen_raw++;
        if (!g_contract(&g, nthr)) continue;
        gen_contract++;
        if (!g_canonical(&g, nthr)) continue;
        long me = idx++;
        if (me < lo || (hi >= 0 && me >= hi)) continue;
        if (ngdefs == capgdefs) { capgdefs = capgdefs ? 2 * capgdefs : 256; gdefs = realloc(gdefs, capgdefs * sizeof(gdef_t)); }
        g_build(&g, prel[pi], nthr); gdefs[ngdefs++] = g;
    }
    for (int i = 0; i < ngdefs; i++) gdefs[i].sc.name = gdefs[i].name;
    if (list_only) {
        printf("{\"spec\":\"%s\",\"alphabet\":%d,\"generated\":%ld,\"after_contract\":%ld,\"after_relevance\":%ld,\"after_symmetry\":%ld,\"scripts\":[", spec, na, gen_raw, gen_contract, gen_contract, idx);
        for (int i = 0; i < ngdefs; i++) printf("%s\"%s\"", i ? "," : "", gdefs[i].name);
        printf("]}\n");
    }
}
/* cosched scenarios carry a parameterless run(): one trampoline per slot of gdefs[] */
#define MAXGEN 4096
#define G1(h)   static void gr_##h(void) { run_scen(&gdefs[0x##h].sc); }
#define G16(h)  G1(h##0) G1(h##1) G1(h##2) G1(h##3) G1(h##4) G1(h##5) G1(h##6) G1(h##7) G1(h##8) G1(h##9) G1(h##a) G1(h##b) G1(h##c) G1(h##d) G1(h##e) G1(h##f)
#define G256(h) G16(h##0) G16(h##1) G16(h##2) G16(h##3) G16(h##4) G16(h##5) G16(h##6) G16(h##7) G16(h##8) G16(h##9) G16(h##a) G16(h##b) G16(h##c) G16(h##d) G16(h##e) G16(h##f)
G256(0) G256(1) G256(2) G256(3) G256(4) G256(5) G256(6) G256(7) G256(8) G256(9) G256(a) G256(b) G256(c) G256(d) G256(e) G256(f)
#define A1(h)   gr_##h,
#define A16(h)  A1(h##0) A1(h##1) A1(h##2) A1(h##3) A1(h##4) A1(h##5) A1(h##6) A1(h##7) A1(h##8) A1(h##9) A1(h##a) A1(h##b) A1(h##c) A1(h##d) A1(h##e) A1(h##f)
#define A256(h) A16(h##0) A16(h##1) A16(h##2) A16(h##3) A16(h##4) A16(h##5) A16(h##6) A16(h##7) A16(h##8) A16(h##9) A16(h##a) A16(h##b) A16(h##c) A16(h##d) A16(h##e) A16(h##f)
static void (*const gtramp[MAXGEN])(void) = { A256(0) A256(1) A256(2) A256(3) A256(4) A256(5) A256(6) A256(7) A256(8) A256(9) A256(a) A256(b) A256(c) A256(d) A256(e) A256(f) };
static int gen_main(int argc, char **argv)
{
    if (ngdefs > MAXGEN) { fprintf(stderr, "C35: %d generated scripts in one invocation (max %d): use range=\n", ngdefs, MAXGEN); return 2; }
    if (ngdefs == 0) { fprintf(stderr, "C35: the selection holds no script\n"); return 2; }
    cs_scenario_t *sc = calloc(ngdefs, sizeof(*sc));
    for (int i = 0; i < ngdefs; i++) { sc[i].name = gdefs[i].name; sc[i].run = gtramp[i]; }
    return cs_main(argc, argv, "C35", sc, ngdefs, NULL);
}

#define R(i) static void r##i(void) { run_scen(&scens[i]); }
R(0) R(1) R(2) R(3) R(4) R(5) R(6)
static cs_scenario_t scenarios[] = {
    { "s1_push2_push1_pop", r0, 0 }, { "s1_prio_prio_pop", r1, 0 }, { "s2_prio2_prio1_pop2", r2, 0 }, { "s2_full_prio_pop_pop", r3, 0 },
    { "s2_push_prio_pop", r4, 0 }, { "s2_aba_prio_vs_pop_push", r5, 0 }, { "s2_pop_pop_push3", r6, 0 },
};
int main(int argc, char **argv)
{
    /* generated families: C35_GEN=<spec> explores (a range of) a family; --gen-list prints it; the replay file of a generated script
     * carries the script text as its scenario name, from which the script is rebuilt */
    for (int i = 1; i < argc; i++) {
        if (!strcmp(argv[i], "--gen-list")) { const char *g = getenv("C35_GEN"); if (!g) return 2; gen_family(g, 1); return 0; }
        if (!strcmp(argv[i], "--replay") && i + 1 < argc) {
            FILE *f = fopen(argv[i + 1], "r"); char buf[4096]; size_t n = f ? fread(buf, 1, sizeof(buf) - 1, f) : 0; if (f) fclose(f); buf[n] = 0;
            char *q = strstr(buf, "\"scenario\":\"g.");
            if (q) {
                q += 12; char *e = strchr(q, '"'); if (!e) return 2; *e = 0;
                gdefs = calloc(1, sizeof(gdef_t)); ngdefs = 1;
                if (g_parse(q, &gdefs[0])) { fprintf(stderr, "C35: cannot parse the script text '%s'\n", q); return 2; }
                gdefs[0].sc.name = gdefs[0].name;
                printf("generated script %s (rebuilt from the scenario text of the replay file)\n", q);
                return gen_main(argc, argv);
            }
        }
    }
    if (getenv("C35_GEN") && *getenv("C35_GEN")) { gen_family(getenv("C35_GEN"), 0); return gen_main(argc, argv); }
    return cs_main(argc, argv, "C35", scenarios, sizeof(scenarios) / sizeof(scenarios[0]), NULL);
}
