/* C15: taskpools combined with parsec_compose run strictly one after another; the compound completes once,
 * after the last one.  E4 / rt engine: the real runtime runs real (ptgpp-generated) chain taskpools.
 *
 *   leg "orders"   : n in {1,2,3} pools, every assignment of shapes (W chains of L tasks) from a small set,
 *                    3 driver modes; hsched on ONE stream enumerates EVERY task-level order.
 *   leg "bounded"  : n in {5,16,17,20} (16/17 cross the realloc boundary of parsec_compose), every schedule
 *                    with <= D deviations from the canonical order (D=1 quick, 2 thorough).
 *   leg "threads"  : free running, threads {1,2,4} x schedulers {default, ap, ll} x n in {1,2,3,5,16,17,20}
 *                    x 3 modes x repetitions (configuration box; not the deciding step for schedules).
 * Oracle (stamps from a global counter, taken at body entry/exit, in callbacks, at call returns):
 *   (a) every task of every pool ran exactly once; max exit stamp of pool i < min enter stamp of pool i+1;
 *       parsec_context_wait returned after every task;
 *   (b) the compound's completion callback ran exactly once, after the last task of the last pool and before
 *       parsec_context_wait returned; parsec_taskpool_wait(compound) returned after every task.
 */
#include "hsched.h"
#include "vdc.h"
#include "waitrt.h"
#include "chain.h"

#define MAXP 20
#define MAXW 4
#define MAXL 4

typedef struct { int n, W[MAXP], L[MAXP], mode, threads; const char *sched; } cfg_t;

static long ent[MAXP][MAXW][MAXL], ext_[MAXP][MAXW][MAXL]; static int cnt[MAXP][MAXW][MAXL];
static int g_n;
static int cb_count; static long cb_stamp; static int cb_in_add; static volatile int in_add;
static vdc_t *g_A;
static int idle_selects = 0;

void vt_enter(int p, int w, int k) { long s = wr_stamp(); if (p < MAXP && w < MAXW && k < MAXL) { ent[p][w][k] = s; __sync_add_and_fetch(&cnt[p][w][k], 1); } }
void vt_exit(int p, int w, int k) { long s = wr_stamp(); if (p < MAXP && w < MAXW && k < MAXL) ext_[p][w][k] = s; }
static int compound_cb(parsec_taskpool_t *tp, void *d) { (void)tp; (void)d; cb_stamp = wr_stamp(); cb_in_add = in_add; __sync_add_and_fetch(&cb_count, 1); return 0; }

static void cfg_str(const cfg_t *c, char *b, size_t n)
{
    int o = snprintf(b, n, "n=%d shapes=", c->n);
    for (int i = 0; i < c->n; i++) o += snprintf(b + o, n - o, "%s%dx%d", i ? "," : "", c->W[i], c->L[i]);
    snprintf(b + o, n - o, " mode=%d threads=%d sched=%s", c->mode, c->threads, c->sched ? c->sched : "hsched");
}
static int cfg_parse(const char *cas, cfg_t *c)
{
    char v[512]; memset(c, 0, sizeof(*c));
    c->n = (int)wr_case_int(cas, "n", 0); c->mode = (int)wr_case_int(cas, "mode", 0); c->threads = (int)wr_case_int(cas, "threads", 1);
    if (c->n < 1 || c->n > MAXP) return -1;
    if (!wr_case_get(cas, "shapes", v, sizeof(v))) return -1;
    char *p = v; for (int i = 0; i < c->n; i++) { if (sscanf(p, "%dx%d", &c->W[i], &c->L[i]) != 2) return -1; p = strchr(p, ','); if (p) p++; else if (i + 1 < c->n) return -1; }
    static char sch[32]; if (wr_case_get(cas, "sched", sch, sizeof(sch)) && strcmp(sch, "hsched")) c->sched = sch; else c->sched = NULL;
    return 0;
}

/* one complete run of a configuration on an initialised context; returns 0 ok, 1 violation (message in err) */
static int run_case(parsec_context_t *parsec, const cfg_t *c, char *err, size_t errlen, char *outcome, size_t outlen)
{
    parsec_taskpool_t *tps[MAXP], *comp = NULL;
    memset(ent, 0, sizeof(ent)); memset(ext_, 0, sizeof(ext_)); memset(cnt, 0, sizeof(cnt));
    cb_count = 0; cb_stamp = 0; cb_in_add = 0; in_add = 0; wr_seq = 0; g_n = c->n; idle_selects = 0;
    for (int i = 0; i < c->n; i++) { tps[i] = (parsec_taskpool_t *)parsec_chain_new(&g_A->super, i, c->W[i], c->L[i]); comp = parsec_compose(comp, tps[i]); }
    parsec_taskpool_set_complete_callback(comp, compound_cb, NULL);
    long r_tw = 0, r_cw; int rc_tw = 0, rc_cw;
    if (c->mode == 1) parsec_context_start(parsec);
    in_add = 1; parsec_context_add_taskpool(parsec, comp); in_add = 0;
    if (c->mode != 1) parsec_context_start(parsec);
    if (c->mode == 2) { rc_tw = parsec_taskpool_wait(comp); r_tw = wr_stamp(); }
    rc_cw = parsec_context_wait(parsec); r_cw = wr_stamp();
    /* ---- oracle ---- */
    int bad = 0; err[0] = 0; int o = 0;
    long mx[MAXP], mn[MAXP], allmax = 0;
    for (int i = 0; i < c->n; i++) {
        mx[i] = 0; mn[i] = 1L << 60;
        for (int w = 0; w < c->W[i]; w++) for (int k = 0; k < c->L[i]; k++) {
            if (cnt[i][w][k] != 1 && !bad) { bad = 1; snprintf(err, errlen, "(a) task T(%d,%d) of pool %d executed %d times when parsec_context_wait returned", w, k, i, cnt[i][w][k]); }
            if (ext_[i][w][k] > mx[i]) mx[i] = ext_[i][w][k];
            if (cnt[i][w][k] && ent[i][w][k] < mn[i]) mn[i] = ent[i][w][k];
        }
        if (mx[i] > allmax) allmax = mx[i];
    }
    if (!bad && rc_cw != 0) { bad = 1; snprintf(err, errlen, "(a) parsec_context_wait returned %d", rc_cw); }
    long runmax = 0; int runpool = 0;      /* latest exit among pools 0..i (a pool may be empty: leg "empty") */
    for (int i = 0; i + 1 < c->n && !bad; i++) {
        if (mx[i] > runmax) { runmax = mx[i]; runpool = i; }
        if (!(runmax < mn[i + 1])) { bad = 1; snprintf(err, errlen, "(a) serial order broken: a task of pool %d entered at stamp %ld, before the last task of pool %d left at stamp %ld", i + 1, mn[i + 1], runpool, runmax); }
    }
    if (!bad && allmax > r_cw) { bad = 1; snprintf(err, errlen, "(a) a task finished (stamp %ld) after parsec_context_wait returned (stamp %ld)", allmax, r_cw); }
    int bbad = 0; char berr[512] = "";
    if (!bad) {
        if (cb_count != 1) { bbad = 1; snprintf(berr, sizeof(berr), "(b) compound completion callback ran %d times", cb_count); }
        else if (cb_stamp < allmax) { bbad = 1; snprintf(berr, sizeof(berr), "(b) compound completion callback ran at stamp %ld%s, before the last task of the last pool left (stamp %ld)", cb_stamp, cb_in_add ? " (inside parsec_context_add_taskpool of the compound)" : "", allmax); }
        else if (cb_stamp > r_cw) { bbad = 1; snprintf(berr, sizeof(berr), "(b) compound completion callback ran after parsec_context_wait returned"); }
        if (!bbad && c->mode == 2 && (rc_tw < 0 || r_tw < allmax)) { bbad = 1; snprintf(berr, sizeof(berr), "(b) parsec_taskpool_wait(compound) returned %d at stamp %ld, before the last task left (stamp %ld)", rc_tw, r_tw, allmax); }
        if (bbad) { bad = 1; snprintf(err, errlen, "%s", berr); }
    }
    /* outcome: execution order of the tasks (by enter stamp) and position of the callback */
    if (outcome) {
        typedef struct { long s; int p, w, k; } ev_t; ev_t ev[MAXP * MAXW * MAXL + 1]; int ne = 0;
        for (int i = 0; i < c->n; i++) for (int w = 0; w < c->W[i]; w++) for (int k = 0; k < c->L[i]; k++) if (cnt[i][w][k]) { ev[ne].s = ent[i][w][k]; ev[ne].p = i; ev[ne].w = w; ev[ne].k = k; ne++; }
        if (cb_count) { ev[ne].s = cb_stamp; ev[ne].p = -1; ev[ne].w = ev[ne].k = 0; ne++; }
        for (int i = 1; i < ne; i++) { ev_t t = ev[i]; int j = i; while (j > 0 && ev[j - 1].s > t.s) { ev[j] = ev[j - 1]; j--; } ev[j] = t; }
        o = 0; for (int i = 0; i < ne && o + 24 < (int)outlen; i++) o += ev[i].p < 0 ? snprintf(outcome + o, outlen - o, "CB ") : snprintf(outcome + o, outlen - o, "%d.%d.%d ", ev[i].p, ev[i].w, ev[i].k);
        if (c->mode == 2) snprintf(outcome + o, outlen - o, "tw@%ld", r_tw);
    }
    for (int i = 0; i < c->n; i++) parsec_taskpool_free(tps[i]);
    if (c->n > 1) parsec_taskpool_free(comp);
    return bad;
}

/* hsched wrapper: a wait loop that keeps asking for tasks while none is pending can never finish on one stream */
static parsec_task_t *c15_select(parsec_execution_stream_t *es, int32_t *distance)
{
    if (hs_npend == 0) {
        if (++idle_selects > 200) { wr_fail("deadlock: the wait call keeps polling, no task is ready and the awaited work is not complete (one stream, hsched)"); fflush(stdout); _exit(0); }
    } else idle_selects = 0;
    return hs_sched_select(es, distance);
}

static const int SHAPES[][2] = { {1, 1}, {2, 1}, {1, 2}, {2, 2}, {3, 1}, {2, 3}, {3, 2}, {4, 1} };
#define NSHAPES_Q 6
#define NSHAPES_T 8

static void cho_str(const unsigned char *ch, int n, char *b, size_t len) { int o = 0; b[0] = 0; for (int i = 0; i < n && o + 8 < (int)len; i++) o += snprintf(b + o, len - o, "%s%d", i ? "." : "", ch[i]); if (!n) snprintf(b, len, "-"); }

/* explore one configuration with hsched; max_dev -1 = all orders */
static void explore_cfg(parsec_context_t *parsec, hs_explorer_t *ex, const cfg_t *c, int max_dev)
{
    char cs[512], chs[2048], err[512], outc[2048];
    cfg_str(c, cs, sizeof(cs));
    double rem = wr_deadline > 0 ? wr_deadline - wr_now() : 0; if (wr_deadline > 0 && rem < 0.05) { wr_leg->exhaustive = 0; return; }
    hs_begin(ex, max_dev, rem);
    while (hs_next(ex)) {
        cho_str(ex->prefix, ex->prefix_len, chs, sizeof(chs));
        wr_setcase("%s cho=%s", cs, chs);
        int bad = run_case(parsec, c, err, sizeof(err), outc, sizeof(outc));
        if (bad) { wr_fail("%s | order: %s", err, ex->order); }
        wr_outcome(outc);
        if (wr_leg->executions == 0 || (wr_leg->nsamples < 3 && ex->runs == 7)) { char s[1024]; snprintf(s, sizeof(s), "%s cho=%s => %s", cs, chs, outc); wr_sample(s); }
        wr_leg->executions++;
        hs_end_run(ex);
        if (wr_leg->violations >= 3) { while (ex->stack) { hs_item_t *n = ex->stack->next; free(ex->stack); ex->stack = n; } hs_ex = NULL; ex->exhaustive = 0; break; }
    }
    wr_leg->states += ex->nodes; wr_leg->transitions += ex->transitions; wr_leg->nontrivial += ex->nontrivial;
    if (!ex->exhaustive) wr_leg->exhaustive = 0;
    wr_leg->aux[0]++;
}

static parsec_context_t *init_ctx(int threads, const char *sched)
{
    if (sched) setenv("PARSEC_MCA_mca_sched", sched, 1);
    setenv("PARSEC_MCA_bind_threads", "0", 1);   /* no core binding: many checks share the machine */
    int argc = 1; char *argv0[] = { (char *)"c15", NULL }; char **argv = argv0;
    parsec_context_t *p = parsec_init(threads, &argc, &argv);
    if (!p) { fprintf(stderr, "parsec_init failed\n"); _exit(3); }
    g_A = vdc_new(1, 8, 1, 0, NULL);
    return p;
}

typedef struct { int bounded; int maxdev; } leg_arg_t;
static void leg_orders(int slice, int nslices, void *arg_)
{
    leg_arg_t *arg = (leg_arg_t *)arg_;
    parsec_context_t *parsec = init_ctx(1, NULL);
    hs_install(parsec); hs_module.module.select = c15_select;
    hs_explorer_t *ex = (hs_explorer_t *)malloc(sizeof(*ex));
    int idx = 0; cfg_t c; memset(&c, 0, sizeof(c)); c.threads = 1;
    if (!arg->bounded) {
        for (int n = 1; n <= 3; n++) {
            int ns = wr_thorough ? NSHAPES_T : (n == 3 ? NSHAPES_Q - 1 : NSHAPES_Q);   /* quick: 6 shapes for n<=2, 5 for n=3 */
            int tot = 1; for (int i = 0; i < n; i++) tot *= ns;
            for (int a = 0; a < tot; a++) for (int mode = 0; mode < 3; mode++) {
                if ((idx++ % nslices) != slice) continue;
                c.n = n; c.mode = mode; int x = a; for (int i = 0; i < n; i++) { c.W[i] = SHAPES[x % ns][0]; c.L[i] = SHAPES[x % ns][1]; x /= ns; }
                explore_cfg(parsec, ex, &c, -1);
                if (wr_leg->violations >= 3) goto out;
            }
        }
    } else if (arg->bounded == 2) {
        /* leg "empty": member pools with an EMPTY execution space (W = 0): such a pool terminates inside the
         * parsec_context_add_taskpool that enables it, so its completion callback (which enables the next member) runs
         * NESTED in the previous member's callback.  Every assignment of {empty, 1x1, 2x1} with at least one empty pool. */
        static const int ES[][2] = { {0, 1}, {1, 1}, {2, 1} };
        for (int n = 2; n <= 4; n++) {
            int tot = 1; for (int i = 0; i < n; i++) tot *= 3;
            for (int a = 0; a < tot; a++) {
                int x = a, nempty = 0; for (int i = 0; i < n; i++) { c.W[i] = ES[x % 3][0]; c.L[i] = ES[x % 3][1]; if (!c.W[i]) nempty++; x /= 3; }
                if (!nempty) continue;
                for (int mode = 0; mode < 3; mode++) {
                    if ((idx++ % nslices) != slice) continue;
                    c.n = n; c.mode = mode;
                    explore_cfg(parsec, ex, &c, -1);
                    if (wr_leg->violations >= 3) goto out;
                }
            }
        }
    } else {
        static const int NS[] = { 5, 16, 17, 20 };
        for (int ni = 0; ni < 4; ni++) for (int sh = 0; sh < 3; sh++) for (int mode = 0; mode < 3; mode++) {
            if ((idx++ % nslices) != slice) continue;
            c.n = NS[ni]; c.mode = mode; for (int i = 0; i < c.n; i++) { int s = sh == 2 ? (i % 4) : sh + 1; c.W[i] = SHAPES[s][0]; c.L[i] = SHAPES[s][1]; }
            explore_cfg(parsec, ex, &c, arg->maxdev);
            if (wr_leg->violations >= 3) goto out;
        }
    }
out:
    hs_uninstall(parsec);
}

static const char *SCHEDS[] = { NULL, "ap", "ll" };
static void leg_threads(int slice, int nslices, void *arg_)
{
    (void)arg_; (void)nslices;
    static const int TH[] = { 1, 2, 4 }; static const int NS[] = { 1, 2, 3, 5, 16, 17, 20 };
    int threads = TH[slice % 3]; const char *sched = SCHEDS[slice / 3];
    parsec_context_t *parsec = init_ctx(threads, sched);
    int reps = wr_thorough ? 40 : 4;
    cfg_t c; memset(&c, 0, sizeof(c)); c.threads = threads; c.sched = sched ? sched : "default";
    char cs[512], err[512], outc[2048];
    for (int ni = 0; ni < 7; ni++) for (int mode = 0; mode < 3; mode++) for (int sh = 0; sh < 2; sh++) for (int rep = 0; rep < reps; rep++) {
        if (wr_expired()) { wr_leg->exhaustive = 0; goto out; }
        c.n = NS[ni]; c.mode = mode; for (int i = 0; i < c.n; i++) { c.W[i] = sh ? 4 : 2; c.L[i] = sh ? 2 : 3; }
        cfg_str(&c, cs, sizeof(cs)); wr_setcase("%s rep=%d", cs, rep);
        int bad = run_case(parsec, &c, err, sizeof(err), outc, sizeof(outc));
        if (bad) wr_fail("%s", err);
        wr_outcome(outc); wr_leg->executions++; wr_leg->transitions += 0; if (rep == 0) { wr_leg->states++; }
        for (int i = 0; i < c.n; i++) wr_leg->transitions += c.W[i] * c.L[i];
        if (threads > 1) wr_leg->nontrivial++;
        if (wr_leg->nsamples < 1 && c.n == 3) { char s[1024]; snprintf(s, sizeof(s), "%s => %s", cs, outc); wr_sample(s); }
        if (wr_leg->violations >= 3) goto out;
    }
out:
    parsec_fini(&parsec);
}

/* replay one case */
static void leg_replay(int slice, int nslices, void *arg_)
{
    (void)slice; (void)nslices; const char *cas = (const char *)arg_;
    cfg_t c; if (cfg_parse(cas, &c)) { fprintf(stderr, "cannot parse case [%s]\n", cas); _exit(3); }
    char err[512], outc[2048], cs[512]; cfg_str(&c, cs, sizeof(cs));
    if (!c.sched) {
        parsec_context_t *parsec = init_ctx(1, NULL);
        hs_install(parsec); hs_module.module.select = c15_select;
        hs_explorer_t *ex = (hs_explorer_t *)malloc(sizeof(*ex)); hs_begin(ex, 0, 0);
        char v[4096]; unsigned char ch[HS_MAXPTS]; int nch = 0;
        if (wr_case_get(cas, "cho", v, sizeof(v)) && strcmp(v, "-")) for (char *t = strtok(v, "."); t; t = strtok(NULL, ".")) ch[nch++] = (unsigned char)atoi(t);
        hs_item_t *it = (hs_item_t *)calloc(1, sizeof(hs_item_t) + nch + 1); it->len = nch; memcpy(it->ch, ch, nch); free(ex->stack); ex->stack = it;
        hs_next(ex);
        wr_setcase("%s", cas);
        int bad = run_case(parsec, &c, err, sizeof(err), outc, sizeof(outc));
        printf("  replay %s\n  task order: %s\n  events (pool.w.k by entry stamp, CB = compound completion callback): %s\n", cs, ex->order, outc);
        if (bad) wr_fail("%s", err); else printf("  replay: case passes\n");
        hs_end_run(ex); hs_uninstall(parsec); parsec_fini(&parsec);
    } else {
        parsec_context_t *parsec = init_ctx(c.threads, strcmp(c.sched, "default") ? c.sched : NULL);
        int reps = 200, bad = 0;
        wr_setcase("%s", cas);
        for (int r = 0; r < reps && !bad; r++) { bad = run_case(parsec, &c, err, sizeof(err), outc, sizeof(outc)); wr_leg->progress++; }
        printf("  replay (free running, up to %d repetitions) %s\n  last events: %s\n", reps, cs, outc);
        if (bad) wr_fail("%s", err); else printf("  replay: case passes\n");
        parsec_fini(&parsec);
    }
}

int main(int argc, char **argv)
{
    wr_init(argc, argv, "C15");
    int jobs = 8; const char *only = NULL;
    for (int i = 1; i < argc; i++) { if (!strcmp(argv[i], "--jobs") && i + 1 < argc) jobs = atoi(argv[++i]); else if (!strcmp(argv[i], "--leg") && i + 1 < argc) only = argv[++i]; }
    static const char *aux[] = { "configurations", NULL };
    if (wr_replay_file) {
        static char scen[128], cas[WR_CASELEN];
        if (wr_read_replay(wr_replay_file, scen, sizeof(scen), cas, sizeof(cas))) { fprintf(stderr, "cannot read replay file\n"); return 2; }
        wr_run_legs("replay", 1, leg_replay, cas, 60, NULL);
        return wr_finish();
    }
    leg_arg_t a1 = { 0, -1 }, a2 = { 1, wr_thorough ? 2 : 1 }, a3 = { 2, -1 };
    /* deciding legs first (70% of the time budget), free-running configuration box last */
    double full_deadline = wr_deadline;
    if (full_deadline > 0 && !only) wr_deadline = full_deadline - 0.3 * (full_deadline - wr_now());
    if (!only || !strcmp(only, "empty")) wr_run_legs("empty", jobs > 6 ? 6 : jobs, leg_orders, &a3, 600, aux);
    if (!only || !strcmp(only, "bounded")) wr_run_legs("bounded", jobs > 6 ? 6 : jobs, leg_orders, &a2, 600, aux);
    if (!only || !strcmp(only, "orders")) wr_run_legs("orders", jobs, leg_orders, &a1, 600, aux);
    wr_deadline = full_deadline; if (full_deadline > 0 && full_deadline < wr_now() + 15) wr_deadline = wr_now() + 15;   /* the box always gets a minimum share */
    if (!only || !strcmp(only, "threads")) wr_run_legs("threads", 9, leg_threads, NULL, 240, aux);
    return wr_finish();
}
