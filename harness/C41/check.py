META = dict(
    engine='seqx+cosched',
    technique='explicit-state model checking: BFS to closure over all register/unregister/array-init/destruct/set/get/test_and_set histories of the real info.c (tracking allocator, map model), plus preemption-bounded exhaustive schedule enumeration of concurrent set/get/test_and_set against array growth',
    level_text='All reachable states of an info registry with 3-4 names and 1-2 object arrays (values NULL/p1/p2/constructed defaults) are enumerated on the real code and compared with a map model after every operation (identifiers distinct, lookups, every slot, constructor/destructor calls, heap block sizes); every schedule with <= b preemptions of 9 hand-written two/three-thread scripts in which slot accesses race with array growth is executed and checked for linearizability; plus GENERATED script families: all scripts pre-state {array knows slot 0 only (realloc growth), array has no storage (calloc growth), array knows all slots (growth only after a register)} x T0: 1..a ops || T1: 1..b ops (|| T2) over the alphabet {get/set/test_and_set(expect NULL | expect the value of the other thread) on identifier 0 | 1 | the identifier returned by a register of the same thread, register(one of two fresh names), lookup}, minus contract violations (identifier not registered at the call), up to thread renaming, simplest first, each family under a wall budget - quick: (1,1) b=1 and b=2, (2,1) b=1; thorough: (1,1) b=2 on the larger alphabet, (2,1) b=1-2, (2,2) b=2, (1,1,1) b=1; same linearizability oracle.',
    level_note='Identifiers are used only while registered (API contract); 3 names (4 in the registry-only system), 2 arrays; E1: sequential consistency at instrumented accesses, 2-3 threads with 1-3 operations each; generated families are cut by a wall budget on a loaded machine (exhaustive:false for that leg, scripts_explored < scripts_after_symmetry); info.c is compiled into the harness TU with malloc/calloc/realloc/free routed to an exact-size poisoning allocator.',
)
RULE = ("seqx: BFS over operation histories on the real registry, deduplicated by canonical state (real list order, max_id, "
        "array sizes and slot contents + model); a state is non-trivial when its shortest history has >= 2 operations. "
        "cosched (hand-written scripts, and every script of the generated families 'family/g*': see the leg's alphabet, scripts_generated / _after_contract / "
        "_after_symmetry / _explored / _completed): every schedule with <= b preemptions; non-trivial = at least one preemption")



# ---- generated (bounded-exhaustive) script families: c41gen.py enumerates, info_conc.c parses the script text; see NOTES.md ----
# label, shape (ops per thread), threads with exactly that many ops, alphabet, pre-states, preemption bound, wall budget (s), scripts per engine invocation
FAMILIES = {
    'quick': [
        dict(label='g11_b1', shape=(1, 1), exact=(), alphabet='std', pre='ABC', bound=1, allow=0.6, budget=8, batch=12),
        dict(label='g21_b1', shape=(2, 1), exact=(0,), alphabet='mini', pre='ABC', bound=1, allow=0.6, budget=14, batch=12),
        dict(label='g11_b2', shape=(1, 1), exact=(), alphabet='std', pre='ABC', bound=2, allow=3, budget=14, batch=4),
    ],
    'thorough': [
        dict(label='g11_b2', shape=(1, 1), exact=(), alphabet='full', pre='ABC', bound=2, allow=3, budget=50, batch=4),
        dict(label='g21_b1', shape=(2, 1), exact=(0,), alphabet='std', pre='ABC', bound=1, allow=0.6, budget=60, batch=16),
        dict(label='g21_b2', shape=(2, 1), exact=(0,), alphabet='mini', pre='ABC', bound=2, allow=3, budget=70, batch=4),
        dict(label='g22_b2', shape=(2, 2), exact=(0, 1), alphabet='mini', pre='AB', bound=2, allow=8, budget=50, batch=2),
        dict(label='g111_b1', shape=(1, 1, 1), exact=(), alphabet='std', pre='ABC', bound=1, allow=3, budget=50, batch=4),
    ],
}


def gen_family(ctx, exe, f, procs, jobs):
    """Explore one generated family: parallel engine invocations over batches of scripts (simplest first) until everything is
    done or the wall budget is used up; one aggregated evidence leg."""
    import os, sys, json, time, statistics, vlib
    from concurrent.futures import ThreadPoolExecutor
    sys.path.insert(0, os.path.dirname(os.path.abspath(__file__)))
    import c41gen
    counts, names, alphabet = c41gen.family(f['shape'], f['alphabet'], f['pre'], f['exact'])
    batches = [(i, names[i:i + f['batch']]) for i in range(0, len(names), f['batch'])]
    t0 = time.time(); t_end = t0 + f['budget']
    mine = 'fam:%s:' % f['label']
    nviol0 = len(ctx.violations)
    os.makedirs(os.path.join(vlib.OUT, 'gen'), exist_ok=True)
    def one(b):
        i, part = b
        left = t_end - time.time()
        if left < 1.0 or len(ctx.violations) >= nviol0 + 3:
            return          # budget used up (or violations already reported): not explored -> exhaustive:false
        gf = os.path.join(vlib.OUT, 'gen', 'C41-%s-%d-%d.txt' % (f['label'], i, os.getpid()))
        open(gf, 'w').write('\n'.join(part) + '\n')
        dl = max(2, int(left), int(f['allow'] * len(part) + 0.999))      # a started batch may always use `allow` seconds per script
        ctx.run_engine(exe, ['--gen-file', gf, '--bound', str(f['bound']), '--scenario', 'all', '--jobs', str(jobs), '--deadline', str(dl), '--outdir', vlib.OUT],
                       label='%s%d' % (mine, i), timeout=dl + 300)
        try: os.unlink(gf)
        except OSError: pass
    with ThreadPoolExecutor(max_workers=procs) as ex:
        list(ex.map(one, batches))
    legs = [l for l in ctx.legs if str(l.get('leg', '')).startswith(mine)]
    ctx.legs[:] = [l for l in ctx.legs if not str(l.get('leg', '')).startswith(mine)]
    pos = {nm: i for i, nm in enumerate(names)}
    legs.sort(key=lambda l: pos.get(l['name'], 0))
    complete = [l for l in legs if l.get('exhaustive')]
    outs = [int(l.get('distinct_outcomes', 0)) for l in (complete or legs)]
    samples = []
    for l in sorted(legs, key=lambda l: -int(l.get('distinct_outcomes', 0)))[:2] + legs[:1]:
        for sm in l.get('samples', [])[:1]:
            samples.append(dict(sm, script=l['name']))
    nviol = sum(int(l.get('violations', 0)) for l in legs)
    nex = sum(int(l.get('executions', 0)) for l in legs)
    ctx.add_leg(name=f['label'], leg='family', engine='cosched', shape=list(f['shape']), exact_threads=list(f['exact']), prestates=f['pre'],
                bound=f['bound'], alphabet=alphabet, scripts_generated=counts['generated'], scripts_after_contract=counts['after_contract'],
                scripts_after_symmetry=counts['after_symmetry'], scripts_explored=len(legs), scripts_completed=len(complete),
                states=sum(int(l.get('states', 0)) for l in legs), transitions=sum(int(l.get('transitions', 0)) for l in legs),
                executions=nex, nontrivial=sum(int(l.get('nontrivial', 0)) for l in legs),
                distinct_outcomes=sum(outs), outcomes_per_script=dict(min=min(outs), median=statistics.median(outs), max=max(outs)) if outs else {},
                single_outcome_scripts=sum(1 for o in outs if o <= 1), max_points=max([int(l.get('max_points', 0)) for l in legs] or [0]),
                exhaustive=(len(complete) == counts['after_symmetry']), violations=nviol, last_script_explored=legs[-1]['name'] if legs else None,
                wall_s=round(time.time() - t0, 2), samples=samples)
    sys.stderr.write('C41 family %s (bound %d): %d generated, %d after contract, %d after symmetry; explored %d (complete %d), %d schedules, outcomes/script min %s max %s, %d single-outcome, %.1fs\n'
                     % (f['label'], f['bound'], counts['generated'], counts['after_contract'], counts['after_symmetry'], len(legs), len(complete), nex,
                        min(outs) if outs else '-', max(outs) if outs else '-', sum(1 for o in outs if o <= 1), time.time() - t0))
    # vacuity guard: a family whose scripts all have one outcome collides with nothing
    if len(complete) >= 8 and max(outs) <= 1 and not nviol and len(complete) < counts['after_symmetry']:
        ctx.notes.append('family %s: the %d scripts explored before the budget cut all have a single outcome (vacuity is only judged on a completely explored family)' % (f['label'], len(complete)))
    elif len(complete) >= 8 and max(outs) <= 1 and not nviol:
        ctx.broken.append('family %s: every one of the %d explored scripts has a single outcome: the alphabet collides with nothing' % (f['label'], len(complete)))
    # the replay file of a generated script is self-contained (scenario = script text); add the expansion for the reader
    for rp, lab in ctx.violations[nviol0:]:
        try:
            o = json.load(open(rp))
            if o.get('scenario', '').startswith('g_'):
                o['script'] = c41gen.describe(o['scenario']); o['script_text'] = o['scenario']
                json.dump(o, open(rp, 'w'), separators=(',', ':'))      # compact: cosched's replay reader looks for "scenario":" and "choices":[
        except (OSError, ValueError):
            pass


def families(ctx, exe):
    import os, vlib
    sel = os.environ.get('C41_FAMILIES')                    # development: comma-separated labels
    scale = float(os.environ.get('C41_BUDGET_SCALE', '1'))   # development: multiply the wall budgets
    if ctx.tier == 'thorough' and 'C41_BUDGET_SCALE' not in os.environ:
        # the other legs are deadline-bound; when the machine is not overloaded they finish early and the families get what is left of
        # the tier's ~20 minutes (never less than their nominal budgets, at most 3 times as much)
        import time
        scale = max(1.0, min(3.0, (1080 - (time.time() - ctx.t0)) / sum(f['budget'] for f in FAMILIES[ctx.tier])))
    for f in FAMILIES[ctx.tier]:
        if sel and f['label'] not in sel.split(','):
            continue
        # small scripts (bound 1): one worker per invocation, one invocation per core; larger trees: half the invocations, 2 workers each
        procs, jobs = (max(1, min(16, vlib.NJOBS)), 1) if f['bound'] <= 1 else (max(1, min(8, vlib.NJOBS // 2)), 2)
        gen_family(ctx, exe, dict(f, budget=f['budget'] * scale), procs, jobs)


def build_seq(ctx):
    return ctx.compile('hk-shm', 'info_seq', ['info_seq.c'], instr=False)


def build_conc(ctx):
    return ctx.compile('hk-shm', 'info_conc', ['info_conc.c'], engine='cosched', memops=True)


def check(ctx):
    import os
    quick = ctx.tier == 'quick'
    which = os.environ.get('C41_ONLY', '')        # development switch: 'gen' = generated families only, 'hand' = everything else
    if which in ('', 'hand'):
        ctx.run_engine(build_seq(ctx), ['--outdir', '/verif/out', '--deadline', '40' if quick else '600', '--depth2', '5' if quick else '0'],
                       label='info_seq', timeout=1200)
        # two-thread scripts: bound 2 (quick) / 3 (thorough); three-thread scripts: bound 1 (quick) / 2 (thorough)
        ctx.run_cosched(build_conc(ctx), 2 if quick else 3, deadline=(60 if quick else 500), label='info_conc',
                        extra=['--cap3', '1' if quick else '2'])
    if which in ('', 'gen'):
        families(ctx, build_conc(ctx))
    return ctx.finish(RULE, ["identifiers are passed to set/get/test_and_set only while they are registered (API contract)",
                             "sequential consistency at instrumented accesses (no weak-memory effects) in the concurrent leg",
                             "when an info without destructor is unregistered, a stored value may survive or be cleared (the statement is silent)"])


def replay(ctx, path, obj):
    import subprocess
    if obj.get('engine') == 'cosched':
        return subprocess.call([build_conc(ctx), '--replay', path] + (['--observe'] if obj.get('scenario') == 'unregister_vs_grow' else []))
    return subprocess.call([build_seq(ctx), '--replay', path])
