import os, subprocess

META = dict(
    engine='seqx',
    technique='exhaustive enumeration of event sequences x buffer-boundary placements: each case is written with the real profiling.c writer API into a fresh binary trace and read back with the real dbpreader.c; field-by-field comparison with a reference list of the events written',
    level_text='Every sequence of 5 (quick) / 7 (thorough) events over {key A, key B} x {begin, end} x {stream 0, stream 1} is traced as a window of a de Bruijn stream (4-10 configurations of info lengths {0,4,24,+odd} x payload policy x API variant, many buffer alignments); every sequence of length <= 2 (quick) / <= 3 (thorough) is traced from a fresh trace, once into empty buffers and once for every (event i, d in {-1,0,+1}) with the stream pre-filled so that event i ends d bytes around the end of its buffer; plus uniform runs filling exactly k = 1..2 (quick) / 1..4 (thorough) buffers -1/0/+1 event (by count and to the byte), dictionaries of 4..52 entries x convertor lengths (all lengths 0..255 in thorough), and global-info values ending around 1..3 buffer ends. Each trace is written with the real profiling.c and read back through the real dbpreader.c (dbp_reader_open_files / iterators) and compared per stream, in order: key, flags, event_id, taskpool_id, timestamp (against a deterministic clock), payload length and bytes; dictionary names / info lengths / convertors / colours, global and per-stream infos, stream names, rank and trace id.',
    level_note='Single writer thread (streams are per-thread objects by contract), one trace file per case (single process rank 0..4 read alone); info lengths {0,4,24} (+1 for filler events), buffer size 1 page (thorough: also 2 pages); user flags are a fixed function of the event position, not enumerated independently. profiling.c is compiled into the harness by #include so that its file-scope state can be reset between cases (the API cannot restart a trace in one process) and its clock replaced by a tick counter; a fork-per-case leg cross-checks the reset.',
)
RULE = ("one execution = one trace written through the writer API and read back through the reader API; states/distinct outcomes = distinct file layouts "
        "(events per buffer per stream, number of dictionary/info buffers) found by an independent raw walk of the file; transitions = events written and compared; "
        "a case is non-trivial when a stream spans >= 2 buffers or both streams carry events")


def build(ctx):
    return ctx.compile('hk-prof', 'prof', ['prof_h.c', '/repo/tools/profiling/dbpreader.c'], instr=False,
                       cflags=['-Wno-unused-but-set-variable', '-Wno-sign-compare', '-Wno-maybe-uninitialized', '-Wno-stringop-truncation', '-Wno-format-truncation'])


def check(ctx):
    exe = build(ctx)
    jobs = str(min(16, os.cpu_count() or 4))
    if ctx.tier == 'quick':
        ctx.run_engine(exe, ['--outdir', '/verif/out', '--jobs', jobs, '--maxlen', '5', '--deadline', '55'], label='prof', timeout=300)
    else:
        ctx.run_engine(exe, ['--outdir', '/verif/out', '--jobs', jobs, '--maxlen', '7', '--thorough', '--deadline', '1000'], label='prof', timeout=1500)
    return ctx.finish(RULE, ["events of one stream are traced by one thread at a time (documented contract of parsec_profiling_stream_t)",
                             "the trace is complete: parsec_profiling_dbp_dump / fini returned before the file is read"])


def replay(ctx, path, obj):
    return subprocess.call([build(ctx), '--replay', path])
