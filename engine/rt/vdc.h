/* vdc: a from-scratch 1-D data collection of N elements (each `elem_bytes` bytes) with ALL
 * function pointers set. Element i lives on rank owner[i] (default: i % nodes); only local
 * elements have storage. Header-only. */
#ifndef VDC_H
#define VDC_H
#include "parsec/runtime.h"
#include "parsec/data_distribution.h"
#include "parsec/data_internal.h"
#include "parsec/data.h"
#include <stdarg.h>
#include <stdlib.h>
#include <string.h>
#include <stdio.h>

typedef struct vdc_s {
    parsec_data_collection_t super;
    int n; size_t elem_bytes;
    uint32_t *owner;
    parsec_data_t **data;
    char *storage;
} vdc_t;

static parsec_data_key_t vdc_data_key(parsec_data_collection_t *d, ...) { va_list ap; va_start(ap, d); int i = va_arg(ap, int); va_end(ap); (void)d; return (parsec_data_key_t)i; }
static uint32_t vdc_rank_of_key(parsec_data_collection_t *d, parsec_data_key_t k) { vdc_t *v = (vdc_t *)d; if ((int)k < 0 || (int)k >= v->n) { fprintf(stderr, "vdc: key %d out of range\n", (int)k); abort(); } return v->owner[k]; }
static uint32_t vdc_rank_of(parsec_data_collection_t *d, ...) { va_list ap; va_start(ap, d); int i = va_arg(ap, int); va_end(ap); return vdc_rank_of_key(d, (parsec_data_key_t)i); }
static parsec_data_t *vdc_data_of_key(parsec_data_collection_t *d, parsec_data_key_t k)
{
    vdc_t *v = (vdc_t *)d;
    if ((int)k < 0 || (int)k >= v->n) { fprintf(stderr, "vdc: key %d out of range\n", (int)k); abort(); }
    if (v->owner[k] != d->myrank) return NULL;
    return parsec_data_create(&v->data[k], d, k, v->storage + (size_t)k * v->elem_bytes, v->elem_bytes, PARSEC_DATA_FLAG_PARSEC_MANAGED);
}
static parsec_data_t *vdc_data_of(parsec_data_collection_t *d, ...) { va_list ap; va_start(ap, d); int i = va_arg(ap, int); va_end(ap); return vdc_data_of_key(d, (parsec_data_key_t)i); }
static int32_t vdc_vpid_of_key(parsec_data_collection_t *d, parsec_data_key_t k) { (void)d; (void)k; return 0; }
static int32_t vdc_vpid_of(parsec_data_collection_t *d, ...) { (void)d; return 0; }
static int vdc_key_to_string(parsec_data_collection_t *d, parsec_data_key_t k, char *b, uint32_t n) { (void)d; return snprintf(b, n, "%d", (int)k); }

static vdc_t *vdc_new(int n, size_t elem_bytes, int nodes, int myrank, const uint32_t *owner /* may be NULL */)
{
    vdc_t *v = (vdc_t *)calloc(1, sizeof(vdc_t));
    parsec_data_collection_init(&v->super, nodes, myrank);
    v->n = n; v->elem_bytes = elem_bytes;
    v->owner = (uint32_t *)calloc(n, sizeof(uint32_t));
    for (int i = 0; i < n; i++) v->owner[i] = owner ? owner[i] : (uint32_t)(i % nodes);
    v->data = (parsec_data_t **)calloc(n, sizeof(parsec_data_t *));
    v->storage = (char *)calloc((size_t)n, elem_bytes);
    v->super.data_key = vdc_data_key; v->super.rank_of = vdc_rank_of; v->super.rank_of_key = vdc_rank_of_key;
    v->super.data_of = vdc_data_of; v->super.data_of_key = vdc_data_of_key;
    v->super.vpid_of = vdc_vpid_of; v->super.vpid_of_key = vdc_vpid_of_key;
    v->super.key_to_string = vdc_key_to_string;
    return v;
}
static void *vdc_elem(vdc_t *v, int i) { return v->storage + (size_t)i * v->elem_bytes; }
static void vdc_free(vdc_t *v)
{
    for (int i = 0; i < v->n; i++) if (v->data[i]) parsec_data_destroy(v->data[i]);
    parsec_data_collection_destroy(&v->super);
    free(v->owner); free(v->data); free(v->storage); free(v);
}
#endif
