#ifndef VTSAN_H
#define VTSAN_H
/* kinds reported to the callback */
#define VTSAN_READ        0
#define VTSAN_WRITE       1
#define VTSAN_ATOMIC_LOAD 2
#define VTSAN_ATOMIC_RMW  3   /* store, exchange, fetch-op, CAS */
#define VTSAN_RANGE_READ  4   /* interposed memcpy source etc. (reported by harness code) */
#define VTSAN_RANGE_WRITE 5
typedef void (*vtsan_cb_t)(int kind, void *addr, int size);
extern vtsan_cb_t vtsan_cb;
#endif
