/* C12: user-triggered termination reaches every process exactly once (E3 / vranks).
 * The REAL parsec/mca/termdet/user_trigger/termdet_user_trigger_module.c is included below; N virtual
 * ranks (fake contexts + taskpools) share this address space; parsec_ce.send_am and parsec_taskpool_lookup
 * are harness stubs. No MPI call is ever made.
 *
 *   ut_h sweep <Nlo> <Nhi> <roots: all|few> <orders: 1|2> <delayed: 0|1>   one full run per (N, root, order)
 *   ut_h bfs <N> <hold: 0|1>                                               all delivery/ready/trigger orders
 */
#include "parsec/parsec_config.h"
#include "parsec/parsec_internal.h"
#include "parsec/class/list.h"
#include "parsec/parsec_comm_engine.h"
#include "parsec/mca/termdet/user_trigger/termdet_user_trigger_module.c"
#include "vranks.h"

#define TPID 1u
#define MAXD 8          /* delayed messages kept per rank (BFS mode) */
typedef parsec_termdet_user_trigger_monitor_t mon_t;
typedef parsec_termdet_user_trigger_msg_t utmsg_t;
typedef parsec_termdet_user_trigger_delayed_msg_t dmsg_t;
static const parsec_termdet_base_module_t *M = &parsec_termdet_user_trigger_module.module;

typedef struct {
    uint8_t registered, held, cb, recv, nd;
    int16_t from;                               /* who notified me (sweep bookkeeping, not part of the state) */
    struct { uint8_t src; utmsg_t m; } d[MAXD]; /* this rank's share of the (process-global) delayed list */
} rk_t;
static int N, cur = -1, triggered = -1, HOLD = 0;
static parsec_context_t **ctxs; static parsec_taskpool_t **tps; static rk_t *rk;
static mon_t mon0; static int32_t nbt0, nbpa0;   /* pristine values right after the real monitor_taskpool() */
static vr_net_t net;
static long handler_calls = 0;
/* sweep-mode queue (one message per pair at most, so any pick respects per-channel FIFO) */
static vr_msg_t *swq; static int swh, swt, swcap; static int sweep_mode = 0;

static inline mon_t *MON(int r) { return (mon_t *)tps[r]->tdm.monitor; }

/* ---- stubs seen by the module ---- */
parsec_taskpool_t *parsec_taskpool_lookup(uint32_t id)
{
    if (id != TPID || cur < 0) return NULL;
    return rk[cur].registered ? tps[cur] : NULL;
}
static int stub_send_am(parsec_comm_engine_t *ce, parsec_ce_tag_t tag, int remote, void *addr, size_t size)
{
    (void)ce;
    if (tag != PARSEC_TERMDET_USER_TRIGGER_MSG_TAG) vr_fail("rank %d sends on unexpected tag %lu", cur, (unsigned long)tag);
    if (remote < 0 || remote >= N) { vr_fail("rank %d sends a notification to rank %d which is outside the communicator of %d processes", cur, remote, N); return 0; }
    if (remote == cur) { vr_fail("rank %d sends a termination notification to itself", cur); return 0; }
    if (size != sizeof(utmsg_t)) { vr_fail("unexpected message size %zu", size); return 0; }
    if (sweep_mode && swt >= swcap) { vr_fail("more than %d notifications in flight for %d processes", swcap, N); return 0; }
    if (sweep_mode) { vr_msg_t *x = &swq[swt++]; x->src = (uint16_t)cur; x->dst = (uint16_t)remote; x->cls = 0; x->len = (uint8_t)size; memcpy(x->data, addr, size); net.total++; }
    else vr_net_send(&net, cur, remote, 0, addr, size);
    return 0;
}
static void term_cb(parsec_taskpool_t *tp)
{
    int r = tp->context->my_rank;
    if (tp != tps[r]) vr_fail("callback invoked with a foreign taskpool");
    if (r != cur) vr_fail("termination callback of rank %d fired while rank %d was executing", r, cur);
    if (++rk[r].cb > 1) vr_fail("termination callback of rank %d fired %d times", r, rk[r].cb);
}

/* ---- delayed-message list virtualisation: the list is one process global keyed by taskpool id only ---- */
#define POOLN 16
static dmsg_t pool[POOLN];
static void enter(int r)
{
    cur = r;
    for (int i = 0; i < rk[r].nd; i++) {
        dmsg_t *d = &pool[i]; memset(d, 0, sizeof(*d)); PARSEC_LIST_ITEM_SINGLETON(d);
        d->ce = &parsec_ce; d->module = NULL; d->tag = PARSEC_TERMDET_USER_TRIGGER_MSG_TAG; d->size = sizeof(utmsg_t); d->src = rk[r].d[i].src;
        memcpy(d->msg, &rk[r].d[i].m, sizeof(utmsg_t));
        parsec_list_nolock_push_back(&parsec_termdet_user_trigger_delayed_messages, &d->list_item);
    }
    rk[r].nd = 0;
}
static void leave(int r)
{
    parsec_list_item_t *it;
    while (NULL != (it = parsec_list_nolock_pop_front(&parsec_termdet_user_trigger_delayed_messages))) {
        dmsg_t *d = (dmsg_t *)it;
        if (rk[r].nd >= MAXD) { vr_fail("harness: more than %d delayed messages on rank %d", MAXD, r); }
        else { rk[r].d[rk[r].nd].src = (uint8_t)d->src; memcpy(&rk[r].d[rk[r].nd].m, d->msg, sizeof(utmsg_t)); rk[r].nd++; }
        if (d < pool || d >= pool + POOLN) free(d);
    }
    cur = -1;
}

/* ---- world ---- */
static int WCAP = 0;
static void world_create(int n)                /* (re)size the world to n ranks; objects are created once and reused */
{
    if (n > WCAP) {
        ctxs = realloc(ctxs, n * sizeof(*ctxs)); tps = realloc(tps, n * sizeof(*tps)); rk = realloc(rk, n * sizeof(*rk)); memset(rk, 0, n * sizeof(*rk));
        swcap = (n + 8) * 2; swq = realloc(swq, swcap * sizeof(vr_msg_t));
        for (int r = WCAP; r < n; r++) {
            ctxs[r] = calloc(1, sizeof(parsec_context_t)); ctxs[r]->my_rank = r;
            tps[r] = calloc(1, sizeof(parsec_taskpool_t)); tps[r]->taskpool_id = TPID; tps[r]->context = ctxs[r];
            tps[r]->tdm.module = M;
            M->monitor_taskpool(tps[r], term_cb);            /* real initialisation */
            if (0 == r) { mon0 = *MON(0); nbt0 = tps[0]->nb_tasks; nbpa0 = tps[0]->nb_pending_actions; }   /* pristine snapshot */
        }
        WCAP = n;
    }
    N = n;
    for (int r = 0; r < n; r++) ctxs[r]->nb_nodes = n;
}
static void world_destroy(void) { }
static void world_reset(void)
{
    for (int r = 0; r < N; r++) { *MON(r) = mon0; tps[r]->nb_tasks = nbt0; tps[r]->nb_pending_actions = nbpa0; tps[r]->tdm.callback = term_cb; memset(&rk[r], 0, 5); rk[r].from = -1; }
    vr_net_reset(&net); swh = swt = 0; triggered = -1; cur = -1;
}

/* ---- the elementary events (each calls the real module) ---- */
static void ev_ready(int r) { enter(r); handler_calls++; M->taskpool_ready(tps[r]); leave(r); }
static void ev_trigger(int r) { enter(r); handler_calls++; triggered = r; M->taskpool_set_nb_tasks(tps[r], 0); leave(r); }
static void ev_release(int r) { enter(r); handler_calls++; rk[r].held = 0; M->taskpool_addto_runtime_actions(tps[r], -1); leave(r); }
static void ev_deliver(const vr_msg_t *m)
{
    int d = m->dst;
    if (rk[d].cb) { vr_fail("rank %d is notified again (by rank %d) after it has already terminated", d, m->src); return; }
    if (++rk[d].recv > 1) { vr_fail("rank %d receives a second termination notification (from rank %d)", d, m->src); return; }
    if (d == triggered) { vr_fail("the triggering rank %d receives a termination notification (from rank %d)", d, m->src); return; }
    rk[d].from = (int16_t)m->src;
    utmsg_t copy; memcpy(&copy, m->data, sizeof(copy));
    enter(d); handler_calls++;
    parsec_termdet_user_trigger_msg_dispatch(&parsec_ce, PARSEC_TERMDET_USER_TRIGGER_MSG_TAG, &copy, sizeof(copy), m->src, NULL);
    leave(d);
}
static void final_checks(void)
{
    for (int r = 0; r < N && !vr_failed; r++) {
        if (rk[r].cb != 1) vr_fail("rank %d: termination callback fired %d times after quiescence (N=%d, trigger on rank %d)", r, rk[r].cb, N, triggered);
        else if (r != triggered && rk[r].recv != 1) vr_fail("rank %d was notified %d times", r, rk[r].recv);
        else if (MON(r)->state != PARSEC_TERMDET_USER_TRIGGER_TERMINATED) vr_fail("rank %d is not in TERMINATED state", r);
        else if (M->taskpool_state(tps[r]) != PARSEC_TERM_TP_TERMINATED) vr_fail("taskpool_state(rank %d) is not TERMINATED", r);
        else if (rk[r].nd) vr_fail("rank %d still holds a delayed message", r);
    }
}

/* ======================================================================== sweep */
static sx_set_t trees;
static void one_run(int root, int order, int delayed, int verbose)
{
    world_reset();
    if (!delayed) { for (int r = 0; r < N; r++) { rk[r].registered = 1; ev_ready(r); } }
    else { rk[root].registered = 1; ev_ready(root); }   /* the others learn about the taskpool later: notifications are parked */
    ev_trigger(root);
    while (swh < swt && !vr_failed) {
        vr_msg_t m = (order == 0) ? swq[swh++] : swq[--swt];
        if (verbose) printf("  deliver %d -> %d (root field %d)\n", m.src, m.dst, ((utmsg_t *)m.data)->root);
        ev_deliver(&m);
    }
    if (delayed && !vr_failed) {
        /* every rank != root registers / becomes ready in an order that depends on `order`; parked notifications fire from taskpool_ready */
        for (int k = 0; k < N && !vr_failed; k++) { int r = order == 0 ? k : N - 1 - k; if (r == root) continue;
            if (verbose) printf("  ready %d (cb so far %d)\n", r, rk[r].cb);
            rk[r].registered = 1; ev_ready(r);
            while (swh < swt && !vr_failed) { vr_msg_t m = (order == 0) ? swq[swh++] : swq[--swt]; if (verbose) printf("  deliver %d -> %d\n", m.src, m.dst); ev_deliver(&m); } }
    }
    if (!vr_failed && net.total != N - 1) vr_fail("%ld notifications were sent for %d processes (expected %d)", net.total, N, N - 1);
    if (!vr_failed) final_checks();
}
static int run_sweep(int nlo, int nhi, const char *roots, int orders, int delayed, const char *label)
{
    double t0 = sx_now(); long runs = 0, nontriv = 0; int viol = 0, exhaustive = 1; char sample[3][768]; int ns = 0; long calls0 = handler_calls;
    sweep_mode = 1; memset(&trees, 0, sizeof(trees));
    for (int n = nlo; n <= nhi && viol < 3 && exhaustive; n++) {
        if (sx_deadline > 0 && sx_now() > sx_deadline) { exhaustive = 0; break; }
        world_create(n);
        int few[4] = { 0, 1 % n, n / 2, n - 1 };
        int nroots = !strcmp(roots, "all") ? n : 4;
        for (int ri = 0; ri < nroots && viol < 3; ri++) {
            int root = !strcmp(roots, "all") ? ri : few[ri];
            if (strcmp(roots, "all") && ri > 0) { int dup = 0; for (int q = 0; q < ri; q++) dup |= few[q] == root; if (dup) continue; }
            for (int order = 0; order < orders && viol < 3; order++) {
                vr_failed = 0;
                VR_GUARDED(one_run(root, order, delayed, 0));
                runs++; nontriv += n >= 3;
                if (vr_failed) {
                    char h[128]; snprintf(h, sizeof(h), "N=%d root=%d order=%d delayed=%d", n, root, order, delayed);
                    vr_violation(label, "sweep", h, vr_failmsg); viol++; vr_failed = 0; cur = -1;
                    /* the module may have been left mid-handler: rebuild the world */
                    parsec_list_item_t *it; while (NULL != (it = parsec_list_nolock_pop_front(&parsec_termdet_user_trigger_delayed_messages))) (void)it;
                    continue;
                }
                /* outcome = the notification tree that was observed */
                { uint64_t h1 = 1469598103934665603ULL ^ (uint64_t)n, h2 = 0x9E3779B97F4A7C15ULL + root; for (int r = 0; r < n; r++) { h1 = (h1 ^ (uint16_t)rk[r].from) * 1099511628211ULL; h2 = (h2 ^ (uint16_t)rk[r].from) * 0xff51afd7ed558ccdULL; h2 ^= h2 >> 29; }
                  sx_h128_t hh = { h1, h2 }; sx_set_add(&trees, hh); }
                if (ns < 3 && order == 0 && ((n == 5 && root == 3) || (n == nhi && root == n - 1) || (n == (nlo + nhi) / 2 && root == 1))) {
                    size_t o = snprintf(sample[ns], sizeof(sample[0]), "N=%d root=%d delayed=%d parents:", n, root, delayed);
                    for (int r = 0; r < n && r < 24 && o + 16 < sizeof(sample[0]); r++) o += snprintf(sample[ns] + o, sizeof(sample[0]) - o, " %d<-%d", r, rk[r].from);
                    ns++;
                }
            }
        }
        world_destroy();
    }
    const char *sp[3] = { sample[0], sample[1], sample[2] }; char extra[256];
    snprintf(extra, sizeof(extra), "\"n_lo\":%d,\"n_hi\":%d,\"roots\":\"%s\",\"orders\":%d,\"delayed_variant\":%d", nlo, nhi, roots, orders, delayed);
    vr_report(label, (long)trees.n, handler_calls - calls0, runs, nontriv, (long)trees.n, exhaustive && !viol, viol, sx_now() - t0, extra, sp, ns);
    free(trees.v); sweep_mode = 0;
    return viol;
}

/* ======================================================================== BFS over all orders */
enum { T_REG = 1, T_READY, T_TRIG, T_REL, T_DELIV };
#define TR(k, a, b) (((uint32_t)(k) << 16) | ((uint32_t)(a) << 8) | (uint32_t)(b))
static void b_init(void)
{
    world_reset();
    for (int r = 0; r < N; r++) if (HOLD) { rk[r].held = 1; cur = r; M->taskpool_addto_runtime_actions(tps[r], 1); cur = -1; }
}
static size_t b_encode(uint8_t *b, size_t cap)
{
    size_t o = 0; (void)cap;
    b[o++] = (uint8_t)(triggered + 1);
    for (int r = 0; r < N; r++) {
        mon_t *m = MON(r);
        b[o++] = (uint8_t)(rk[r].registered | rk[r].held << 1 | (rk[r].cb & 3) << 2 | (rk[r].recv & 3) << 4 | ((unsigned)m->state & 3) << 6);
        b[o++] = (uint8_t)(m->root + 1);
        int32_t v = tps[r]->nb_tasks; memcpy(b + o, &v, 4); o += 4; v = tps[r]->nb_pending_actions; memcpy(b + o, &v, 4); o += 4;
        b[o++] = rk[r].nd;
        for (int i = 0; i < rk[r].nd; i++) { b[o++] = rk[r].d[i].src; b[o++] = (uint8_t)(rk[r].d[i].m.root + 1); }
    }
    o += vr_net_encode(&net, b + o);
    return o;
}
static void b_decode(const uint8_t *b, size_t len)
{
    size_t o = 0; (void)len;
    triggered = (int)b[o++] - 1;
    for (int r = 0; r < N; r++) {
        mon_t *m = MON(r); uint8_t f = b[o++];
        rk[r].registered = f & 1; rk[r].held = (f >> 1) & 1; rk[r].cb = (f >> 2) & 3; rk[r].recv = (f >> 4) & 3; m->state = (parsec_termdet_user_trigger_state_t)(f >> 6);
        m->root = (int32_t)b[o++] - 1;
        int32_t v; memcpy(&v, b + o, 4); o += 4; tps[r]->nb_tasks = v; memcpy(&v, b + o, 4); o += 4; tps[r]->nb_pending_actions = v;
        rk[r].nd = b[o++];
        for (int i = 0; i < rk[r].nd; i++) { rk[r].d[i].src = b[o++]; rk[r].d[i].m.tp_id = TPID; rk[r].d[i].m.root = (int32_t)b[o++] - 1; }
    }
    o += vr_net_decode(&net, b + o);
    cur = -1;
}
static int b_enabled(uint32_t *out, int cap)
{
    int k = 0; (void)cap;
    for (int r = 0; r < N; r++) {
        mon_t *m = MON(r);
        if (!rk[r].registered) out[k++] = TR(T_REG, r, 0);
        else if (m->state == PARSEC_TERMDET_USER_TRIGGER_NOT_READY) out[k++] = TR(T_READY, r, 0);
        if (m->state == PARSEC_TERMDET_USER_TRIGGER_BUSY && triggered < 0) out[k++] = TR(T_TRIG, r, 0);
        if (rk[r].held && m->state != PARSEC_TERMDET_USER_TRIGGER_NOT_READY) out[k++] = TR(T_REL, r, 0);
    }
    for (int i = 0; i < net.n; i++) if (vr_net_is_head(&net, i)) out[k++] = TR(T_DELIV, net.m[i].src, net.m[i].dst);
    return k;
}
static void b_fire(uint32_t tr)
{
    int k = tr >> 16, a = (tr >> 8) & 255, b = tr & 255;
    switch (k) {
    case T_REG: rk[a].registered = 1; break;
    case T_READY: ev_ready(a); break;
    case T_TRIG: ev_trigger(a); break;
    case T_REL: ev_release(a); break;
    case T_DELIV: { int i = vr_net_find_head(&net, a, b, 0); vr_msg_t m = vr_net_take(&net, i); ev_deliver(&m); break; }
    }
}
static int b_goal(void)
{
    if (net.n || triggered < 0) return 0;
    for (int r = 0; r < N; r++) if (rk[r].cb != 1 || rk[r].nd || rk[r].recv != (r != triggered) || MON(r)->state != PARSEC_TERMDET_USER_TRIGGER_TERMINATED) return 0;
    return 1;
}
static int b_nontrivial(void) { if (net.n) return 1; for (int r = 0; r < N; r++) if (rk[r].nd) return 1; return 0; }
static void b_trname(uint32_t tr, char *buf, size_t cap)
{
    int k = tr >> 16, a = (tr >> 8) & 255, b = tr & 255;
    switch (k) {
    case T_REG: snprintf(buf, cap, "register(%d)", a); break;
    case T_READY: snprintf(buf, cap, "ready(%d)", a); break;
    case T_TRIG: snprintf(buf, cap, "trigger(%d)", a); break;
    case T_REL: snprintf(buf, cap, "release(%d)", a); break;
    case T_DELIV: snprintf(buf, cap, "deliver(%d>%d)", a, b); break;
    default: snprintf(buf, cap, "?"); }
}
static void b_describe(char *buf, size_t cap)
{
    size_t o = snprintf(buf, cap, "trigger=%d;", triggered);
    static const char *sn[] = { "NOT_READY", "BUSY", "TERMINATED", "?" };
    for (int r = 0; r < N && o + 64 < cap; r++) o += snprintf(buf + o, cap - o, " r%d[%s%s root=%d pa=%d cb=%d recv=%d parked=%d]", r, rk[r].registered ? "" : "unregistered,", sn[MON(r)->state & 3], MON(r)->root, tps[r]->nb_pending_actions, rk[r].cb, rk[r].recv, rk[r].nd);
    o += snprintf(buf + o, cap - o, " inflight=%d", net.n);
}
static void make_bfs_system(vr_system_t *s, int n, int hold)
{
    memset(s, 0, sizeof(*s)); snprintf(s->name, sizeof(s->name), "bfs_N%d_hold%d", n, hold);
    HOLD = hold; net.canonical = 1; sweep_mode = 0;
    s->init = b_init; s->encode = b_encode; s->decode = b_decode; s->enabled = b_enabled; s->fire = b_fire; s->is_goal = b_goal;
    s->nontrivial = b_nontrivial; s->trname = b_trname; s->describe = b_describe;
}

/* a handler was aborted (assertion / crash): the module may still hold the delayed-list lock and list items */
static void recover(void) { PARSEC_OBJ_CONSTRUCT(&parsec_termdet_user_trigger_delayed_messages, parsec_list_t); cur = -1; }

int main(int argc, char **argv)
{
    vr_recover = recover;
    sx_init(argc, argv, "C12");
    vr_install_guard();
    PARSEC_OBJ_CONSTRUCT(&parsec_termdet_user_trigger_delayed_messages, parsec_list_t);
    parsec_ce.send_am = stub_send_am;
    if (sx_replay_file) {
        char scen[128], kind[32], hist[1 << 14];
        if (vr_read_replay(sx_replay_file, scen, sizeof(scen), kind, sizeof(kind), hist, sizeof(hist))) { fprintf(stderr, "cannot read %s\n", sx_replay_file); return 2; }
        int n, hold, root, order, delayed;
        if (!strcmp(kind, "sweep")) {
            if (sscanf(hist, "N=%d root=%d order=%d delayed=%d", &n, &root, &order, &delayed) != 4) return 2;
            sweep_mode = 1; world_create(n); vr_failed = 0;
            printf("replay: N=%d, trigger on rank %d, order %s, %s\n", n, root, order ? "LIFO" : "FIFO", delayed ? "receivers not ready" : "all ready");
            VR_GUARDED(one_run(root, order, delayed, 1));
            for (int r = 0; r < n && n <= 64; r++) printf("  rank %d: callbacks=%d notifications=%d from=%d\n", r, rk[r].cb, rk[r].recv, rk[r].from);
            if (vr_failed) { printf("  %s\nVIOLATION property=C12 replay=%s\n", vr_failmsg, sx_replay_file); return 1; }
            printf("replay: case passes\n"); return 0;
        }
        if (sscanf(scen, "bfs_N%d_hold%d", &n, &hold) != 2) return 2;
        vr_system_t sys; world_create(n); make_bfs_system(&sys, n, hold);
        return vr_replay(&sys, kind, hist);
    }
    /* positional arguments after the options */
    const char *mode = NULL; const char *pa[8]; int np = 0;
    for (int i = 1; i < argc; i++) {
        if (!strncmp(argv[i], "--", 2)) { if (strcmp(argv[i], "--thorough")) i++; continue; }
        if (!mode) mode = argv[i]; else if (np < 8) pa[np++] = argv[i];
    }
    if (mode && !strcmp(mode, "sweep") && np >= 5) {
        char label[128]; snprintf(label, sizeof(label), "sweep_N%s_%s_roots_%s%s", pa[0], pa[1], pa[2], atoi(pa[4]) ? "_parked" : "");
        run_sweep(atoi(pa[0]), atoi(pa[1]), pa[2], atoi(pa[3]), atoi(pa[4]), label);
    } else if (mode && !strcmp(mode, "bfs") && np >= 2) {
        vr_system_t sys; vr_stats_t S; world_create(atoi(pa[0])); make_bfs_system(&sys, atoi(pa[0]), atoi(pa[1]));
        vr_search(&sys, 0, 1, &S);
    } else { fprintf(stderr, "usage: ut_h [options] sweep Nlo Nhi all|few orders delayed | bfs N hold\n"); return 2; }
    return sx_finish();
}
