META = dict(
    engine='cosched+seqx',
    technique='stateless model checking: preemption-bounded exhaustive schedule enumeration (CHESS) of the real parsec_hash_table.c with forced resizes, brute-force linearizability against a sequential map; plus BFS over all sequential operation histories against a reference map',
    level_text='E1: every schedule with <= b preemptions (quick: b=2 for four 2-thread scripts, b=1 for the six larger ones; thorough: b=3 for the 2-thread, b=2 for the 3-thread scripts) of ten 2-3 thread scripts (insert/find/remove/find-or-insert under lock_bucket) over the real table with nb_bits=1, max_collisions_hint=1 and colliding key hashes, so that resizes and migrations out of old tables happen inside the explored window; each history is checked for linearizability against a map with unique keys, and at quiescence for_all visits each stored element once, no table was unlinked while non-empty, every lock is free. E2: all sequential histories up to depth 6 (quick) / closure (thorough) over 5 keys with hints 1 and 2, reference map + structural invariants after every operation.',
    level_note='Sequential consistency at instrumented accesses (gcc -fsanitize=thread instrumentation + own runtime); 2-3 threads, <= 2 operations per thread; the property text speaks of 1..16 threads: only 2-3 are explored, exhaustively within the preemption bound.',
)
RULE = ("cosched: every schedule of each 2-3 thread script over the real hash table with at most b preemptions "
        "(scheduling points = every instrumented access to the table's rwlock, rw_hash pointer, every table's next/used_buckets, "
        "all bucket arrays and the items' links, plus the blocking hooks); a schedule is non-trivial when it contains at least one "
        "preemption; states = nodes of the explored schedule tree. seqx: BFS over operation histories deduplicated by the canonical "
        "layout (per table and bucket: chained keys in order); non-trivial = shortest history has >= 2 operations")
ASSUME = ["sequential consistency at instrumented accesses (no weak-memory effects)",
          "gcc -fsanitize=thread instrumentation reports every access to the watched objects",
          "usage contract respected: insert is never called for a key that is present",
          "2-3 threads with 1-2 operations each (not 16 threads)"]


def build_conc(ctx):
    return ctx.compile('hk-shm', 'ht_conc', ['ht_conc.c'], engine='cosched')


def build_seq(ctx):
    return ctx.compile('hk-shm', 'ht_seq', ['ht_seq.c'], instr=False)


TWO = ['resize_vs_find_remove', 'resize_vs_insert_find', 'migrate_vs_remove_old', 'two_old_tables_emptied', 'inserts_meet_in_new_bucket']
TWO_BIG = ['double_overflow', 'find_or_insert_same_key']
THREE = ['migrate_migrate_remove', 'find_or_insert_vs_remove', 'walk_old_tables_during_unlink', 'design_3threads', 'inserts_meet_in_new_bucket_3t']


def conc(ctx, exe, names, bound, deadline, label):
    import os
    from vlib import NJOBS, OUT
    env = dict(os.environ); env['C32_SET'] = ','.join(names)
    args = ['--bound', str(bound), '--jobs', str(NJOBS), '--outdir', OUT, '--deadline', str(int(deadline))]
    return ctx.run_engine(exe, args, label=label, timeout=deadline + 600, env=env)


def check(ctx):
    quick = ctx.tier == 'quick'
    seq = build_seq(ctx)
    ctx.run_engine(seq, ['--outdir', '/verif/out', '--deadline', '20' if quick else '300'] + ([] if quick else ['--thorough']), label='ht_seq', timeout=900)
    exe = build_conc(ctx)
    if quick:
        # one invocation per script (the engine's deadline is per invocation): every script completes bound 1 even on a loaded machine
        for s in TWO:
            conc(ctx, exe, [s], 2, 9, 'b2_' + s)
        for s in TWO_BIG + THREE:
            conc(ctx, exe, [s], 1, 7, 'b1_' + s)
    else:
        # one invocation per script so that every script gets its own share of the thorough budget (the engine's deadline is per invocation)
        for s in TWO + TWO_BIG:
            conc(ctx, exe, [s], 3, 100, 'b3_' + s)
        for s in THREE:
            conc(ctx, exe, [s], 2, 100, 'b2_' + s)
    return ctx.finish(RULE, ASSUME)


def replay(ctx, path, obj):
    import subprocess
    if obj.get('engine') == 'seqx':
        return subprocess.call([build_seq(ctx), '--replay', path])
    return subprocess.call([build_conc(ctx), '--replay', path])
