"""C18: generator of the typed-flow JDF family.

A *structure* is a multiset of 1..3 consumer kinds.  Every structure becomes one JDF (sNNN.jdf) whose dependency
annotations name *type slots* (TO1, TI1, RO1, ... ) that the driver binds at run time to the FULL / LOWER / UPPER
arena-datatypes, so one compiled JDF serves every type combination, tile size and placement.

Program shape (NC consumers, j = 1..NC):
   P(0)  on rank 0            RW A <- descA(0)            -> A Cj(0) [out annotation of kind j]      (absent if no consumer reads from P)
   Cj(0) on owner(descR(j-1)) RW A <- A P(0) [in annotation]  |  <- descA(0) [type_data/type]        body: snapshot of the copy it received
   Wj(0) same rank            RW A <- A Cj(0)   after ALL C (CTL barrier)                              body: writes marker j into the whole copy
   Dj(0) same rank            READ A <- A Wj(0) after ALL W (CTL barrier)                              body: second snapshot
"""
import itertools

# kind -> (out annotation on P's dep, in annotation on C's dep, reads_collection, slots used)
#   {j} is replaced by the consumer index (1-based); the shared-slot kind uses the same names for every consumer
KINDS = {
    'n':  dict(out='',                                    inn='',                                    coll=False),   # no type at all
    'o':  dict(out='[type = TO{j}]',                      inn='',                                    coll=False),   # type on the producer's output dep
    'b':  dict(out='[type = TO{j}]',                      inn='[type = TI{j}]',                      coll=False),   # type on both sides
    'i':  dict(out='',                                    inn='[type = TI{j}]',                      coll=False),   # type on the input dep only
    'r':  dict(out='[type_remote = RO{j}]',               inn='[type_remote = RI{j}]',               coll=False),   # type_remote on both sides
    's':  dict(out='[type_remote = RSO]',                 inn='[type_remote = RSI]',                 coll=False),   # type_remote, slot shared by all 's' consumers
    'x':  dict(out='[type = TO{j} type_remote = RO{j}]',  inn='[type = TI{j} type_remote = RI{j}]',  coll=False),   # both type and type_remote
    'd':  dict(out=None,                                  inn='[type_data = TD{j}]',                 coll=True),    # reads the collection with type_data
    'e':  dict(out=None,                                  inn='[type = TI{j} type_data = TD{j}]',    coll=True),    # reads the collection with type and type_data
}
KIND_ORDER = 'nobirsxde'
SLOTS = ['TO1', 'TO2', 'TO3', 'TI1', 'TI2', 'TI3', 'RO1', 'RO2', 'RO3', 'RI1', 'RI2', 'RI3', 'TD1', 'TD2', 'TD3', 'RSO', 'RSI']


def structures(tier):
    """multisets of kinds: all singles and pairs; triples over a reduced kind set (thorough: more)"""
    out = []
    for k in KIND_ORDER:
        out.append(k)
    for a, b in itertools.combinations_with_replacement(KIND_ORDER, 2):
        out.append(a + b)
    tri = 'nobrsd' if tier == 'thorough' else 'obr'
    for t in itertools.combinations_with_replacement(tri, 3):
        out.append(''.join(t))
    return out


def slots_of(struct):
    used = []
    for j, k in enumerate(struct, 1):
        for part in (KINDS[k]['out'] or '', KINDS[k]['inn']):
            for w in part.replace('[', ' ').replace(']', ' ').replace('=', ' ').split():
                w = w.replace('{j}', str(j))
                if w in SLOTS and w not in used:
                    used.append(w)
    return used


def jdf_text(name, struct):
    nc = len(struct)
    has_p = any(not KINDS[k]['coll'] for k in struct)
    L = []
    L.append('extern "C" %{')
    L.append('#include "parsec/data_distribution.h"')
    L.append('extern void vc_prod(void *A);')
    L.append('extern void vc_snap(int j, int stage, void *A);')
    L.append('extern void vc_write(int j, void *A);')
    L.append('%}')
    L.append('descA [type = "parsec_data_collection_t*"]')
    L.append('descR [type = "parsec_data_collection_t*"]')
    L.append('')
    if has_p:
        L.append('P(z)')
        L.append('z = 0 .. 0')
        L.append(': descA(0)')
        first = True
        for j, k in enumerate(struct, 1):
            if KINDS[k]['coll']:
                continue
            ann = KINDS[k]['out'].replace('{j}', str(j))
            L.append('%s -> A C%d(0) %s' % ('RW A <- descA(0)\n    ' if first else '    ', j, ann))
            first = False
        L.append('BODY')
        L.append('    vc_prod(A);')
        L.append('END')
        L.append('')
    for j, k in enumerate(struct, 1):
        ann = KINDS[k]['inn'].replace('{j}', str(j))
        L.append('C%d(z)' % j)
        L.append('z = 0 .. 0')
        L.append(': descR(%d)' % (j - 1))
        L.append('RW A <- %s %s' % ('descA(0)' if KINDS[k]['coll'] else 'A P(0)', ann))
        L.append('     -> A W%d(0)' % j)
        for i in range(1, nc + 1):
            L.append('CTL X%d -> X%d W%d(0)' % (i, j, i))
        L.append('BODY')
        L.append('    vc_snap(%d, 0, A);' % j)
        L.append('END')
        L.append('')
        L.append('W%d(z)' % j)
        L.append('z = 0 .. 0')
        L.append(': descR(%d)' % (j - 1))
        L.append('RW A <- A C%d(0)' % j)
        L.append('     -> A D%d(0)' % j)
        for i in range(1, nc + 1):
            L.append('CTL X%d <- X%d C%d(0)' % (i, j, i))
        for i in range(1, nc + 1):
            L.append('CTL Y%d -> Y%d D%d(0)' % (i, j, i))
        L.append('BODY')
        L.append('    vc_write(%d, A);' % j)
        L.append('END')
        L.append('')
        L.append('D%d(z)' % j)
        L.append('z = 0 .. 0')
        L.append(': descR(%d)' % (j - 1))
        L.append('READ A <- A W%d(0)' % j)
        for i in range(1, nc + 1):
            L.append('CTL Y%d <- Y%d W%d(0)' % (i, j, i))
        L.append('BODY')
        L.append('    vc_snap(%d, 1, A);' % j)
        L.append('END')
        L.append('')
    return '\n'.join(L) + '\n'


def glue_text(names_structs):
    L = ['/* generated by gen.py */', '#include "parsec.h"', '#include "parsec/arena.h"', '#include "c18.h"']
    for name, _ in names_structs:
        L.append('#include "%s.h"' % name)
    for name, struct in names_structs:
        L.append('static parsec_taskpool_t *mk_%s(parsec_data_collection_t *A, parsec_data_collection_t *R, parsec_arena_datatype_t *dflt, parsec_arena_datatype_t **slot)' % name)
        L.append('{')
        L.append('    parsec_%s_taskpool_t *tp = parsec_%s_new(A, R);' % (name, name))
        L.append('    tp->arenas_datatypes[PARSEC_%s_DEFAULT_ADT_IDX] = *dflt;' % name)
        for s in slots_of(struct):
            L.append('    tp->arenas_datatypes[PARSEC_%s_%s_ADT_IDX] = *slot[SLOT_%s];' % (name, s, s))
        L.append('    (void)slot; return &tp->super;')
        L.append('}')
    L.append('const c18_struct_t c18_structs[] = {')
    for name, struct in names_structs:
        L.append('    { "%s", "%s", %d, mk_%s },' % (name, struct, len(struct), name))
    L.append('    { NULL, NULL, 0, NULL } };')
    return '\n'.join(L) + '\n'


def header_text():
    L = ['/* generated by gen.py */', '#ifndef C18_H', '#define C18_H', '#include "parsec.h"',
         'enum { ' + ', '.join('SLOT_%s' % s for s in SLOTS) + ', SLOT_COUNT };',
         'static const char *c18_slot_names[] = { ' + ', '.join('"%s"' % s for s in SLOTS) + ' };',
         'typedef struct { const char *name, *kinds; int nc;',
         '    parsec_taskpool_t *(*mk)(parsec_data_collection_t *A, parsec_data_collection_t *R, parsec_arena_datatype_t *dflt, parsec_arena_datatype_t **slot); } c18_struct_t;',
         'extern const c18_struct_t c18_structs[];', '#endif']
    return '\n'.join(L) + '\n'
