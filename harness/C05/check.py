import os, sys, json, time, subprocess, itertools, shutil

HERE = os.path.dirname(os.path.abspath(__file__))
sys.path.insert(0, os.path.join(os.environ.get('VERIF_ROOT', '/verif'), 'engine', 'mp'))
sys.path.insert(0, HERE)
import mp    # noqa: E402
import gen   # noqa: E402
import vlib  # noqa: E402

META = dict(
    engine='mp',
    technique='explicit enumeration of a finite box: a generated family of PTG programs x every owner table of their tiles x process count x broadcast topology x short-message limit x thread count, each point executed as a real taskpool on the real distributed runtime and compared with a sequential reference interpreter',
    level_text='A generated family of PTG programs whose task placement is a data-collection access (value chain across ranks, RW pipeline of one travelling tile, broadcast of one output to a (strided) range of consumers, one task with two outputs whose destination sets differ, 2- and 3-way gathers, a diamond, a control-only chain) is run for EVERY assignment of its tiles to ranks (all n^N owner tables: this contains every block-cyclic, tabular and hash placement), for mpiexec -n 1..4 (quick: 1..2 plus the 3-rank two-output reproducer), runtime_comm_coll_bcast in {0,1,2} (star, chain, binomial), runtime_comm_short_limit in {0, default 1 KiB} with tiles of 64 B, 1120 B and 2 KiB (data inside the activation message, at the boundary of the short buffer, rendezvous), 1 and 2 compute threads. For every point: each task instance ran exactly once and on the rank of its placement, read on every flow exactly the value the sequential reference reads (tiles are self-checking, 8, 140 or 256 words), the gathered final contents of both collections equal the reference, and every process terminated. The effective MCA values are read back from the runtime and must equal the requested ones.',
    level_note='E5: message timing and thread interleaving are NOT controlled (each point is executed once per run with whatever order OpenMPI 4.1.4 ob1/vader and the scheduler produce); exhaustive over programs x placements x configurations only. The forwarding logic itself is decided exhaustively by C13. Known findings C13-chain-relay-missing-output / C13-binomial-relay-missing-output: a point is predicted to lose an activation by a model of the propagation loop of remote_dep.c (computed from the destination sets and the order of ranks after the root, never from a program name); such points run alone, and their failure is reported as KNOWN-FINDING only if every predicted loss satisfies the attribution rule and the finding is listed; a failure anywhere else, or a predicted loss that does not happen, is not excused. Not generated: one output flow sent with several different remote shapes (documented unsupported case); write-backs to remote tiles; datatypes other than one contiguous tile type.',
)
RULE = ("box = variants of the generated family (family, N, M, L) x all n^N owner tables x tile size {64 B, 1120 B, 2 KiB} inside every launch; launches = n x "
        "runtime_comm_coll_bcast {0,1,2} x runtime_comm_short_limit {0, default} x threads {1,2}; states = distinct (variant, owner table, tile size, n, "
        "bcast, short limit, threads) points completed; transitions = task instances + flow inputs + final tiles compared with the reference; a point is "
        "non-trivial when at least one dependency edge crosses ranks; distinct outcomes = distinct (variant, owner table, verdict) triples")
ASSUME = ["MPI message timing and thread scheduling are not enumerated (one execution per point and run)",
          "the sequential reference interpreter in gen.py defines the meaning of the generated programs (they only use: ranges with step, ternary guards, READ/RW/CTL flows, one tile type)",
          "known findings C13-chain-relay-missing-output and C13-binomial-relay-missing-output are classified with the attribution rule of DESIGN.md section 7 item 2"]
KNOWN = {1: 'C13-chain-relay-missing-output', 2: 'C13-binomial-relay-missing-output'}
TOPO = {0: 'star', 1: 'chain', 2: 'binomial'}
ELEMS = (8, 140, 256)     # 64 B, 1120 B, 2 KiB per tile: the middle size sits between (short buffer - activation header) and the short buffer itself,
                          # where eager-vs-rendezvous must be decided on the room really left in the message (seeded change C05-1)
DEFAULT_SHORT = 1024


def known_entry(kid):
    p = os.environ.get('VERIF_KNOWN_FINDINGS', os.path.join(os.environ.get('VERIF_ROOT', '/verif'), 'known_findings.json'))
    try:
        return any(f.get('id') == kid for f in json.load(open(p)).get('findings', []))
    except Exception:
        return False


def build(ctx, tier):
    b = ctx.build('hk-mpi')
    d = os.path.join(vlib.OUT, 'bin', 'C05-gen-%s' % tier)
    os.makedirs(d, exist_ok=True)
    V = gen.variants(tier)
    fams = [f for f in gen.FAMILIES if any(v[0] == f for v in V)]
    ptgpp = os.path.join(b, 'parsec/interfaces/ptg/ptg-compiler/parsec-ptgpp')
    for f in fams:
        jdf = os.path.join(d, f + '.jdf')
        if not os.path.exists(jdf) or open(jdf).read() != gen.JDF[f] or not os.path.exists(os.path.join(d, f + '.c')) \
                or os.path.getmtime(os.path.join(d, f + '.c')) < os.path.getmtime(ptgpp):
            open(jdf, 'w').write(gen.JDF[f])
            for ext in ('.c', '.h'):
                if os.path.exists(os.path.join(d, f + ext)):
                    os.unlink(os.path.join(d, f + ext))
            r = subprocess.run([ptgpp, '-E', '-i', f + '.jdf', '-o', f, '-f', f], cwd=d, capture_output=True, text=True)
            if not (os.path.exists(os.path.join(d, f + '.c')) and os.path.exists(os.path.join(d, f + '.h'))):
                raise vlib.Broken('ptgpp failed on %s.jdf:\n%s' % (f, (r.stdout + r.stderr)[-3000:]))
    gen.emit_tables(V, os.path.join(d, 'c05_tables.c'))
    srcs = [os.path.join(HERE, 'drv.c'), os.path.join(d, 'c05_tables.c')] + [os.path.join(d, f + '.c') for f in fams]
    exe = ctx.compile('hk-mpi', 'drv-%s' % tier, srcs, mpi=True, instr=False,
                      cflags=['-I' + d, '-I' + HERE, '-I%s/engine/rt' % vlib.VERIF, '-I%s/parsec' % vlib.REPO, '-w'])
    return exe, V


def cfg_env(bcast, short, threads):
    env = {'PARSEC_MCA_runtime_comm_coll_bcast': str(bcast), 'PARSEC_MCA_runtime_comm_thread_yield': '2'}
    if short is not None:
        env['PARSEC_MCA_runtime_comm_short_limit'] = str(short)
    return env


def errlines(stderr, limit=600):
    """the telling lines of a launch's stderr: assertions, MPI errors, signals (else its tail)"""
    keys = ('Assertion', 'assert', 'MPI_ERR', 'Signal:', 'signal', 'fatal', 'Segmentation')
    L = [x.strip() for x in stderr.splitlines() if any(k in x for k in keys)]
    return (' | '.join(L) or ' | '.join(x for x in stderr.splitlines() if x.strip() and not x.startswith('---')))[-limit:]


def cid(c):
    return '%d:%d:%d' % c


def plan(V, vidx, n, bcast, only_p=None, only_e=None):
    """all cases (variant, placement, elems) of the launch, split into (normal, predicted): predicted = the propagation model
    loses an activation for that variant x placement under the topology"""
    normal, predicted = [], {}
    for vi in vidx:
        f, N, M, L = V[vi]
        for p in range(n ** N):
            if only_p is not None and p not in only_p:
                continue
            owner = [(p // n ** i) % n for i in range(N)]
            lost, attributable, dup = ([], True, False) if n == 1 else gen.predict(bcast, n, owner, f, N, M, L)
            for e in ELEMS:
                if only_e is not None and e not in only_e:
                    continue
                if lost or dup:
                    predicted[(vi, p, e)] = (lost, attributable, dup, owner)
                else:
                    normal.append((vi, p, e))
    return normal, predicted


def crosses_ranks(V, vi, p, n):
    f, N, M, L = V[vi]
    owner = [(p // n ** i) % n for i in range(N)]
    return any(owner[c] != owner[t.tile] for t in gen.instances(f, N, M, L) for cons in t.succ for c in cons)


def describe(V, c, n):
    vi, p, e = c
    f, N, M, L = V[vi]
    owner = [(p // n ** i) % n for i in range(N)]
    return '%s N=%d M=%d L=%d owner=%s tile=%dB' % (f, N, M, L, owner, e * 8)


class Box:
    def __init__(self, ctx, exe, V, tier):
        self.ctx, self.exe, self.V, self.tier = ctx, exe, V, tier
        self.root = os.path.join('/tmp', 'verif-mp-C05-%d' % os.getpid())
        self.points = set(); self.nontrivial = set(); self.outcomes = set()
        self.transitions = 0; self.executions = 0; self.launches = 0
        self.samples = []
        self.violations = []      # (replay obj, message)
        self.known = []
        self.unconfirmed = []
        self.skipped = 0
        self.predicted_not_run = 0
        self.transient = []

    def launch(self, key, n, bcast, short, threads, args, timeout):
        argv = [self.exe, '--threads', str(threads)] + args
        return mp.Launch(key=key, n=n, argv=argv, env=cfg_env(bcast, short, threads), meta=dict(n=n, bcast=bcast, short=short, threads=threads), timeout=timeout)

    def check_effective(self, res):
        m = res.launch.meta
        want_short = DEFAULT_SHORT if m['short'] is None else m['short']
        for r, d in res.ranks.items():
            if d.get('bcast') != m['bcast'] or d.get('short_limit') != want_short or d.get('threads') != m['threads']:
                self.ctx.broken.append('launch %s: effective MCA values bcast=%s short_limit=%s threads=%s differ from the requested %s/%s/%s'
                                       % (res.launch.key, d.get('bcast'), d.get('short_limit'), d.get('threads'), m['bcast'], want_short, m['threads']))
                return False
        return True

    def account(self, res, cases):
        """cases: the case ids the launch was asked to run, in order.  Returns (done cases, failures {case: msg}, first case of the
        batch in which the launch stopped or None)"""
        m = res.launch.meta
        r0 = res.ranks.get(0)
        if r0 is None:
            return [], {}, (cases[0] if cases else None)
        ndone = r0.get('cases_done', 0)
        fails = {}
        for f in r0.get('failures', []):
            fails[tuple(f['case'])] = f['message']
        stopped = None
        if not res.ok() or r0.get('status') not in ('ok', 'violation'):
            # the smallest number of completed cases over the ranks tells where the launch stopped
            ndone = min([d.get('cases_done', 0) for d in res.ranks.values()] + [ndone])
            stopped = cases[ndone] if ndone < len(cases) else None
        done = cases[:ndone]
        if stopped is None or True:
            self.transitions += r0.get('tasks_checked', 0) + r0.get('inputs_checked', 0) + r0.get('tiles_checked', 0)
        for c in done:
            pt = (c, m['n'], m['bcast'], m['short'], m['threads'])
            self.points.add(pt)
            self.executions += 1
            if m['n'] > 1 and crosses_ranks(self.V, c[0], c[1], m['n']):
                self.nontrivial.add(pt)
            self.outcomes.add((c[0], c[1], m['n'], 'fail' if c in fails else 'ok'))
        if done and len(self.samples) < 6 and m['n'] > 1:
            c = done[len(done) // 2]
            self.samples.append('n=%d bcast=%s short_limit=%s threads=%d: %s -> %s' % (m['n'], TOPO[m['bcast']], 'default' if m['short'] is None else m['short'], m['threads'],
                                                                                  describe(self.V, c, m['n']), 'FAIL' if c in fails else 'all instances once, inputs and final tiles equal the reference'))
        return done, fails, stopped

    def replay_obj(self, m, c, note):
        f, N, M, L = self.V[c[0]]
        return dict(tier=self.tier, n=m['n'], bcast=m['bcast'], short=m['short'], threads=m['threads'], case=list(c), variant=[f, N, M, L], note=note)


def run_box(ctx, box, launches_spec, jobs, deadline, case_timeout, launch_timeout, batch=16):
    """launches_spec: list of dict(n,bcast,short,threads,vidx[,only_p]).  The normal cases of a launch run in batches of `batch`
    concurrent taskpools.  A launch that stops inside a batch: that batch is re-run with one case at a time (to name the case), the
    cases behind it are re-queued; a case that stops alone is re-run ALONE in a fresh launch with 4x the limits before it is
    believed.  Cases for which the propagation model predicts a lost activation run alone (one launch each)."""
    V = box.V
    queue = []       # (spec, cases, batch)
    predicted_all = []
    for s in launches_spec:
        normal, predicted = plan(V, s['vidx'], s['n'], s['bcast'], s.get('only_p'), s.get('only_e'))
        if normal:
            queue.append((s, normal, batch))
        for c, info in sorted(predicted.items()):
            # thorough: the (many) predicted placements are run for one thread and the small tile only (both short limits)
            if box.tier == 'thorough' and (s['threads'] != 1 or c[2] != ELEMS[0]):
                box.predicted_not_run += 1
                continue
            predicted_all.append((s, c, info))
    def predicted_launches():
        L = []
        for i, (s, c, info) in enumerate(predicted_all):
            l = box.launch('p%d-n%d-b%d-s%s-t%d' % (i, s['n'], s['bcast'], s['short'], s['threads']), s['n'], s['bcast'], s['short'], s['threads'],
                           ['--case-timeout', str(min(case_timeout, 4)), '--batch', '1', '--only', cid(c)], launch_timeout)
            l.meta['cases'] = [c]; l.meta['info'] = info; l.meta['spec'] = s; l.meta['predicted'] = True
            L.append(l)
        return L

    def judge_predicted(res):
        m = res.launch.meta
        c = m['cases'][0]
        if os.environ.get('C05_TIMES'):
            sys.stderr.write('launch %s predicted status=%s elapsed=%.1fs\n' % (res.launch.key, res.status, res.elapsed))
        lost, attributable, dup, owner = m['info']
        done, fails, stopped = box.account(res, [c])
        failed = bool(fails) or stopped is not None or not res.ok()
        what = ('%s n=%d bcast=%s short_limit=%s threads=%d: predicted lost deliveries (class, instance, rank, output) %s'
                % (describe(V, c, m['n']), m['n'], TOPO[m['bcast']], 'default' if m['short'] is None else m['short'], m['threads'], lost))
        if not failed:
            box.ctx.broken.append('the propagation model predicts a lost activation but the real run passed: ' + what)
            return
        kid = KNOWN.get(m['bcast'])
        sym = fails.get(c) or ('does not terminate / aborts (%s rc %s: %s)' % (res.status, res.rc, errlines(res.stderr, 200)))
        if attributable and not dup and kid and known_entry(kid):
            box.known.append('id=%s %s; observed: %s' % (kid, what, sym[:320]))
        else:
            msg = what + ' (NOT attributable to a listed known finding); observed: ' + sym
            box.violations.append((box.replay_obj(m, c, msg), msg))

    rnd = 0
    suspects = []
    while queue and not box.violations:
        rnd += 1
        L = []
        for i, (s, cases, b) in enumerate(queue):
            args = ['--case-timeout', str(case_timeout), '--batch', str(b), '--only', ','.join(cid(c) for c in cases)]
            l = box.launch('r%d-%d-n%d-b%d-s%s-t%d' % (rnd, i, s['n'], s['bcast'], s['short'], s['threads']), s['n'], s['bcast'], s['short'], s['threads'], args, launch_timeout)
            l.meta['cases'] = cases; l.meta['spec'] = s; l.meta['batch'] = b
            L.append(l)
        if box.tier == 'thorough':
            L.sort(key=lambda l: (l.n, -len(l.meta['cases'])))     # fewer ranks first: a deadline cut costs the n=4 part only
        else:
            L.sort(key=lambda l: -l.n * len(l.meta['cases']))
        if rnd == 1:
            # the points at which the model predicts the known finding run alone (one launch each), interleaved with the others
            L += predicted_launches()
            predicted_all = []
            if box.tier == 'thorough':
                L.sort(key=lambda l: (l.n, 0 if l.meta.get('predicted') else 1, -l.meta['bcast'], -len(l.meta['cases'])))    # the few binomial points before the many chain points
        if deadline is not None:
            for l in L:       # nothing outlives the deadline by more than a minute: a killed launch still reports the cases it completed
                l.kill_at = deadline + 60
        results, skip = mp.run_box(L, box.root, jobs=jobs, timeout=launch_timeout, deadline=deadline, confirm=False, max_ranks=48)
        for sk in skip:
            box.skipped += len(sk.meta['cases'])
        queue = []
        for res in results:
            box.launches += 1
            if res.launch.meta.get('predicted'):
                judge_predicted(res)
                continue
            cases, s, b = res.launch.meta['cases'], res.launch.meta['spec'], res.launch.meta['batch']
            if os.environ.get('C05_TIMES'):
                sys.stderr.write('launch %s cases=%d batch=%d status=%s elapsed=%.1fs\n' % (res.launch.key, len(cases), b, res.status, res.elapsed))
            if res.ranks and not box.check_effective(res):
                continue
            done, fails, stopped = box.account(res, cases)
            for c, msg in fails.items():
                box.violations.append((box.replay_obj(res.launch.meta, c, msg), msg))
            if stopped is not None and deadline is not None and time.time() > deadline:
                box.skipped += len(cases) - cases.index(stopped)
            elif stopped is not None:
                k = cases.index(stopped)
                why = 'launch %s (rc %s); stderr: %s' % (res.status, res.rc, errlines(res.stderr))
                r0 = res.ranks.get(0, {})
                box.transient.append('n=%d bcast=%s short=%s threads=%d batch of %d starting at %s stopped (%s rc %s, rank 0 stage %s); stderr: %s'
                                     % (s['n'], TOPO[s['bcast']], s['short'], s['threads'], b, describe(V, stopped, s['n']), res.status, res.rc, r0.get('stage'),
                                        errlines(res.stderr, 700)))
                if b == 1:
                    suspects.append((s, stopped, why))
                    if cases[k + 1:]:
                        queue.append((s, cases[k + 1:], 1))
                else:
                    queue.append((s, cases[k:k + b], 1))
                    if cases[k + b:]:
                        queue.append((s, cases[k + b:], b))
            elif not res.ok():
                suspects.append((s, cases[-1], 'launch %s (rc %s) after the last case; stderr: %s' % (res.status, res.rc, res.stderr[-500:].replace('\n', ' | '))))
        # confirmation of suspects: alone, nothing else in flight, 4x limits
        for k, (s, c, why) in enumerate(suspects):
            if box.violations or k >= 3:
                break
            l = box.launch('confirm-%d-%d' % (rnd, k), s['n'], s['bcast'], s['short'], s['threads'], ['--case-timeout', str(4 * case_timeout), '--batch', '1', '--only', cid(c)], 4 * launch_timeout)
            res = mp.run_one(l, box.root, 4 * launch_timeout)
            box.launches += 1
            done, fails, stopped = box.account(res, [c])
            if fails:
                box.violations.append((box.replay_obj(l.meta, c, fails[c]), fails[c]))
            elif stopped is not None or not res.ok():
                msg = 'confirmed alone with 4x limits: %s does not terminate / aborts (%s rc %s); first seen: %s; stderr: %s' % (describe(V, c, s['n']), res.status, res.rc, why[:300], errlines(res.stderr))
                box.violations.append((box.replay_obj(l.meta, c, msg), msg))
            else:
                box.unconfirmed.append('%s: %s' % (describe(V, c, s['n']), why[:300]))
        suspects = []
        if rnd >= 8:
            break
    for s, cases, b in queue:
        box.skipped += len(cases)
    if predicted_all and not box.violations:      # (only when there was no normal case at all)
        results, skip = mp.run_box(predicted_launches(), box.root, jobs=jobs, timeout=launch_timeout, deadline=deadline, confirm=False, max_ranks=48)
        box.skipped += len(skip)
        for res in results:
            box.launches += 1
            judge_predicted(res)
    shutil.rmtree(box.root, ignore_errors=True)


def check(ctx):
    quick = ctx.tier == 'quick'
    exe, V = build(ctx, ctx.tier)
    box = Box(ctx, exe, V, ctx.tier)
    t0 = time.time()
    if os.environ.get('C05_TIMES'):
        sys.stderr.write('build done at %.1fs\n' % (t0 - ctx.t0))
    deadline = t0 + (70 if quick else 1000)
    specs = []
    allv = list(range(len(V)))
    cfgs = list(itertools.product((0, 1, 2), (0, None), (1, 2)))
    if quick:
        # quick box (16 launches, one wave): n=1 once; n=2: every topology x short limit with 1 thread + a diagonal with 2 threads;
        # the n=3 two-output reproducer (P(0)@0: X -> C1(1..2)@{1,2}, Y -> C2(2)@2): star and binomial as ordinary cases, chain where
        # plan() finds the propagation model losing an activation (those run alone)
        specs.append(dict(n=1, bcast=1, short=None, threads=2, vidx=allv))
        for b, s, t in cfgs:
            if t == 1 or (b, s) in ((0, 0), (1, None), (2, 0)):
                specs.append(dict(n=2, bcast=b, short=s, threads=t, vidx=allv))
        vi = V.index(('twoout', 3, 2, 2))
        rp = [0 + 1 * 3 + 2 * 9]
        specs += [dict(n=3, bcast=0, short=0, threads=1, vidx=[vi], only_p=rp), dict(n=3, bcast=0, short=None, threads=2, vidx=[vi], only_p=rp),
                  dict(n=3, bcast=2, short=None, threads=1, vidx=[vi], only_p=rp),
                  dict(n=3, bcast=1, short=0, threads=1, vidx=[vi], only_p=rp, only_e=[8]), dict(n=3, bcast=1, short=None, threads=1, vidx=[vi], only_p=rp),
                  ]
    else:
        for n in (1, 2, 3, 4):
            for b, s, t in cfgs:
                if n == 1 and (b, s) != (1, None):
                    continue            # one process: no message is ever sent, the communication settings are irrelevant
                specs.append(dict(n=n, bcast=b, short=s, threads=t, vidx=allv))
    run_box(ctx, box, specs, jobs=16, deadline=deadline, case_timeout=8 if quick else 30, launch_timeout=60 if quick else 900, batch=16 if quick else 32)
    for obj, msg in box.violations[:8]:
        rp = ctx.write_replay('n%d-b%d-s%s-t%d-%s' % (obj['n'], obj['bcast'], obj['short'], obj['threads'], '_'.join(map(str, obj['case']))), obj)
        ctx.violation(rp, msg[:1500])
    for k in box.known:
        ctx.known_finding(k)
    for u in box.unconfirmed:
        ctx.notes.append('unconfirmed (passed when re-run alone with 4x limits, not counted): ' + u)
    for t in box.transient[:6]:
        ctx.notes.append('a launch stopped and its cases were re-run (a reproduced failure is reported as a violation, this is the first sighting): ' + t)
    if box.skipped:
        ctx.notes.append('deadline: %d cases not run' % box.skipped)
    if box.predicted_not_run:
        ctx.notes.append('%d points at which the propagation model predicts the known finding were not executed (thorough runs them for threads=1, 64-byte tiles only)' % box.predicted_not_run)
    ctx.add_leg(name='ptg-family-box', engine='mp', states=len(box.points), transitions=box.transitions, executions=box.executions,
                nontrivial=len(box.nontrivial), distinct_outcomes=len(box.outcomes), exhaustive=(box.skipped == 0 and not box.violations),
                samples=box.samples, launches=box.launches, variants=len(V), known_cases=len(box.known))
    if not box.points:
        ctx.broken.append('no case completed')
    return ctx.finish(RULE, ASSUME)


def replay(ctx, path, obj):
    exe, V = build(ctx, obj.get('tier', 'quick'))
    c = tuple(obj['case'])
    if list(V[c[0]]) != list(obj['variant']):
        print('replay: the variant table changed since the replay file was written'); return 2
    root = os.path.join('/tmp', 'verif-mp-C05replay-%d' % os.getpid())
    argv = [exe, '--threads', str(obj['threads']), '--case-timeout', '30', '--batch', '1', '--only', cid(c)]
    l = mp.Launch(key='replay', n=obj['n'], argv=argv, env=cfg_env(obj['bcast'], obj['short'], obj['threads']))
    res = mp.run_one(l, root, 120)
    print('replay: n=%d bcast=%s short_limit=%s threads=%d: %s' % (obj['n'], TOPO[obj['bcast']], obj['short'], obj['threads'], describe(V, c, obj['n'])))
    print('launch status: %s rc=%s elapsed=%.1fs' % (res.status, res.rc, res.elapsed))
    bad = not res.ok()
    for r in sorted(res.ranks):
        d = res.ranks[r]
        print('  rank %d: status %s stage %s cases_done %d effective bcast=%s short_limit=%s' % (r, d['status'], d['stage'], d['cases_done'], d['bcast'], d['short_limit']))
        for f in d.get('failures', []):
            print('     ' + f['message']); bad = True
        bad = bad or d['status'] != 'ok'
    if res.stderr.strip():
        print('stderr: ' + res.stderr[-1200:])
    shutil.rmtree(root, ignore_errors=True)
    if bad:
        print('VIOLATION property=C05 replay=%s' % path)
        return 1
    print('replay: no violation reproduced')
    return 0
