/* cosched (E1) - see cosched.h. Compiled WITHOUT instrumentation. */
#ifndef _GNU_SOURCE
#define _GNU_SOURCE
#endif
#include "cosched.h"
#include "vtsan.h"
#include <stdio.h>
#include <stdlib.h>
#include <string.h>
#include <stdarg.h>
#include <unistd.h>
#include <errno.h>
#include <pthread.h>
#include <signal.h>
#include <time.h>
#include <sys/mman.h>
#include <sys/wait.h>
#include <sys/syscall.h>
#include <sys/stat.h>
#include <sys/socket.h>
#include <poll.h>
#include <linux/futex.h>

#define MAX_POINTS   60000
#define MAX_REGIONS  64
#define MSG_LEN      1024
#define OUT_LEN      4096

enum { ST_OK = 0, ST_VIOLATION = 1, ST_DEADLOCK = 2, ST_CAP = 3, ST_DIVERGED = 4, ST_CRASH = 5, ST_TIMEOUT = 6, ST_KNOWN = 7 };
static const char *st_name[] = { "ok", "violation", "deadlock", "step-cap(nontermination)", "diverged", "crash", "timeout", "known" };

/* ---- result area shared between child and coordinator (one per slot) ---- */
typedef struct {
    volatile int status;
    volatile int finished;
    int npoints;
    int preemptions;
    char msg[MSG_LEN];
    char outcome[OUT_LEN];
    int  outlen;
    char known[MSG_LEN];
    uint8_t nen[MAX_POINTS];       /* number of enabled threads at point i */
    uint8_t cho[MAX_POINTS];       /* index chosen */
    uint8_t run_en[MAX_POINTS];    /* running thread was still enabled (alt => preemption) */
    uint8_t tid[MAX_POINTS];       /* thread chosen */
    uint32_t info[MAX_POINTS];     /* (kind<<28)|(region<<20)|offset (of the event that raised the point) */
    long region_hits[MAX_REGIONS];
} cs_result_t;

static cs_result_t *R;              /* current child's result area */
static const uint8_t *g_prefix; static int g_prefix_len;
static int g_in_child = 0;

/* ---- child-side scheduler state ---- */
typedef struct { uintptr_t lo, hi; char name[24]; } region_t;
static region_t regions[MAX_REGIONS]; static int nregions = 0;
static int watch_all = 0;
enum { T_NONE = 0, T_RUNNABLE, T_WAITING, T_DONE };
static struct {
    volatile int go;              /* futex word */
    int state;
    long wait_seen;
    cs_body_t body; void *arg;
    pthread_t th;
    uintptr_t stack_lo, stack_hi;
    int pending_write;
} T[CS_MAX_THREADS];
static int nthreads = 0;
static volatile int main_go = 0;
static volatile int cur = -1;       /* running controlled thread */
static long wstep = 0;              /* number of write steps executed */
static long nsteps = 0;
static int sched_active = 0;
static __thread int my_tid = -1;
static int step_cap = MAX_POINTS - 8;

static void fwait(volatile int *w) { while (__atomic_load_n(w, __ATOMIC_ACQUIRE) == 0) syscall(SYS_futex, w, FUTEX_WAIT, 0, NULL, NULL, 0); __atomic_store_n(w, 0, __ATOMIC_RELEASE); }
static void fwake(volatile int *w) { __atomic_store_n(w, 1, __ATOMIC_RELEASE); syscall(SYS_futex, w, FUTEX_WAKE, 1, NULL, NULL, 0); }

int cs_self(void) { return my_tid; }
int cs_in_child(void) { return g_in_child; }
long cs_now(void) { return nsteps; }
static long stampctr = 0;
long cs_stamp(void) { return ++stampctr; }

static void child_exit(int status) __attribute__((noreturn));
static void child_exit(int status)
{
    if (R) { R->status = status; R->finished = 1; }
    _exit(0);
}

void cs_fail(const char *fmt, ...)
{
    va_list ap; va_start(ap, fmt);
    if (R && R->msg[0] == 0) vsnprintf(R->msg, MSG_LEN, fmt, ap);
    else if (!R) { vfprintf(stderr, fmt, ap); fputc('\n', stderr); }
    va_end(ap);
    if (!R) abort();
    R->status = ST_VIOLATION; R->finished = 1;
    _exit(0);
}
void cs_known(const char *fmt, ...)
{
    va_list ap; va_start(ap, fmt);
    if (R && R->known[0] == 0) vsnprintf(R->known, MSG_LEN, fmt, ap);
    va_end(ap);
}
void cs_observe(const char *fmt, ...)
{
    if (!R) return;
    va_list ap; va_start(ap, fmt);
    int room = OUT_LEN - 1 - R->outlen;
    if (room > 1) { int n = vsnprintf(R->outcome + R->outlen, room, fmt, ap); if (n > room - 1) n = room - 1; if (n > 0) R->outlen += n; }
    va_end(ap);
}

void cs_watch(const volatile void *base, size_t len, const char *name)
{
    if (nregions >= MAX_REGIONS) { fprintf(stderr, "cosched: too many regions\n"); abort(); }
    regions[nregions].lo = (uintptr_t)base; regions[nregions].hi = (uintptr_t)base + len;
    snprintf(regions[nregions].name, sizeof(regions[nregions].name), "%s", name ? name : "?");
    nregions++;
}
void cs_watch_all_heap(void) { watch_all = 1; }

static int find_region(uintptr_t a, int size)
{
    for (int i = 0; i < nregions; i++) if (a < regions[i].hi && a + (size > 0 ? size : 1) > regions[i].lo) return i;
    if (watch_all) {
        for (int t = 0; t < nthreads; t++) if (a >= T[t].stack_lo && a < T[t].stack_hi) return -1;
        return MAX_REGIONS - 1;
    }
    return -1;
}

/* Decide who runs next. Called by the running thread `self` (or -1 from the main thread). */
static void schedule_next(int self, uint32_t info)
{
    int en[CS_MAX_THREADS], n = 0, self_en = 0;
    if (self >= 0 && T[self].state == T_RUNNABLE) { en[n++] = self; self_en = 1; }
    for (int t = 0; t < nthreads; t++) {
        if (t == self) continue;
        if (T[t].state == T_RUNNABLE) en[n++] = t;
        else if (T[t].state == T_WAITING && wstep > T[t].wait_seen) en[n++] = t;
    }
    if (n == 0) {
        int alldone = 1;
        for (int t = 0; t < nthreads; t++) if (T[t].state != T_DONE) alldone = 0;
        if (alldone) { cur = -1; if (self >= 0) { fwake(&main_go); } return; }
        if (R->msg[0] == 0) {
            int o = snprintf(R->msg, MSG_LEN, "deadlock: no enabled thread; states:");
            for (int t = 0; t < nthreads; t++) o += snprintf(R->msg + o, MSG_LEN - o, " T%d=%s", t, T[t].state == T_DONE ? "done" : T[t].state == T_WAITING ? "waiting" : "?");
        }
        child_exit(ST_DEADLOCK);
    }
    int i = R->npoints;
    if (i >= step_cap) { snprintf(R->msg, MSG_LEN, "step cap %d reached (non-terminating execution?)", step_cap); child_exit(ST_CAP); }
    int c = 0;
    if (i < g_prefix_len) {
        c = g_prefix[i];
        if (c >= n) { snprintf(R->msg, MSG_LEN, "replay diverged at point %d: choice %d of %d enabled", i, c, n); child_exit(ST_DIVERGED); }
    }
    if (c != 0 && self_en) R->preemptions++;
    int next = en[c];
    R->nen[i] = (uint8_t)n; R->cho[i] = (uint8_t)c; R->run_en[i] = (uint8_t)self_en; R->tid[i] = (uint8_t)next; R->info[i] = info;
    R->npoints = i + 1;
    nsteps++;
    if (T[next].state == T_WAITING) T[next].state = T_RUNNABLE;
    cur = next;
    if (next != self) {
        fwake(&T[next].go);
        if (self >= 0) { if (T[self].state != T_DONE) fwait(&T[self].go); }
    }
}

static void on_resume(int self)
{
    if (T[self].pending_write) { wstep++; T[self].pending_write = 0; }
}

static void access_cb(int kind, void *addr, int size)
{
    int self = my_tid;
    if (self < 0 || !sched_active) return;
    int r = find_region((uintptr_t)addr, size);
    if (r < 0) return;
    R->region_hits[r]++;
    uint32_t off = (r < nregions) ? (uint32_t)(((uintptr_t)addr - regions[r].lo) & 0xFFFFF) : 0;
    T[self].pending_write = (kind == VTSAN_WRITE || kind == VTSAN_ATOMIC_RMW || kind == VTSAN_RANGE_WRITE);
    schedule_next(self, ((uint32_t)kind << 28) | ((uint32_t)(r & 0xFF) << 20) | off);
    on_resume(self);
}

void cs_point_here(void)
{
    int self = my_tid;
    if (self < 0 || !sched_active) return;
    T[self].pending_write = 1;
    schedule_next(self, (7u << 28));
    on_resume(self);
}

void cs_wait(void)
{
    int self = my_tid;
    if (self < 0 || !sched_active) { sched_yield(); return; }
    T[self].state = T_WAITING; T[self].wait_seen = wstep; T[self].pending_write = 0;
    schedule_next(self, (6u << 28));
}

/* the library's blocking hook (parsec/sys/verif_hooks.h declares it weak) */
static void hook_cb(int event, const volatile void *addr) { (void)event; (void)addr; cs_wait(); }
void (*parsec_verif_cb)(int, const volatile void *) = hook_cb;

static void *thread_main(void *p)
{
    int self = (int)(intptr_t)p;
    my_tid = self;
    {   /* stack bounds for watch_all */
        pthread_attr_t a; void *sa; size_t ss;
        if (pthread_getattr_np(pthread_self(), &a) == 0) { pthread_attr_getstack(&a, &sa, &ss); T[self].stack_lo = (uintptr_t)sa; T[self].stack_hi = (uintptr_t)sa + ss; pthread_attr_destroy(&a); }
    }
    fwake(&main_go);                 /* tell main we are parked */
    fwait(&T[self].go);              /* wait to be scheduled for the first time */
    T[self].body(T[self].arg);
    T[self].state = T_DONE;
    schedule_next(self, (5u << 28));
    return NULL;
}

void cs_run(int n, cs_body_t *bodies, void **args)
{
    if (n > CS_MAX_THREADS) abort();
    nthreads = n;
    for (int t = 0; t < n; t++) {
        T[t].go = 0; T[t].state = T_RUNNABLE; T[t].body = bodies[t]; T[t].arg = args ? args[t] : NULL; T[t].pending_write = 0;
        pthread_create(&T[t].th, NULL, thread_main, (void *)(intptr_t)t);
        fwait(&main_go);
    }
    sched_active = 1;
    vtsan_cb = access_cb;
    schedule_next(-1, (4u << 28));
    fwait(&main_go);                 /* woken when all threads are done */
    vtsan_cb = NULL;
    sched_active = 0;
    for (int t = 0; t < n; t++) pthread_join(T[t].th, NULL);
    for (int t = 0; t < n; t++) T[t].state = T_NONE;
    nthreads = 0;
}

/* ---- brute-force linearizability ---- */
static int lin_rec(const cs_span_t *s, int n, int *order, int k, unsigned used,
                   int (*chk)(const int *, int, void *), void *ctx)
{
    if (k == n) return chk(order, n, ctx);
    for (int i = 0; i < n; i++) {
        if (used & (1u << i)) continue;
        int ok = 1;   /* i may come next only if no unused op returned before i was called */
        for (int j = 0; j < n; j++) if (j != i && !(used & (1u << j)) && s[j].ret < s[i].call) { ok = 0; break; }
        if (!ok) continue;
        order[k] = i;
        if (lin_rec(s, n, order, k + 1, used | (1u << i), chk, ctx)) return 1;
    }
    return 0;
}
int cs_linearizable(const cs_span_t *spans, int n, int (*seq_check)(const int *, int, void *), void *ctx)
{
    int order[32];
    if (n > 20) abort();
    return lin_rec(spans, n, order, 0, 0, seq_check, ctx);
}

/* =====================  coordinator (explorer)  ===================== */
typedef struct item_s { struct item_s *next; int len; int cost; uint8_t ch[]; } item_t;
typedef struct { item_t *head; long count; } wstack_t;
static void push(wstack_t *s, item_t *it) { it->next = s->head; s->head = it; s->count++; }
static item_t *pop(wstack_t *s) { item_t *it = s->head; if (it) { s->head = it->next; s->count--; } return it; }

static double now_s(void) { struct timespec ts; clock_gettime(CLOCK_MONOTONIC, &ts); return ts.tv_sec + ts.tv_nsec * 1e-9; }

typedef struct { pid_t pid; cs_result_t *res; item_t *item; double t0; } slot_t;

static cs_scenario_t *g_scen;
static int g_child_timeout = 60;

static void reset_child_state(void);
static pid_t launch(cs_result_t *res, const uint8_t *prefix, int len, int trace)
{
    (void)trace;
    memset((void *)res, 0, offsetof(cs_result_t, nen));
    memset(res->region_hits, 0, sizeof(res->region_hits));
    fflush(NULL);
    pid_t p = fork();
    if (p < 0) { perror("fork"); exit(2); }
    if (p == 0) {
        R = res; g_prefix = prefix; g_prefix_len = len; g_in_child = 1;
        reset_child_state();
        alarm(g_child_timeout * 2);
        g_scen->run();
        R->finished = 1;
        _exit(0);
    }
    return p;
}

static void finish(cs_result_t *res, int wstatus)
{
    if (!res->finished) {
        res->status = ST_CRASH;
        if (WIFSIGNALED(wstatus)) {
            if (WTERMSIG(wstatus) == SIGALRM || WTERMSIG(wstatus) == SIGKILL) res->status = ST_TIMEOUT;
            if (res->msg[0] == 0) snprintf(res->msg, MSG_LEN, "child killed by signal %d (%s)", WTERMSIG(wstatus), strsignal(WTERMSIG(wstatus)));
        } else if (res->msg[0] == 0) snprintf(res->msg, MSG_LEN, "child exited with status %d before finishing", WEXITSTATUS(wstatus));
    }
    if (res->status == ST_OK && res->known[0]) res->status = ST_KNOWN;
}

static uint64_t fnv(const void *p, size_t n, uint64_t h) { const uint8_t *b = p; for (size_t i = 0; i < n; i++) { h ^= b[i]; h *= 1099511628211ULL; } return h; }

/* open-addressing set of 64-bit hashes */
typedef struct { uint64_t *v; size_t cap, n; } hset_t;
static int hset_add(hset_t *s, uint64_t h)
{
    if (h == 0) h = 1;
    if (s->n * 2 >= s->cap) {
        size_t nc = s->cap ? s->cap * 2 : 1024; uint64_t *nv = calloc(nc, 8);
        for (size_t i = 0; i < s->cap; i++) if (s->v[i]) { size_t j = s->v[i] & (nc - 1); while (nv[j]) j = (j + 1) & (nc - 1); nv[j] = s->v[i]; }
        free(s->v); s->v = nv; s->cap = nc;
    }
    size_t j = h & (s->cap - 1);
    while (s->v[j]) { if (s->v[j] == h) return 0; j = (j + 1) & (s->cap - 1); }
    s->v[j] = h; s->n++; return 1;
}

static void json_str(FILE *f, const char *s)
{
    fputc('"', f);
    for (; *s; s++) {
        unsigned char c = (unsigned char)*s;
        if (c == '"' || c == '\\') { fputc('\\', f); fputc(c, f); }
        else if (c == '\n') fputs("\\n", f);
        else if (c < 0x20) fprintf(f, "\\u%04x", c);
        else fputc(c, f);
    }
    fputc('"', f);
}

static void print_choices(FILE *f, const cs_result_t *r)
{
    fputc('[', f);
    for (int i = 0; i < r->npoints; i++) fprintf(f, "%s%d", i ? "," : "", r->cho[i]);
    fputc(']', f);
}
static void print_tids(FILE *f, const cs_result_t *r, int maxn)
{
    fputc('"', f);
    for (int i = 0; i < r->npoints && i < maxn; i++) fprintf(f, "%d", r->tid[i]);
    if (r->npoints > maxn) fputs("...", f);
    fputc('"', f);
}

static const char *kindname(unsigned k)
{
    static const char *n[] = { "read", "write", "atomic-load", "atomic-rmw", "start", "thread-exit", "WAIT", "harness-point", "range-read?", "range-write?" };
    return k < 8 ? n[k] : "?";
}
static void print_trace(FILE *f, const cs_result_t *r)
{
    for (int i = 0; i < r->npoints; i++) {
        unsigned k = r->info[i] >> 28, reg = (r->info[i] >> 20) & 0xFF, off = r->info[i] & 0xFFFFF;
        fprintf(f, "  #%d enabled=%d choice=%d%s -> T%d   (raised by: %s", i, r->nen[i], r->cho[i], (r->cho[i] && r->run_en[i]) ? " PREEMPT" : "", r->tid[i], kindname(k));
        if (k < 4) fprintf(f, " region %u +%u", reg, off);
        fprintf(f, ")\n");
    }
}

typedef struct {
    long executions, nodes, transitions, nontrivial, known_execs;
    int max_points, bound_completed, exhaustive, violations, broken;
    hset_t outcomes;
    char sample_sched[3][400]; int nsample;
    char sample_outcome[3][300];
    char known_msgs[8][MSG_LEN]; int nknown;
    long region_hits[MAX_REGIONS];
    double wall;
} stats_t;

static const char *g_property = "C00";
static const char *g_harness = "?";
static char g_outdir[512] = "/verif/out";

static int write_replay(const char *scen, const cs_result_t *r, char *path, size_t plen, const char *status)
{
    static int seq = 0;
    char dir[600]; snprintf(dir, sizeof(dir), "%s/replay", g_outdir); mkdir(g_outdir, 0777); mkdir(dir, 0777);
    snprintf(path, plen, "%s/%s-%s-%d.json", dir, g_property, scen, seq++);
    FILE *f = fopen(path, "w"); if (!f) return -1;
    fprintf(f, "{\"property\":\"%s\",\"engine\":\"cosched\",\"harness\":\"%s\",\"scenario\":\"%s\",\"status\":\"%s\",\n \"message\":", g_property, g_harness, scen, status);
    json_str(f, r->msg); fprintf(f, ",\n \"outcome\":"); json_str(f, r->outcome);
    fprintf(f, ",\n \"preemptions\":%d,\n \"choices\":", r->preemptions); print_choices(f, r);
    fprintf(f, ",\n \"threads\":"); print_tids(f, r, 100000); fprintf(f, "}\n");
    fclose(f);
    return 0;
}

static int run_one_sync(cs_result_t *res, const uint8_t *ch, int len)
{
    pid_t p = launch(res, ch, len, 1); int ws; waitpid(p, &ws, 0); finish(res, ws); return res->status;
}

static int g_jobs = 16;
static double g_deadline = 0;     /* absolute */
static int g_verbose = 0;

/* ---- worker processes: execute schedules in-process, one after the other (fork does not scale on
 * this machine); a worker dies on the first failing execution (cs_fail/_exit, crash) and is respawned.
 * With g_isolate every execution gets a fresh process. ---- */
static int g_isolate = 0;
static int g_recycle = 5000;        /* executions per worker before it is replaced by a fresh fork */
typedef struct { pid_t pid; int fd; cs_result_t *res; item_t *item; double t0; int served; } worker_t;

static void reset_child_state(void)
{
    nregions = 0; watch_all = 0; wstep = 0; nsteps = 0; stampctr = 0; nthreads = 0; cur = -1; main_go = 0; sched_active = 0;
}

static void worker_loop(int fd, cs_result_t *res)
{
    static uint8_t buf[MAX_POINTS];
    g_in_child = 1; R = res;
    for (;;) {
        int len;
        ssize_t k = read(fd, &len, sizeof(len));
        if (k != sizeof(len)) _exit(0);
        int got = 0; while (got < len) { k = read(fd, buf + got, len - got); if (k <= 0) _exit(0); got += k; }
        memset((void *)res, 0, offsetof(cs_result_t, nen));
        memset(res->region_hits, 0, sizeof(res->region_hits));
        reset_child_state();
        g_prefix = buf; g_prefix_len = len;
        g_scen->run();
        res->finished = 1;
        char c = 1; if (write(fd, &c, 1) != 1) _exit(0);
        if (g_isolate) _exit(0);
    }
}

static void spawn_worker(worker_t *w)
{
    int sv[2];
    if (socketpair(AF_UNIX, SOCK_STREAM, 0, sv) < 0) { perror("socketpair"); exit(2); }
    fflush(NULL);
    pid_t p = fork();
    if (p < 0) { perror("fork"); exit(2); }
    if (p == 0) { close(sv[0]); worker_loop(sv[1], w->res); _exit(0); }
    close(sv[1]);
    w->pid = p; w->fd = sv[0]; w->served = 0; w->item = NULL;
}
static void kill_worker(worker_t *w)
{
    if (w->pid) { close(w->fd); kill(w->pid, SIGKILL); int ws; while (waitpid(w->pid, &ws, 0) < 0 && errno == EINTR) ; w->pid = 0; }
}
static void send_item(worker_t *w, item_t *it)
{
    w->item = it; w->t0 = now_s(); w->res->finished = 0;
    int len = it->len;
    if (write(w->fd, &len, sizeof(len)) != sizeof(len)) return;   /* death is noticed by poll */
    int off = 0; while (off < len) { ssize_t k = write(w->fd, it->ch + off, len - off); if (k <= 0) return; off += k; }
}

static int explore(cs_scenario_t *sc, int bound, stats_t *st, FILE *jf)
{
    g_scen = sc;
    if (sc->max_bound && bound > sc->max_bound) bound = sc->max_bound;
    memset(st, 0, sizeof(*st));
    double t0 = now_s();
    signal(SIGPIPE, SIG_IGN);
    worker_t *W = calloc(g_jobs, sizeof(worker_t));
    for (int i = 0; i < g_jobs; i++) W[i].res = mmap(NULL, sizeof(cs_result_t), PROT_READ | PROT_WRITE, MAP_SHARED | MAP_ANONYMOUS, -1, 0);
    wstack_t *levels = calloc(bound + 2, sizeof(wstack_t));
    item_t *root = calloc(1, sizeof(item_t)); root->len = 0; root->cost = 0; push(&levels[0], root);
    st->bound_completed = -1; st->exhaustive = 1;
    int busy = 0, stop = 0;
    struct pollfd *pf = calloc(g_jobs, sizeof(struct pollfd));
    for (int b = 0; b <= bound && !stop; b++) {
        while ((levels[b].head || busy) && !stop) {
            for (int i = 0; i < g_jobs && levels[b].head; i++) {
                if (W[i].item) continue;
                if (W[i].pid && W[i].served >= g_recycle) kill_worker(&W[i]);
                if (!W[i].pid) spawn_worker(&W[i]);
                send_item(&W[i], pop(&levels[b])); busy++;
            }
            int np = 0;
            for (int i = 0; i < g_jobs; i++) { pf[i].fd = W[i].item ? W[i].fd : -1; pf[i].events = POLLIN; pf[i].revents = 0; np++; }
            int pr = poll(pf, g_jobs, 1000);
            if (pr < 0) { if (errno == EINTR) continue; perror("poll"); exit(2); }
            for (int si = 0; si < g_jobs && !stop; si++) {
                if (!W[si].item) continue;
                int done = 0, dead = 0;
                if (pf[si].revents & POLLIN) { char c; ssize_t k = read(W[si].fd, &c, 1); if (k == 1) done = 1; else dead = 1; }
                else if (pf[si].revents & (POLLHUP | POLLERR)) dead = 1;
                else if (now_s() - W[si].t0 > g_child_timeout) { dead = 2; }
                if (!done && !dead) continue;
                cs_result_t *r = W[si].res; item_t *it = W[si].item;
                W[si].item = NULL; busy--; W[si].served++;
                if (dead) {
                    int ws = 0; close(W[si].fd);
                    if (dead == 2) kill(W[si].pid, SIGKILL);
                    while (waitpid(W[si].pid, &ws, 0) < 0 && errno == EINTR) ;
                    W[si].pid = 0;
                    if (dead == 2) { r->finished = 0; finish(r, ws); r->status = ST_TIMEOUT; snprintf(r->msg, MSG_LEN, "execution did not finish within %d s", g_child_timeout); }
                    else finish(r, ws);
                } else {
                    if (r->status == ST_OK && r->known[0]) r->status = ST_KNOWN;
                    if (g_isolate) { int ws; close(W[si].fd); while (waitpid(W[si].pid, &ws, 0) < 0 && errno == EINTR) ; W[si].pid = 0; }
                }
                st->executions++;
                st->transitions += r->npoints;
                st->nodes += r->npoints - (it->len ? it->len - 1 : 0);
                if (r->npoints > st->max_points) st->max_points = r->npoints;
                if (r->preemptions > 0) st->nontrivial++;
                for (int k = 0; k < MAX_REGIONS; k++) st->region_hits[k] += r->region_hits[k];
                if (r->status == ST_KNOWN) {
                    st->known_execs++;
                    int seen = 0; for (int k = 0; k < st->nknown; k++) if (!strcmp(st->known_msgs[k], r->known)) seen = 1;
                    if (!seen && st->nknown < 8) strcpy(st->known_msgs[st->nknown++], r->known);
                }
                if (r->status == ST_OK || r->status == ST_KNOWN) {
                    uint64_t h = fnv(r->outcome, r->outlen, 1469598103934665603ULL);
                    if (hset_add(&st->outcomes, h) && st->nsample < 3) {
                        int o = 0; char *s = st->sample_sched[st->nsample];
                        for (int k = 0; k < r->npoints && o < 380; k++) o += snprintf(s + o, 400 - o, "%d", r->tid[k]);
                        snprintf(st->sample_outcome[st->nsample], 300, "%s", r->outcome);
                        st->nsample++;
                    }
                    int cost = 0;
                    for (int k = 0; k < it->len && k < r->npoints; k++) if (r->cho[k] && r->run_en[k]) cost++;
                    for (int i = it->len; i < r->npoints; i++) {
                        int c = cost + (r->run_en[i] ? 1 : 0);
                        if (r->nen[i] >= 2 && c <= bound) {
                            for (int alt = 1; alt < r->nen[i]; alt++) {
                                item_t *ni = malloc(sizeof(item_t) + i + 1);
                                ni->len = i + 1; ni->cost = c;
                                memcpy(ni->ch, r->cho, i); ni->ch[i] = (uint8_t)alt;
                                push(&levels[c < b ? b : c], ni);
                            }
                        }
                        if (r->cho[i] && r->run_en[i]) cost++;
                    }
                } else {
                    /* failure: confirm by replaying the complete choice list twice in fresh processes */
                    int n = r->npoints; uint8_t *full = malloc(n + 1); memcpy(full, r->cho, n);
                    int st1 = r->status; char msg1[MSG_LEN]; strcpy(msg1, r->msg);
                    cs_result_t *r2 = mmap(NULL, sizeof(cs_result_t), PROT_READ | PROT_WRITE, MAP_SHARED | MAP_ANONYMOUS, -1, 0);
                    int same = 1;
                    for (int k = 0; k < 2; k++) {
                        pid_t rp = launch(r2, full, n, 1); int rws;
                        while (waitpid(rp, &rws, 0) < 0 && errno == EINTR) ;
                        finish(r2, rws);
                        if (r2->status != st1 || r2->npoints != n) same = 0;
                    }
                    char path[700];
                    if (!same) {
                        st->broken++;
                        write_replay(sc->name, r, path, sizeof(path), "nondeterministic");
                        fprintf(stderr, "cosched: BROKEN: scenario %s: failure (%s after %d points: %s) did not reproduce in a fresh process (got %s after %d points: %s); see %s\n",
                                sc->name, st_name[st1], n, msg1, st_name[r2->status], r2->npoints, r2->msg, path);
                    } else {
                        st->violations++;
                        write_replay(sc->name, r2, path, sizeof(path), st_name[st1]);
                        printf("VIOLATION property=%s replay=%s\n", g_property, path);
                        printf("  scenario=%s status=%s preemptions=%d points=%d: %s\n", sc->name, st_name[st1], r2->preemptions, r2->npoints, r2->msg);
                        fflush(stdout);
                    }
                    munmap(r2, sizeof(cs_result_t)); free(full);
                    if (st->violations + st->broken >= 3) stop = 1;
                }
                free(it);
            }
            if (g_deadline > 0 && now_s() > g_deadline) { stop = 1; st->exhaustive = 0; }
        }
        if (!stop) st->bound_completed = b;
        if (g_verbose) fprintf(stderr, "  [%s] bound %d done: %ld executions so far, next level %ld pending\n", sc->name, b, st->executions, b + 1 <= bound ? levels[b + 1].count : 0L);
    }
    for (int i = 0; i < g_jobs; i++) { if (W[i].item) free(W[i].item); kill_worker(&W[i]); }
    for (int b = 0; b <= bound + 1; b++) { item_t *it; while ((it = pop(&levels[b]))) { free(it); if (b <= bound) st->exhaustive = 0; } }
    if (st->violations || st->broken) st->exhaustive = 0;
    for (int i = 0; i < g_jobs; i++) munmap(W[i].res, sizeof(cs_result_t));
    free(W); free(levels); free(pf);
    st->wall = now_s() - t0;
    /* JSON */
    fprintf(jf, "{\"name\":\"%s\",\"bound_requested\":%d,\"bound_completed\":%d,\"exhaustive\":%s,\"executions\":%ld,\"states\":%ld,\"transitions\":%ld,"
                "\"max_points\":%d,\"nontrivial\":%ld,\"distinct_outcomes\":%zu,\"violations\":%d,\"broken\":%d,\"known_executions\":%ld,\"wall_s\":%.2f,\"region_hits\":{",
            sc->name, bound, st->bound_completed, st->exhaustive ? "true" : "false", st->executions, st->nodes, st->transitions,
            st->max_points, st->nontrivial, st->outcomes.n, st->violations, st->broken, st->known_execs, st->wall);
    { int first = 1; for (int k = 0; k < MAX_REGIONS; k++) if (st->region_hits[k]) { fprintf(jf, "%s\"%d\":%ld", first ? "" : ",", k, st->region_hits[k]); first = 0; } }
    fprintf(jf, "},\"known\":[");
    for (int k = 0; k < st->nknown; k++) { if (k) fputc(',', jf); json_str(jf, st->known_msgs[k]); }
    fprintf(jf, "],\"samples\":[");
    for (int k = 0; k < st->nsample; k++) { if (k) fputc(',', jf); fprintf(jf, "{\"thread_schedule\":\"%s\",\"outcome\":", st->sample_sched[k]); json_str(jf, st->sample_outcome[k]); fputc('}', jf); }
    fprintf(jf, "]}");
    free(st->outcomes.v);
    return st->violations ? 1 : st->broken ? 2 : 0;
}

/* minimal JSON number-array reader for replay files */
static int read_choices(const char *path, uint8_t **out, char *scen, size_t slen)
{
    FILE *f = fopen(path, "r"); if (!f) { perror(path); return -1; }
    fseek(f, 0, SEEK_END); long sz = ftell(f); fseek(f, 0, SEEK_SET);
    char *buf = malloc(sz + 1); if (fread(buf, 1, sz, f) != (size_t)sz) { fclose(f); return -1; } buf[sz] = 0; fclose(f);
    char *s = strstr(buf, "\"scenario\":\""); if (!s) return -1; s += 12; char *e = strchr(s, '"'); snprintf(scen, slen, "%.*s", (int)(e - s), s);
    char *c = strstr(buf, "\"choices\":["); if (!c) return -1; c += 11;
    uint8_t *v = malloc(sz); int n = 0;
    while (*c && *c != ']') { if (*c >= '0' && *c <= '9') { v[n++] = (uint8_t)strtol(c, &c, 10); } else c++; }
    *out = v; free(buf); return n;
}

int cs_main(int argc, char **argv, const char *property, cs_scenario_t *scenarios, int nscen, void (*setup)(void))
{
    int bound = 2; const char *only = NULL; const char *json = NULL; const char *replay = NULL; double deadline = 0;
    g_property = property; g_harness = argv[0];
    for (int i = 1; i < argc; i++) {
        if (!strcmp(argv[i], "--bound") && i + 1 < argc) bound = atoi(argv[++i]);
        else if (!strcmp(argv[i], "--scenario") && i + 1 < argc) only = argv[++i];
        else if (!strcmp(argv[i], "--json") && i + 1 < argc) json = argv[++i];
        else if (!strcmp(argv[i], "--replay") && i + 1 < argc) replay = argv[++i];
        else if (!strcmp(argv[i], "--jobs") && i + 1 < argc) g_jobs = atoi(argv[++i]);
        else if (!strcmp(argv[i], "--deadline") && i + 1 < argc) deadline = atof(argv[++i]);
        else if (!strcmp(argv[i], "--outdir") && i + 1 < argc) snprintf(g_outdir, sizeof(g_outdir), "%s", argv[++i]);
        else if (!strcmp(argv[i], "--child-timeout") && i + 1 < argc) g_child_timeout = atoi(argv[++i]);
        else if (!strcmp(argv[i], "-v")) g_verbose = 1;
        else if (!strcmp(argv[i], "--isolate")) g_isolate = 1;
        else if (!strcmp(argv[i], "--recycle") && i + 1 < argc) g_recycle = atoi(argv[++i]);
        else if (!strcmp(argv[i], "--list")) { for (int k = 0; k < nscen; k++) puts(scenarios[k].name); return 0; }
        else { fprintf(stderr, "usage: %s [--bound N] [--scenario S] [--json F] [--replay F] [--jobs N] [--deadline SEC] [--outdir D] [-v]\n", argv[0]); return 2; }
    }
    if (g_jobs < 1) g_jobs = 1;
    if (g_jobs > 64) g_jobs = 64;
    setvbuf(stdout, NULL, _IOLBF, 0);
    if (setup) setup();
    if (replay) {
        uint8_t *ch; char scen[128]; int n = read_choices(replay, &ch, scen, sizeof(scen));
        if (n < 0) { fprintf(stderr, "cannot parse %s\n", replay); return 2; }
        cs_scenario_t *sc = NULL; for (int k = 0; k < nscen; k++) if (!strcmp(scenarios[k].name, scen)) sc = &scenarios[k];
        if (!sc) { fprintf(stderr, "unknown scenario %s\n", scen); return 2; }
        g_scen = sc;
        cs_result_t *r = mmap(NULL, sizeof(cs_result_t), PROT_READ | PROT_WRITE, MAP_SHARED | MAP_ANONYMOUS, -1, 0);
        int s = run_one_sync(r, ch, n);
        printf("replay of %s: scenario=%s points=%d preemptions=%d status=%s\n", replay, scen, r->npoints, r->preemptions, st_name[s]);
        print_trace(stdout, r);
        printf("outcome: %s\nmessage: %s\n", r->outcome, r->msg);
        if (s != ST_OK && s != ST_KNOWN) { printf("VIOLATION property=%s replay=%s\n", property, replay); return 1; }
        return 0;
    }
    double t_end = deadline > 0 ? now_s() + deadline : 0;
    int nsel = 0;
    for (int k = 0; k < nscen; k++) if (!(only && strcmp(only, "all") && strcmp(only, scenarios[k].name))) nsel++;
    FILE *jf = json ? fopen(json, "w") : fopen("/dev/null", "w");
    if (!jf) { perror(json); return 2; }
    fprintf(jf, "{\"engine\":\"cosched\",\"property\":\"%s\",\"scenarios\":[\n", property);
    int rc = 0, first = 1;
    for (int k = 0; k < nscen; k++) {
        if (only && strcmp(only, "all") && strcmp(only, scenarios[k].name)) continue;
        stats_t st;
        /* each scenario gets an equal share of the time that is left */
        if (t_end > 0) { double left = t_end - now_s(); if (left < 1) left = 1; g_deadline = now_s() + left / (nsel > 0 ? nsel : 1); }
        nsel--;
        if (!first) fprintf(jf, ",\n");
        first = 0;
        int r = explore(&scenarios[k], bound, &st, jf);
        fprintf(stderr, "cosched[%s/%s]: bound %d/%d%s: %ld schedules, %ld tree nodes, max %d points, %zu outcomes, %d violations%s, %.1fs\n",
                property, scenarios[k].name, st.bound_completed, (scenarios[k].max_bound && bound > scenarios[k].max_bound) ? scenarios[k].max_bound : bound,
                st.exhaustive ? "" : " (NOT exhaustive)", st.executions, st.nodes, st.max_points, st.outcomes.n, st.violations, st.broken ? " BROKEN" : "", st.wall);
        for (int q = 0; q < st.nknown; q++) printf("KNOWN-FINDING: property=%s %s\n", property, st.known_msgs[q]);
        if (r == 1) rc = 1; else if (r == 2 && rc == 0) rc = 2;
    }
    fprintf(jf, "\n]}\n");
    fclose(jf);
    return rc;
}
