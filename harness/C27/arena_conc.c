/* C27 (E1): arenas and thread mempools never hand out a block twice - real parsec/arena.c and parsec/mempool.[ch]
 * under exhaustive preemption-bounded schedules. */
#include "cosched.h"
#define C27_FAIL(...) cs_fail(__VA_ARGS__)
#include "common.h"

#define MAXT 3
static hold_t holds[MAXT][MAXHOLD];
static const char *script[MAXT];          /* 'a' allocate 1 element, 'A' allocate 2, 'r' release the oldest block held, 'R' release the newest */
static int n_ok[MAXT], n_refused[MAXT], n_cached_hit;
static int strict_cache;                  /* cache limit checked at quiescence (every scenario since the repair b07ac1c) */
static int max_live_releases, live_releases;

static void body(void *a)
{
    int me = (int)(intptr_t)a, nh = 0, first = 0;
    for (const char *p = script[me]; *p; p++) {
        if (*p == 'a' || *p == 'A') {
            long sys = n_sys_alloc;
            if (hold_alloc(&holds[me][nh], me, *p == 'a' ? 1 : 2)) { nh++; n_ok[me]++; if (n_sys_alloc == sys) n_cached_hit++; }
            else n_refused[me]++;
        } else {
            int k = -1;
            if (*p == 'r') { for (int i = first; i < nh; i++) if (holds[me][i].in_use) { k = i; break; } }
            else           { for (int i = nh - 1; i >= 0; i--) if (holds[me][i].in_use) { k = i; break; } }
            if (k < 0) continue;          /* the matching allocation was refused */
            live_releases++; if (live_releases > max_live_releases) max_live_releases = live_releases;
            hold_release(&holds[me][k], me);
            live_releases--;
        }
    }
}

static hold_t prehold[2]; static int n_prehold;      /* blocks held by "somebody else" (owner 6) from before the threads start until the epilogue */
static void run_arena_pre(int n, size_t elem, size_t align, int32_t mu, int32_t mr, int strict, int pre_held, int pre_cached, const char *s0, const char *s1, const char *s2);
static void run_arena(int n, size_t elem, size_t align, int32_t mu, int32_t mr, int strict, const char *s0, const char *s1, const char *s2)
{
    run_arena_pre(n, elem, align, mu, mr, strict, 0, 0, s0, s1, s2);
}
/* pre-state (sequential, before the threads start): pre_cached blocks sit in the arena's cache (allocated and released by owner 7),
 * pre_held single-element blocks are held by owner 6 until the epilogue */
static void run_arena_pre(int n, size_t elem, size_t align, int32_t mu, int32_t mr, int strict, int pre_held, int pre_cached, const char *s0, const char *s1, const char *s2)
{
    arena_setup(elem, align, mu, mr);
    memset(prehold, 0, sizeof(prehold)); n_prehold = 0;
    { hold_t tmp[2]; int k = 0;
      for (; k < pre_cached && k < 2; k++) CHK(hold_alloc(&tmp[k], 7, 1), "pre-state: allocation refused");
      for (int i = 0; i < k; i++) hold_release(&tmp[i], 7);
      CHK(arena_cached() == pre_cached, "pre-state: %d blocks cached instead of %d", arena_cached(), pre_cached);
      for (int i = 0; i < pre_held && i < 2; i++) { CHK(hold_alloc(&prehold[i], 6, 1), "pre-state: allocation refused"); n_prehold++; } }
    memset(holds, 0, sizeof(holds)); memset(n_ok, 0, sizeof(n_ok)); memset(n_refused, 0, sizeof(n_refused)); n_cached_hit = 0;
    script[0] = s0; script[1] = s1; script[2] = s2; strict_cache = strict; max_live_releases = live_releases = 0;
    /* points: the free-list head, the two counters, and the list links of every block (the limits, sizes and function
     * pointers of the arena never change after construction and are not scheduling points) */
    cs_watch(&arena->area_lifo.lifo_head, sizeof(arena->area_lifo.lifo_head), "arena_freelist_head");
    cs_watch(&arena->used, sizeof(arena->used), "arena_used");
    cs_watch(&arena->released, sizeof(arena->released), "arena_released");
    for (int i = 0; i < NSLOT; i++) cs_watch(&((parsec_list_item_t *)(slab + (size_t)i * SLOTSZ))->list_next, 2 * sizeof(void *), "chunk_links");
    cs_body_t b[MAXT] = { body, body, body };
    void *args[MAXT] = { (void *)0, (void *)1, (void *)2 };
    cs_run(n, b, args);
    /* ---- quiescent state ---- */
    int still = n_prehold;
    for (int t = 0; t < n; t++) for (int i = 0; i < MAXHOLD; i++) if (holds[t][i].in_use) still += holds[t][i].count;
    CHK(still == owned_elems, "harness: ownership accounting");
    int cached = arena_cached(), nheld = n_prehold;
    for (int t = 0; t < n; t++) for (int i = 0; i < MAXHOLD; i++) if (holds[t][i].in_use) nheld++;
    CHK(live_slots() == cached + nheld, "%d blocks are allocated from the system, but %d are cached and %d in use (leak)", live_slots(), cached, nheld);
    if (mr != INT32_MAX) CHK(arena->released == cached, "arena->released is %d but %d blocks are cached", arena->released, cached);
    if (mu != INT32_MAX) {
        int sys_elems = cached + still;           /* every live allocation is either cached (1 element) or still held */
        CHK(arena->used == sys_elems, "arena->used is %d but %d elements are allocated (cached %d + in use %d)", arena->used, sys_elems, cached, still);
        CHK(arena->used <= mu, "arena->used (%d) above the allocation limit (%d) at rest", arena->used, mu);
    }
    if (strict && cached > mr)
        cs_fail("arena keeps %d released blocks in its cache, the cache limit is %d (%d release calls overlapped)", cached, mr, max_live_releases);
    cs_observe("ok %d/%d/%d refused %d/%d/%d cache-hits %d cached %d used %d sys-allocs %ld", n_ok[0], n_ok[1], n_ok[2], n_refused[0], n_refused[1], n_refused[2], n_cached_hit, cached, arena->used, n_sys_alloc);
    /* ---- sequential epilogue: release what is still held, then drain: exactly max_used single elements can be had ---- */
    for (int t = 0; t < n; t++) for (int i = 0; i < MAXHOLD; i++) if (holds[t][i].in_use) hold_release(&holds[t][i], t);
    for (int i = 0; i < n_prehold; i++) hold_release(&prehold[i], 6);
    if (mu != INT32_MAX) {
        static hold_t d[NSLOT + 2]; int got = 0;
        while (got < NSLOT && hold_alloc(&d[got], 7, 1)) got++;
        CHK(got == mu, "at rest the arena granted %d single-element blocks, its allocation limit is %d", got, mu);
        for (int i = 0; i < got; i++) hold_release(&d[i], 7);
    }
    PARSEC_OBJ_RELEASE(arena);
    CHK(live_slots() == 0, "%d blocks leaked by the arena destructor", live_slots());
}

/* ---------------------------------------------------  thread mempools  --------------------------------------------------- */
typedef struct { parsec_list_item_t super; parsec_thread_mempool_t *owner; long tag; char payload[40]; } elt_t;
static parsec_mempool_t *mp;
#define MAXELT 10
static elt_t *known_elt[MAXELT]; static int elt_owner[MAXELT], nknown;     /* -1 = in a pool */
static struct mbox_s { elt_t *volatile slot[2]; } *MB;                      /* hand-over between threads (watched) */
static const char *mscript[MAXT];
static int mp_fresh[MAXT], mp_reused[MAXT];

static int elt_index(elt_t *e) { for (int i = 0; i < nknown; i++) if (known_elt[i] == e) return i; return -1; }
static elt_t *mp_take(int me, int pool)
{
    parsec_thread_mempool_t *tm = &mp->thread_mempools[pool];
    uint32_t before = tm->nb_elt;
    elt_t *e = parsec_thread_mempool_allocate(tm);
    CHK(e != NULL, "mempool allocation returned NULL");
    int k = elt_index(e);
    if (k < 0) {
        CHK(tm->nb_elt == before + 1, "a never-seen element came out of the pool's free list");
        CHK(nknown < MAXELT, "harness: too many elements");
        k = nknown++; known_elt[k] = e; elt_owner[k] = -1; mp_fresh[me]++;
        cs_watch(&e->super.list_next, 2 * sizeof(void *), "elt_links");
    } else mp_reused[me]++;
    CHK(elt_owner[k] < 0, "mempool element #%d handed to T%d while T%d still holds it", k, me, elt_owner[k]);
    CHK(e->owner == tm, "element #%d: owner field does not name the thread pool it was allocated from", k);
    CHK(((uintptr_t)e % PARSEC_LIFO_ALIGNMENT(&tm->mempool)) == 0, "element not aligned on the pool's alignment");
    elt_owner[k] = me; e->tag = 0x1000 + me; memset(e->payload, 0x60 + me, sizeof(e->payload));
    return e;
}
static void mp_give_back(int me, elt_t *e)
{
    int k = elt_index(e);
    CHK(k >= 0 && elt_owner[k] == me, "harness: T%d frees an element it does not hold", me);
    CHK(e->tag == 0x1000 + me, "element #%d of T%d carries the tag of somebody else (0x%lx)", k, me, e->tag);
    for (size_t i = 0; i < sizeof(e->payload); i++) CHK((unsigned char)e->payload[i] == 0x60 + me, "payload of element #%d of T%d was overwritten", k, me);
    elt_owner[k] = -1;
    parsec_mempool_free(mp, e);                 /* returns it to the pool of the thread that allocated it */
}
/* script letters: 'a' allocate from my pool and keep; 'f' free the oldest element I keep; 's' send my oldest element to the
 * other thread (mailbox); 'w' wait for an element in my mailbox and free it (owner-return path) */
static void mbody(void *a)
{
    int me = (int)(intptr_t)a; elt_t *mine[8]; int nm = 0, first = 0;
    for (const char *p = mscript[me]; *p; p++) {
        switch (*p) {
        case 'a': mine[nm++] = mp_take(me, me); break;
        case 'f': if (first < nm) mp_give_back(me, mine[first++]); break;
        case 's': if (first < nm) { while (MB->slot[1 - me] != NULL) cs_wait(); elt_t *e = mine[first++]; int k = elt_index(e); elt_owner[k] = 1 - me; e->tag = 0x1000 + (1 - me); memset(e->payload, 0x60 + (1 - me), sizeof(e->payload)); MB->slot[1 - me] = e; } break;
        case 'w': { while (MB->slot[me] == NULL) cs_wait(); elt_t *e = MB->slot[me]; MB->slot[me] = NULL; mp_give_back(me, e); } break;
        }
    }
    while (first < nm) mp_give_back(me, mine[first++]);
}
static void run_mempool(int prepopulate, const char *s0, const char *s1)
{
    mp = calloc(1, sizeof(*mp)); MB = calloc(1, sizeof(*MB)); nknown = 0; memset(mp_fresh, 0, sizeof(mp_fresh)); memset(mp_reused, 0, sizeof(mp_reused));
    parsec_mempool_construct(mp, NULL, sizeof(elt_t), offsetof(elt_t, owner), 2);
    mscript[0] = s0; mscript[1] = s1;
    cs_watch(&mp->thread_mempools[0].mempool.lifo_head, sizeof(mp->thread_mempools[0].mempool.lifo_head), "pool0_head");
    cs_watch(&mp->thread_mempools[1].mempool.lifo_head, sizeof(mp->thread_mempools[1].mempool.lifo_head), "pool1_head");
    cs_watch(&mp->thread_mempools[0].nb_elt, sizeof(uint32_t), "pool0_nb_elt");
    cs_watch(&mp->thread_mempools[1].nb_elt, sizeof(uint32_t), "pool1_nb_elt");
    cs_watch(MB, sizeof(*MB), "mailbox");
    for (int i = 0; i < prepopulate; i++) { elt_t *e = mp_take(0, 0); elt_t *g = (i & 1) ? mp_take(0, 0) : NULL; mp_give_back(0, e); if (g) mp_give_back(0, g); }
    int pre = nknown; mp_fresh[0] = mp_reused[0] = 0;
    cs_body_t b[2] = { mbody, mbody }; void *args[2] = { (void *)0, (void *)1 };
    cs_run(2, b, args);
    /* quiescent: every element is back in the pool of its allocator, exactly once */
    int in_pool[2] = { 0, 0 }; unsigned seen = 0;
    for (int t = 0; t < 2; t++)
        for (parsec_list_item_t *it = mp->thread_mempools[t].mempool.lifo_head.data.item; it; it = (parsec_list_item_t *)it->list_next) {
            int k = elt_index((elt_t *)it);
            CHK(k >= 0, "pool %d holds an unknown pointer", t);
            CHK(!(seen & (1u << k)), "element #%d is twice in the pools", k);
            CHK(((elt_t *)it)->owner == &mp->thread_mempools[t], "element #%d sits in pool %d but was allocated by the other thread", k, t);
            seen |= 1u << k; in_pool[t]++; CHK(in_pool[t] <= MAXELT, "pool list is cyclic");
        }
    CHK(in_pool[0] + in_pool[1] == nknown, "%d elements allocated, %d back in the pools (lost or duplicated)", nknown, in_pool[0] + in_pool[1]);
    CHK((int)mp->thread_mempools[0].nb_elt == in_pool[0] && (int)mp->thread_mempools[1].nb_elt == in_pool[1], "nb_elt %u/%u, elements in pools %d/%d", mp->thread_mempools[0].nb_elt, mp->thread_mempools[1].nb_elt, in_pool[0], in_pool[1]);
    cs_observe("fresh %d/%d reused %d/%d (prepopulated %d)", mp_fresh[0], mp_fresh[1], mp_reused[0], mp_reused[1], pre);
    uint64_t total = parsec_mempool_destruct(mp);
    CHK((int)total == nknown, "parsec_mempool_destruct reports %lu elements, %d were allocated", (unsigned long)total, nknown);
}

#define INF INT32_MAX
/* allocation limit + cache, two threads: every block is asked for twice */
static void scen_ar_u2c1_arar_arar(void)  { run_arena(2, 40, 16, 2, 1, 1, "arar", "arar", ""); }
static void scen_ar_u2c0_ar_ar_ar(void)   { run_arena(3, 40, 16, 2, 0, 1, "ar", "ar", "ar"); }
static void scen_ar_u3c0_aar_ar_ar(void)  { run_arena(3, 100, 64, 3, 0, 1, "aarr", "ar", "ar"); }
static void scen_ar_uINFc1_arar_ar(void)  { run_arena(2, 100, 64, INF, 1, 1, "arar", "ara", ""); }
static void scen_ar_u3c2_Ar_aarr(void)    { run_arena(2, 40, 16, 3, 2, 1, "Ar", "aaRr", ""); }
static void scen_ar_u4c2_AR_Ar_ar(void)   { run_arena(3, 40, 64, 4, 2, 1, "Ar", "Ar", "ar"); }
static void scen_ar_u2cINF_arar_aar(void) { run_arena(2, 40, 16, 2, INF, 1, "arar", "aarr", ""); }
/* cache limit: one releasing thread at a time (must hold strictly) */
static void scen_cachelimit_one_releaser(void)       { run_arena(2, 40, 16, 4, 1, 1, "aarr", "aa", ""); }
static void scen_cachelimit_one_releaser_c0(void)    { run_arena(2, 40, 16, 4, 0, 1, "aarar", "a", ""); }
/* cache limit: two/three threads release at the same time (DESIGN.md section 7 item 3: the defect repaired by b07ac1c) */
static void scen_cachelimit_concurrent_release(void) { run_arena(2, 40, 16, 4, 1, 1, "ar", "ar", ""); }
static void scen_cachelimit_concurrent_release3(void){ run_arena(3, 40, 16, 4, 1, 1, "ar", "ar", "ar"); }
/* mempools */
static void scen_mp_cross_free(void)      { run_mempool(0, "asa", "w"); }
static void scen_mp_cross_free_pre(void)  { run_mempool(2, "asaf", "aw"); }
static void scen_mp_pingpong(void)        { run_mempool(1, "asw", "wasa"); }
static void scen_mp_two_returns(void)     { run_mempool(0, "aassaa", "ww"); }

static void setup(void)
{
    parsec_arena_t *a = PARSEC_OBJ_NEW(parsec_arena_t); a->elem_size = 0; PARSEC_OBJ_RELEASE(a);      /* lazy class initialisation */
    parsec_lifo_t *l = PARSEC_OBJ_NEW(parsec_lifo_t); PARSEC_OBJ_RELEASE(l);
    parsec_list_item_t *i = PARSEC_OBJ_NEW(parsec_list_item_t); PARSEC_OBJ_RELEASE(i);
}
/* ------------------------------------------------------------------ GENERATED scripts (bounded-exhaustive families)
 * The enumeration lives in c27gen.py (driven by check.py); a script is completely described by its TEXT, which is also its
 * scenario name and therefore stored in the replay file:
 *   arena:    g_ar_u<U>c<C>h<H>p<P>_<T0>_<T1>[_<T2>]      e.g.  g_ar_u2c1h1p0_a_a
 *               U allocation limit in elements: 2 | I (none);  C cache limit: 0 | 1 | I;  element 40 bytes, alignment 16
 *               H single-element blocks held by somebody else from before the start until the epilogue (0|1)
 *               P blocks sitting in the cache at the start (0|1; needs C != 0)
 *               T<t>: letters a (allocate 1 element) A (allocate 2) r (release the oldest block I hold) R (release the newest)
 *   mempool:  g_mp_p<N>_<T0>_<T1>                         e.g.  g_mp_p1_as_w
 *               N elements allocated and freed by T0's pool before the start (0|1|2)
 *               letters a (allocate from my pool) f (free my oldest) s (hand my oldest to the other thread) w (take the element handed to me and free it)
 * Usage contract (checked here too): r/R/f/s only when the thread holds a block by then (as many allocations as releases before it);
 * every w has its s in the other thread (the enumeration also drops scripts whose s/w order can deadlock: that is a property of
 * the script, not of the pools). */
#define MAXGEN 1024
typedef struct { char name[64]; int is_mp, mu, mr, h, p, nthr; char s[3][8]; } gdef_t;
static gdef_t gdefs[MAXGEN]; static int ngdefs;
static int g_parse(const char *txt, gdef_t *g, char *err, size_t elen)
{
    memset(g, 0, sizeof(*g));
    if (strlen(txt) >= sizeof(g->name)) { snprintf(err, elen, "script text too long"); return -1; }
    strcpy(g->name, txt);
    const char *p;
    if (!strncmp(txt, "g_ar_u", 6)) {
        p = txt + 6;
        if (*p == '2') g->mu = 2; else if (*p == 'I') g->mu = INT32_MAX; else { snprintf(err, elen, "bad allocation limit"); return -1; }
        p++; if (*p++ != 'c') { snprintf(err, elen, "bad pre-state"); return -1; }
        if (*p == '0') g->mr = 0; else if (*p == '1') g->mr = 1; else if (*p == 'I') g->mr = INT32_MAX; else { snprintf(err, elen, "bad cache limit"); return -1; }
        p++; if (*p++ != 'h' || (*p != '0' && *p != '1')) { snprintf(err, elen, "bad pre-state (held)"); return -1; }
        g->h = *p++ - '0';
        if (*p++ != 'p' || (*p != '0' && *p != '1')) { snprintf(err, elen, "bad pre-state (cached)"); return -1; }
        g->p = *p++ - '0';
        if (g->p && g->mr == 0) { snprintf(err, elen, "pre-state: a cache of limit 0 cannot hold a block"); return -1; }
        if (g->mu != INT32_MAX && g->h + g->p > g->mu) { snprintf(err, elen, "pre-state exceeds the allocation limit"); return -1; }
    } else if (!strncmp(txt, "g_mp_p", 6)) {
        g->is_mp = 1; p = txt + 6;
        if (*p < '0' || *p > '2') { snprintf(err, elen, "bad pre-population"); return -1; }
        g->p = *p++ - '0';
    } else { snprintf(err, elen, "not a generated script text"); return -1; }
    int t = 0;
    while (*p == '_') {
        p++;
        if (t >= (g->is_mp ? 2 : 3)) { snprintf(err, elen, "too many threads"); return -1; }
        int n = 0, held = 0;
        while (*p && *p != '_') {
            if (n >= 6) { snprintf(err, elen, "more than 6 operations in thread %d", t); return -1; }
            char c = *p++;
            if (g->is_mp ? !strchr("afsw", c) : !strchr("aArR", c)) { snprintf(err, elen, "bad operation '%c'", c); return -1; }
            if (c == 'a' || c == 'A') held++;
            else if (c != 'w') { if (held < 1) { snprintf(err, elen, "contract: thread %d releases a block it cannot hold", t); return -1; } held--; }
            g->s[t][n++] = c;
        }
        if (n < 1) { snprintf(err, elen, "thread %d has no operation", t); return -1; }
        t++;
    }
    if (*p || t < 2) { snprintf(err, elen, "trailing text or fewer than 2 threads"); return -1; }
    g->nthr = t;
    if (g->is_mp) {
        int ns[2] = { 0, 0 }, nw[2] = { 0, 0 };
        for (int k = 0; k < 2; k++) for (const char *q = g->s[k]; *q; q++) { ns[k] += *q == 's'; nw[k] += *q == 'w'; }
        if (ns[0] != nw[1] || ns[1] != nw[0]) { snprintf(err, elen, "contract: every w needs its s in the other thread"); return -1; }
    }
    return 0;
}
static void g_run(const gdef_t *g)
{
    if (g->is_mp) run_mempool(g->p, g->s[0], g->s[1]);
    else run_arena_pre(g->nthr, 40, 16, g->mu, g->mr, 1, g->h, g->p, g->s[0], g->s[1], g->s[2]);
}
/* cosched scenarios carry a parameterless run(): one trampoline per slot of gdefs[] */
#define G1(i) static void grun_##i(void) { g_run(&gdefs[0x##i]); }
#define G16(p) G1(p##0) G1(p##1) G1(p##2) G1(p##3) G1(p##4) G1(p##5) G1(p##6) G1(p##7) G1(p##8) G1(p##9) G1(p##a) G1(p##b) G1(p##c) G1(p##d) G1(p##e) G1(p##f)
#define G256(p) G16(p##0) G16(p##1) G16(p##2) G16(p##3) G16(p##4) G16(p##5) G16(p##6) G16(p##7) G16(p##8) G16(p##9) G16(p##a) G16(p##b) G16(p##c) G16(p##d) G16(p##e) G16(p##f)
G256(0) G256(1) G256(2) G256(3)
#define N1(i) grun_##i,
#define N16(p) N1(p##0) N1(p##1) N1(p##2) N1(p##3) N1(p##4) N1(p##5) N1(p##6) N1(p##7) N1(p##8) N1(p##9) N1(p##a) N1(p##b) N1(p##c) N1(p##d) N1(p##e) N1(p##f)
#define N256(p) N16(p##0) N16(p##1) N16(p##2) N16(p##3) N16(p##4) N16(p##5) N16(p##6) N16(p##7) N16(p##8) N16(p##9) N16(p##a) N16(p##b) N16(p##c) N16(p##d) N16(p##e) N16(p##f)
static void (*const GRUNS[])(void) = { N256(0) N256(1) N256(2) N256(3) };
_Static_assert(sizeof(GRUNS) / sizeof(GRUNS[0]) == MAXGEN, "one trampoline per generated slot");
static int g_add(const char *txt)
{
    char err[160];
    if (ngdefs >= MAXGEN) { fprintf(stderr, "c27: more than %d generated scripts in one invocation\n", MAXGEN); return -1; }
    if (g_parse(txt, &gdefs[ngdefs], err, sizeof(err))) { fprintf(stderr, "c27: generated script '%s' rejected: %s\n", txt, err); return -1; }
    ngdefs++; return 0;
}

#define S(id, mb) { #id, scen_##id, mb }
static cs_scenario_t set_a[] = { S(ar_u2c1_arar_arar, 0), S(ar_uINFc1_arar_ar, 0), S(ar_u3c2_Ar_aarr, 0), S(ar_u2cINF_arar_aar, 0),
                                 S(cachelimit_one_releaser, 0), S(cachelimit_one_releaser_c0, 0), S(mp_cross_free, 0), S(mp_cross_free_pre, 0), S(mp_pingpong, 0), S(mp_two_returns, 0) };
static cs_scenario_t set_b[] = { S(ar_u2c0_ar_ar_ar, 0), S(ar_u3c0_aar_ar_ar, 0), S(ar_u4c2_AR_Ar_ar, 0) };
static cs_scenario_t set_k[] = { S(cachelimit_concurrent_release, 0), S(cachelimit_concurrent_release3, 0) };
#define N(a) (int)(sizeof(a) / sizeof(a[0]))
int main(int argc, char **argv)
{
    static cs_scenario_t all[N(set_a) + N(set_b) + N(set_k)]; int n = 0;
    /* generated families: --gen <text> / --gen-file <file with one text per line> replace the hand-written scripts in this invocation;
     * the replay file of a generated script carries the script text as its scenario name, from which the script is rebuilt */
    char *av[64]; int na = 0; const char *replay = NULL; static char filebuf[1 << 17];
    for (int i = 0; i < argc && na < 63; i++) {
        if (!strcmp(argv[i], "--gen") && i + 1 < argc) { if (g_add(argv[++i])) return 2; }
        else if (!strcmp(argv[i], "--gen-file") && i + 1 < argc) {
            FILE *f = fopen(argv[++i], "r"); if (!f) { perror(argv[i]); return 2; }
            size_t k = fread(filebuf, 1, sizeof(filebuf) - 1, f); fclose(f); filebuf[k] = 0;
            for (char *q = strtok(filebuf, "\n"); q; q = strtok(NULL, "\n")) if (*q && g_add(q)) return 2;
        }
        else { if (!strcmp(argv[i], "--replay") && i + 1 < argc) replay = argv[i + 1]; av[na++] = argv[i]; }
    }
    av[na] = NULL;
    if (replay) {
        static char rb[1 << 16]; FILE *f = fopen(replay, "r");
        if (f) { size_t k = fread(rb, 1, sizeof(rb) - 1, f); fclose(f); rb[k] = 0;
            char *q = strstr(rb, "\"scenario\":\"g_"); if (q) { q += 12; char *e = strchr(q, '"'); if (e) { *e = 0; if (g_add(q)) return 2; printf("generated script %s (rebuilt from the scenario text of the replay file)\n", q); } } }
    }
    if (ngdefs) {
        cs_scenario_t *sc = calloc(ngdefs, sizeof(*sc));
        for (int i = 0; i < ngdefs; i++) { sc[i].name = gdefs[i].name; sc[i].run = GRUNS[i]; }
        return cs_main(na, av, "C27", sc, ngdefs, setup);
    }
    const char *set = getenv("C27_SET");            /* unset (replay): every scenario; else a list out of a,b,k */
    if (!set || strchr(set, 'a')) for (int i = 0; i < N(set_a); i++) all[n++] = set_a[i];
    if (!set || strchr(set, 'b')) for (int i = 0; i < N(set_b); i++) all[n++] = set_b[i];
    if (!set || strchr(set, 'k')) for (int i = 0; i < N(set_k); i++) all[n++] = set_k[i];
    return cs_main(na, av, "C27", all, n, setup);
}
