META = dict(
    engine='cosched+seqx',
    technique='stateless model checking: preemption-bounded exhaustive schedule enumeration (CHESS) of concurrent schedule/select on the 11 real scheduler modules over borrowed execution streams of a parsec_init context; plus bounded-exhaustive schedule/select sequences with buffer overflow',
    level_text='For each of the 11 scheduler modules (selected through mca_sched, installed by parsec_init, flow_init run for every stream): (E1) every interleaving with <= b preemptions (quick: b=1 - 3-thread scripts only for the lock-free modules -, b=2 for ll/llp and the lfq two-writer script; thorough: b=2 for all, b=3 for ll/llp on 2 streams) of seven 2-3 thread scripts (ring vs steal, foreign push onto stream 0, two writers, buffer overflow vs steal, re-schedule with distance, communication-thread push, three active streams); (E2) every sequence of schedule(ring shape, distance)/select operations up to depth 3-4 (quick) / 4-5 (thorough) on 2 streams and depth 3 / 4 on 3 streams, ring shapes including rings larger than all bounded buffers. Oracle: every select returns NULL or a pending task, never a task twice, and a drain of all streams returns every task handed to schedule.',
    level_note='Sequential consistency at instrumented accesses to the watched scheduler objects and task links; 2-3 threads, <= 4 operations per thread; select only by the owning thread and foreign schedule only onto stream 0 (the usage contract of scheduling.c); synthetic 2-package hwloc topology; weak-memory effects out of reach.',
)
RULE = ("cosched legs: every schedule of the 2-3 thread script with at most b preemptions, scheduling points = instrumented accesses of libparsec to the "
        "module's shared queues (lists, dequeues, lifo heads, bounded-buffer slots, ltq heaps) and to the tasks' links; non-trivial = schedule with >= 1 preemption; "
        "states = nodes of the schedule tree. seqx legs: every operation sequence of length 1..D from a pristine scheduler followed by a full drain; "
        "non-trivial = a bounded buffer overflowed into the system dequeue or a task was returned on another stream than it was scheduled on; states = sequences executed")
MODS = ['ap', 'gd', 'ip', 'lfq', 'lhq', 'll', 'llp', 'ltq', 'pbq', 'rnd', 'spq']

def build(ctx):
    return (ctx.compile('hk-shm', 'seq', ['seq_h.c'], instr=False),
            ctx.compile('hk-shm', 'conc', ['conc_h.c'], engine='cosched', instr=False, ldflags=['-ldl']))

def check(ctx):
    import os, vlib
    from concurrent.futures import ThreadPoolExecutor
    os.environ['PARSEC_MCA_bind_threads'] = '0'
    seq, conc = build(ctx)
    quick = ctx.tier == 'quick'
    jobs = []     # (label, exe, args, deadline)
    for m in MODS:
        if quick:
            jobs.append(('seq_%s_k2s4' % m, seq, ['--sched', m, '--streams', '2', '--depth', '3', '--nshapes', '4', '--ndist', '2'], 60))
            jobs.append(('seq_%s_k2s3' % m, seq, ['--sched', m, '--streams', '2', '--depth', '4', '--nshapes', '3', '--ndist', '2'], 60))
            jobs.append(('seq_%s_k3' % m, seq, ['--sched', m, '--streams', '3', '--depth', '3', '--nshapes', '3', '--ndist', '2'], 60))
        else:
            jobs.append(('seq_%s_k2' % m, seq, ['--sched', m, '--streams', '2', '--depth', '5', '--nshapes', '5', '--ndist', '2'], 900))
            jobs.append(('seq_%s_k2d3' % m, seq, ['--sched', m, '--streams', '2', '--depth', '4', '--nshapes', '4', '--ndist', '3'], 600))
            jobs.append(('seq_%s_k3' % m, seq, ['--sched', m, '--streams', '3', '--depth', '4', '--nshapes', '4', '--ndist', '2'], 900))
    cj = '2' if quick else '3'
    LOCKFREE = ('lfq', 'lhq', 'll', 'llp', 'ltq', 'pbq')       # the others keep one list under a lock
    for m in MODS:
        for k in (2, 3):
            scen = 'all'
            if quick:
                if k == 3 and m not in LOCKFREE:
                    continue
                if k == 3:
                    scen = '%s_k3_three_comm' % m
                b = 2 if (m in ('ll', 'llp') and k == 2) else 1
                dl = 70
            else:
                b = 3 if (m in ('ll', 'llp') and k == 2) else 2
                dl = 1000
            jobs.append(('conc_%s_k%d_b%d' % (m, k, b), conc, ['--sched', m, '--streams', str(k), '--bound', str(b), '--scenario', scen, '--jobs', cj, '--deadline', str(dl)], dl))
    if quick:
        jobs.append(('conc_lfq_k2_b2_two_writers', conc, ['--sched', 'lfq', '--streams', '2', '--bound', '2', '--scenario', 'lfq_k2_two_writers', '--jobs', cj, '--deadline', '70'], 70))
    def one(j):
        label, exe, args, dl = j
        extra = ['--deadline', str(dl)] if exe == seq else []
        return ctx.run_engine(exe, args + extra + ['--outdir', vlib.OUT], label=label, timeout=dl + 400)
    # the slow ones first
    jobs.sort(key=lambda j: (0 if j[0].startswith('conc') and '_k3_' in j[0] else 1 if j[0].startswith('conc') else 2))
    with ThreadPoolExecutor(max_workers=max(2, vlib.NJOBS // 2)) as ex:
        list(ex.map(one, jobs))
    ctx.legs.sort(key=lambda l: (l.get('leg', ''), l.get('name', '')))
    return ctx.finish(RULE, ["sequential consistency at instrumented accesses (no weak-memory effects)",
                             "usage contract of scheduling.c: select(es_i) only from the thread owning stream i; schedule from a foreign thread only onto stream 0",
                             "HWLOC_SYNTHETIC topology 'pack:2 core:2 pu:1' (pins the neighbour order of lfq/pbq/ltq and the lhq hierarchy)",
                             "rnd: libc rand() re-seeded before every execution"])

def replay(ctx, path, obj):
    import subprocess, re, os
    os.environ['PARSEC_MCA_bind_threads'] = '0'
    seq, conc = build(ctx)
    sc = obj['scenario']
    m = re.match(r'seq_(\w+?)_k(\d+)_sh(\d+)_nd(\d+)_depth(\d+)$', sc)
    if m:
        return subprocess.call([seq, '--sched', m.group(1), '--streams', m.group(2), '--nshapes', m.group(3), '--ndist', m.group(4), '--depth', m.group(5), '--replay', path])
    m = re.match(r'(\w+?)_k(\d+)_', sc)
    return subprocess.call([conc, '--sched', m.group(1), '--streams', m.group(2), '--replay', path])
