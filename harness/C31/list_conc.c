/* C31 (E1 leg): the locked list / dequeue / fifo operations are linearizable (real inline functions of list.h,
 * dequeue.h, fifo.h under every schedule with a bounded number of preemptions). */
#include "parsec/parsec_config.h"
#include "parsec/class/list.h"
#include "parsec/class/dequeue.h"
#include "parsec/class/fifo.h"
#include "cosched.h"
#include <stdio.h>
#include <string.h>
#include <stdlib.h>
#include <stddef.h>

#define NITEMS 6
typedef struct { parsec_list_item_t super; int prio; } elt_t;
#define OFF offsetof(elt_t, prio)
enum { O_PUSHF, O_PUSHB, O_POPF, O_POPB, O_TRYPOPF, O_TRYPOPB, O_PUSHSORTED, O_CHAINSORTED, O_CHAINF, O_CHAINB, O_UNCHAIN, O_SORT, O_ISEMPTY,
       O_FIFO_PUSH, O_FIFO_POP, O_FIFO_TRYPOP, O_FIFO_CHAIN, O_DQ_PUSHF, O_DQ_PUSHB, O_DQ_POPF, O_DQ_POPB, O_END };
static const char *oname[] = { "push_front", "push_back", "pop_front", "pop_back", "try_pop_front", "try_pop_back", "push_sorted", "chain_sorted", "chain_front", "chain_back",
                               "unchain", "sort", "is_empty", "fifo_push", "fifo_pop", "fifo_try_pop", "fifo_chain", "dq_push_front", "dq_push_back", "dq_pop_front", "dq_pop_back" };
typedef struct { int type, a, b; } step_t;                       /* a,b: item ids (b: second ring member or -1) */
typedef struct { int type, a, b; int res; int rn, r[NITEMS]; long call, ret; } op_t;   /* res: popped id / -1 NULL / is_empty value; r: unchained ids */
#define MAXOPS 8
static op_t ops[MAXOPS]; static int nops;
static parsec_list_t *list;
static elt_t *items[NITEMS];
static int init_list[NITEMS], ninit;              /* front..back */
static int final_list[NITEMS], nfinal;
static int prio_of[NITEMS];

typedef struct { const char *name; int prios[NITEMS]; int ninit, init[NITEMS]; int nthreads; step_t script[3][3]; } scen_t;
static const scen_t *cur;

static int id_of(volatile parsec_list_item_t *it) { if (!it) return -1; for (int i = 0; i < NITEMS; i++) if (&items[i]->super == it) return i; return -2; }
static int is_pop(int t) { return t == O_POPF || t == O_POPB || t == O_TRYPOPF || t == O_TRYPOPB || t == O_FIFO_POP || t == O_FIFO_TRYPOP || t == O_DQ_POPF || t == O_DQ_POPB; }

static parsec_list_item_t *ring2(int a, int b)
{
    parsec_list_item_t *r = parsec_list_item_singleton(&items[a]->super);
    if (b >= 0) { parsec_list_item_singleton(&items[b]->super); parsec_list_item_ring_push(r, &items[b]->super); }
    return r;
}

static void do_step(const step_t *s)
{
    int k = __sync_fetch_and_add(&nops, 1); op_t *o = &ops[k];
    o->type = s->type; o->a = s->a; o->b = s->b; o->res = -9; o->rn = 0;
    parsec_list_item_t *A = s->a >= 0 ? &items[s->a]->super : NULL, *it = NULL, *ring = NULL;
    if (s->type == O_CHAINSORTED || s->type == O_CHAINF || s->type == O_CHAINB || s->type == O_FIFO_CHAIN) ring = ring2(s->a, s->b);    /* private until published */
    o->call = cs_stamp();
    switch (s->type) {
    case O_PUSHF: parsec_list_push_front(list, A); break;
    case O_PUSHB: parsec_list_push_back(list, A); break;
    case O_POPF: it = parsec_list_pop_front(list); break;
    case O_POPB: it = parsec_list_pop_back(list); break;
    case O_TRYPOPF: it = parsec_list_try_pop_front(list); break;
    case O_TRYPOPB: it = parsec_list_try_pop_back(list); break;
    case O_PUSHSORTED: parsec_list_push_sorted(list, A, OFF); break;
    case O_CHAINSORTED: parsec_list_chain_sorted(list, ring, OFF); break;
    case O_CHAINF: parsec_list_chain_front(list, ring); break;
    case O_CHAINB: parsec_list_chain_back(list, ring); break;
    case O_UNCHAIN: it = parsec_list_unchain(list); break;
    case O_SORT: parsec_list_sort(list, OFF); break;
    case O_ISEMPTY: o->res = parsec_list_is_empty(list); break;
    case O_FIFO_PUSH: parsec_fifo_push(list, A); break;
    case O_FIFO_POP: it = parsec_fifo_pop(list); break;
    case O_FIFO_TRYPOP: it = parsec_fifo_try_pop(list); break;
    case O_FIFO_CHAIN: parsec_fifo_chain(list, ring); break;
    case O_DQ_PUSHF: parsec_dequeue_push_front(list, A); break;
    case O_DQ_PUSHB: parsec_dequeue_push_back(list, A); break;
    case O_DQ_POPF: it = parsec_dequeue_pop_front(list); break;
    case O_DQ_POPB: it = parsec_dequeue_pop_back(list); break;
    }
    o->ret = cs_stamp();
    if (is_pop(s->type)) o->res = id_of(it);
    if (s->type == O_UNCHAIN) {
        o->res = it ? 0 : -1;
        if (it) { volatile parsec_list_item_t *x = it; do { int id = id_of(x); if (id < 0 || o->rn >= NITEMS) { o->res = -2; break; } o->r[o->rn++] = id; x = x->list_next; } while (x != it); }
    }
}
static void body(void *arg) { int t = (int)(intptr_t)arg; for (int i = 0; i < 3 && cur->script[t][i].type != O_END; i++) do_step(&cur->script[t][i]); }

/* ---- sequential model ---- */
static int sort_dir;      /* +1 ascending, -1 descending: the statement only asks for "ordered" */
static int relax_sort_null;   /* second pass only: a pop may return NULL on a non-empty list when it overlaps a parsec_list_sort (candidate finding) */
static int overlaps_sort(const op_t *o) { for (int j = 0; j < nops; j++) if (&ops[j] != o && ops[j].type == O_SORT && ops[j].call < o->ret && o->call < ops[j].ret) return 1; return 0; }
static void m_ins(int *m, int *n, int pos, int id) { for (int i = *n; i > pos; i--) m[i] = m[i - 1]; m[pos] = id; ++*n; }
static void m_ins_sorted(int *m, int *n, int id) { int pos = 0; while (pos < *n && prio_of[m[pos]] >= prio_of[id]) pos++; m_ins(m, n, pos, id); }
static int overlaps_other(const op_t *o) { for (int j = 0; j < nops; j++) if (&ops[j] != o && ops[j].call < o->ret && o->call < ops[j].ret) return 1; return 0; }
static int seq_check(const int *order, int n, void *ctx)
{
    (void)ctx; int m[2 * NITEMS], mn = 0;
    for (int i = 0; i < ninit; i++) m[mn++] = init_list[i];
    for (int i = 0; i < n; i++) {
        op_t *o = &ops[order[i]];
        switch (o->type) {
        case O_PUSHF: case O_DQ_PUSHF: m_ins(m, &mn, 0, o->a); break;
        case O_PUSHB: case O_FIFO_PUSH: case O_DQ_PUSHB: m_ins(m, &mn, mn, o->a); break;
        case O_POPF: case O_FIFO_POP: case O_DQ_POPF: if (relax_sort_null && o->res == -1 && overlaps_sort(o)) break; { int e = mn ? m[0] : -1; if (e != o->res) return 0; if (mn) { memmove(m, m + 1, sizeof(int) * (mn - 1)); mn--; } } break;
        case O_POPB: case O_DQ_POPB: if (relax_sort_null && o->res == -1 && overlaps_sort(o)) break; { int e = mn ? m[mn - 1] : -1; if (e != o->res) return 0; if (mn) mn--; } break;
        case O_TRYPOPF: case O_FIFO_TRYPOP: case O_TRYPOPB:
            if (o->res == -1) { if (mn != 0 && !overlaps_other(o)) return 0; }      /* documented: NULL when empty or when another thread holds the lock */
            else if (o->type == O_TRYPOPB) { int e = mn ? m[mn - 1] : -1; if (e != o->res) return 0; mn--; }
            else { int e = mn ? m[0] : -1; if (e != o->res) return 0; memmove(m, m + 1, sizeof(int) * (mn - 1)); mn--; }
            break;
        case O_PUSHSORTED: m_ins_sorted(m, &mn, o->a); break;
        case O_CHAINSORTED: m_ins_sorted(m, &mn, o->a); if (o->b >= 0) m_ins_sorted(m, &mn, o->b); break;
        case O_CHAINF: if (o->b >= 0) m_ins(m, &mn, 0, o->b); m_ins(m, &mn, 0, o->a); break;
        case O_CHAINB: case O_FIFO_CHAIN: m_ins(m, &mn, mn, o->a); if (o->b >= 0) m_ins(m, &mn, mn, o->b); break;
        case O_UNCHAIN: if (mn == 0) { if (o->res != -1) return 0; } else { if (o->res != 0 || o->rn != mn) return 0; for (int j = 0; j < mn; j++) if (o->r[j] != m[j]) return 0; mn = 0; } break;
        case O_SORT: /* scenarios with sort use pairwise distinct priorities, so the result is unique up to direction */
            for (int a = 1; a < mn; a++) for (int b = a; b > 0 && sort_dir * prio_of[m[b - 1]] > sort_dir * prio_of[m[b]]; b--) { int t = m[b]; m[b] = m[b - 1]; m[b - 1] = t; }
            break;
        case O_ISEMPTY: if (o->res != (mn == 0)) return 0; break;
        }
    }
    if (mn != nfinal) return 0;
    for (int i = 0; i < mn; i++) if (m[i] != final_list[i]) return 0;
    return 1;
}

static void run_scen(const scen_t *s)
{
    cur = s; nops = 0; memset(ops, 0, sizeof(ops));
    list = PARSEC_OBJ_NEW(parsec_list_t);
    for (int i = 0; i < NITEMS; i++) { items[i] = (elt_t *)calloc(1, sizeof(elt_t)); PARSEC_OBJ_CONSTRUCT(&items[i]->super, parsec_list_item_t); items[i]->prio = prio_of[i] = s->prios[i]; }
    ninit = s->ninit; for (int i = 0; i < ninit; i++) { init_list[i] = s->init[i]; parsec_list_nolock_push_back(list, &items[s->init[i]]->super); }
    cs_watch(&list->ghost_element.list_next, 2 * sizeof(void *), "list_head_tail");
    cs_watch(&list->atomic_lock, sizeof(list->atomic_lock), "list_lock");
    for (int i = 0; i < NITEMS; i++) cs_watch(&items[i]->super.list_next, 2 * sizeof(void *), "item_links");
    cs_body_t b[3] = { body, body, body }; void *args[3] = { (void *)0, (void *)1, (void *)2 };
    cs_run(s->nthreads, b, args);

    /* quiescent structure: walk forward, check prev links, no duplicates */
    nfinal = 0; int seen[NITEMS] = {0}; parsec_list_item_t *g = &list->ghost_element; volatile parsec_list_item_t *prev = g;
    for (volatile parsec_list_item_t *it = g->list_next; it != g; prev = it, it = it->list_next) {
        int id = id_of(it);
        CS_CHECK(id >= 0, "list reaches a pointer that is not an item after %d items", nfinal);
        CS_CHECK(!seen[id] && nfinal < NITEMS, "item %d appears twice in the list (cycle/duplicate)", id);
        CS_CHECK(it->list_prev == prev, "prev link of item %d is inconsistent", id);
        seen[id] = 1; final_list[nfinal++] = id;
    }
    CS_CHECK(g->list_prev == prev, "tail pointer does not point to the last item");
    CS_CHECK(list->atomic_lock == 0, "list lock left taken");
    /* conservation per item */
    int inserted[NITEMS] = {0}, removed[NITEMS] = {0};
    for (int i = 0; i < ninit; i++) inserted[init_list[i]]++;
    for (int k = 0; k < nops; k++) {
        op_t *o = &ops[k];
        CS_CHECK(o->res != -2, "%s returned a pointer that is not an item", oname[o->type]);
        if (is_pop(o->type)) { if (o->res >= 0) removed[o->res]++; }
        else if (o->type == O_UNCHAIN) { for (int j = 0; j < o->rn; j++) removed[o->r[j]]++; }
        else if (o->type != O_SORT && o->type != O_ISEMPTY) { inserted[o->a]++; if (o->b >= 0) inserted[o->b]++; }
    }
    for (int i = 0; i < NITEMS; i++) CS_CHECK(inserted[i] - removed[i] == seen[i], "item %d: inserted %d, removed %d, in list %d (lost or duplicated)", i, inserted[i], removed[i], seen[i]);
    char buf[600]; int o = 0;
    for (int k = 0; k < nops; k++) {
        o += snprintf(buf + o, sizeof(buf) - o, "%s(", oname[ops[k].type]);
        if (ops[k].a >= 0) o += snprintf(buf + o, sizeof(buf) - o, "%d", ops[k].a);
        if (ops[k].b >= 0) o += snprintf(buf + o, sizeof(buf) - o, ",%d", ops[k].b);
        o += snprintf(buf + o, sizeof(buf) - o, ")");
        if (is_pop(ops[k].type) || ops[k].type == O_ISEMPTY) o += snprintf(buf + o, sizeof(buf) - o, "=%d", ops[k].res);
        if (ops[k].type == O_UNCHAIN) { o += snprintf(buf + o, sizeof(buf) - o, "=["); for (int j = 0; j < ops[k].rn; j++) o += snprintf(buf + o, sizeof(buf) - o, "%d", ops[k].r[j]); o += snprintf(buf + o, sizeof(buf) - o, "]"); }
        o += snprintf(buf + o, sizeof(buf) - o, " ");
    }
    o += snprintf(buf + o, sizeof(buf) - o, "| final:");
    for (int i = 0; i < nfinal; i++) o += snprintf(buf + o, sizeof(buf) - o, " %d", final_list[i]);
    cs_span_t sp[MAXOPS]; for (int k = 0; k < nops; k++) { sp[k].call = ops[k].call; sp[k].ret = ops[k].ret; }
    relax_sort_null = 0;
    sort_dir = 1; int lin = cs_linearizable(sp, nops, seq_check, NULL);
    if (!lin) { sort_dir = -1; lin = cs_linearizable(sp, nops, seq_check, NULL); }
    if (!lin) {   /* is it exactly the candidate finding (pop sees the list empty while a locked sort has it unhooked)? */
        relax_sort_null = 1; int lin2 = 0;
        for (sort_dir = 1; sort_dir >= -1 && !lin2; sort_dir -= 2) lin2 = cs_linearizable(sp, nops, seq_check, NULL);
        relax_sort_null = 0;
        if (lin2 && getenv("C31_KNOWN_SORT_EMPTY")) { cs_known("C31-sort-hides-items-from-unlocked-empty-test (a pop returned NULL while overlapping a locked parsec_list_sort; nothing else is wrong with the history)"); cs_observe("known-finding:%s", buf); return; }
        if (lin2) cs_fail("pop returned NULL on a list that is never empty: its unlocked emptiness test ran while a locked parsec_list_sort had unhooked all items: %s", buf);
    }
    CS_CHECK(lin, "history not linearizable w.r.t. a sequential list (stable sorted insertion): %s", buf);
    cs_observe("%s", buf);
}

#define E { O_END, -1, -1 }
static const scen_t scens[] = {
    { "pushf_pushb_popf", { 1, 1, 1, 1, 1, 1 }, 1, { 0 }, 3, { { { O_PUSHF, 1, -1 }, E }, { { O_PUSHB, 2, -1 }, E }, { { O_POPF, -1, -1 }, E } } },
    { "popf_popb_pushb_single", { 1, 1, 1, 1, 1, 1 }, 1, { 0 }, 3, { { { O_POPF, -1, -1 }, E }, { { O_POPB, -1, -1 }, E }, { { O_PUSHB, 1, -1 }, E } } },
    { "pushsorted_ties_popf", { 3, 2, 2, 2, 1, 1 }, 2, { 0, 1 }, 3, { { { O_PUSHSORTED, 2, -1 }, E }, { { O_PUSHSORTED, 3, -1 }, E }, { { O_POPF, -1, -1 }, E } } },
    { "chainsorted_popb_pushsorted", { 3, 1, 2, 2, 3, 1 }, 2, { 0, 1 }, 3, { { { O_CHAINSORTED, 2, 3 }, E }, { { O_POPB, -1, -1 }, E }, { { O_PUSHSORTED, 4, -1 }, E } } },
    { "chainf_chainb_unchain", { 1, 1, 1, 1, 1, 1 }, 1, { 0 }, 3, { { { O_CHAINF, 1, 2 }, E }, { { O_CHAINB, 3, 4 }, E }, { { O_UNCHAIN, -1, -1 }, E } } },
    { "trypopf_trypopb_pushb", { 1, 1, 1, 1, 1, 1 }, 2, { 0, 1 }, 3, { { { O_TRYPOPF, -1, -1 }, E }, { { O_TRYPOPB, -1, -1 }, E }, { { O_PUSHB, 2, -1 }, E } } },
    { "fifo_push2_pop2", { 1, 1, 1, 1, 1, 1 }, 0, { 0 }, 2, { { { O_FIFO_PUSH, 0, -1 }, { O_FIFO_PUSH, 1, -1 }, E }, { { O_FIFO_POP, -1, -1 }, { O_FIFO_POP, -1, -1 }, E } } },
    { "fifo_chain_trypop_pop", { 1, 1, 1, 1, 1, 1 }, 1, { 0 }, 3, { { { O_FIFO_CHAIN, 1, 2 }, E }, { { O_FIFO_TRYPOP, -1, -1 }, E }, { { O_FIFO_POP, -1, -1 }, { O_FIFO_POP, -1, -1 }, E } } },
    { "dequeue_2x2", { 1, 1, 1, 1, 1, 1 }, 1, { 0 }, 2, { { { O_DQ_PUSHF, 1, -1 }, { O_DQ_POPB, -1, -1 }, E }, { { O_DQ_PUSHB, 2, -1 }, { O_DQ_POPF, -1, -1 }, E } } },
    { "isempty_pushf_popf", { 1, 1, 1, 1, 1, 1 }, 0, { 0 }, 3, { { { O_ISEMPTY, -1, -1 }, E }, { { O_PUSHF, 0, -1 }, E }, { { O_POPF, -1, -1 }, { O_ISEMPTY, -1, -1 }, E } } },
    { "sort_pushb_pushf", { 1, 3, 2, 4, 0, 5 }, 3, { 0, 1, 2 }, 3, { { { O_SORT, -1, -1 }, E }, { { O_PUSHB, 3, -1 }, E }, { { O_PUSHF, 4, -1 }, E } } },
    /* sort leg: a locked sort against the pops' unlocked emptiness test (known finding C31-sort-hides-items-from-unlocked-empty-test) */
    { "sort_popf", { 1, 3, 2, 4, 0, 5 }, 3, { 0, 1, 2 }, 2, { { { O_SORT, -1, -1 }, E }, { { O_POPF, -1, -1 }, E } } },
    { "sort_popb_pushb", { 1, 3, 2, 4, 0, 5 }, 3, { 0, 1, 2 }, 3, { { { O_SORT, -1, -1 }, E }, { { O_POPB, -1, -1 }, E }, { { O_PUSHB, 3, -1 }, E } } },
    { "sort_trypopf_fifopop", { 1, 3, 2, 4, 0, 5 }, 2, { 0, 1 }, 3, { { { O_SORT, -1, -1 }, E }, { { O_TRYPOPF, -1, -1 }, E }, { { O_FIFO_POP, -1, -1 }, E } } },
    /* sorted insertions racing on an EMPTY list (and on a list that becomes empty): the position must be decided under the lock
     * (seeded change C31-1: unlocked "list is empty" fast path in parsec_list_push_sorted) */
    { "pushsorted_x3_empty", { 1, 5, 3, 1, 1, 1 }, 0, { 0 }, 3, { { { O_PUSHSORTED, 0, -1 }, E }, { { O_PUSHSORTED, 1, -1 }, E }, { { O_PUSHSORTED, 2, -1 }, E } } },
    { "pushsorted_popf_pushsorted_single", { 4, 1, 5, 1, 1, 1 }, 1, { 0 }, 3, { { { O_POPF, -1, -1 }, E }, { { O_PUSHSORTED, 1, -1 }, E }, { { O_PUSHSORTED, 2, -1 }, E } } },
};
#define NSCEN ((int)(sizeof(scens) / sizeof(scens[0])))
#define R(i) static void r##i(void) { run_scen(&scens[i]); }
R(0) R(1) R(2) R(3) R(4) R(5) R(6) R(7) R(8) R(9) R(10)
R(11) R(12) R(13) R(14) R(15)
static cs_scenario_t scenarios[] = {
    { "pushf_pushb_popf", r0, 0 }, { "popf_popb_pushb_single", r1, 0 }, { "pushsorted_ties_popf", r2, 0 }, { "chainsorted_popb_pushsorted", r3, 0 },
    { "chainf_chainb_unchain", r4, 0 }, { "trypopf_trypopb_pushb", r5, 0 }, { "fifo_push2_pop2", r6, 0 }, { "fifo_chain_trypop_pop", r7, 0 },
    { "dequeue_2x2", r8, 0 }, { "isempty_pushf_popf", r9, 0 }, { "sort_pushb_pushf", r10, 0 },
    { "sort_popf", r11, 0 }, { "sort_popb_pushb", r12, 0 }, { "sort_trypopf_fifopop", r13, 0 },
    { "pushsorted_x3_empty", r14, 0 }, { "pushsorted_popf_pushsorted_single", r15, 0 },
};
_Static_assert(sizeof(scenarios) / sizeof(scenarios[0]) == NSCEN, "one cosched scenario per script");
#define NMAIN 11
int main(int argc, char **argv)
{
    /* the quick tier caps the preemption bound of the three longest scripts (69-101 points per execution) */
    const char *cap = getenv("C31_CAP_HEAVY");
    if (cap) for (unsigned k = 0; k < sizeof(scenarios) / sizeof(scenarios[0]); k++)
        if (!strcmp(scenarios[k].name, "chainsorted_popb_pushsorted") || !strcmp(scenarios[k].name, "chainf_chainb_unchain") || !strncmp(scenarios[k].name, "sort_", 5)) scenarios[k].max_bound = atoi(cap);
    /* legs: C31_LEG=main -> the 11 scripts without sort||pop, C31_LEG=sort -> the sort||pop scripts, unset -> all (replay).
     * C31_QUICK=1 keeps the shorter scripts only (the quick tier has to fit in about a minute on a heavily shared machine). */
    const char *leg = getenv("C31_LEG"); int nall = (int)(sizeof(scenarios) / sizeof(scenarios[0]));
    static const char *slow[] = { "chainsorted_popb_pushsorted", "fifo_chain_trypop_pop", "sort_pushb_pushf", "sort_popb_pushb", "isempty_pushf_popf", "sort_trypopf_fifopop" };
    static cs_scenario_t sel[32]; int nsel = 0;
    for (int k = 0; k < nall; k++) {
        int is_sort = (k >= NMAIN && k < NMAIN + 3), skip = 0;     /* scripts 11..13 are the sort||pop leg; later additions belong to the main leg */
        if (leg && !strcmp(leg, "main") && is_sort) continue;
        if (leg && !strcmp(leg, "sort") && !is_sort) continue;
        if (getenv("C31_QUICK")) for (unsigned j = 0; j < sizeof(slow) / sizeof(slow[0]); j++) if (!strcmp(scenarios[k].name, slow[j])) skip = 1;
        if (!skip) sel[nsel++] = scenarios[k];
    }
    if (leg) return cs_main(argc, argv, "C31", sel, nsel, NULL);
    return cs_main(argc, argv, "C31", scenarios, nall, NULL);
}
