/* vranks (E3): explicit-state search of distributed protocols on the REAL handlers, with N virtual
 * ranks living in one address space. Header-only; include it in exactly one TU (it defines
 * __assert_fail so that assertion failures of the code under test become reported violations).
 *
 * The harness owns the "live world" (the real module's per-rank objects, load counters, harness
 * bookkeeping and a vr_net_t of in-flight messages) and gives the engine
 *     init()              put the live world in the initial state
 *     encode(buf,cap)     canonical, compact encoding of the live world (plain data; statistics,
 *                         time stamps and lock words excluded)
 *     decode(buf,len)     restore the live world from such an encoding
 *     enabled(out,cap)    codes of the transitions enabled in the live state
 *     fire(tr,err)        execute one transition by calling the real handler(s)
 *     is_goal()           acceptance predicate of terminal states (e.g. all ranks TERMINATED)
 * The engine stores every distinct encoded state (exact comparison, no hash-only dedup), searches
 * breadth-first, keeps the whole transition graph, and checks
 *     safety    vr_fail() raised by the harness (from callbacks, stubs, fire, invariant) and
 *               assertion failures / crashes inside the code under test,
 *     terminal  every state without enabled transition satisfies is_goal(),
 *     liveness  from every reachable state some goal state is reachable (backward reachability
 *               over the stored graph; only when the search ran to closure).
 * A violation is reported with the shortest transition sequence (BFS parents) as a replay file.
 * Result JSON / VIOLATION protocol: the one of seqx (sx_init / sx_finish are reused).
 */
#ifndef VRANKS_H
#define VRANKS_H
#include "seqx.h"
#include <setjmp.h>
#include <signal.h>
#include <unistd.h>

/* ------------------------------------------------------------------ failure flag */
static char vr_failmsg[SX_ERRLEN];
static int vr_failed = 0;
static void vr_fail(const char *fmt, ...)
{
    if (vr_failed) return;               /* keep the first one */
    va_list ap; va_start(ap, fmt); vsnprintf(vr_failmsg, sizeof(vr_failmsg), fmt, ap); va_end(ap);
    vr_failed = 1;
}

/* ------------------------------------------------------------------ guard: asserts and crashes of the code under test */
static sigjmp_buf vr_jb;
static volatile int vr_armed = 0;
void __assert_fail(const char *expr, const char *file, unsigned int line, const char *func)
{
    const char *b = strrchr(file, '/');
    if (vr_armed) {
        vr_armed = 0;
        vr_fail("assertion of the code under test failed: `%s' (%s:%u, %s)", expr, b ? b + 1 : file, line, func);
        siglongjmp(vr_jb, 1);
    }
    fprintf(stderr, "%s:%u: %s: Assertion `%s' failed (outside a guarded transition).\n", file, line, func, expr);
    _exit(2);
}
static void vr_sig(int s)
{
    if (vr_armed) { vr_armed = 0; vr_fail("the code under test crashed with signal %d (%s)", s, s == SIGSEGV ? "SIGSEGV" : s == SIGFPE ? "SIGFPE" : s == SIGBUS ? "SIGBUS" : "SIGABRT"); siglongjmp(vr_jb, 1); }
    signal(s, SIG_DFL); raise(s);
}
static void vr_install_guard(void)
{
    struct sigaction sa; memset(&sa, 0, sizeof(sa)); sa.sa_handler = vr_sig; sa.sa_flags = SA_NODEFER;
    sigaction(SIGSEGV, &sa, NULL); sigaction(SIGBUS, &sa, NULL); sigaction(SIGFPE, &sa, NULL); sigaction(SIGABRT, &sa, NULL);
}
/* run STMT guarded; afterwards vr_failed tells whether anything went wrong */
static void (*vr_recover)(void) = NULL;   /* harness hook: called after an aborted handler (release locks the code under test still holds) */
#define VR_GUARDED(STMT) do { if (0 == sigsetjmp(vr_jb, 0)) { vr_armed = 1; STMT; vr_armed = 0; } else { vr_armed = 0; if (vr_recover) vr_recover(); } } while (0)

/* ------------------------------------------------------------------ network of in-flight messages */
#define VR_MSG_MAX 24
typedef struct { uint16_t src, dst; uint8_t cls, len; uint8_t data[VR_MSG_MAX]; } vr_msg_t;
typedef struct {
    vr_msg_t *m; int n, cap;
    int canonical;          /* 1: keep sorted by (src,dst,cls), FIFO inside a channel (needed for canonical states);
                               0: plain global FIFO (cheap; for big sweeps) */
    long total;             /* messages ever sent since reset */
} vr_net_t;
static void vr_net_reset(vr_net_t *nt) { nt->n = 0; nt->total = 0; }
static inline uint64_t vr_net_key(const vr_msg_t *m) { return ((uint64_t)m->src << 32) | ((uint64_t)m->dst << 8) | m->cls; }
static void vr_net_send(vr_net_t *nt, int src, int dst, int cls, const void *data, size_t len)
{
    if (len > VR_MSG_MAX) { vr_fail("harness: message of %zu bytes exceeds VR_MSG_MAX", len); return; }
    if (nt->n == nt->cap) { nt->cap = nt->cap ? nt->cap * 2 : 64; nt->m = (vr_msg_t *)realloc(nt->m, nt->cap * sizeof(vr_msg_t)); }
    vr_msg_t x; memset(&x, 0, sizeof(x)); x.src = (uint16_t)src; x.dst = (uint16_t)dst; x.cls = (uint8_t)cls; x.len = (uint8_t)len; memcpy(x.data, data, len);
    int pos = nt->n;
    if (nt->canonical) { uint64_t k = vr_net_key(&x); while (pos > 0 && vr_net_key(&nt->m[pos - 1]) > k) pos--; memmove(&nt->m[pos + 1], &nt->m[pos], (nt->n - pos) * sizeof(vr_msg_t)); }
    nt->m[pos] = x; nt->n++; nt->total++;
}
/* is message i the head of its channel? (canonical mode: its predecessor has another key) */
static inline int vr_net_is_head(const vr_net_t *nt, int i)
{
    if (nt->canonical) return i == 0 || vr_net_key(&nt->m[i - 1]) != vr_net_key(&nt->m[i]);
    for (int j = 0; j < i; j++) if (vr_net_key(&nt->m[j]) == vr_net_key(&nt->m[i])) return 0;
    return 1;
}
static int vr_net_find_head(const vr_net_t *nt, int src, int dst, int cls)
{
    vr_msg_t x; x.src = (uint16_t)src; x.dst = (uint16_t)dst; x.cls = (uint8_t)cls; uint64_t k = vr_net_key(&x);
    for (int i = 0; i < nt->n; i++) if (vr_net_key(&nt->m[i]) == k) return i;
    return -1;
}
static vr_msg_t vr_net_take(vr_net_t *nt, int i)
{
    vr_msg_t x = nt->m[i];
    memmove(&nt->m[i], &nt->m[i + 1], (nt->n - i - 1) * sizeof(vr_msg_t)); nt->n--;
    return x;
}
static int vr_net_count_cls(const vr_net_t *nt, int cls) { int c = 0; for (int i = 0; i < nt->n; i++) c += nt->m[i].cls == cls; return c; }
static size_t vr_net_encode(const vr_net_t *nt, uint8_t *b)
{
    size_t o = 0; b[o++] = (uint8_t)nt->n;
    for (int i = 0; i < nt->n; i++) { const vr_msg_t *m = &nt->m[i]; b[o++] = (uint8_t)m->src; b[o++] = (uint8_t)m->dst; b[o++] = (uint8_t)((m->cls << 5) | m->len); memcpy(b + o, m->data, m->len); o += m->len; }
    return o;   /* ranks < 256, cls < 8, len < 32, n < 256 (asserted by vr_net_send's users through VR_MSG_MAX and small N) */
}
static size_t vr_net_decode(vr_net_t *nt, const uint8_t *b)
{
    size_t o = 0; int n = b[o++];
    if (n > nt->cap) { nt->cap = n + 64; nt->m = (vr_msg_t *)realloc(nt->m, nt->cap * sizeof(vr_msg_t)); }
    for (int i = 0; i < n; i++) { vr_msg_t *m = &nt->m[i]; memset(m, 0, sizeof(*m)); m->src = b[o++]; m->dst = b[o++]; m->cls = b[o] >> 5; m->len = b[o] & 31; o++; memcpy(m->data, b + o, m->len); o += m->len; }
    nt->n = n; return o;
}

/* small encoding helpers */
static inline size_t vr_put_u(uint8_t *b, uint32_t v) { size_t o = 0; while (v >= 0x80) { b[o++] = (uint8_t)(v | 0x80); v >>= 7; } b[o++] = (uint8_t)v; return o; }
static inline size_t vr_get_u(const uint8_t *b, uint32_t *v) { size_t o = 0; uint32_t r = 0; int sh = 0; for (;;) { uint8_t c = b[o++]; r |= (uint32_t)(c & 0x7f) << sh; if (!(c & 0x80)) break; sh += 7; } *v = r; return o; }

/* ------------------------------------------------------------------ state store */
typedef struct {
    uint8_t *arena; size_t alen, acap;
    uint64_t *off; uint16_t *len; uint32_t *parent, *ptr, *depth; uint8_t *flags; size_t n, cap;
    uint32_t *ht; size_t htcap;
} vr_store_t;
#define VR_F_GOAL 1
#define VR_F_TERMINAL 2
#define VR_F_NONTRIVIAL 4
static uint64_t vr_hash64(const uint8_t *p, size_t n)
{   /* 8 bytes at a time (murmur-like mixing); only used to place states in the table, equality is decided on the full bytes */
    uint64_t h = 0x9E3779B97F4A7C15ULL ^ (n * 0xff51afd7ed558ccdULL), k;
    while (n >= 8) { memcpy(&k, p, 8); k *= 0x87c37b91114253d5ULL; k = (k << 31) | (k >> 33); k *= 0x4cf5ad432745937fULL; h ^= k; h = ((h << 27) | (h >> 37)) * 5 + 0x52dce729; p += 8; n -= 8; }
    if (n) { k = 0; memcpy(&k, p, n); k *= 0x87c37b91114253d5ULL; k = (k << 31) | (k >> 33); k *= 0x4cf5ad432745937fULL; h ^= k; }
    h ^= h >> 33; h *= 0xff51afd7ed558ccdULL; h ^= h >> 33; h *= 0xc4ceb9fe1a85ec53ULL; h ^= h >> 33; return h;
}
static void vr_store_rehash(vr_store_t *s, size_t nc)
{
    free(s->ht); s->ht = (uint32_t *)malloc(nc * sizeof(uint32_t)); memset(s->ht, 0xff, nc * sizeof(uint32_t)); s->htcap = nc;
    for (size_t i = 0; i < s->n; i++) { size_t j = vr_hash64(s->arena + s->off[i], s->len[i]) & (nc - 1); while (s->ht[j] != 0xffffffffu) j = (j + 1) & (nc - 1); s->ht[j] = (uint32_t)i; }
}
/* returns the index of the state; *isnew tells whether it was added */
static uint32_t vr_store_add(vr_store_t *s, const uint8_t *b, size_t l, int *isnew)
{
    if (!s->htcap) vr_store_rehash(s, 1 << 16);
    size_t j = vr_hash64(b, l) & (s->htcap - 1);
    while (s->ht[j] != 0xffffffffu) { uint32_t i = s->ht[j]; if (s->len[i] == l && !memcmp(s->arena + s->off[i], b, l)) { *isnew = 0; return i; } j = (j + 1) & (s->htcap - 1); }
    if (s->n == s->cap) { s->cap = s->cap ? s->cap * 2 : 1 << 16;
        s->off = (uint64_t *)realloc(s->off, s->cap * sizeof(uint64_t)); s->len = (uint16_t *)realloc(s->len, s->cap * sizeof(uint16_t));
        s->parent = (uint32_t *)realloc(s->parent, s->cap * sizeof(uint32_t)); s->ptr = (uint32_t *)realloc(s->ptr, s->cap * sizeof(uint32_t)); s->depth = (uint32_t *)realloc(s->depth, s->cap * sizeof(uint32_t)); s->flags = (uint8_t *)realloc(s->flags, s->cap); }
    if (s->alen + l > s->acap) { s->acap = s->acap ? s->acap * 2 : 1 << 22; while (s->alen + l > s->acap) s->acap *= 2; s->arena = (uint8_t *)realloc(s->arena, s->acap); }
    memcpy(s->arena + s->alen, b, l);
    uint32_t i = (uint32_t)s->n; s->off[i] = s->alen; s->len[i] = (uint16_t)l; s->flags[i] = 0; s->parent[i] = 0xffffffffu; s->ptr[i] = 0; s->depth[i] = 0; s->alen += l; s->n++;
    s->ht[j] = i; *isnew = 1;
    if (s->n * 2 > s->htcap) vr_store_rehash(s, s->htcap * 2);
    return i;
}
static void vr_store_free(vr_store_t *s) { free(s->arena); free(s->off); free(s->len); free(s->parent); free(s->ptr); free(s->depth); free(s->flags); free(s->ht); memset(s, 0, sizeof(*s)); }

/* ------------------------------------------------------------------ system description + search */
#define VR_MAXTR 256
#define VR_STATE_MAX 4096
typedef struct vr_system_s {
    char name[128];
    void (*init)(void);
    size_t (*encode)(uint8_t *buf, size_t cap);
    void (*decode)(const uint8_t *buf, size_t len);
    int (*enabled)(uint32_t *out, int cap);
    void (*fire)(uint32_t tr);                 /* problems are signalled through vr_fail() */
    void (*invariant)(void);                   /* optional, evaluated in every new state; vr_fail() on violation */
    int (*is_goal)(void);
    int (*nontrivial)(void);                   /* optional: is the live state a non-trivial one (evidence counter) */
    void (*trname)(uint32_t tr, char *buf, size_t cap);
    void (*describe)(char *buf, size_t cap);   /* optional one-line summary of the live state */
    size_t max_states;                         /* 0 = no cap; reaching it ends the search with exhaustive=false */
} vr_system_t;

typedef struct {
    long states, transitions, nontrivial, goal_states, terminal_states, expanded, max_depth, cannot_reach_goal;
    int exhaustive, violations, liveness_checked; double wall;
    char samples[3][768]; int nsamples;
} vr_stats_t;

static void vr_violation(const char *scen, const char *kind, const char *history, const char *msg)
{
    static int seq = 0; char dir[600], path[800];
    snprintf(dir, sizeof(dir), "%s/replay", sx_outdir); mkdir(sx_outdir, 0777); mkdir(dir, 0777);
    snprintf(path, sizeof(path), "%s/%s-%s-%d.json", dir, sx_property, scen, seq++);
    FILE *f = fopen(path, "w");
    if (f) {
        fprintf(f, "{\"property\":\"%s\",\"engine\":\"vranks\",\"scenario\":\"%s\",\"kind\":\"%s\",\n \"history\":", sx_property, scen, kind); sx_json_str(f, history);
        fprintf(f, ",\n \"message\":"); sx_json_str(f, msg); fprintf(f, "}\n"); fclose(f);
    }
    printf("VIOLATION property=%s replay=%s\n", sx_property, path);
    printf("  scenario=%s kind=%s history=[%s]: %s\n", scen, kind, history, msg);
    fflush(stdout);
    sx_total_violations++;
}
static void vr_report(const char *name, long states, long transitions, long executions, long nontrivial, long distinct_outcomes,
                      int exhaustive, int violations, double wall, const char *extra_json, const char **samples, int nsamples)
{
    fprintf(stderr, "vranks[%s/%s]: states=%ld transitions=%ld executions=%ld nontrivial=%ld outcomes=%ld exhaustive=%d violations=%d %.1fs %s\n",
            sx_property, name, states, transitions, executions, nontrivial, distinct_outcomes, exhaustive, violations, wall, extra_json ? extra_json : "");
    if (!sx_json) return;
    fprintf(sx_json, "%s{\"name\":\"%s\",\"engine\":\"vranks\",\"states\":%ld,\"transitions\":%ld,\"executions\":%ld,\"nontrivial\":%ld,\"distinct_outcomes\":%ld,"
            "\"exhaustive\":%s,\"violations\":%d,\"wall_s\":%.2f", sx_json_first ? "" : ",\n", name, states, transitions, executions, nontrivial, distinct_outcomes,
            exhaustive ? "true" : "false", violations, wall);
    if (extra_json && *extra_json) fprintf(sx_json, ",%s", extra_json);
    fprintf(sx_json, ",\"samples\":[");
    for (int i = 0; i < nsamples; i++) { if (i) fputc(',', sx_json); sx_json_str(sx_json, samples[i]); }
    fprintf(sx_json, "]}");
    sx_json_first = 0; fflush(sx_json);
}

/* transition sequence leading to state i (BFS parents), as names separated by blanks; extra = one more transition or 0xffffffff */
static void vr_trace(const vr_system_t *sys, const vr_store_t *st, uint32_t i, uint32_t extra, char *buf, size_t cap)
{
    uint32_t *seq = NULL; size_t n = 0, c = 0;
    for (uint32_t k = i; st->parent[k] != 0xffffffffu; k = st->parent[k]) { if (n == c) { c = c ? c * 2 : 64; seq = (uint32_t *)realloc(seq, c * sizeof(uint32_t)); } seq[n++] = st->ptr[k]; }
    size_t o = 0; buf[0] = 0;
    for (size_t k = n; k-- > 0 && o + 48 < cap;) { char nm[48]; sys->trname(seq[k], nm, sizeof(nm)); o += snprintf(buf + o, cap - o, "%s%s", o ? " " : "", nm); }
    if (extra != 0xffffffffu && o + 48 < cap) { char nm[48]; sys->trname(extra, nm, sizeof(nm)); o += snprintf(buf + o, cap - o, "%s%s", o ? " " : "", nm); }
    free(seq);
}

/* Breadth-first search from init() (from_live=0) or from the current live state (from_live=1).
 * report=1: violations are written as replay files and a scenario record is appended to the result JSON.
 * Returns the number of violations found (liveness included). */
static int vr_search(const vr_system_t *sys, int from_live, int report, vr_stats_t *S)
{
    memset(S, 0, sizeof(*S)); double t0 = sx_now();
    vr_store_t st; memset(&st, 0, sizeof(st));
    uint32_t *edst = NULL; size_t ne = 0, ecap = 0; uint64_t *efirst = NULL; size_t efcap = 0;
    uint8_t *buf = (uint8_t *)malloc(VR_STATE_MAX); char *hist = (char *)malloc(1 << 15); char desc[512];
    uint32_t trs[VR_MAXTR]; int isnew;
    vr_failed = 0;
    if (!from_live) sys->init();
    size_t l = sys->encode(buf, VR_STATE_MAX);
    vr_store_add(&st, buf, l, &isnew);
    S->exhaustive = 1;
    size_t i;
    for (i = 0; i < st.n; i++) {
        if ((i & 1023) == 0 && sx_deadline > 0 && sx_now() > sx_deadline) { S->exhaustive = 0; break; }
        if (sys->max_states && st.n >= sys->max_states) { S->exhaustive = 0; break; }
        if (i + 2 > efcap) { efcap = efcap ? efcap * 2 : 1 << 16; efirst = (uint64_t *)realloc(efirst, efcap * sizeof(uint64_t)); }
        efirst[i] = ne;
        sys->decode(st.arena + st.off[i], st.len[i]);
        int k = sys->enabled(trs, VR_MAXTR);
        int goal = sys->is_goal();
        if (goal) { st.flags[i] |= VR_F_GOAL; S->goal_states++; }
        if (sys->nontrivial && sys->nontrivial()) { st.flags[i] |= VR_F_NONTRIVIAL; S->nontrivial++; }
        if (k == 0) {
            st.flags[i] |= VR_F_TERMINAL; S->terminal_states++;
            if (!goal) {
                S->violations++; desc[0] = 0; if (sys->describe) sys->describe(desc, sizeof(desc));
                if (report) { char msg[SX_ERRLEN]; snprintf(msg, sizeof(msg), "terminal state (nothing enabled, nothing in flight can be delivered) is not a goal state: %s", desc);
                    vr_trace(sys, &st, (uint32_t)i, 0xffffffffu, hist, 1 << 15); vr_violation(sys->name, "terminal", hist, msg); }
                if (S->violations >= 3) break;
            } else if (S->nsamples < 3 && (S->goal_states == 1 || S->goal_states == 7 || S->goal_states == 50)) { vr_trace(sys, &st, (uint32_t)i, 0xffffffffu, S->samples[S->nsamples], sizeof(S->samples[0])); S->nsamples++; }
        }
        for (int t = 0; t < k; t++) {
            if (t) sys->decode(st.arena + st.off[i], st.len[i]);
            vr_failed = 0;
            VR_GUARDED(sys->fire(trs[t]));
            S->transitions++;
            if (!vr_failed && sys->invariant) VR_GUARDED(sys->invariant());
            if (vr_failed) {
                S->violations++;
                if (report) { vr_trace(sys, &st, (uint32_t)i, trs[t], hist, 1 << 15); vr_violation(sys->name, "safety", hist, vr_failmsg); }
                vr_failed = 0;
                if (S->violations >= 3) goto done;
                continue;
            }
            l = sys->encode(buf, VR_STATE_MAX);
            if (l > VR_STATE_MAX || l > 65535) { fprintf(stderr, "vranks: state encoding too long\n"); exit(2); }
            uint32_t j = vr_store_add(&st, buf, l, &isnew);
            if (isnew) { st.parent[j] = (uint32_t)i; st.ptr[j] = trs[t]; st.depth[j] = st.depth[i] + 1; if ((long)st.depth[j] > S->max_depth) S->max_depth = st.depth[j]; }
            if (ne == ecap) { ecap = ecap ? ecap * 2 : 1 << 18; edst = (uint32_t *)realloc(edst, ecap * sizeof(uint32_t)); }
            edst[ne++] = j;
        }
    }
done:
    S->expanded = (long)i; S->states = (long)st.n;
    if (S->violations) S->exhaustive = 0;
    /* liveness: every state reaches a goal state (only meaningful on the complete graph) */
    if (S->exhaustive && i == st.n) {
        efirst[st.n] = ne;
        size_t n = st.n; uint32_t *rcnt = (uint32_t *)calloc(n + 1, sizeof(uint32_t)); uint64_t *rfirst = (uint64_t *)malloc((n + 1) * sizeof(uint64_t));
        for (size_t e = 0; e < ne; e++) rcnt[edst[e]]++;
        uint64_t acc = 0; for (size_t v = 0; v < n; v++) { rfirst[v] = acc; acc += rcnt[v]; } rfirst[n] = acc;
        uint32_t *rsrc = (uint32_t *)malloc((ne + 1) * sizeof(uint32_t)); memset(rcnt, 0, (n + 1) * sizeof(uint32_t));
        for (size_t v = 0; v < n; v++) for (uint64_t e = efirst[v]; e < efirst[v + 1]; e++) { uint32_t d = edst[e]; rsrc[rfirst[d] + rcnt[d]++] = (uint32_t)v; }
        uint8_t *ok = (uint8_t *)calloc(n, 1); uint32_t *q = (uint32_t *)malloc(n * sizeof(uint32_t)); size_t qh = 0, qt = 0;
        for (size_t v = 0; v < n; v++) if (st.flags[v] & VR_F_GOAL) { ok[v] = 1; q[qt++] = (uint32_t)v; }
        while (qh < qt) { uint32_t v = q[qh++]; for (uint64_t e = rfirst[v]; e < rfirst[v + 1]; e++) { uint32_t u = rsrc[e]; if (!ok[u]) { ok[u] = 1; q[qt++] = u; } } }
        S->liveness_checked = 1;
        long bad = 0; size_t first = n;
        for (size_t v = 0; v < n; v++) if (!ok[v]) { bad++; if (first == n) first = v; }
        S->cannot_reach_goal = bad;
        if (bad) {
            S->violations++; S->exhaustive = 0;
            if (report) { sys->decode(st.arena + st.off[first], st.len[first]); desc[0] = 0; if (sys->describe) sys->describe(desc, sizeof(desc));
                char msg[SX_ERRLEN]; snprintf(msg, sizeof(msg), "liveness: %ld of %zu reachable states cannot reach any goal state (%ld goal states exist); first such state: %s", bad, n, S->goal_states, desc);
                vr_trace(sys, &st, (uint32_t)first, 0xffffffffu, hist, 1 << 15); vr_violation(sys->name, "liveness", hist, msg); }
        }
        free(rcnt); free(rfirst); free(rsrc); free(ok); free(q);
    }
    if (S->nsamples == 0 && st.n > 1) { vr_trace(sys, &st, (uint32_t)(st.n - 1), 0xffffffffu, S->samples[0], sizeof(S->samples[0])); S->nsamples = 1; }
    S->wall = sx_now() - t0;
    if (report) {
        const char *sp[3] = { S->samples[0], S->samples[1], S->samples[2] }; char extra[512];
        snprintf(extra, sizeof(extra), "\"expanded\":%ld,\"goal_states\":%ld,\"terminal_states\":%ld,\"max_depth\":%ld,\"liveness_checked\":%s,\"cannot_reach_goal\":%ld,\"state_bytes\":%zu",
                 S->expanded, S->goal_states, S->terminal_states, S->max_depth, S->liveness_checked ? "true" : "false", S->cannot_reach_goal, st.alen);
        vr_report(sys->name, S->states, S->transitions, S->transitions, S->nontrivial, S->goal_states, S->exhaustive, S->violations, S->wall, extra, sp, S->nsamples);
    }
    vr_store_free(&st); free(edst); free(efirst); free(buf); free(hist);
    return S->violations;
}

/* Re-execute a recorded transition sequence on the live world, printing every step.
 * kind "safety": the last step must fail; "terminal": the final state must be terminal and not goal;
 * "liveness": no goal state reachable from the final state (sub-search). Returns 1 (+VIOLATION line) if the
 * violation reproduces, 0 if the history passes, 2 if it cannot be executed. */
static int vr_replay(const vr_system_t *sys, const char *kind, const char *hist)
{
    char *dup = strdup(hist); char desc[512]; uint32_t trs[VR_MAXTR]; int step = 0, bad = 0;
    sys->init(); vr_failed = 0;
    if (sys->describe) { sys->describe(desc, sizeof(desc)); printf("  init: %s\n", desc); }
    for (char *tok = strtok(dup, " "); tok; tok = strtok(NULL, " "), step++) {
        int k = sys->enabled(trs, VR_MAXTR), f = -1;
        for (int t = 0; t < k; t++) { char nm[48]; sys->trname(trs[t], nm, sizeof(nm)); if (!strcmp(nm, tok)) { f = t; break; } }
        if (f < 0) { printf("  step %d: transition %s is not enabled here (history does not apply to this tree)\n", step, tok); free(dup); return 2; }
        VR_GUARDED(sys->fire(trs[f]));
        if (!vr_failed && sys->invariant) VR_GUARDED(sys->invariant());
        desc[0] = 0; if (!vr_failed && sys->describe) sys->describe(desc, sizeof(desc));
        printf("  step %d: %-14s -> %s\n", step, tok, vr_failed ? vr_failmsg : desc);
        if (vr_failed) { bad = 1; break; }
    }
    free(dup);
    if (!bad && !strcmp(kind, "terminal")) {
        int k = sys->enabled(trs, VR_MAXTR);
        if (k == 0 && !sys->is_goal()) { printf("  final state is terminal and not a goal state\n"); bad = 1; }
    }
    if (!bad && !strcmp(kind, "liveness")) {
        vr_stats_t S; vr_search(sys, 1, 0, &S);
        printf("  sub-search from the final state: %ld states, %ld goal states, exhaustive=%d\n", S.states, S.goal_states, S.exhaustive || S.liveness_checked);
        if (S.goal_states == 0 && S.expanded == S.states) { printf("  no goal state is reachable from the final state\n"); bad = 1; }
    }
    if (bad) { printf("VIOLATION property=%s replay=%s\n", sx_property, sx_replay_file ? sx_replay_file : "-"); return 1; }
    printf("replay: history passes\n");
    return 0;
}
/* read "scenario", "kind", "history" of a vranks replay file */
static int vr_read_replay(const char *path, char *scen, size_t slen, char *kind, size_t klen, char *hist, size_t hlen)
{
    FILE *f = fopen(path, "r"); if (!f) return -1;
    static char buf[1 << 16]; size_t n = fread(buf, 1, sizeof(buf) - 1, f); buf[n] = 0; fclose(f);
    char *s, *e;
    if (!(s = strstr(buf, "\"scenario\":\""))) return -1;
    s += 12; e = strchr(s, '"'); snprintf(scen, slen, "%.*s", (int)(e - s), s);
    if ((s = strstr(buf, "\"kind\":\""))) { s += 8; e = strchr(s, '"'); snprintf(kind, klen, "%.*s", (int)(e - s), s); } else snprintf(kind, klen, "safety");
    if (!(s = strstr(buf, "\"history\":\""))) return -1;
    s += 11; e = strchr(s, '"'); snprintf(hist, hlen, "%.*s", (int)(e - s), s);
    return 0;
}
#endif
