META = dict(
    engine='seqx',
    technique='exhaustive enumeration of the source-presence box (one child process per configuration, real parsec_init / MCA registry) against the precedence model',
    level_text='Every combination of type {int,size_t,string} x override {none,set,set+unset} x 0..3 repeated --mca options x --mca on the synonym x PARSEC_MCA_ env var on the primary / synonym name x parameter file naming the primary and/or synonym x registration before/after parsec_init x {parsec_init, registry API only} is executed in its own process on the real runtime; lookup_<type>, lookup_source and the source file are compared with override > command line/environment > file > default, repeated --mca options comma-joined.',
    level_note='One test parameter with one synonym (plus a second, never valued synonym registered before / after it: the lookup must not depend on the number or order of synonyms); values are fixed per source; the quick tier uses the sub-box override {none,set}, --mca count {0,2}, file {-,P,PS}, registration after parsec_init, parsec_init path only (528 processes; 9720 in thorough). The parameter file is named through PARSEC_MCA_mca_param_files because this build has PARSEC_WANT_HOME_CONFIG_FILES off (no $HOME/.parsec lookup). Within the environment level the order primary-vs-synonym name is not judged; for the same name the command line must replace the environment variable.',
)
RULE = ("full-box enumeration, one process per configuration; states = distinct (type, value, source) outcomes; a configuration is non-trivial when at least two precedence levels carry a value")


def build(ctx):
    return ctx.compile('hk-shm', 'mca', ['mca_h.c'], instr=False)


def check(ctx):
    quick = ctx.tier == 'quick'
    args = ['--outdir', '/verif/out', '--deadline', '70' if quick else '900', '--jobs', '16']
    if not quick:
        args.append('--thorough')
    ctx.run_engine(build(ctx), args, label='mca', timeout=1500)
    return ctx.finish(RULE, ["for one name the --mca option replaces the PARSEC_MCA_ environment variable (parsec_init exports it with overwrite)",
                             "between the primary and the synonym name at the same level either value is accepted (the statement gives no order)"])


def replay(ctx, path, obj):
    import subprocess
    return subprocess.call([build(ctx), '--replay', path])
