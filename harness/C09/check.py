META = dict(
    engine='seqx',
    technique='explicit-state model checking: BFS over schedule/select/re-schedule histories on the real ap, ip and spq scheduler modules (single stream), reference priority queue, full drain checked in every state',
    level_text='All histories of schedule(ring<=3 over 3 priorities, every ring order, distance 0..2) / select / re-schedule-last-selected(distance 1..2) up to depth 6 (quick) or 8 (thorough; spq 7) are applied to the real module installed by parsec_init through mca_sched, deduplicated by the concrete queue contents; every select - and a complete drain of every reached state - is compared with a reference queue (ap, spq: highest priority first, ties in scheduling order; spq: smallest distance first; ip: lowest priority first).',
    level_note='Single execution stream, no concurrency (as the property states). Priority values from three value sets (small, mixed sign, INT_MIN/INT_MAX). ip is claimed for distance 0 only: with distance>0 the real ip module appends at the selection end (see NOTES.md).',
)
RULE = ("seqx BFS over operation histories on the real scheduler module, states deduplicated by the walk of the real queue(s) "
        "(priority and tie-rank of every element, existing distance sub-lists) plus the held task; every transition re-plays its "
        "history on a freshly installed scheduler, checks the select oracle and then drains the state completely under the same oracle; "
        "a state is non-trivial when its shortest history has >= 2 operations")

FINDING_ID = 'ip-distance-appends-at-selection-end'

# (module, ringlen, nprio, ndist, depth, priority value set, extra)
def plan(tier):
    if tier == 'quick':
        return [('ap', 3, 3, 3, 6, 0, []), ('ap', 2, 3, 2, 5, 2, []), ('ap', 3, 4, 2, 5, 1, []),
                ('spq', 3, 3, 3, 4, 0, []), ('spq', 2, 3, 3, 5, 0, []), ('spq', 2, 2, 3, 6, 1, []), ('spq', 2, 3, 2, 5, 2, []),
                ('ip', 3, 3, 1, 6, 0, []), ('ip', 2, 3, 1, 5, 2, []), ('ip', 3, 4, 1, 5, 1, [])]
    return [('ap', 3, 3, 3, 8, 0, []), ('ap', 3, 4, 2, 7, 1, []), ('ap', 3, 3, 3, 7, 2, []),
            ('spq', 3, 3, 3, 5, 0, []), ('spq', 2, 3, 3, 6, 0, []), ('spq', 2, 3, 4, 5, 1, []), ('spq', 3, 2, 3, 5, 2, []), ('spq', 1, 3, 3, 8, 0, []),
            ('ip', 3, 3, 1, 8, 0, []), ('ip', 3, 4, 1, 7, 1, []), ('ip', 3, 3, 1, 7, 2, [])]

def ip_distance_leg(tier):
    return ('ip', 2, 3, 2, 4 if tier == 'quick' else 5, 0)

def build(ctx):
    return ctx.compile('hk-shm', 'prio', ['prio_h.c'], instr=False)

def args_for(mod, L, P, D, depth, pv, extra):
    return ['--sched', mod, '--ringlen', str(L), '--nprio', str(P), '--ndist', str(D), '--depth', str(depth), '--pv', str(pv)] + list(extra)

def check(ctx):
    import os, vlib
    from concurrent.futures import ThreadPoolExecutor
    exe = build(ctx)
    dl = 70 if ctx.tier == 'quick' else 1000
    legs = list(plan(ctx.tier))
    # ip with distance>0: the unchanged tree violates the property there (NOTES.md, GENUINE DEFECT CANDIDATE).
    # The leg reports VIOLATION unless the lead has recorded the finding in known_findings.json; then the harness
    # applies the attribution rule and prints KNOWN-FINDING for attributable inversions only.
    listed = any(f.get('property') == 'C09' and f.get('id') == FINDING_ID for f in vlib.known_findings())
    if os.environ.get('VERIF_C09_IPDIST', 'on') != 'off':
        m, L, P, D, depth, pv = ip_distance_leg(ctx.tier)
        legs.append((m, L, P, D, depth, pv, ['--known-ip-distance'] if listed else []))
    else:
        ctx.notes.append('ip-with-distance leg switched off by VERIF_C09_IPDIST=off')
    def one(leg):
        mod, L, P, D, depth, pv, extra = leg
        return ctx.run_engine(exe, args_for(mod, L, P, D, depth, pv, extra) + ['--outdir', '/verif/out', '--deadline', str(dl)],
                              label='%s_L%d_P%d_D%d_d%d_pv%d' % (mod, L, P, D, depth, pv), timeout=dl + 300)
    with ThreadPoolExecutor(max_workers=max(2, min(8, vlib.NJOBS // 2))) as ex:
        list(ex.map(one, legs))
    ctx.legs.sort(key=lambda l: l.get('leg', ''))
    return ctx.finish(RULE, ["single execution stream, no concurrent activity (as stated by the property)",
                             "ip with distance>0 is a recorded defect candidate (NOTES.md); it is only tolerated through the attribution rule when listed in known_findings.json",
                             "the module keeps all of its state behind es->scheduler_object (true for ap, ip, spq)"])

def replay(ctx, path, obj):
    import subprocess, re
    m = re.match(r'(\w+?)_L(\d+)_P(\d+)_D(\d+)_depth(\d+)_pv(\d+)(_nr)?$', obj['scenario'])
    exe = build(ctx)
    a = args_for(m.group(1), *[int(m.group(i)) for i in range(2, 7)], ['--noresched'] if m.group(7) else [])
    return subprocess.call([exe] + a + ['--replay', path])
