/* C42: profiling traces read back exactly as written (E2/seqx, flavour hk-prof).
 *
 * Writer = the REAL parsec/profiling.c of the working tree, compiled into this TU by #include (so that
 * (a) its process-global statics can be put back to their initial values between cases -- the API does
 * not support a second dbp_start in one process: file_backend_next_offset is never reset -- and
 * (b) its clock can be replaced by a deterministic tick counter).
 * Reader = the REAL tools/profiling/dbpreader.c, compiled from the repo path as a second TU.
 *
 * A case is a small "program" (history string):
 *     K=<lenA>,<lenB> M=<mode> P=<pages> X=<nextra>,<convlen> G=<len> R=<rank> ; tok tok ...
 *   tokens:  A+0  (key A, begin, stream 0)   B-1 (key B, end, stream 1)
 *            UA+0x170  (170 times A+0)        F0:3999 (filler events of exactly 3999 bytes on stream 0)
 * It is written through the public writer API into a fresh trace file and read back through the public
 * reader API; the oracle compares, per stream and in order, key / flags / event_id / taskpool_id /
 * timestamp bracket / payload length / payload bytes, plus dictionary, global infos, stream infos, hr ids, rank.
 * Cases run in forked worker processes (a few thousand cases each); a worker that dies (assert, signal)
 * or hangs is a violation attributed to the case it was running.
 */
#define _GNU_SOURCE
#include <stdio.h>
#include <stdlib.h>
#include <string.h>
#include <stdint.h>
#include <stdarg.h>
#include <unistd.h>
#include <errno.h>
#include <time.h>
#include <signal.h>
#include <sys/syscall.h>
#include <sys/wait.h>
#include <sys/mman.h>
#include <sys/prctl.h>
#include <dirent.h>
#include <sys/stat.h>
#include <fcntl.h>

/* ---- deterministic clock for the writer: every take_time() is a distinct, increasing tick ---- */
static volatile uint64_t h_tick = 0;
static int h_clock_gettime(clockid_t id, struct timespec *ts)
{
    (void)id;
    uint64_t v = __sync_add_and_fetch(&h_tick, 1);
    ts->tv_sec = 1000 + (time_t)(v / 1000000000ULL); ts->tv_nsec = (long)(v % 1000000000ULL);
    return 0;
}
#define clock_gettime h_clock_gettime
#include "parsec/profiling.c"          /* the real writer (resolved through -I/repo) */
#undef clock_gettime

#include "tools/profiling/dbpreader.h" /* the real reader's API; dbpreader.c is compiled from /repo as its own TU */
#include "seqx.h"

static double h_now(void) { struct timespec ts; syscall(SYS_clock_gettime, CLOCK_MONOTONIC, &ts); return ts.tv_sec + ts.tv_nsec * 1e-9; }

/* put every process-global of profiling.c back to its load-time value (= what a fresh process has) */
static void h_reset_writer(void)
{
    parsec_profiling_info_t *i, *n;
    for (i = parsec_profiling_infos; i; i = n) { n = i->next; free(i->key); free(i->value); free(i); }
    parsec_profiling_infos = NULL;
    parsec_profile_enabled = 0; __profile_initialized = 0; parsec_prof_warning_issued = 0;
    default_freelist = NULL; parsec_prof_keys_count = 0; parsec_prof_keys_number = 0; parsec_prof_keys = NULL;
    __already_called = 0; start_called = 0; parsec_profiling_process_id = 0; hr_id = NULL;
    parsec_profiling_last_error[0] = 0; parsec_profiling_raise_error = 0;
    file_backend_next_offset = 0; file_backend_size = 0; file_backend_fd = -1;
    event_buffer_size = 0; parsec_profiling_file_multiplier = 1; event_avail_space = 0; file_backend_extendable = 0;
    profile_head = NULL; bpf_filename = NULL; tls_profiling = NULL;
    parsec_profiling_show_profiling_performance = 0;
    memset(parsec_profiling_global_perf, 0, sizeof(parsec_profiling_global_perf));
#if defined(PARSEC_PROFILING_USE_HELPER_THREAD)
    io_helper_thread_started = 0; io_cmd_flush_counter = 0;
#endif
    h_tick = 0;
}

/* ------------------------------------------------------------------ case model ---- */
#define NSTREAM 2
#define MAXEV 24000
#define MAXINFO 32
#define NKEY 5          /* A, B, pad + the two extra keys x, y that only some ranks register (leg multi) */
#define MAXRANK 3
typedef struct {
    int kidx, isend, ukey; uint16_t flags; uint64_t eid; uint32_t tp;
    int has_info, ilen; uint8_t info[MAXINFO]; uint64_t tlo, thi; int gidx;
} mev_t;
typedef struct { int klen[NKEY]; int mode, pages, xn, xconv, ginfo, rank; char plan[8]; /* registration order, letters of "abpxy" */ } cfg_t;
static mev_t *M[NSTREAM]; static int Mn[NSTREAM]; static int h_maxev = MAXEV;
static char h_dir[256] = "/dev/shm";
static volatile double *h_heartbeat = NULL;   /* worker: slot's last_progress, refreshed while a long case is being written / read */
static double h_now(void);
#define H_BEAT(i) do { if (h_heartbeat && ((i) & 255) == 0) *h_heartbeat = h_now(); } while (0)
static int h_verbose = 0;
static const char *KNAME[NKEY] = { "C42 key A", "C42 key B", "C42 pad", "C42 extra x", "C42 extra y" };
static const char *KATTR[NKEY] = { "fill:#A1B2C3", "fill:#00FF7F", "fill:#123456", "fill:#0A0B0C", "fill:#DDEEFF" };
static const char *KCONV[NKEY] = { "a{int32_t}", "x{int64_t};y{int64_t};z{double}", NULL, "q{int64_t};r{int64_t}", NULL };
static const char PLANCH[NKEY + 1] = "abpxy";
#define HR_INFO "C42 round trip trace"

static void *h_fn_xor(void *dst, const void *src, size_t n) { for (size_t j = 0; j < n; j++) ((uint8_t *)dst)[j] = ((const uint8_t *)src)[j] ^ 0x5a; return dst; }
static void *h_fn_inc(void *dst, const void *src, size_t n) { for (size_t j = 0; j < n; j++) ((uint8_t *)dst)[j] = (uint8_t)(((const uint8_t *)src)[j] + 1); return dst; }

#define FAIL(...) do { snprintf(err, SX_ERRLEN, __VA_ARGS__); return 1; } while (0)

typedef struct { parsec_profiling_stream_t *st[NSTREAM]; int ks[NKEY], ke[NKEY]; uint64_t t0; int gcount; const cfg_t *c; } wr_t;

static int h_emit(wr_t *w, int s, int kidx, int isend, int force_info /* -1: by mode, 0: none, 1: with */, char *err)
{
    const cfg_t *c = w->c;
    if (Mn[s] >= h_maxev) FAIL("harness: too many events in one stream");
    if (w->ks[kidx] < 2) FAIL("harness: the case traces key %s, which its dictionary plan '%s' does not register", KNAME[kidx], c->plan);
    mev_t *e = &M[s][Mn[s]];
    int gi = w->gcount++;
    H_BEAT(gi);
    static const uint16_t UF[4] = { 0, PARSEC_PROFILING_EVENT_RESCHEDULED, PARSEC_PROFILING_EVENT_COUNTER, PARSEC_PROFILING_EVENT_TIME_AT_START };
    uint16_t uf = UF[(gi + kidx * 2 + isend) & 3];
    int klen = c->klen[kidx], with;
    if (force_info >= 0) with = force_info;
    else if (c->mode == 0) with = klen > 0;
    else if (c->mode == 1) with = klen > 0 && !isend;
    else with = 1;
    uint8_t src[MAXINFO];
    e->kidx = kidx; e->isend = isend; e->ukey = isend ? w->ke[kidx] : w->ks[kidx];
    e->eid = ((uint64_t)(s + 1) << 40) | ((uint64_t)gi << 8) | (uint64_t)(kidx * 2 + isend);
    e->tp = (uint32_t)(0x10000 * (s + 1) + gi);
    e->has_info = with; e->ilen = with ? klen : 0; e->flags = uf | (with ? PARSEC_PROFILING_EVENT_HAS_INFO : 0); e->gidx = gi;
    for (int j = 0; j < MAXINFO; j++) src[j] = (uint8_t)(e->eid * 31 + (uint64_t)j * 7 + 3 + (e->eid >> 8));
    int rc;
    e->tlo = h_tick - w->t0;
    if (c->mode == 0) {
        rc = parsec_profiling_trace_flags(w->st[s], e->ukey, e->eid, e->tp, with ? src : NULL, uf);
        memcpy(e->info, src, MAXINFO);
    } else if (c->mode == 1) {
        rc = parsec_profiling_trace_flags_info_fn(w->st[s], e->ukey, e->eid, e->tp, h_fn_xor, with ? src : NULL, uf);
        h_fn_xor(e->info, src, MAXINFO);
    } else {
        parsec_profiling_set_default_thread(w->st[s]);
        rc = parsec_profiling_ts_trace_flags_info_fn(e->ukey, e->eid, e->tp, h_fn_inc, with ? src : NULL, uf);
        h_fn_inc(e->info, src, MAXINFO);
    }
    e->thi = h_tick - w->t0;
    Mn[s]++;
    if (rc != 0) FAIL("writer: trace call for event #%d (stream %d, key %s %s) returned %d", gi, s, KNAME[kidx], isend ? "end" : "begin", rc);
    return 0;
}

static int h_parse_cfg(const char *prog, cfg_t *c, const char **rest)
{
    memset(c, 0, sizeof(*c)); c->pages = 1;
    const char *semi = strchr(prog, ';'); if (!semi) return -1;
    if (sscanf(prog, "K=%d,%d M=%d P=%d X=%d,%d G=%d R=%d", &c->klen[0], &c->klen[1], &c->mode, &c->pages, &c->xn, &c->xconv, &c->ginfo, &c->rank) != 8) return -1;
    c->klen[2] = 1; c->klen[3] = 16; c->klen[4] = 8; strcpy(c->plan, "abp");
    {   /* optional dictionary plan: D=<letters of abpxy>, a b p exactly once, x y at most once */
        const char *d = strstr(prog, " D=");
        if (d && d < semi) {
            int cnt[NKEY] = { 0 }, n = 0; d += 3;
            while (*d && *d != ' ' && *d != ';') { const char *q = strchr(PLANCH, *d); if (!q || n >= 5) return -1; cnt[q - PLANCH]++; c->plan[n++] = *d++; }
            c->plan[n] = 0;
            if (cnt[0] != 1 || cnt[1] != 1 || cnt[2] != 1 || cnt[3] > 1 || cnt[4] > 1) return -1;
        }
    }
    if (c->klen[0] > MAXINFO || c->klen[1] > MAXINFO || c->mode < 0 || c->mode > 2 || c->xn > 120 || c->xconv > 1000) return -1;
    *rest = semi + 1; return 0;
}

static void h_xkey(int i, int convlen, char *name, char *attr, int *ilen, char *conv)
{
    sprintf(name, "C42 extra key %03d", i); sprintf(attr, "fill:#%06X", 0x010203 * (i + 1) & 0xffffff);
    *ilen = (i % 3) * 8;
    for (int j = 0; j < convlen; j++) conv[j] = (char)('a' + (i + j) % 26);
    conv[convlen] = 0;
}
static char *h_gvalue(int len) { char *v = malloc((size_t)len + 1); for (int j = 0; j < len; j++) v[j] = (char)('0' + (j * 7 + j / 10) % 75); v[len] = 0; return v; }

/* ---- de Bruijn sequence B(8,n): every sequence of n symbols occurs exactly once as a (cyclic) window ---- */
static uint8_t *DB[9]; static long DBlen[9];
static void db_rec(int t, int p, int n, int *a, uint8_t *out, long *len)
{
    if (t > n) { if (n % p == 0) for (int j = 1; j <= p; j++) out[(*len)++] = (uint8_t)a[j]; return; }
    a[t] = a[t - p]; db_rec(t + 1, p, n, a, out, len);
    for (int j = a[t - p] + 1; j < 8; j++) { a[t] = j; db_rec(t + 1, t, n, a, out, len); }
}
static const uint8_t *h_debruijn(int n, long *len)
{
    if (n < 1 || n > 8) return NULL;
    if (!DB[n]) { long cap = 1; for (int i = 0; i < n; i++) cap *= 8; DB[n] = malloc((size_t)cap + 16); int a[16] = { 0 }; DBlen[n] = 0; db_rec(1, 1, n, a, DB[n], &DBlen[n]); }
    *len = DBlen[n]; return DB[n];
}

/* ---- write the trace described by prog to <base>-<rank>.prof ---- */
static int h_fresh = 0;   /* 1: do not touch the writer statics (one case per process) */
static int h_write(const char *prog, const char *base, cfg_t *c, char *err)
{
    const char *p; wr_t w; memset(&w, 0, sizeof(w));
    if (h_parse_cfg(prog, c, &p)) FAIL("harness: cannot parse case '%s'", prog);
    w.c = c;
    for (int s = 0; s < NSTREAM; s++) Mn[s] = 0;
    if (!h_fresh) h_reset_writer();
    { char v[16]; snprintf(v, sizeof(v), "%d", c->pages); setenv("PARSEC_MCA_profile_buffer_pages", v, 1); }
    int rc;
    if ((rc = parsec_profiling_init(c->rank)) != 0) FAIL("writer: parsec_profiling_init returned %d", rc);
    if ((rc = parsec_profiling_dbp_start(base, HR_INFO)) != 0) FAIL("writer: parsec_profiling_dbp_start returned %d (%s)", rc, parsec_profiling_strerror());
    for (const char *q = c->plan; *q; q++) {      /* registration order = the case's dictionary plan (default: A, B, pad) */
        int k = (int)(strchr(PLANCH, *q) - PLANCH);
        rc = parsec_profiling_add_dictionary_keyword(KNAME[k], KATTR[k], (size_t)c->klen[k], KCONV[k], &w.ks[k], &w.ke[k]);
        if (rc != 0) FAIL("writer: add_dictionary_keyword(%s) returned %d", KNAME[k], rc);
        if (w.ke[k] != w.ks[k] + 1 || w.ks[k] < 2) FAIL("writer: dictionary keys for %s are %d/%d", KNAME[k], w.ks[k], w.ke[k]);
    }
    for (int i = 0; i < c->xn; i++) {
        char name[64], attr[64], conv[1024]; int il, a, b;
        h_xkey(i, c->xconv, name, attr, &il, conv);
        rc = parsec_profiling_add_dictionary_keyword(name, attr, (size_t)il, c->xconv ? conv : NULL, &a, &b);
        if (rc != 0) FAIL("writer: add_dictionary_keyword(%s) returned %d", name, rc);
    }
    { char *v = h_gvalue(c->ginfo); parsec_profiling_add_information("C42 global info", v); free(v); parsec_profiling_add_information("C42 second", "v2"); }
    for (int s = 0; s < NSTREAM; s++) {
        w.st[s] = parsec_profiling_stream_init(4096, "C42 stream %d", s);
        if (!w.st[s]) FAIL("writer: parsec_profiling_stream_init(%d) returned NULL", s);
        char v[32]; snprintf(v, sizeof(v), "value-of-%d", s);
        parsec_profiling_stream_add_information(w.st[s], "C42 sid", v);
    }
    parsec_profiling_start();
    w.t0 = h_tick;
    const size_t base_sz = sizeof(parsec_profiling_output_base_event_t);
    while (*p) {
        while (*p == ' ') p++;
        if (!*p) break;
        if (*p == 'F') {
            int s; long T; int n;
            if (sscanf(p, "F%d:%ld%n", &s, &T, &n) != 2 || s < 0 || s >= NSTREAM) FAIL("harness: bad token at '%s'", p);
            p += n;
            long b = T % (long)base_sz, a = (T - (long)(base_sz + 1) * b) / (long)base_sz;
            if (a < 0 || (long)base_sz * a + (long)(base_sz + 1) * b != T) FAIL("harness: filler size %ld not representable", T);
            for (long i = 0; i < a + b; i++) if (h_emit(&w, s, 2, (int)(i & 1), i < b ? 1 : 0, err)) return 1;
        } else if (*p == 'U' || *p == 'A' || *p == 'B' || *p == 'X' || *p == 'Y') {
            int rep = 1, n = 0; char kc, sg; int s;
            if (*p == 'U') { if (sscanf(p, "U%c%c%dx%d%n", &kc, &sg, &s, &rep, &n) != 4) FAIL("harness: bad token at '%s'", p); }
            else if (sscanf(p, "%c%c%d%n", &kc, &sg, &s, &n) != 3) FAIL("harness: bad token at '%s'", p);
            if ((kc != 'A' && kc != 'B' && kc != 'X' && kc != 'Y') || (sg != '+' && sg != '-') || s < 0 || s >= NSTREAM) FAIL("harness: bad token at '%s'", p);
            p += n;
            for (int i = 0; i < rep; i++) if (h_emit(&w, s, kc >= 'X' ? 3 + (kc - 'X') : kc - 'A', sg == '-', -1, err)) return 1;
        } else if (*p == 'W') {
            int wn, seg, nseg, n; long dl;
            if (sscanf(p, "W%d:%d/%d%n", &wn, &seg, &nseg, &n) != 3 || nseg < 1 || seg < 0 || seg >= nseg) FAIL("harness: bad token at '%s'", p);
            p += n;
            const uint8_t *db = h_debruijn(wn, &dl); if (!db) FAIL("harness: bad window length %d", wn);
            long per = (dl + nseg - 1) / nseg, start = per * seg, cnt = per + wn - 1;
            for (long i = 0; i < cnt; i++) { int sym = db[(start + i) % dl]; if (h_emit(&w, (sym >> 2) & 1, (sym >> 1) & 1, sym & 1, -1, err)) return 1; }
        } else FAIL("harness: bad token at '%s'", p);
    }
    if ((rc = parsec_profiling_dbp_dump()) != 0) FAIL("writer: parsec_profiling_dbp_dump returned %d (%s)", rc, parsec_profiling_strerror());
    if ((rc = parsec_profiling_fini()) != 0) FAIL("writer: parsec_profiling_fini returned %d", rc);
    return 0;
}

/* ---- independent raw walk of the file: per stream, events per buffer (= outcome signature) ---- */
static void h_layout(const char *path, char *out, size_t cap, int *maxbuf)
{
    out[0] = 0; *maxbuf = 0;
    int fd = open(path, O_RDONLY); if (fd < 0) { snprintf(out, cap, "unreadable"); return; }
    parsec_profiling_binary_file_header_t h;
    if (pread(fd, &h, sizeof(h), 0) != (ssize_t)sizeof(h)) { close(fd); snprintf(out, cap, "short"); return; }
    struct stat sb; fstat(fd, &sb);
    /* (the total number of segments in the file is not part of the signature: it depends on when the helper thread pre-maps spare buffers) */
    int chain[2] = { 0, 0 }; int64_t coff[2] = { h.dictionary_offset, h.info_offset };
    for (int k = 0; k < 2; k++) { int64_t off = coff[k]; while (off >= 0 && chain[k] < 64) { char hb[64]; if (pread(fd, hb, sizeof(hb), off) != (ssize_t)sizeof(hb)) break; chain[k]++; off = ((parsec_profiling_buffer_t *)hb)->next_buffer_file_offset; } }
    size_t o = (size_t)snprintf(out, cap, "dict=%d/%dbuf infos=%d/%dbuf thr=%d", h.dictionary_size, chain[0], h.info_size, chain[1], h.nb_threads);
    if (h.nb_threads > 0 && h.thread_offset >= 0 && h.profile_buffer_size >= 4096 && h.profile_buffer_size <= (1 << 20)) {
        char *tb = malloc((size_t)h.profile_buffer_size);
        if (pread(fd, tb, (size_t)h.profile_buffer_size, h.thread_offset) == h.profile_buffer_size) {
            parsec_profiling_buffer_t *b = (parsec_profiling_buffer_t *)tb; long pos = 0;
            for (int t = 0; t < h.nb_threads && t < b->this_buffer.nb_threads; t++) {
                parsec_profiling_stream_buffer_t *sbuf = (parsec_profiling_stream_buffer_t *)&b->buffer[pos];
                pos += (long)(sizeof(parsec_profiling_stream_buffer_t) - sizeof(parsec_profiling_info_buffer_t));
                for (int i = 0; i < sbuf->nb_infos; i++) { parsec_profiling_info_buffer_t *ib = (parsec_profiling_info_buffer_t *)&b->buffer[pos]; pos += ib->info_size + ib->value_size + (long)sizeof(parsec_profiling_info_buffer_t) - 1; }
                o += (size_t)snprintf(out + o, cap - o, " %.20s[", sbuf->hr_id + 4);
                int64_t off = sbuf->first_events_buffer_offset; int nb = 0;
                while (off >= 0 && nb < 64 && o + 16 < cap) {
                    char hb[64]; if (pread(fd, hb, sizeof(hb), off) != (ssize_t)sizeof(hb)) break;
                    parsec_profiling_buffer_t *eb = (parsec_profiling_buffer_t *)hb;
                    o += (size_t)snprintf(out + o, cap - o, "%s%ld", nb ? "," : "", (long)eb->this_buffer.nb_events);
                    nb++; off = eb->next_buffer_file_offset;
                }
                o += (size_t)snprintf(out + o, cap - o, "]");
                if (nb > *maxbuf) *maxbuf = nb;
            }
        }
        free(tb);
    }
    close(fd);
}

/* ---- read back through the real reader and compare with the model ---- */
typedef struct { cfg_t c; mev_t *ev[NSTREAM]; int n[NSTREAM]; } rmodel_t;     /* what one process (rank) wrote */
typedef struct { char name[64], attr[64], conv[1024]; int len; } dent_t;
#define MAXDENT (1 + NKEY + 120)
/* the dictionary a rank registered, in registration order (entry 0 = the key "N/A" reserved by parsec_profiling_init) */
static int h_dict_expect(const cfg_t *c, dent_t *out)
{
    int n = 0;
    strcpy(out[n].name, "N/A"); strcpy(out[n].attr, "fill:#000000"); out[n].conv[0] = 0; out[n].len = 0; n++;
    for (const char *q = c->plan; *q; q++) {
        int k = (int)(strchr(PLANCH, *q) - PLANCH);
        strcpy(out[n].name, KNAME[k]); strcpy(out[n].attr, KATTR[k]); strcpy(out[n].conv, KCONV[k] ? KCONV[k] : ""); out[n].len = c->klen[k]; n++;
    }
    for (int i = 0; i < c->xn; i++) { h_xkey(i, c->xconv, out[n].name, out[n].attr, &out[n].len, out[n].conv); n++; }
    return n;
}

/* everything file #fidx of an opened reader must show, given what its rank wrote. who = "" or a prefix naming the file in a multi-file reader */
static int h_check_file(dbp_multifile_reader_t *dbp, int fidx, const rmodel_t *rm, const char *who, char *err)
{
    const cfg_t *c = &rm->c;
    static dent_t DE[MAXDENT];
    dbp_file_t *f = dbp_reader_get_file(dbp, fidx);
    if (dbp_file_error(f) != 0) FAIL("reader: %sfile error %d", who, dbp_file_error(f));
    if (strcmp(dbp_file_hr_id(f), HR_INFO)) FAIL("reader: %strace hr_id '%s' != written '%s'", who, dbp_file_hr_id(f), HR_INFO);
    if (dbp_file_get_rank(f) != c->rank) FAIL("reader: %srank %d != written %d", who, dbp_file_get_rank(f), c->rank);
    /* dictionary of the file (through the file's local -> global mapping) */
    int nd = dbp_file_nb_dictionary_entries(f), want = h_dict_expect(c, DE);
    if (nd != want) FAIL("reader: %s%d dictionary entries, %d were registered (incl. the reserved N/A)", who, nd, want);
    for (int d = 0; d < nd; d++) {
        const char *wn = DE[d].name, *wa = DE[d].attr, *wc = DE[d].conv; int wl = DE[d].len;
        dbp_dictionary_t *e = dbp_file_get_dictionary(f, d);
        if (strcmp(dbp_dictionary_name(e), wn)) FAIL("reader: %sdictionary entry %d has name '%s', written '%s'", who, d, dbp_dictionary_name(e), wn);
        if (dbp_dictionary_keylen(e) != wl) FAIL("reader: %sdictionary entry %d (%s) has info length %d, written %d", who, d, wn, dbp_dictionary_keylen(e), wl);
        if (strcmp(dbp_dictionary_convertor(e), wc)) FAIL("reader: %sdictionary entry %d (%s) has convertor '%.60s', written '%.60s'", who, d, wn, dbp_dictionary_convertor(e), wc);
        /* the reader keeps the 6 trailing characters (the RRGGBB colour) of the attributes */
        if (strcmp(dbp_dictionary_attributes(e), wa + strlen(wa) - 6)) FAIL("reader: %sdictionary entry %d (%s) has colour '%s', written '%s'", who, d, wn, dbp_dictionary_attributes(e), wa);
    }
    /* global infos: each written pair exactly once */
    {
        char *gv = h_gvalue(c->ginfo); const char *keys[2] = { "C42 global info", "C42 second" }; const char *vals[2] = { gv, "v2" };
        for (int k = 0; k < 2; k++) {
            int found = 0;
            for (int i = 0; i < dbp_file_nb_infos(f); i++) {
                dbp_info_t *in = dbp_file_get_info(f, i);
                if (!strcmp(dbp_info_get_key(in), keys[k])) {
                    found++;
                    if (strcmp(dbp_info_get_value(in), vals[k])) { size_t l = strlen(dbp_info_get_value(in)); free(gv); FAIL("reader: %sglobal info '%s' value differs (read %zu bytes, written %zu)", who, keys[k], l, strlen(vals[k])); }
                }
            }
            if (found != 1) { free(gv); FAIL("reader: %sglobal info '%s' found %d times", who, keys[k], found); }
        }
        free(gv);
    }
    /* streams */
    int nthr = 0; for (int s = 0; s < NSTREAM; s++) if (rm->n[s] > 0) nthr++;
    if (dbp_file_nb_threads(f) != nthr) FAIL("reader: %s%d streams in the file, %d streams received events", who, dbp_file_nb_threads(f), nthr);
    int t = 0;
    for (int s = 0; s < NSTREAM; s++) {
        if (!rm->n[s]) continue;
        dbp_thread_t *th = dbp_file_get_thread(f, t++);
        char hr[64], v[32]; snprintf(hr, sizeof(hr), "C42 stream %d", s); snprintf(v, sizeof(v), "value-of-%d", s);
        if (strcmp(dbp_thread_get_hr_id(th), hr)) FAIL("reader: %sstream #%d is '%s', expected '%s'", who, t - 1, dbp_thread_get_hr_id(th), hr);
        if (dbp_thread_nb_events(th) != rm->n[s]) FAIL("reader: %sstream %d announces %d events, %d were written", who, s, dbp_thread_nb_events(th), rm->n[s]);
        if (dbp_thread_nb_infos(th) != 1) FAIL("reader: %sstream %d has %d infos, 1 was written", who, s, dbp_thread_nb_infos(th));
        if (strcmp(dbp_info_get_key(dbp_thread_get_info(th, 0)), "C42 sid") || strcmp(dbp_info_get_value(dbp_thread_get_info(th, 0)), v)) FAIL("reader: %sstream %d info is '%s'='%s'", who, s, dbp_info_get_key(dbp_thread_get_info(th, 0)), dbp_info_get_value(dbp_thread_get_info(th, 0)));
        dbp_event_iterator_t *it = dbp_iterator_new_from_thread(th);
        const dbp_event_t *e = dbp_iterator_current(it);
        for (int i = 0; i < rm->n[s]; i++, e = dbp_iterator_next(it)) {
            const mev_t *m = &rm->ev[s][i];
            H_BEAT(i);
            if (!e) FAIL("reader: %sstream %d ends after %d events, %d were written (first missing: #%d key %s %s)", who, s, i, rm->n[s], m->gidx, KNAME[m->kidx], m->isend ? "end" : "begin");
            if (h_verbose && (i < 16 || (i % 1024) == 0)) printf("    %sstream %d event %d: written key=%d flags=0x%x id=0x%llx tp=0x%x ilen=%d | read key=%d flags=0x%x id=0x%llx tp=0x%x ilen=%d ts=%llu\n", who, s, i, m->ukey, m->flags, (unsigned long long)m->eid, m->tp, m->ilen,
                                  dbp_event_get_key(e), dbp_event_get_flags(e), (unsigned long long)dbp_event_get_event_id(e), dbp_event_get_taskpool_id(e),
                                  BASE_KEY(dbp_event_get_key(e)) >= 0 && BASE_KEY(dbp_event_get_key(e)) < nd ? dbp_event_info_len(e, f) : -1, (unsigned long long)dbp_event_get_timestamp(e));
            if (dbp_event_get_key(e) != m->ukey) FAIL("reader: %sstream %d event %d has key %d, written %d (%s %s)", who, s, i, dbp_event_get_key(e), m->ukey, KNAME[m->kidx], m->isend ? "end" : "begin");
            /* the key NAME, through the dictionary mapping of this file */
            { const char *kn = dbp_dictionary_name(dbp_file_get_dictionary(f, BASE_KEY(dbp_event_get_key(e))));
              if (strcmp(kn, KNAME[m->kidx])) FAIL("reader: %sstream %d event %d: its key %d names '%s' in the file's dictionary, the event was traced with key '%s'", who, s, i, dbp_event_get_key(e), kn, KNAME[m->kidx]); }
            if (dbp_event_get_event_id(e) != m->eid) FAIL("reader: %sstream %d event %d has event_id 0x%llx, written 0x%llx", who, s, i, (unsigned long long)dbp_event_get_event_id(e), (unsigned long long)m->eid);
            if (dbp_event_get_taskpool_id(e) != m->tp) FAIL("reader: %sstream %d event %d has taskpool_id 0x%x, written 0x%x", who, s, i, dbp_event_get_taskpool_id(e), m->tp);
            if (dbp_event_get_flags(e) != m->flags) FAIL("reader: %sstream %d event %d has flags 0x%x, written 0x%x", who, s, i, dbp_event_get_flags(e), m->flags);
            uint64_t ts = dbp_event_get_timestamp(e);
            if (!(ts > m->tlo && ts <= m->thi)) FAIL("reader: %sstream %d event %d has timestamp %llu, the clock was in (%llu,%llu] during the call", who, s, i, (unsigned long long)ts, (unsigned long long)m->tlo, (unsigned long long)m->thi);
            int il = dbp_event_info_len(e, f); void *ip = dbp_event_get_info(e);
            if (il != m->ilen) FAIL("reader: %sstream %d event %d has payload length %d, written %d", who, s, i, il, m->ilen);
            if ((ip != NULL) != (m->has_info != 0)) FAIL("reader: %sstream %d event %d payload presence %d, written %d", who, s, i, ip != NULL, m->has_info);
            if (m->has_info && memcmp(ip, m->info, (size_t)m->ilen)) FAIL("reader: %sstream %d event %d payload bytes differ", who, s, i);
        }
        if (e) FAIL("reader: %sstream %d yields more than the %d events written (extra key %d id 0x%llx)", who, s, rm->n[s], dbp_event_get_key(e), (unsigned long long)dbp_event_get_event_id(e));
        dbp_iterator_delete(it);
    }
    return 0;
}

static int h_readback(const char *path, const rmodel_t *rm, const char *who, char *err)
{
    char *files[1] = { (char *)path };
    dbp_multifile_reader_t *dbp = dbp_reader_open_files(1, files);
    if (!dbp) FAIL("reader: %sdbp_reader_open_files returned NULL", who);
    if (dbp_reader_nb_files(dbp) != 1) FAIL("reader: %s%d files opened instead of 1", who, dbp_reader_nb_files(dbp));
    if (dbp_reader_last_error(dbp) != 0) FAIL("reader: %sreports error %d on a complete trace", who, dbp_reader_last_error(dbp));
    if (h_check_file(dbp, 0, rm, who, err)) return 1;
    dbp_reader_close_files(dbp);
    dbp_reader_destruct(dbp);
    return 0;
}

/* n rank files opened TOGETHER, in the argument order ord[] (file #i of the reader = the file written by RM[ord[i]]).
 * desc receives the local->global dictionary maps (outcome signature); *nonid = some file's map is not the identity */
static int h_readback_multi(int n, char paths[][320], const int *ord, const rmodel_t *RM, char *err, char *desc, size_t dcap, int *nonid)
{
    static dent_t DE[MAXRANK][MAXDENT]; int nde[MAXRANK];
    char *files[MAXRANK]; char who[64];
    for (int i = 0; i < n; i++) files[i] = paths[ord[i]];
    dbp_multifile_reader_t *dbp = dbp_reader_open_files(n, files);
    if (!dbp) FAIL("reader: dbp_reader_open_files(%d files) returned NULL", n);
    if (dbp_reader_nb_files(dbp) != n) FAIL("reader: %d files opened instead of %d", dbp_reader_nb_files(dbp), n);
    if (dbp_reader_last_error(dbp) != 0) FAIL("reader: reports error %d on %d complete traces of one run", dbp_reader_last_error(dbp), n);
    for (int i = 0; i < n; i++) {
        snprintf(who, sizeof(who), "[%d files together] file #%d (rank %d): ", n, i, RM[ord[i]].c.rank);
        if (h_check_file(dbp, i, &RM[ord[i]], who, err)) return 1;
    }
    /* merged dictionary: every distinct (name, info length, convertor) registered by some rank exactly once, nothing else */
    int nm = dbp_reader_nb_dictionary_entries(dbp), ndist = 0;
    for (int i = 0; i < n; i++) nde[i] = h_dict_expect(&RM[ord[i]].c, DE[i]);
    for (int i = 0; i < n; i++) for (int d = 0; d < nde[i]; d++) {
        const dent_t *x = &DE[i][d]; int first = 1, cnt = 0;
        for (int i2 = 0; i2 <= i && first; i2++) for (int d2 = 0; d2 < (i2 < i ? nde[i2] : d); d2++) { const dent_t *y = &DE[i2][d2]; if (y->len == x->len && !strcmp(y->name, x->name) && !strcmp(y->conv, x->conv)) { first = 0; break; } }
        if (!first) continue;
        ndist++;
        for (int g = 0; g < nm; g++) { dbp_dictionary_t *e = dbp_reader_get_dictionary(dbp, g); if (dbp_dictionary_keylen(e) == x->len && !strcmp(dbp_dictionary_name(e), x->name) && !strcmp(dbp_dictionary_convertor(e), x->conv)) { cnt++;
            if (strcmp(dbp_dictionary_attributes(e), x->attr + strlen(x->attr) - 6)) FAIL("reader: [%d files together] merged dictionary entry %d (%s) has colour '%s', written '%s'", n, g, x->name, dbp_dictionary_attributes(e), x->attr); } }
        if (cnt != 1) FAIL("reader: [%d files together] the merged dictionary holds key '%s' (info length %d) %d times; it was registered (by rank %d%s) and must appear exactly once", n, x->name, x->len, cnt, RM[ord[i]].c.rank, n > 1 ? " first in argument order" : "");
    }
    if (nm != ndist) FAIL("reader: [%d files together] the merged dictionary has %d entries, the ranks registered %d distinct keys (name, info length, convertor)", n, nm, ndist);
    /* local -> global translation of every file */
    size_t o = (size_t)snprintf(desc, dcap, "merged=%d", nm); *nonid = 0;
    for (int i = 0; i < n; i++) {
        dbp_file_t *f = dbp_reader_get_file(dbp, i);
        o += (size_t)snprintf(desc + o, dcap - o, " r%d:", RM[ord[i]].c.rank);
        for (int d = 0; d < nde[i]; d++) {
            int g = dbp_file_translate_local_dico_to_global(f, d);
            if (g < 0 || g >= nm) FAIL("reader: [%d files together] file #%d maps its dictionary entry %d to global entry %d of %d", n, i, d, g, nm);
            dbp_dictionary_t *e = dbp_reader_get_dictionary(dbp, g);
            if (strcmp(dbp_dictionary_name(e), DE[i][d].name) || dbp_dictionary_keylen(e) != DE[i][d].len || strcmp(dbp_dictionary_convertor(e), DE[i][d].conv))
                FAIL("reader: [%d files together] file #%d (rank %d) maps its entry %d ('%s', info length %d) to global entry %d = '%s', info length %d", n, i, RM[ord[i]].c.rank, d, DE[i][d].name, DE[i][d].len, g, dbp_dictionary_name(e), dbp_dictionary_keylen(e));
            if (g != d) *nonid = 1;
            if (o + 8 < dcap) o += (size_t)snprintf(desc + o, dcap - o, "%s%d", d ? "," : "", g);
        }
    }
    dbp_reader_close_files(dbp);
    dbp_reader_destruct(dbp);
    return 0;
}

/* ---- leg multi: one case = n rank files, each written by its own writer, opened TOGETHER in argument order O, and each alone.
 *     MULTI N=<n> O=<i,j[,k]> F=<0|1|2> | <program of writer 0> | <program of writer 1> [| ...]        (programs as above, R= distinct)
 * F=1: every file is written by a forked, fresh process (no reset of the writer's statics: the worker itself never writes);
 * F=0: written in this process with the statics reset, like the other legs; F=2: like 0, and a file whose program is literally the
 * same as in a neighbouring case of this worker is written (and read alone) once and kept while it is needed: the writer is
 * deterministic (tick clock), and one joint opening costs 2 ms where one write costs 6 ms (fork + write: 26 ms) */
#define FS_MAXEV 1024
#define NFS 48
typedef struct { int valid, alone_ok, maxbuf, rc; long stamp; char prog[600], path[320], layout[512], err[SX_ERRLEN]; rmodel_t rm; mev_t ev[NSTREAM][FS_MAXEV]; } fslot_t;
static fslot_t *FS = NULL; static long fs_clock = 0; static long fs_written = 0; static int h_wrote_here = 0;
static double h_bench[3];      /* seconds spent writing / reading together / reading alone (development option --bench) */
static void h_fs_drop(fslot_t *f) { if (f->valid) { if (truncate(f->path, 0)) {} unlink(f->path); f->valid = 0; } }
static void h_fs_flush(void) { if (FS) for (int k = 0; k < NFS; k++) h_fs_drop(&FS[k]); }
static int h_fs_write(fslot_t *f, int k, int slot, const char *prog, int forked, char *err)
{
    char base[300]; int rc;
    snprintf(base, sizeof(base), "%s/w%df%d", h_dir, slot, k);
    snprintf(f->prog, sizeof(f->prog), "%s", prog); f->alone_ok = 0; f->err[0] = 0;
    for (int s = 0; s < NSTREAM; s++) { f->rm.ev[s] = f->ev[s]; f->rm.n[s] = 0; }
    fs_written++;
    if (forked) {
        fflush(stdout); fflush(stderr);
        f->rc = -1;
        pid_t pid = fork();
        if (pid < 0) FAIL("harness: fork failed (%s)", strerror(errno));
        if (pid == 0) {
            prctl(PR_SET_PDEATHSIG, SIGKILL);
            h_fresh = !h_wrote_here; h_maxev = FS_MAXEV;
            for (int s = 0; s < NSTREAM; s++) M[s] = f->ev[s];
            int r = h_write(prog, base, &f->rm.c, f->err);
            for (int s = 0; s < NSTREAM; s++) f->rm.n[s] = Mn[s];
            f->rc = r;
            _exit(0);
        }
        int st;
        while (waitpid(pid, &st, 0) < 0 && errno == EINTR) ;
        if (WIFSIGNALED(st)) FAIL("the writer process died (signal %d%s) while writing [%s]", WTERMSIG(st), WTERMSIG(st) == SIGABRT ? ", assertion failure in the writer" : "", prog);
        if (!WIFEXITED(st) || WEXITSTATUS(st) != 0 || f->rc < 0) FAIL("the writer process exited with status %d while writing [%s]", WEXITSTATUS(st), prog);
        if (f->rc) { snprintf(err, SX_ERRLEN, "%s", f->err); return 1; }
    } else {
        mev_t *save[NSTREAM]; int sf = h_fresh, sm = h_maxev;
        for (int s = 0; s < NSTREAM; s++) { save[s] = M[s]; M[s] = f->ev[s]; }
        h_fresh = 0; h_maxev = FS_MAXEV; h_wrote_here = 1;
        rc = h_write(prog, base, &f->rm.c, err);
        for (int s = 0; s < NSTREAM; s++) { f->rm.n[s] = Mn[s]; M[s] = save[s]; }
        h_fresh = sf; h_maxev = sm;
        if (rc) return 1;
    }
    snprintf(f->path, sizeof(f->path), "%s-%d.prof", base, f->rm.c.rank);
    f->valid = 1;
    h_layout(f->path, f->layout, sizeof(f->layout), &f->maxbuf);
    return 0;
}

static int h_case_multi(const char *prog, int slot, char *err, sx_h128_t *sig, int *nontriv, long *nev, char *layout, size_t lcap)
{
    int n = 0, ord[MAXRANK] = { 0, 1, 2 }, mode = 0, k = 0, bad = 0, nonid = 0;
    static char sub[MAXRANK][1024]; char lbuf[2048], paths[MAXRANK][320]; size_t o = 0; fslot_t *use[MAXRANK] = { NULL, NULL, NULL };
    rmodel_t RM[MAXRANK]; long events = 0;
    err[0] = 0; lbuf[0] = 0;
    if (nev) *nev = 0;
    if (nontriv) *nontriv = 0;
    if (layout && lcap) layout[0] = 0;
    if (sig) *sig = sx_hash("", 0);
    if (!FS) { FS = mmap(NULL, sizeof(fslot_t) * NFS, PROT_READ | PROT_WRITE, MAP_SHARED | MAP_ANONYMOUS, -1, 0); if (FS == MAP_FAILED) { FS = NULL; FAIL("harness: mmap failed"); } }
    if (sscanf(prog, "MULTI N=%d O=%d,%d%n", &n, &ord[0], &ord[1], &k) < 3 || n < 2 || n > MAXRANK) FAIL("harness: cannot parse case '%s'", prog);
    const char *p = prog + k;
    if (n == 3) { if (sscanf(p, ",%d%n", &ord[2], &k) != 1) FAIL("harness: cannot parse case '%s'", prog); p += k; }
    if (sscanf(p, " F=%d%n", &mode, &k) != 1 || mode < 0 || mode > 2) FAIL("harness: cannot parse case '%s'", prog);
    p += k;
    { int seen = 0; for (int i = 0; i < n; i++) { if (ord[i] < 0 || ord[i] >= n) FAIL("harness: bad file order in '%s'", prog); seen |= 1 << ord[i]; } if (seen != (1 << n) - 1) FAIL("harness: bad file order in '%s'", prog); }
    for (int r = 0; r < n; r++) {
        while (*p == ' ') p++;
        if (*p != '|') FAIL("harness: cannot parse case '%s'", prog);
        p++; while (*p == ' ') p++;
        const char *q = strchr(p, '|'); size_t l = q ? (size_t)(q - p) : strlen(p);
        while (l > 0 && p[l - 1] == ' ') l--;
        if (l >= sizeof(FS[0].prog)) FAIL("harness: program too long");
        memcpy(sub[r], p, l); sub[r][l] = 0; p = q ? q : p + strlen(p);
    }
    /* the n files: reuse (F=2) or write */
    for (int r = 0; r < n && !bad; r++) {
        fslot_t *f = NULL; int fk = -1;
        if (mode == 2) for (int j = 0; j < NFS; j++) if (FS[j].valid && !strcmp(FS[j].prog, sub[r])) { f = &FS[j]; break; }
        if (!f) {
            for (int j = 0; j < NFS; j++) {      /* a free slot, else the least recently used one that this case does not use */
                int pinned = 0; for (int r2 = 0; r2 < r; r2++) if (use[r2] == &FS[j]) pinned = 1;
                if (pinned) continue;
                if (!FS[j].valid) { fk = j; break; }
                if (fk < 0 || FS[j].stamp < FS[fk].stamp) fk = j;
            }
            f = &FS[fk]; h_fs_drop(f);
            double tw = h_now();
            bad = h_fs_write(f, fk, slot, sub[r], mode == 1, err);
            h_bench[0] += h_now() - tw;
            if (bad) break;
        }
        f->stamp = ++fs_clock; use[r] = f;
        for (int r2 = 0; r2 < r; r2++) if (use[r2]->rm.c.rank == f->rm.c.rank) { snprintf(err, SX_ERRLEN, "harness: two writers of one case use rank %d", f->rm.c.rank); bad = 1; }
    }
    if (!bad) {
        for (int r = 0; r < n; r++) { RM[r] = use[r]->rm; snprintf(paths[r], sizeof(paths[r]), "%s", use[r]->path); events += RM[r].n[0] + RM[r].n[1];
            if (o < sizeof(lbuf) - 600) o += (size_t)snprintf(lbuf + o, sizeof(lbuf) - o, "%sr%d{%s}", r ? " " : "", RM[r].c.rank, use[r]->layout); }
        char desc[512]; desc[0] = 0;
        double tr = h_now();
        bad = h_readback_multi(n, paths, ord, RM, err, desc, sizeof(desc), &nonid);
        h_bench[1] += h_now() - tr; tr = h_now();
        snprintf(lbuf + o, sizeof(lbuf) - o, " | %s", desc);
        if (h_verbose) printf("    file layouts and dictionary maps: %s\n", lbuf);
        /* and every file alone (once per written file) */
        for (int r = 0; r < n && !bad; r++) if (!use[r]->alone_ok) { char who[48]; snprintf(who, sizeof(who), "[file of rank %d alone] ", RM[r].c.rank); bad = h_readback(paths[r], &RM[r], who, err); use[r]->alone_ok = !bad; events += RM[r].n[0] + RM[r].n[1]; }
        h_bench[2] += h_now() - tr;
        if (layout) snprintf(layout, lcap, "%s", lbuf);
    }
    if (sig) *sig = sx_hash(lbuf, bad ? 0 : strlen(lbuf));
    if (nontriv) *nontriv = nonid;
    if (nev) *nev = events;
    if (mode != 2 || bad) for (int r = 0; r < n; r++) if (use[r]) h_fs_drop(use[r]);
    return bad;
}

/* one complete case. returns 0 ok / 1 violation (err). sig = hash of the raw layout, *nontriv = a stream spans >= 2 buffers */
static int h_case(const char *prog, int slot, char *err, sx_h128_t *sig, int *nontriv, long *nev, char *layout, size_t lcap)
{
    char base[300], path[320]; rmodel_t rm; char lbuf[512]; int maxbuf = 0;
    if (!strncmp(prog, "MULTI ", 6)) return h_case_multi(prog, slot, err, sig, nontriv, nev, layout, lcap);
    snprintf(base, sizeof(base), "%s/w%d", h_dir, slot);
    err[0] = 0;
    int bad = h_write(prog, base, &rm.c, err);
    snprintf(path, sizeof(path), "%s-%d.prof", base, rm.c.rank);
    if (!bad) {
        for (int s = 0; s < NSTREAM; s++) { rm.ev[s] = M[s]; rm.n[s] = Mn[s]; }
        h_layout(path, lbuf, sizeof(lbuf), &maxbuf);
        if (h_verbose) printf("    file layout: %s\n", lbuf);
        bad = h_readback(path, &rm, "", err);
        if (layout) snprintf(layout, lcap, "%s", lbuf);
    } else if (layout) layout[0] = 0;
    if (sig) *sig = sx_hash(lbuf, bad ? 0 : strlen(lbuf));
    if (nontriv) *nontriv = maxbuf >= 2 || (Mn[0] > 0 && Mn[1] > 0);
    if (nev) *nev = Mn[0] + Mn[1];
    if (truncate(path, 0)) {}
    unlink(path);
    return bad;
}

/* ------------------------------------------------------------------ case generation ---- */
typedef struct { const char *leg; int cfg; int n; long lo, hi; } unit_t;   /* [lo,hi) of the leg's index space at (cfg,n) */
#define MAXCFG 64
static char CFG[MAXCFG][96]; static int ncfg_seq, cfg_runs0, ncfg_runs;
static const int ESZ_BASE = (int)sizeof(parsec_profiling_output_base_event_t);
static long h_avail(int pages) { return pages * 4096L - (long)offsetof(parsec_profiling_buffer_t, buffer); }

static int h_klen_of(const char *cfg, int k) { int a, b; sscanf(cfg, "K=%d,%d", &a, &b); return k ? b : a; }
static int h_mode_of(const char *cfg) { int a, b, m; sscanf(cfg, "K=%d,%d M=%d", &a, &b, &m); return m; }
static int h_pages_of(const char *cfg) { int a, b, m, p; sscanf(cfg, "K=%d,%d M=%d P=%d", &a, &b, &m, &p); return p; }
/* bytes an event of symbol sym occupies under cfg (steering only; the verdict never depends on it) */
static int h_evsize(const char *cfg, int key, int isend)
{
    int klen = h_klen_of(cfg, key), mode = h_mode_of(cfg), with = mode == 0 ? klen > 0 : mode == 1 ? (klen > 0 && !isend) : 1;
    return ESZ_BASE + (with ? klen : 0);
}
static void h_symtok(int sym, char *out) { sprintf(out, "%c%c%d", 'A' + ((sym >> 1) & 1), (sym & 1) ? '-' : '+', (sym >> 2) & 1); }

typedef int (*case_fn)(const char *prog, void *arg);

/* leg "seq": all sequences of length n over 8 symbols x prefill variants (none | event i ends d bytes around the buffer end) */
static int gen_seq(const unit_t *u, case_fn fn, void *arg)
{
    const char *cfg = CFG[u->cfg]; long avail = h_avail(h_pages_of(cfg)); char prog[1024], tok[8];
    for (long idx = u->lo; idx < u->hi; idx++) {
        int sym[16]; long x = idx; for (int i = 0; i < u->n; i++) { sym[i] = (int)(x & 7); x >>= 3; }
        for (int v = 0; v < 1 + 3 * u->n; v++) {
            size_t o = (size_t)snprintf(prog, sizeof(prog), "%s ;", cfg);
            if (v > 0) {
                int i = (v - 1) / 3, d = (v - 1) % 3 - 1, s = (sym[i] >> 2) & 1; long cum = 0;
                for (int j = 0; j <= i; j++) if (((sym[j] >> 2) & 1) == s) cum += h_evsize(cfg, (sym[j] >> 1) & 1, sym[j] & 1);
                long R = cum + d;                     /* free bytes left in the stream's buffer when the window starts */
                /* one variant in three starts the window in the second buffer of the stream */
                if ((idx + v) % 3 == 0) o += (size_t)snprintf(prog + o, sizeof(prog) - o, " F%d:%ld", s, avail);
                o += (size_t)snprintf(prog + o, sizeof(prog) - o, " F%d:%ld", s, avail - R);
            }
            for (int i = 0; i < u->n; i++) { h_symtok(sym[i], tok); o += (size_t)snprintf(prog + o, sizeof(prog) - o, " %s", tok); }
            int r = fn(prog, arg); if (r) return r;
        }
    }
    return 0;
}
static long seq_count(int n) { long c = 1; for (int i = 0; i < n; i++) c *= 8; return c; }

/* leg "runs": long uniform runs that fill exactly k buffers -1/0/+1 event, by count and by exact byte fill, + a short tail */
static int RUN_K = 4;
static const char *TAILS[] = { "", "A+1", "B-0 A+1", "A+0 B+0 B-1", "B+1 A-0 A+1 B-0" };
static int NTAIL = 5;
static long runs_count(void) { return 4L /*symbol kinds*/ * RUN_K * (3 + 4) * NTAIL; }
static int gen_runs(const unit_t *u, case_fn fn, void *arg)
{
    const char *cfg = CFG[u->cfg]; long avail = h_avail(h_pages_of(cfg)); char prog[1024];
    for (long idx = u->lo; idx < u->hi; idx++) {
        long x = idx; int tail = (int)(x % NTAIL); x /= NTAIL; int var = (int)(x % 7); x /= 7; int k = (int)(x % RUN_K) + 1; x /= RUN_K; int kind = (int)x;
        int key = kind >> 1, isend = kind & 1, e = h_evsize(cfg, key, isend); long fit = avail / e;
        size_t o = (size_t)snprintf(prog, sizeof(prog), "%s ;", cfg);
        if (var < 3) o += (size_t)snprintf(prog + o, sizeof(prog) - o, " U%c%c0x%ld", 'A' + key, isend ? '-' : '+', k * fit + (var - 1));
        else {
            /* k-1 buffers filled to the byte, then filler so that j events of this kind end exactly at the end of buffer k, then extra events */
            int j = (var - 3) / 2 + 1, extra = (var - 3) % 2;
            for (int b = 1; b < k; b++) o += (size_t)snprintf(prog + o, sizeof(prog) - o, " F0:%ld", avail);
            o += (size_t)snprintf(prog + o, sizeof(prog) - o, " F0:%ld U%c%c0x%d", avail - (long)j * e, 'A' + key, isend ? '-' : '+', j + extra);
        }
        if (TAILS[tail][0]) o += (size_t)snprintf(prog + o, sizeof(prog) - o, " %s", TAILS[tail]);
        int r = fn(prog, arg); if (r) return r;
    }
    return 0;
}

/* leg "dict": (a) number of extra dictionary entries x convertor length (the dictionary spans 1..n buffers);
 * (b) 16 extra entries x every convertor length 0..255 (entries end at every distance from a buffer end) ; leg "infos": global info value length */
static int DICT_CONV[] = { 0, 1, 17, 64 }; static int dict_maxx = 48, dict_step = 1, conv_step = 1;
static long dict_count_a(void) { return (long)(dict_maxx / dict_step + 1) * 4; }
static long dict_count(void) { return dict_count_a() + 255 / conv_step + 1; }
static int gen_dict(const unit_t *u, case_fn fn, void *arg)
{
    char prog[256];
    for (long idx = u->lo; idx < u->hi; idx++) {
        int xn, cl;
        if (idx < dict_count_a()) { xn = (int)(idx / 4) * dict_step; cl = DICT_CONV[idx % 4]; }
        else { xn = 16; cl = (int)(idx - dict_count_a()) * conv_step; }
        snprintf(prog, sizeof(prog), "K=4,24 M=%d P=1 X=%d,%d G=3 R=%d ; A+0 B+1 B-1 A-0", (int)(idx % 3), xn, cl, (int)(idx % 5));
        int r = fn(prog, arg); if (r) return r;
    }
    return 0;
}
static long infos_lens[2048]; static int infos_n;
static void infos_init(int thorough)
{
    long avail = h_avail(1); infos_n = 0;
    infos_lens[infos_n++] = 0; infos_lens[infos_n++] = 1; infos_lens[infos_n++] = 2; infos_lens[infos_n++] = 100; infos_lens[infos_n++] = 1000;
    /* around every place where the value can end relative to a buffer end (the other infos and the keys take < 200 bytes) */
    for (int m = 1; m <= 3; m++) for (long d = -200; d <= 8; d++) if (thorough || d >= -2 || (d % 16) == 0) infos_lens[infos_n++] = m * avail + d;
}
static int gen_infos(const unit_t *u, case_fn fn, void *arg)
{
    char prog[256];
    for (long idx = u->lo; idx < u->hi; idx++) {
        snprintf(prog, sizeof(prog), "K=0,4 M=0 P=1 X=0,0 G=%ld R=0 ; A+0 B+1", infos_lens[idx]);
        int r = fn(prog, arg); if (r) return r;
    }
    return 0;
}
/* leg "windows": the de Bruijn cycle B(8,n) cut into nseg overlapping segments; every sequence of n symbols is a window of one segment.
 * u->n = n, index = phase * nseg + seg ; phase 1 (or, with a single phase, every odd segment) shifts both streams by an odd number of bytes first */
static int win_nseg = 4, win_phases = 1;
static int gen_windows(const unit_t *u, case_fn fn, void *arg)
{
    char prog[256];
    for (long idx = u->lo; idx < u->hi; idx++) {
        int seg = (int)(idx % win_nseg), ph = (int)(idx / win_nseg);
        if (ph == 0 && (win_phases > 1 || seg % 2 == 0)) snprintf(prog, sizeof(prog), "%s ; W%d:%d/%d", CFG[u->cfg], u->n, seg, win_nseg);
        else snprintf(prog, sizeof(prog), "%s ; F0:601 F1:1225 W%d:%d/%d", CFG[u->cfg], u->n, seg, win_nseg);
        int r = fn(prog, arg); if (r) return r;
    }
    return 0;
}
/* leg "fresh": sequences of length <= 1 and a few longer programs, each in its own process and WITHOUT resetting the writer's
 * statics: cross-checks that the reset used by the other legs is equivalent to a new process */
static const char *FRESH_EXTRA[] = { "UA+0x200 B-1 UB+1x100", "F0:4071 A+0 B-0", "F1:4070 B+1 A-1 A+0", "W3:0/1" };
static long fresh_count(void) { return 1 + 8 + 4; }
static int gen_fresh(const unit_t *u, case_fn fn, void *arg)
{
    char prog[256], tok[8];
    for (long idx = u->lo; idx < u->hi; idx++) {
        if (idx == 0) snprintf(prog, sizeof(prog), "%s ;", CFG[u->cfg]);
        else if (idx <= 8) { h_symtok((int)idx - 1, tok); snprintf(prog, sizeof(prog), "%s ; %s", CFG[u->cfg], tok); }
        else snprintf(prog, sizeof(prog), "%s ; %s", CFG[u->cfg], FRESH_EXTRA[idx - 9]);
        int r = fn(prog, arg); if (r) return r;
    }
    return 0;
}
/* leg "multi": n = 2..3 rank files with DIFFERENT dictionaries, opened together (in every argument order) and each alone.
 * dictionary configuration = registration order of (A, B, pad) on ranks 1.. (rank 0 registers A, B, pad) x extra keys x, y registered by one
 * rank only (before / after / around the shared keys; n = 3 also: by two of the three ranks at different places) x argument order x
 * info-length variant (the same lengths on all ranks | a different (length A, length B) pair on every rank | ...).
 * The leg is a list of parts (MPART); a unit = (part, [lo,hi)), index = program * nconfigurations + configuration. */
static const char *PERM3[6] = { "abp", "apb", "bap", "bpa", "pab", "pba" };
static const char *XSHAPE[5][2] = { { "x", "" }, { "", "x" }, { "xy", "" }, { "", "xy" }, { "x", "y" } };
static const char *KVCFG[4][MAXRANK] = {
    { "K=0,4 M=0 P=1", "K=4,24 M=1 P=1", "K=24,0 M=2 P=1" },       /* one name, different info lengths (and payload policies) on different ranks */
    { "K=4,24 M=0 P=1", "K=4,24 M=0 P=1", "K=4,24 M=0 P=1" },
    { "K=0,4 M=2 P=1", "K=0,4 M=2 P=1", "K=0,4 M=2 P=1" },
    { "K=24,0 M=1 P=2", "K=24,0 M=1 P=2", "K=24,0 M=1 P=2" },
};
static const int ORD2[2][3] = { { 0, 1, 2 }, { 1, 0, 2 } };
static const int ORD3[6][3] = { { 0, 1, 2 }, { 0, 2, 1 }, { 1, 0, 2 }, { 1, 2, 0 }, { 2, 0, 1 }, { 2, 1, 0 } };
#define NPF 5
static const char *PF[NPF + 2] = { "A+0 B+0 A-0 B-0 A+1 B+1 A-1 B-1", "UA+0x200 B-1 UB+1x100", "F0:4071 A+0 B-0", "F1:4070 B+1 A-1 A+0", "W3:0/1",
                                   "W2:0/1", "W3:0/1" };      /* j = 5, 6: the same de Bruijn stream on every rank */
/* extra-key options: 0 = none; 1..5n = rank (e-1)/5 registers shape (e-1)%5; n = 3: 16 = ranks 1 and 2 both register x (before / after),
 * 17 = ranks 1 and 2 both register x and y (after, as x y / before, as y x) */
static const int XS_NONE[] = { 0 }, XS_RED2[] = { 0, 6 /* rank 1: x before */, 4 /* rank 0: x y after */ }, XS_RED3[] = { 0, 16, 17, 15 /* rank 2: x before, y after */ }, XS_17[] = { 17 };
typedef struct { int n, seq /* 1: every sequence of length <= L, the same on every rank; 0: fixed programs j0..j0+nj-1 (rank r runs PF[(j+r)%5]) */,
                 mode /* F= */, xset /* 0 none, 1 reduced, 2 all */, nkv, L, j0, nj; } mpart_t;
static mpart_t MPART[16]; static int nmpart = 0;
static int multi_xopts(const mpart_t *m, const int **list)
{
    static int all[32];
    if (m->xset == 0) { *list = XS_NONE; return 1; }
    if (m->xset == 1) { *list = m->n == 2 ? XS_RED2 : XS_RED3; return m->n == 2 ? 3 : 4; }
    if (m->xset == 3) { *list = XS_17; return 1; }
    int c = 1 + 5 * m->n + (m->n == 3 ? 2 : 0); for (int i = 0; i < c; i++) all[i] = i; *list = all; return c;
}
static long multi_ncfg(const mpart_t *m) { const int *l; long c = (long)multi_xopts(m, &l) * m->nkv; for (int r = 1; r < m->n; r++) c *= 6; return c * (m->n == 2 ? 2 : 6); }
static long multi_nseq(int L) { long c = 0; for (int l = 0; l <= L; l++) c += seq_count(l); return c; }
static long multi_nprog(const mpart_t *m) { return m->seq ? multi_nseq(m->L) : m->nj; }
static int gen_multi(const unit_t *u, case_fn fn, void *arg)
{
    const mpart_t *m = &MPART[u->cfg]; int n = m->n; long ncfg = multi_ncfg(m);
    const int *xl; int nx = multi_xopts(m, &xl);
    char prog[1024], tok[8];
    for (long idx = u->lo; idx < u->hi; idx++) {
        long x = idx % ncfg, pi = idx / ncfg;
        int kv = (int)(x % m->nkv); x /= m->nkv;
        int oi = (int)(x % (n == 2 ? 2 : 6)); x /= (n == 2 ? 2 : 6);
        int e = xl[x % nx]; x /= nx;
        int perm[MAXRANK] = { 0, 0, 0 }; for (int r = 1; r < n; r++) { perm[r] = (int)(x % 6); x /= 6; }
        const int *ord = n == 2 ? ORD2[oi] : ORD3[oi];
        const char *before[MAXRANK] = { "", "", "" }, *after[MAXRANK] = { "", "", "" };
        if (e >= 1 && e <= 5 * n) { before[(e - 1) / 5] = XSHAPE[(e - 1) % 5][0]; after[(e - 1) / 5] = XSHAPE[(e - 1) % 5][1]; }
        else if (e == 5 * n + 1) { before[1] = "x"; after[2] = "x"; }
        else if (e == 5 * n + 2) { after[1] = "xy"; before[2] = "yx"; }
        size_t o = (size_t)snprintf(prog, sizeof(prog), "MULTI N=%d O=%d,%d", n, ord[0], ord[1]);
        if (n == 3) o += (size_t)snprintf(prog + o, sizeof(prog) - o, ",%d", ord[2]);
        o += (size_t)snprintf(prog + o, sizeof(prog) - o, " F=%d", m->mode);
        for (int r = 0; r < n; r++) {
            o += (size_t)snprintf(prog + o, sizeof(prog) - o, " | %s X=0,0 G=%d R=%d D=%s%s%s ;", KVCFG[kv][r], 5 + r, r, before[r], PERM3[perm[r]], after[r]);
            if (m->seq) {
                long y = pi; int len = 0; while (y >= seq_count(len)) { y -= seq_count(len); len++; }
                for (int i = 0; i < len; i++) { h_symtok((int)(y & 7), tok); y >>= 3; o += (size_t)snprintf(prog + o, sizeof(prog) - o, " %s", tok); }
            } else {
                o += (size_t)snprintf(prog + o, sizeof(prog) - o, " %s", m->j0 + pi >= NPF ? PF[m->j0 + pi] : PF[(m->j0 + pi + r) % NPF]);
                if (strchr(before[r], 'x') || strchr(after[r], 'x')) o += (size_t)snprintf(prog + o, sizeof(prog) - o, " X+0 A+0 X-0 X+1 B+1");
                if (strchr(before[r], 'y') || strchr(after[r], 'y')) o += (size_t)snprintf(prog + o, sizeof(prog) - o, " Y+1 B-1 Y-1 Y-0 A-0");
            }
        }
        int rr = fn(prog, arg); if (rr) return rr;
    }
    return 0;
}
static int gen_unit(const unit_t *u, case_fn fn, void *arg)
{
    if (!strcmp(u->leg, "multi")) return gen_multi(u, fn, arg);
    if (!strcmp(u->leg, "seq")) return gen_seq(u, fn, arg);
    if (!strcmp(u->leg, "runs")) return gen_runs(u, fn, arg);
    if (!strcmp(u->leg, "dict")) return gen_dict(u, fn, arg);
    if (!strcmp(u->leg, "windows")) return gen_windows(u, fn, arg);
    if (!strcmp(u->leg, "fresh")) { h_fresh = 1; return gen_fresh(u, fn, arg); }
    return gen_infos(u, fn, arg);
}

/* ------------------------------------------------------------------ master / workers ---- */
typedef struct {
    volatile long unit_done;           /* cases of the current unit completed */
    volatile long cases, events, nontrivial, violations, files;
    volatile double last_progress;
    char cur[1024];
    char vcase[3][1024]; char vmsg[3][SX_ERRLEN];
} slot_t;
#define NSLOT 64
#define OUTCOME_CAP (1 << 20)
typedef struct { slot_t slot[NSLOT]; volatile uint64_t outcomes[OUTCOME_CAP]; char sample[4][1024]; volatile int nsample; } shared_t;
static shared_t *SH;

static void outcome_add(sx_h128_t h)
{
    uint64_t v = h.a ^ (h.b * 0x9E3779B97F4A7C15ULL); if (!v) v = 1;
    size_t j = v & (OUTCOME_CAP - 1);
    for (int probe = 0; probe < OUTCOME_CAP; probe++, j = (j + 1) & (OUTCOME_CAP - 1)) {
        uint64_t cur = SH->outcomes[j];
        if (cur == v) return;
        if (cur == 0) { if (__sync_bool_compare_and_swap(&SH->outcomes[j], 0, v)) return; if (SH->outcomes[j] == v) return; }
    }
}
typedef struct { int slot; long skip; long seen; } wctx_t;
static int worker_case(const char *prog, void *arg)
{
    wctx_t *w = arg; slot_t *sl = &SH->slot[w->slot];
    if (w->seen++ < w->skip) return 0;
    h_heartbeat = &sl->last_progress; sl->last_progress = h_now();
    snprintf(sl->cur, sizeof(sl->cur), "%s", prog);
    char err[SX_ERRLEN]; sx_h128_t sig; int nt; long nev; char layout[512];
    int bad = h_case(prog, w->slot, err, &sig, &nt, &nev, layout, sizeof(layout));
    sl->cases++; sl->events += nev; if (nt) sl->nontrivial++;
    sl->files = fs_written ? fs_written : sl->cases;      /* trace files written by this worker (leg multi: several per case, or reused) */
    if (bad) { long v = sl->violations; if (v < 3) { snprintf(sl->vcase[v], sizeof(sl->vcase[v]), "%s", prog); snprintf(sl->vmsg[v], sizeof(sl->vmsg[v]), "%s", err); } sl->violations = v + 1; }
    else {
        outcome_add(sig);
        if (nt && SH->nsample < 4 && (sl->cases % 97) == 1) { int k = __sync_fetch_and_add(&SH->nsample, 1); if (k < 4) snprintf(SH->sample[k], sizeof(SH->sample[k]), "%.700s => %.300s", prog, layout); }
    }
    sl->unit_done = w->seen; sl->last_progress = h_now();
    if (bad) { h_fs_flush(); _exit(77); }     /* the writer may be half-initialised: continue in a fresh process */
    return 0;
}

static double h_hang_s = 150.0;  /* no heartbeat (every 256 events written / compared, and per case) for this long = hang; generous because
                                  * one mmap/munmap can take many ms when the machine is oversubscribed */
typedef struct { pid_t pid; int unit; long skip; } wrk_t;
static int spawn_worker(wrk_t *W, int s, unit_t *units)
{
    memset(&SH->slot[s], 0, sizeof(slot_t)); SH->slot[s].last_progress = h_now();
    fflush(stdout); fflush(stderr);
    pid_t pid = fork();
    if (pid < 0) { perror("fork"); return -1; }
    if (pid == 0) {
        wctx_t w = { s, W[s].skip, 0 };
        gen_unit(&units[W[s].unit], worker_case, &w);
        h_fs_flush();
        _exit(0);
    }
    W[s].pid = pid;
    return 0;
}
static int run_leg(const char *leg, unit_t *units, int nunits, int jobs, double deadline)
{
    double t0 = h_now();
    memset((void *)SH->outcomes, 0, sizeof(SH->outcomes)); SH->nsample = 0;
    wrk_t W[NSLOT]; int active = 0, next = 0, exhaustive = 1, stop = 0, nviol = 0;
    long cases = 0, events = 0, nontriv = 0, files = 0;
    for (int i = 0; i < NSLOT; i++) W[i].pid = 0;
    while (1) {
        for (int s = 0; s < jobs && !stop; s++) {
            if (W[s].pid || next >= nunits) continue;
            if (deadline > 0 && h_now() > deadline) { exhaustive = 0; stop = 1; break; }
            W[s].unit = next++; W[s].skip = 0;
            if (spawn_worker(W, s, units)) return 2;
            active++;
        }
        if (!active) break;
        int st; pid_t p = waitpid(-1, &st, WNOHANG);
        if (p <= 0) {
            struct timespec ts = { 0, 2000000 }; nanosleep(&ts, NULL);
            double now = h_now();
            for (int s = 0; s < jobs; s++) if (W[s].pid && now - SH->slot[s].last_progress > h_hang_s) kill(W[s].pid, SIGKILL);   /* hang */
            continue;
        }
        int s; for (s = 0; s < jobs; s++) if (W[s].pid == p) break;
        if (s == jobs) continue;
        W[s].pid = 0; active--;
        slot_t *sl = &SH->slot[s];
        cases += sl->cases; events += sl->events; nontriv += sl->nontrivial; files += sl->files;
        for (long v = 0; v < sl->violations && v < 3; v++) { if (nviol < 3) sx_violation(leg, sl->vcase[v], sl->vmsg[v]); nviol++; }
        int again = 0;
        if (WIFEXITED(st) && WEXITSTATUS(st) == 77) { W[s].skip += sl->unit_done; again = 1; }      /* stopped after a recorded violation */
        else if (!(WIFEXITED(st) && WEXITSTATUS(st) == 0)) {
            char msg[256];
            if (WIFSIGNALED(st)) snprintf(msg, sizeof(msg), "the process writing/reading this trace %s (signal %d%s): the trace is not read back", WTERMSIG(st) == SIGKILL ? "hung and was killed" : "died", WTERMSIG(st), WTERMSIG(st) == SIGABRT ? ", assertion failure in the writer or reader" : "");
            else snprintf(msg, sizeof(msg), "the process writing/reading this trace exited with status %d", WEXITSTATUS(st));
            if (nviol < 3) sx_violation(leg, sl->cur, msg);
            nviol++; cases++;
            W[s].skip += sl->unit_done + 1; again = 1;
        }
        if (nviol >= 3) stop = 1;
        if (again && !stop) { if (spawn_worker(W, s, units)) return 2; active++; }
        else if (again) exhaustive = 0;
    }
    long outcomes = 0; for (size_t i = 0; i < OUTCOME_CAP; i++) if (SH->outcomes[i]) outcomes++;
    if (nviol || next < nunits) exhaustive = 0;
    const char *sp[4] = { SH->sample[0], SH->sample[1], SH->sample[2], SH->sample[3] };
    char extra[128]; snprintf(extra, sizeof(extra), "\"units\":%d,\"units_done\":%d,\"trace_files_written\":%ld", nunits, next, files);
    sx_report(leg, outcomes, events, cases, nontriv, outcomes, exhaustive, nviol, h_now() - t0, extra, sp, SH->nsample > 4 ? 4 : SH->nsample);
    return nviol ? 1 : 0;
}

static int add_units(unit_t *U, int nu, const char *leg, int cfg, int n, long total, long chunk)
{
    for (long lo = 0; lo < total; lo += chunk) { U[nu].leg = leg; U[nu].cfg = cfg; U[nu].n = n; U[nu].lo = lo; U[nu].hi = lo + chunk < total ? lo + chunk : total; nu++; }
    return nu;
}

/* remove the scratch directory with whatever a killed worker left in it */
static void h_rmdir_all(void)
{
    DIR *d = opendir(h_dir);
    if (d) { struct dirent *de; char pth[600]; while ((de = readdir(d))) { if (de->d_name[0] == '.') continue; snprintf(pth, sizeof(pth), "%s/%s", h_dir, de->d_name); unlink(pth); } closedir(d); }
    rmdir(h_dir);
}

int main(int argc, char **argv)
{
    int jobs = 16, maxlen = 5, thorough = 0, freshlen = -1; const char *only = NULL; const char *one = NULL;
    sx_init(argc, argv, "C42");
    for (int i = 1; i < argc; i++) {
        if (!strcmp(argv[i], "--jobs") && i + 1 < argc) jobs = atoi(argv[++i]);
        else if (!strcmp(argv[i], "--maxlen") && i + 1 < argc) maxlen = atoi(argv[++i]);
        else if (!strcmp(argv[i], "--thorough")) thorough = 1;
        else if (!strcmp(argv[i], "--freshlen") && i + 1 < argc) freshlen = atoi(argv[++i]);
        else if (!strcmp(argv[i], "--leg") && i + 1 < argc) only = argv[++i];
        else if (!strcmp(argv[i], "--case") && i + 1 < argc) one = argv[++i];
    }
    if (jobs > NSLOT) jobs = NSLOT;
    if (jobs < 1) jobs = 1;
    double deadline = 0; for (int i = 1; i < argc; i++) if (!strcmp(argv[i], "--deadline") && i + 1 < argc) deadline = h_now() + atof(argv[i + 1]);
    snprintf(h_dir, sizeof(h_dir), "/dev/shm/c42-%d", (int)getpid()); mkdir(h_dir, 0700);
    for (int s = 0; s < NSTREAM; s++) M[s] = malloc(sizeof(mev_t) * MAXEV);
    parsec_mca_param_init();
    int rc = 0;

    if (sx_replay_file || one) {
        static char scen[128], hist[4096];
        if (one) snprintf(hist, sizeof(hist), "%s", one);
        else if (sx_read_replay(sx_replay_file, scen, sizeof(scen), hist, sizeof(hist))) { fprintf(stderr, "cannot read replay file\n"); return 2; }
        printf("replay: case [%s]\n", hist); fflush(stdout);
        for (int i = 1; i < argc; i++) if (!strcmp(argv[i], "--bench") && i + 1 < argc) {     /* development: time N in-process repetitions of the case */
            int N = atoi(argv[i + 1]); char err[SX_ERRLEN]; double t0 = h_now();
            for (int k = 0; k < N; k++) if (h_case(hist, 0, err, NULL, NULL, NULL, NULL, 0)) { printf("  %s\n", err); return 1; }
            printf("bench: %d repetitions, %.3f ms each (write %.3f, read together %.3f, read alone %.3f)\n", N, (h_now() - t0) * 1e3 / N, h_bench[0] * 1e3 / N, h_bench[1] * 1e3 / N, h_bench[2] * 1e3 / N);
            h_rmdir_all(); return 0;
        }
        pid_t pid = fork();
        if (pid == 0) {
            char err[SX_ERRLEN]; h_verbose = 1;
            int bad = h_case(hist, 0, err, NULL, NULL, NULL, NULL, 0);
            if (bad) printf("  %s\n", err); else printf("replay: trace read back exactly as written\n");
            fflush(stdout); _exit(bad ? 1 : 0);
        }
        int st; waitpid(pid, &st, 0);
        if (WIFSIGNALED(st)) { printf("  writer/reader process died with signal %d\n", WTERMSIG(st)); rc = 1; }
        else rc = WEXITSTATUS(st);
        if (rc) printf("VIOLATION property=C42 replay=%s\n", sx_replay_file ? sx_replay_file : "-");
        h_rmdir_all();
        return rc ? 1 : 0;
    }

    SH = mmap(NULL, sizeof(shared_t), PROT_READ | PROT_WRITE, MAP_SHARED | MAP_ANONYMOUS, -1, 0);
    if (SH == MAP_FAILED) { perror("mmap"); return 2; }
    /* configurations: (info lengths of A and B, mode = which API + which events carry a payload, buffer pages) */
    int nc = 0;
    static const int L3[3] = { 0, 4, 24 };
    if (!thorough) {
        snprintf(CFG[nc++], 96, "K=0,4 M=0 P=1 X=0,0 G=5 R=0");
        snprintf(CFG[nc++], 96, "K=4,24 M=1 P=1 X=0,0 G=5 R=1");
        snprintf(CFG[nc++], 96, "K=24,0 M=2 P=1 X=0,0 G=5 R=2");
    } else {
        for (int a2 = 0; a2 < 3; a2++) for (int b2 = 0; b2 < 3; b2++) { if (a2 == b2) continue; snprintf(CFG[nc], 96, "K=%d,%d M=%d P=1 X=0,0 G=5 R=%d", L3[a2], L3[b2], (a2 + 2 * b2) % 3, nc % 4); nc++; }
        snprintf(CFG[nc++], 96, "K=4,24 M=0 P=2 X=1,9 G=5 R=0");
    }
    ncfg_seq = nc;
    /* windows leg: the same + odd info lengths, with which events can fill a buffer to the byte (the space of a buffer is odd) */
    int cfg_win0 = 0, ncfg_win;
    snprintf(CFG[nc++], 96, "K=5,24 M=0 P=1 X=0,0 G=5 R=0");
    if (thorough) { snprintf(CFG[nc++], 96, "K=1,4 M=2 P=1 X=0,0 G=5 R=1"); snprintf(CFG[nc++], 96, "K=7,0 M=1 P=2 X=0,0 G=5 R=0"); }
    ncfg_win = nc;
    cfg_runs0 = nc;
    for (int a2 = 0; a2 < 3; a2++) for (int m = 0; m < 3; m++) { if (!thorough && m != a2) continue; snprintf(CFG[nc], 96, "K=%d,%d M=%d P=1 X=0,0 G=5 R=0", L3[a2], L3[(a2 + 1 + m) % 3], m); nc++; }
    if (thorough) for (int m = 0; m < 3; m++) { snprintf(CFG[nc], 96, "K=%d,%d M=%d P=2 X=0,0 G=5 R=3", L3[m], L3[(m + 1) % 3], m); nc++; }
    ncfg_runs = nc - cfg_runs0;
    infos_init(thorough);
    if (!thorough) { RUN_K = 2; NTAIL = 2; dict_step = 3; conv_step = 5; win_nseg = 4; win_phases = 1; }
    else { RUN_K = 4; NTAIL = 5; dict_step = 1; conv_step = 1; win_nseg = 128; win_phases = 1; }
    if (freshlen < 0) freshlen = thorough ? 3 : 2;
    /* leg multi (see gen_multi): n, sequences?, F, extra-key set, info-length variants, L | j0, nj */
    if (!thorough) {
        MPART[nmpart++] = (mpart_t){ 2, 0, 1, 0, 1, 0, 0, 1 };     /* 12 dictionary configurations x fixed program 0, forked fresh writers */
        MPART[nmpart++] = (mpart_t){ 2, 0, 2, 2, 2, 0, 5, 1 };     /* all 264 configurations x the de Bruijn stream B(8,2): every sequence of 2 events as a window */
        MPART[nmpart++] = (mpart_t){ 3, 0, 2, 3, 1, 0, 0, 1 };     /* 3 ranks: 36 x 6 configurations (ranks 1 and 2 both register x, y) x fixed program 0 */
        MPART[nmpart++] = (mpart_t){ 2, 1, 2, 0, 1, 1, 0, 0 };     /* 12 configurations x every sequence of length <= 1 from a fresh trace */
        MPART[nmpart++] = (mpart_t){ 2, 0, 2, 0, 2, 0, 1, 4 };     /* 24 configurations x 4 programs crossing buffer boundaries */
    } else {
        MPART[nmpart++] = (mpart_t){ 3, 0, 1, 3, 1, 0, 0, 1 };     /* 3 ranks, forked fresh writers: 216 configurations x fixed program 0 */
        MPART[nmpart++] = (mpart_t){ 2, 0, 1, 2, 2, 0, 0, 1 };     /* 2 ranks, forked fresh writers: all 132 x 2 configurations x fixed program 0 */
        MPART[nmpart++] = (mpart_t){ 3, 1, 2, 3, 1, 1, 0, 0 };     /* 3 ranks: 216 configurations x every sequence of length <= 1 */
        MPART[nmpart++] = (mpart_t){ 2, 0, 2, 2, 4, 0, 5, 2 };     /* all 132 x 4 configurations x de Bruijn streams B(8,2), B(8,3) */
        MPART[nmpart++] = (mpart_t){ 2, 0, 2, 2, 2, 0, 1, 4 };     /* all 132 x 2 configurations x 4 programs crossing buffer boundaries */
        MPART[nmpart++] = (mpart_t){ 3, 0, 2, 2, 1, 0, 0, 1 };     /* 3 ranks: all 36 x 18 x 6 configurations x fixed program 0 */
        MPART[nmpart++] = (mpart_t){ 2, 1, 2, 0, 1, 3, 0, 0 };     /* 12 configurations without extra keys x every sequence of length <= 3 */
        MPART[nmpart++] = (mpart_t){ 2, 1, 2, 2, 1, 2, 0, 0 };     /* all 132 x 1 configurations x every sequence of length <= 2 */
    }
    static unit_t U[1 << 16]; int nu;
    if ((!only || !strcmp(only, "fresh"))) { nu = 0; for (int c = 0; c < (thorough ? ncfg_seq : 3); c++) nu = add_units(U, nu, "fresh", c, 0, fresh_count(), 1); rc |= run_leg("fresh", U, nu, jobs, deadline); }
    if (!rc && (!only || !strcmp(only, "multi"))) {
        /* parts with forked writers are units of their own: their workers never write in-process, so every forked writer is a fresh process */
        nu = 0;
        int onlypart = -1; for (int i = 1; i < argc; i++) if (!strcmp(argv[i], "--mpart") && i + 1 < argc) onlypart = atoi(argv[i + 1]);      /* development */
        for (int i = 0; i < nmpart; i++) { const mpart_t *m = &MPART[i]; if (onlypart >= 0 && i != onlypart) continue; long nc = multi_ncfg(m), per = m->mode == 1 ? 6 : nc > 300 ? (nc + (nc + 299) / 300 - 1) / ((nc + 299) / 300) : nc;
            long total = nc * multi_nprog(m), par = total / 48 < 16 ? 16 : total / 48;      /* enough units to keep all workers busy */
            nu = add_units(U, nu, "multi", i, 0, total, per < par ? per : par); }
        /* the leg may use at most 40 % (thorough: 30 %) of the time budget: a cut leaves exhaustive:false for this leg and time for the others */
        double mdl = deadline > 0 ? h_now() + (thorough ? 0.30 : 0.40) * (deadline - h_now()) : 0;
        rc |= run_leg("multi", U, nu, jobs, mdl);
    }
    if (!rc && (!only || !strcmp(only, "dict"))) { nu = add_units(U, 0, "dict", 0, 0, dict_count(), 10); rc |= run_leg("dict", U, nu, jobs, deadline); }
    if (!rc && (!only || !strcmp(only, "infos"))) { nu = add_units(U, 0, "infos", 0, 0, infos_n, 10); rc |= run_leg("infos", U, nu, jobs, deadline); }
    if (!rc && (!only || !strcmp(only, "runs"))) {
        nu = 0; for (int c = 0; c < ncfg_runs; c++) nu = add_units(U, nu, "runs", cfg_runs0 + c, 0, runs_count(), 40);
        rc |= run_leg("runs", U, nu, jobs, deadline);
    }
    if (!rc && (!only || !strcmp(only, "windows"))) {
        nu = 0; for (int c = cfg_win0; c < ncfg_win; c++) nu = add_units(U, nu, "windows", c, maxlen, (long)win_nseg * win_phases, thorough ? 4 : 1);
        rc |= run_leg("windows", U, nu, jobs, deadline);
    }
    if (!rc && (!only || !strcmp(only, "seq"))) {
        nu = 0;
        /* (legs are ordered cheap-first so that a deadline cut only shortens the big windows / seq legs) long lengths first so that the tail of the schedule is made of small units */
        for (int n = freshlen; n >= 0; n--) for (int c = 0; c < ncfg_seq; c++) { if (!thorough && c == 2 && n > 1) continue;   /* quick: the third configuration only up to length 1 */
            long chunk = 160 / (1 + 3 * n); nu = add_units(U, nu, "seq", c, n, seq_count(n), chunk < 1 ? 1 : chunk); }
        rc |= run_leg("seq", U, nu, jobs, deadline);
    }
    h_rmdir_all();
    return sx_finish();
}
