META = dict(
    engine='cosched+seqx',
    technique='stateless model checking: preemption-bounded exhaustive schedule enumeration (CHESS) of concurrent schedule/select on the 11 real scheduler modules over borrowed execution streams of a parsec_init context; plus bounded-exhaustive schedule/select sequences with buffer overflow',
    level_text='For each of the 11 scheduler modules (selected through mca_sched, installed by parsec_init, flow_init run for every stream): (E1) every interleaving with <= b preemptions (quick: b=1 on the three core scripts per module plus module-specific ones, b=2 for the llp writer scripts, lfq push/push and ll ring-vs-steal, 3-thread script for lfq and llp; thorough: all scripts, 2 streams b=2 for all and b=3 for ll/llp, 3 streams b=1 for all and b=2 for ll/llp/gd) of eight 2-3 thread scripts (ring vs steal, foreign push onto stream 0, two writers, minimal push/push, buffer overflow vs steal, re-schedule with distance, communication-thread push, three active streams); (E1g) GENERATED script families on 2 streams for every module: all scripts pre-fill {empty, 2 tasks of priority 100/101 on stream 0, capacity-1 of the local buffer (bounded-buffer modules)} x T0: 1..a ops || T1: 1..b ops (|| communication thread: 1 op) over the alphabet {select(own stream), schedule(own stream or stream 0, distance 0|1, ring from a menu of 2-3 rings of 1..3 tasks with priorities below/above the pre-fill, sorted and unsorted), re-schedule(latest selected task, distance 1)}, minus contract violations, up to the T1/communication-thread symmetry, simplest first, each family under a wall budget (evidence: scripts generated / after contract / explored / completed per module) - quick: (1,1) b=1 all modules, (1,1) b=2 on llp/ll/lfq/pbq, (2,1) b=1; thorough: (1,1) b=1 and b=2, (2,1) and (1,2) b=1, (2,2) b=2 (lock-free modules) and (1,1,1) b=1; same oracle; (E2) every sequence of schedule(ring shape, distance)/select operations up to depth 3-4 (quick) / 4-5 (thorough) on 2 streams and depth 3 (quick) / 4 (thorough) on 3 streams (alphabet sizes in the leg names: shapes x distances), ring shapes including rings larger than all bounded buffers; the same through the real __parsec_schedule_vp (next_task retention, dispatch to stream 0, NULL submitter) with selection as in __parsec_get_next_task. Oracle: every select returns NULL or a pending task, never a task twice, and a drain of all streams returns every task handed to schedule.',
    level_note='Sequential consistency at instrumented accesses to the watched scheduler objects and task links; 2-3 threads, <= 4 operations per thread; generated families are cut by a wall budget on a loaded machine (exhaustive:false for the leg of that module, scripts_explored < scripts_after_symmetry); select only by the owning thread and foreign schedule only onto stream 0 (the usage contract of scheduling.c); synthetic 2-package hwloc topology; weak-memory effects out of reach.',
)
RULE = ("cosched legs (hand-written scripts, and every script of the generated families 'family/g<shape>_b<bound>_<module>': see the leg's alphabet, scripts_generated / _after_contract / _after_relevance / _after_symmetry / _explored / _completed): every schedule of the 2-3 thread script with at most b preemptions, scheduling points = instrumented accesses of libparsec to the "
        "module's shared queues (lists, dequeues, lifo heads, bounded-buffer slots, ltq heaps) and to the tasks' links; non-trivial = schedule with >= 1 preemption; "
        "states = nodes of the schedule tree. seqx legs: every operation sequence of length 1..D from a pristine scheduler followed by a full drain; "
        "non-trivial = a bounded buffer overflowed into the system dequeue or a task was returned on another stream than it was scheduled on; states = sequences executed")
MODS = ['ap', 'gd', 'ip', 'lfq', 'lhq', 'll', 'llp', 'ltq', 'pbq', 'rnd', 'spq']


# ---- generated (bounded-exhaustive) script families: c08gen.py enumerates, conc_h.c parses the script text; see NOTES.md ----
# label, shape (ops per thread; 3rd thread = communication thread), threads with exactly that many ops, ring menu per thread,
# modules that get the capacity-1 pre-fill, preemption bound, modules (None = all 11), wall budget in s, scripts per engine invocation
LOCKFREE = ['llp', 'll', 'lfq', 'pbq', 'ltq', 'lhq']
FAMILIES = {
    'quick': [
        dict(label='g11_b1', shape=(1, 1), exact=(), rings=('mini', 'core'), cmods=('lfq', 'pbq', 'ltq'), bound=1, allow=0.6, mods=None, budget=25, batch=12),
        dict(label='g11_b2', shape=(1, 1), exact=(), rings=('mini', 'mini'), cmods=(), bound=2, allow=3, mods=['llp', 'll', 'lfq', 'pbq'], budget=8, batch=2),
        dict(label='g21_b1', shape=(2, 1), exact=(0,), rings=('mini', 'mini'), cmods=(), bound=1, allow=0.6, mods=None, budget=7, batch=6),
    ],
    'thorough': [
        dict(label='g11_b1', shape=(1, 1), exact=(), rings=('core', 'core'), cmods=('lfq', 'pbq', 'ltq', 'lhq'), bound=1, allow=0.6, mods=None, budget=60, batch=16),
        dict(label='g11_b2', shape=(1, 1), exact=(), rings=('core', 'core'), cmods=('lfq', 'pbq', 'ltq'), bound=2, allow=3, mods=None, budget=90, batch=4),
        dict(label='g21_b1', shape=(2, 1), exact=(0,), rings=('mini', 'core'), cmods=('lfq', 'pbq', 'ltq'), bound=1, allow=0.6, mods=None, budget=35, batch=16),
        dict(label='g12_b1', shape=(1, 2), exact=(1,), rings=('mini', 'core'), cmods=('lfq', 'pbq', 'ltq'), bound=1, allow=0.6, mods=None, budget=35, batch=16),
        dict(label='g22_b2', shape=(2, 2), exact=(0, 1), rings=('mini', 'mini'), cmods=(), bound=2, allow=8, mods=LOCKFREE, budget=50, batch=2),
        dict(label='g111_b1', shape=(1, 1, 1), exact=(), rings=('mini', 'mini', 'core'), cmods=(), bound=1, allow=3, mods=None, budget=70, batch=8),
    ],
}


def gen_family(ctx, conc, f, procs, jobs):
    """Explore one generated family on every module: parallel engine invocations over batches of scripts (round-robin over the
    modules, simplest scripts first) until everything is done or the wall budget is used up; one aggregated evidence leg per module."""
    import os, sys, json, time, statistics, vlib
    from concurrent.futures import ThreadPoolExecutor
    sys.path.insert(0, os.path.dirname(os.path.abspath(__file__)))
    import c08gen
    mods = f['mods'] or MODS
    fam = {}
    for m in mods:
        pre = ['E', 'H'] + (['C'] if m in f['cmods'] else [])
        counts, names, alphabet = c08gen.family2(m, f['shape'], f['rings'], pre, f['exact'])
        fam[m] = dict(counts=counts, names=names, alphabet=alphabet, prefills=pre)
    # Per module: its scripts in order, cut into batches.  Dispatch = fair TIME share: a free worker takes the next batch of the module
    # that has used the least wall time so far (divided by its weight), so cheap modules (ll: ~10 schedules per script) get through
    # more scripts than expensive ones (rnd: ~90) instead of everybody advancing at the pace of the slowest.  The six modules with
    # lock-free queues (lifo / bounded-buffer code: where a scheduling mistake is a lost or duplicated task rather than a blocked thread)
    # have weight 2, the lock-based ones 1.  On an idle machine every module completes and the order does not matter.
    import threading
    queue = {m: [(i // f['batch'], fam[m]['names'][i:i + f['batch']]) for i in range(0, len(fam[m]['names']), f['batch'])] for m in mods}
    used = {m: 0.0 for m in mods}; done = {m: [] for m in mods}; weight = {m: (2.0 if m in LOCKFREE else 1.0) for m in mods}
    lock = threading.Lock()
    t0 = time.time(); t_end = t0 + f['budget']
    mine = 'fam:%s:' % f['label']
    nviol0 = len(ctx.violations)
    os.makedirs(os.path.join(vlib.OUT, 'gen'), exist_ok=True)
    def worker(_):
        while True:
            with lock:
                left = t_end - time.time()
                cand = [m for m in mods if queue[m]]
                if not cand or left < 1.0 or len(ctx.violations) >= nviol0 + 3:
                    return      # done, or budget used up (or violations already reported): the rest is not explored -> exhaustive:false
                m = min(cand, key=lambda x: (used[x] / weight[x], mods.index(x)))
                i, part = queue[m].pop(0)
                est = (sum(done[m]) / len(done[m])) if done[m] else 1.0     # booked at once (corrected when the batch returns) so that the workers spread over the modules
                used[m] += est
            gf = os.path.join(vlib.OUT, 'gen', 'C08-%s-%s-%d-%d.txt' % (f['label'], m, i, os.getpid()))
            open(gf, 'w').write('\n'.join(part) + '\n')
            dl = max(2, int(left), int(f['allow'] * len(part) + 0.999))      # a started batch may always use `allow` seconds per script
            tb = time.time()
            ctx.run_engine(conc, ['--sched', m, '--streams', '2', '--gen-file', gf, '--bound', str(f['bound']), '--scenario', 'all', '--jobs', str(jobs),
                                  '--deadline', str(dl), '--outdir', vlib.OUT], label='%s%s:%d' % (mine, m, i), timeout=dl + 300)
            with lock:
                used[m] += (time.time() - tb) - est; done[m].append(time.time() - tb)
            try: os.unlink(gf)
            except OSError: pass
    with ThreadPoolExecutor(max_workers=procs) as ex:
        list(ex.map(worker, range(procs)))
    raw = [l for l in ctx.legs if str(l.get('leg', '')).startswith(mine)]
    ctx.legs[:] = [l for l in ctx.legs if not str(l.get('leg', '')).startswith(mine)]
    tot = dict(scripts=0, explored=0, completed=0, executions=0, single=0)
    for m in mods:
        legs = [l for l in raw if l['leg'].split(':')[2] == m]
        pos = {nm: i for i, nm in enumerate(fam[m]['names'])}
        legs.sort(key=lambda l: pos.get(l['name'], 0))
        complete = [l for l in legs if l.get('exhaustive')]
        outs = [int(l.get('distinct_outcomes', 0)) for l in (complete or legs)]
        samples = []
        for l in sorted(legs, key=lambda l: -int(l.get('distinct_outcomes', 0)))[:2]:
            for sm in l.get('samples', [])[:1]:
                samples.append(dict(sm, script=l['name']))
        c = fam[m]['counts']
        nviol = sum(int(l.get('violations', 0)) for l in legs)
        ctx.add_leg(name='%s_%s' % (f['label'], m), leg='family', engine='cosched', module=m, shape=list(f['shape']), exact_threads=list(f['exact']),
                    prefills=fam[m]['prefills'], bound=f['bound'], alphabet_before_contract=fam[m]['alphabet'],
                    scripts_generated=c['generated'], scripts_after_contract=c['after_contract'], scripts_after_relevance=c['after_relevance'],
                    scripts_after_symmetry=c['after_symmetry'], scripts_explored=len(legs), scripts_completed=len(complete),
                    states=sum(int(l.get('states', 0)) for l in legs), transitions=sum(int(l.get('transitions', 0)) for l in legs),
                    executions=sum(int(l.get('executions', 0)) for l in legs), nontrivial=sum(int(l.get('nontrivial', 0)) for l in legs),
                    distinct_outcomes=sum(outs), outcomes_per_script=dict(min=min(outs), median=statistics.median(outs), max=max(outs)) if outs else {},
                    single_outcome_scripts=sum(1 for o in outs if o <= 1), max_points=max([int(l.get('max_points', 0)) for l in legs] or [0]),
                    exhaustive=(len(complete) == c['after_symmetry']), violations=nviol, last_script_explored=legs[-1]['name'] if legs else None, samples=samples)
        tot['scripts'] += c['after_symmetry']; tot['explored'] += len(legs); tot['completed'] += len(complete)
        tot['executions'] += sum(int(l.get('executions', 0)) for l in legs); tot['single'] += sum(1 for o in outs if o <= 1)
        # vacuity guard: a family whose scripts all have one outcome collides with nothing
        if len(complete) >= 8 and max(outs) <= 1 and not nviol and len(complete) < c['after_symmetry']:
            ctx.notes.append('family %s on %s: the %d scripts explored before the budget cut all have a single outcome (vacuity is only judged on a completely explored family)' % (f['label'], m, len(complete)))
        elif len(complete) >= 8 and max(outs) <= 1 and not nviol:
            ctx.broken.append('family %s on %s: every one of the %d explored scripts has a single outcome: the alphabet collides with nothing' % (f['label'], m, len(complete)))
    sys.stderr.write('C08 family %s (bound %d, %d modules): %d scripts, explored %d (complete %d), %d schedules, %d single-outcome scripts, %.1fs\n'
                     % (f['label'], f['bound'], len(mods), tot['scripts'], tot['explored'], tot['completed'], tot['executions'], tot['single'], time.time() - t0))
    # the replay file of a generated script is self-contained (scenario = script text); add the expansion for the reader
    for rp, lab in ctx.violations[nviol0:]:
        try:
            o = json.load(open(rp))
            if '_g_' in o.get('scenario', ''):
                o['script'] = c08gen.describe(o['scenario']); o['script_text'] = o['scenario']
                json.dump(o, open(rp, 'w'), separators=(',', ':'))      # compact: cosched's replay reader looks for "scenario":" and "choices":[
        except (OSError, ValueError):
            pass


def families(ctx, conc):
    import os, vlib
    # the scripts are small (10-100 schedules at bound 1): one worker per invocation, one invocation per core; measured under load:
    # 2 workers per invocation are slower than 1 for these sizes (two forks per script).  Bound 2: half the invocations, 2 workers each
    import time
    fams = FAMILIES[ctx.tier]
    sel = os.environ.get('C08_FAMILIES')                   # development: comma-separated labels
    scale = float(os.environ.get('C08_BUDGET_SCALE', '1'))  # development: multiply the wall budgets
    if ctx.tier == 'thorough' and 'C08_BUDGET_SCALE' not in os.environ:
        # the hand-written legs have a budget of 840 s but need ~400 s when the machine is not overloaded: the families get what is left
        # of the tier's ~20 minutes (never less than their nominal budgets, at most 3 times as much)
        scale = max(1.0, min(3.0, (1080 - (time.time() - ctx.t0)) / sum(f['budget'] for f in fams)))
    for f in fams:
        if sel and f['label'] not in sel.split(','):
            continue
        procs, jobs = (max(1, min(16, vlib.NJOBS)), 1) if f['bound'] <= 1 else (max(1, min(8, vlib.NJOBS // 2)), 2)
        gen_family(ctx, conc, dict(f, budget=f['budget'] * scale), procs, jobs)


def build(ctx):
    from concurrent.futures import ThreadPoolExecutor
    ctx.build('hk-shm')
    with ThreadPoolExecutor(max_workers=2) as ex:
        a = ex.submit(ctx.compile, 'hk-shm', 'seq', ['seq_h.c'], instr=False, ldflags=['-ldl'])
        b = ex.submit(ctx.compile, 'hk-shm', 'conc', ['conc_h.c'], engine='cosched', instr=False, ldflags=['-ldl'])
        return a.result(), b.result()

def check(ctx):
    import os, time, vlib
    from concurrent.futures import ThreadPoolExecutor
    os.environ['PARSEC_MCA_bind_threads'] = '0'
    seq, conc = build(ctx)
    built = time.time() - ctx.t0
    quick = ctx.tier == 'quick'
    which = os.environ.get('C08_ONLY', '')       # development switch: 'gen' = generated families only, 'hand' = hand-written scripts / sequences only
    jobs = []     # (label, exe, args, deadline)
    for m in (MODS if which in ('', 'hand') else []):
        if quick:
            jobs.append(('seq_%s_k2' % m, seq, ['--sched', m, '--streams', '2', '--config', '3:4:2', '--config', '4:3:1', '--config', '3:3:2:1'], 60))
            jobs.append(('seq_%s_k3' % m, seq, ['--sched', m, '--streams', '3', '--config', '3:3:1', '--config', '2:3:2:1'], 60))
        else:
            jobs.append(('seq_%s_k2' % m, seq, ['--sched', m, '--streams', '2', '--config', '3:4:2:1', '--config', '5:3:1', '--config', '4:4:3'], 500))
            jobs.append(('seq_%s_k3' % m, seq, ['--sched', m, '--streams', '3', '--config', '3:3:2:1', '--config', '4:3:2'], 500))
    for m in (MODS if which in ('', 'hand') else []):
        if quick:
            # quick: bound 1, three core scripts per module (+ the module-specific ones), bound 2 where the lock-free merge / lifo code is
            only = ['sched_vs_steal', 'two_writers', 'resched', 'detach_vs_ring2'] + {'llp': ['foreign_push', 'push_push', 'detach_vs_ring3'], 'lfq': ['overflow', 'push_push'], 'pbq': ['overflow'], 'lhq': ['foreign_push']}.get(m, [])
            full = {'llp': ['push_push', 'two_writers', 'foreign_push', 'detach_vs_ring2'], 'll': ['sched_vs_steal'], 'lfq': ['push_push']}.get(m)
            a = ['--sched', m, '--streams', '2', '--bound', '2' if full else '1', '--scenario', 'all', '--jobs', '2' if full else '1', '--deadline', '70']
            for o in only: a += ['--only', o]
            for f in (full or []): a += ['--full', f]
            jobs.append(('conc_%s_k2' % m, conc, a, 70))
            if m in ('lfq', 'llp'):
                jobs.append(('conc_%s_k3' % m, conc, ['--sched', m, '--streams', '3', '--bound', '1', '--scenario', '%s_k3_three_comm' % m, '--jobs', '2', '--deadline', '70'], 70))
        else:
            for k in (2, 3):
                b = (3 if m in ('ll', 'llp') else 2) if k == 2 else (2 if m in ('ll', 'llp', 'gd') else 1)
                jobs.append(('conc_%s_k%d_b%d' % (m, k, b), conc, ['--sched', m, '--streams', str(k), '--bound', str(b), '--scenario', 'all', '--jobs', '3', '--deadline', '600'], 600))
    # global wall budget: jobs started late get what is left (exhaustive:false if cut); the legs always get >= 45 s
    ctx.set_budget(max(85, built + 45) if quick else 840)
    def one(j):
        label, exe, args, dl = j
        if not (quick and label in ('conc_llp_k2', 'conc_lfq_k2', 'conc_ll_k2')):      # the bound-2 legs of the quick tier always get their full deadline
            dl = int(max(15, min(dl, ctx.remaining())))
        if exe == conc:
            args = args[:args.index('--deadline') + 1] + [str(dl)] + args[args.index('--deadline') + 2:]
        extra = ['--deadline', str(dl)] if exe == seq else []
        return ctx.run_engine(exe, args + extra + ['--outdir', vlib.OUT], label=label, timeout=dl + 400)
    # the slow ones first
    slow = ('llp', 'lfq', 'll', 'lhq', 'ltq', 'pbq')
    # quick: the cheap sequence legs first (seconds), then the concurrent legs, slow modules first; thorough: concurrent legs first
    jobs.sort(key=lambda j: ((1 if j[0].startswith('conc') else 0) if quick else (0 if j[0].startswith('seq_lhq') else 1 if j[0].startswith('conc') else 2), 0 if j[0].split('_')[1] in slow else 1))
    with ThreadPoolExecutor(max_workers=max(2, vlib.NJOBS // 2) + (0 if quick else 2)) as ex:
        list(ex.map(one, jobs))
    if which in ('', 'gen'):
        families(ctx, conc)
    ctx.legs.sort(key=lambda l: (l.get('leg', ''), l.get('name', '')))
    return ctx.finish(RULE, ["sequential consistency at instrumented accesses (no weak-memory effects)",
                             "usage contract of scheduling.c: select(es_i) only from the thread owning stream i; schedule from a foreign thread only onto stream 0",
                             "HWLOC_SYNTHETIC topology 'pack:2 core:2 pu:1' (pins the neighbour order of lfq/pbq/ltq and the lhq hierarchy)",
                             "rnd: libc rand() re-seeded before every execution"])

def replay(ctx, path, obj):
    import subprocess, re, os
    os.environ['PARSEC_MCA_bind_threads'] = '0'
    seq, conc = build(ctx)
    sc = obj['scenario']
    m = re.match(r'seq_(\w+?)_k(\d+)_sh(\d+)_nd(\d+)_depth(\d+)(_vp)?$', sc)
    if m:
        return subprocess.call([seq, '--sched', m.group(1), '--streams', m.group(2), '--nshapes', m.group(3), '--ndist', m.group(4), '--depth', m.group(5), '--replay', path] + (['--vp'] if m.group(6) else []))
    m = re.match(r'([a-z]+)_k(\d+)_', sc)
    return subprocess.call([conc, '--sched', m.group(1), '--streams', m.group(2), '--replay', path])
