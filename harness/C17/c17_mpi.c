/* C17 / C03 multi-rank leg (E5): the DTD driver under mpiexec -n {2,3}.
 * Every rank inserts the same program (SPMD, as DTD requires); task t runs on rank rk[t] (VALUE|AFFINITY parameter),
 * tile i is owned by rank own[i]. Enumerated: programs x all owner assignments x all task placements
 * x {flush_all | flush of each single tile first}. After the wait(s) the logs of the bodies (kept on the executing
 * rank) and the owner copies are combined with MPI_Allreduce and compared with the sequential reference:
 *   oracle 4 (C17): owner copy of every flushed tile == value of the last inserted writer
 *   oracle 1 (C03): every body observed what sequential execution in insertion order gives
 * One MPI launch runs many cases (MPI_Init + parsec_init ~0.5 s). Rank 0 reports. */
#include <mpi.h>
#include "dtd_driver.h"
#include "dtd_harness.h"
#ifndef DTD_PROPERTY
#define DTD_PROPERTY "C17"
#endif

static int NR, ME, ORACLE = 5;
static const char *NAME = "mpi";
static int progress_fd = -1;

static void case_kv(const dd_prog_t *p, const dd_cfg_t *cfg)
{
    char ps[300]; dd_prog_print(p, ps, sizeof(ps));
    dh_case(NAME, "\"harness\":\"mpi\",\"leg\":\"mpi\",\"nranks\":\"%d\",\"program\":\"%s\",\"window\":\"%d\",\"threshold\":\"%d\",\"api\":\"%d\",\"flush_mask\":\"%d\",\"tiles\":\"%d\",\"norecycle\":\"%d\",\"oracle\":\"%d\"",
            NR, ps, cfg->window, cfg->threshold, cfg->api, cfg->flush_mask, p->ntiles, dd_norecycle, ORACLE);
    if (ME == 0 && progress_fd >= 0) {
        char b[2600]; int n = snprintf(b, sizeof(b), "{\"property\":\"%s\",\"scenario\":\"%s\",\n \"message\":\"case in progress when the launch was killed (hang)\",\n %s}\n%*s", DTD_PROPERTY, NAME, (const char *)dh_slot->kv, 64, "");
        if (pwrite(progress_fd, b, (size_t)n, 0) < 0) {}
    }
}
/* run one case on all ranks; returns 1 on violation (message in msg on every rank) */
static int run_case(dd_env_t *env, const dd_prog_t *p, const dd_cfg_t *cfg, char *msg, size_t cap, dh_stats_t *st, dh_set_t *seen)
{
    dd_res_t res; dd_ref_t ref;
    case_kv(p, cfg);
    dd_run(env, p, cfg, &res);
    dd_reference(p, &ref);
    /* combine: every field is non-zero on exactly one rank (executing rank / owner) */
    int64_t loc[DD_MAXT * (DD_MAXP + 3) + 2 * DD_MAXTILES], glo[DD_MAXT * (DD_MAXP + 3) + 2 * DD_MAXTILES]; int n = 0;
    for (int t = 0; t < p->nt; t++) { loc[n++] = dd_log[t].count; loc[n++] = dd_log[t].conflict; loc[n++] = dd_log[t].count ? dd_log[t].rank + 1 : 0; for (int k = 0; k < DD_MAXP; k++) loc[n++] = dd_log[t].count ? dd_log[t].seen[k] : 0; }
    for (int i = 0; i < p->ntiles; i++) { int mine = ((int)env->dc->owner[i] == ME); loc[n++] = mine ? res.final[i] : 0; loc[n++] = (mine && res.partial_done) ? res.after_partial[i] : 0; }
    MPI_Allreduce(loc, glo, n, MPI_INT64_T, MPI_SUM, MPI_COMM_WORLD);
    dd_tlog_t lg[DD_MAXT]; memset(lg, 0, sizeof(lg)); int64_t fin[DD_MAXTILES] = {0}, part[DD_MAXTILES] = {0}; n = 0;
    for (int t = 0; t < p->nt; t++) { lg[t].count = (int32_t)glo[n++]; lg[t].conflict = (int32_t)glo[n++]; lg[t].rank = (int32_t)glo[n++] - 1; for (int k = 0; k < DD_MAXP; k++) lg[t].seen[k] = glo[n++]; }
    for (int i = 0; i < p->ntiles; i++) { fin[i] = glo[n++]; part[i] = glo[n++]; }
    st->executions++; st->transitions += p->nt;
    { char ps[300]; int l = dd_prog_print(p, ps, sizeof(ps)); if (dh_set_add(seen, dh_hash(glo, sizeof(int64_t) * (size_t)n, dh_hash(ps, (size_t)l, (uint64_t)cfg->flush_mask + 11)))) st->outcomes++; }
    { int remote = 0; for (int t = 0; t < p->nt; t++) for (int k = 0; k < p->t[t].np; k++) if (p->owner[p->t[t].tile[k]] != p->t[t].rank) remote = 1; if (remote) st->nontrivial++; }
    for (int t = 0; t < p->nt; t++) {
        if (lg[t].count != 1) { snprintf(msg, cap, "task %d executed %d times over all ranks (expected once, on rank %d)", t, lg[t].count, p->t[t].rank); return 1; }
        if (lg[t].rank != p->t[t].rank) { snprintf(msg, cap, "task %d ran on rank %d, its affinity says rank %d", t, lg[t].rank, p->t[t].rank); return 1; }
    }
    if (ORACLE & 4) {
        for (int i = 0; i < p->ntiles; i++) if (res.partial_done && cfg->flush_mask >= 0 && (cfg->flush_mask & (1 << i)) && part[i] != ref.final[i]) {
            snprintf(msg, cap, "after parsec_dtd_data_flush(tile %c) + wait the copy on its owner (rank %d) holds %ld, the last inserted writer (task %d on rank %d) produced %ld", 'a' + i, p->owner[i], (long)part[i], ref.last_writer[i], ref.last_writer[i] >= 0 ? p->t[ref.last_writer[i]].rank : -1, (long)ref.final[i]); return 1; }
        for (int i = 0; i < p->ntiles; i++) if (fin[i] != ref.final[i]) {
            snprintf(msg, cap, "after parsec_dtd_data_flush_all + wait the copy of tile %c on its owner (rank %d) holds %ld, the last inserted writer (task %d on rank %d) produced %ld", 'a' + i, p->owner[i], (long)fin[i], ref.last_writer[i], ref.last_writer[i] >= 0 ? p->t[ref.last_writer[i]].rank : -1, (long)ref.final[i]); return 1; }
    }
    if (ORACLE & 1) {
        for (int t = 0; t < p->nt; t++) for (int k = 0; k < p->t[t].np; k++) if (p->t[t].mode[k] != DD_W && lg[t].seen[k] != ref.seen[t][k]) {
            snprintf(msg, cap, "task %d (rank %d) parameter %d (%s%c, owner rank %d) observed %ld, sequential execution in insertion order gives %ld", t, p->t[t].rank, k, dd_mode_name[p->t[t].mode[k]], 'a' + p->t[t].tile[k], p->owner[p->t[t].tile[k]], (long)lg[t].seen[k], (long)ref.seen[t][k]); return 1; }
    }
    return 0;
}

int main(int argc, char **argv)
{
    int prov; MPI_Init_thread(&argc, &argv, MPI_THREAD_SERIALIZED, &prov);
    MPI_Comm_size(MPI_COMM_WORLD, &NR); MPI_Comm_rank(MPI_COMM_WORLD, &ME);
    dh_init(argc, argv, DTD_PROPERTY);
    NAME = dh_arg(argc, argv, "--name", "mpi"); ORACLE = atoi(dh_arg(argc, argv, "--oracle", "5"));
    const char *nts = dh_arg(argc, argv, "--nt", "1:2"); int nt_lo = atoi(nts), nt_hi = strchr(nts, ':') ? atoi(strchr(nts, ':') + 1) : nt_lo;
    int ntiles = atoi(dh_arg(argc, argv, "--tiles", "2")), maxp = atoi(dh_arg(argc, argv, "--maxp", "2")), stride = atoi(dh_arg(argc, argv, "--stride", "1"));
    int part = atoi(dh_arg(argc, argv, "--part", "0")), parts = atoi(dh_arg(argc, argv, "--parts", "1")), flushsub = atoi(dh_arg(argc, argv, "--flush", "1"));
    int dup = atoi(dh_arg(argc, argv, "--dup", "0")), threads = atoi(dh_arg(argc, argv, "--threads", "1"));
    dd_norecycle = atoi(dh_arg(argc, argv, "--norecycle", "1"));
    const char *progress = dh_arg(argc, argv, "--progress", "");
    setenv("PARSEC_MCA_bind_threads", "0", 1); setenv("PARSEC_MCA_dtd_task_hash_size", "64", 0); setenv("PARSEC_MCA_dtd_tile_hash_size", "64", 0);
    if (ME == 0 && progress[0]) progress_fd = open(progress, O_WRONLY | O_CREAT | O_TRUNC, 0644);
    int pargc = 1; char *pav[] = { (char *)"c17mpi", NULL }; char **pargv = pav;
    parsec_context_t *ctx = parsec_init(threads, &pargc, &pargv);
    if (!ctx) { fprintf(stderr, "parsec_init failed\n"); MPI_Abort(MPI_COMM_WORLD, 2); }
    parsec_arena_datatype_t *adt = parsec_arena_datatype_new();
    parsec_arena_datatype_set_type(adt, sizeof(int64_t), PARSEC_ARENA_ALIGNMENT_SSE, parsec_datatype_int64_t);
    parsec_dtd_attach_arena_datatype(ctx, adt, &dd_arena_id);
    dd_env_t env; dd_env_init(&env, ctx, ntiles);
    dh_stats_t st; dh_stats_init(&st); dh_set_t seen = {0}; double t0 = dh_now(); char msg[700]; int rc = 0;
    double t_end = dh_deadline_s > 0 ? t0 + dh_deadline_s : 0;

    if (dh_replay_file) {
        char b[600]; dd_prog_t p; dd_cfg_t cfg = { 0, 0, 0, -1, -1, 0 };
        if (dh_replay_get(dh_replay_file, "program", b, sizeof(b)) || dd_prog_parse(&p, b)) { fprintf(stderr, "replay: bad program\n"); MPI_Abort(MPI_COMM_WORLD, 2); }
        p.ntiles = dh_replay_int(dh_replay_file, "tiles", 2); cfg.window = dh_replay_int(dh_replay_file, "window", 0); cfg.threshold = dh_replay_int(dh_replay_file, "threshold", 0);
        cfg.api = dh_replay_int(dh_replay_file, "api", 0); cfg.flush_mask = dh_replay_int(dh_replay_file, "flush_mask", -1); ORACLE = dh_replay_int(dh_replay_file, "oracle", 5);
        dd_norecycle = dh_replay_int(dh_replay_file, "norecycle", 1);
        if (ME == 0) { char ps[300]; dd_prog_print(&p, ps, sizeof(ps)); printf("replay: %d ranks program=[%s] flush_mask=%d api=%d\n", NR, ps, cfg.flush_mask, cfg.api); }
        int bad = 0;
        for (int i = 0; i < 50 && !bad; i++) bad = run_case(&env, &p, &cfg, msg, sizeof(msg), &st, &seen);
        if (ME == 0) { if (bad) printf("  %s\nVIOLATION property=%s replay=%s\n", msg, DTD_PROPERTY, dh_replay_file); else printf("replay: the case passes (50 executions)\n"); }
        rc = bad ? 1 : 0;
        goto done;
    }
    {
        static dd_task_t alpha[4096]; int na = dd_alphabet(alpha, 4096, ntiles, maxp, 1, 0); long cidx = 0; int cut = 0;
        for (int nt = nt_lo; nt <= nt_hi && !cut && st.violations < 3; nt++) {
            int idx[DD_MAXT]; memset(idx, 0, sizeof(idx)); long pidx = 0;
            do {
                dd_prog_t p; dd_prog_from_idx(&p, alpha, idx, nt, ntiles);
                if (!dd_prog_canonical(&p)) continue;
                int d = dd_prog_has_dup(&p); if ((dup == 0 && d) || (dup == 2 && !d)) continue;
                if ((pidx++) % stride) continue;
                st.states++;
                int used = dd_prog_tiles_used(&p), nown = 1, nrk = 1;
                for (int i = 0; i < used; i++) nown *= NR;
                for (int t = 0; t < nt; t++) nrk *= NR;
                for (int ow = 0; ow < nown && !cut; ow++) for (int rk = 0; rk < nrk && !cut; rk++) {
                    int x = ow; for (int i = 0; i < DD_MAXTILES; i++) { p.owner[i] = (int8_t)(i < used ? x % NR : 0); if (i < used) x /= NR; }
                    x = rk; for (int t = 0; t < nt; t++) { p.t[t].rank = (int8_t)(x % NR); x /= NR; }
                    for (int fm = -1; fm < (flushsub ? used : 0); fm++) {
                        long id = cidx++;
                        if (id % parts != part) continue;
                        /* all ranks must agree on the deadline cut: decided by rank 0 */
                        int stop = (t_end > 0 && (id & 31) == (part & 31) && dh_now() > t_end); if ((id & 31) == (part & 31)) MPI_Bcast(&stop, 1, MPI_INT, 0, MPI_COMM_WORLD);
                        if (stop) { cut = 1; break; }
                        dd_cfg_t cfg = { 0, 0, (int)(id & 1), -1, fm < 0 ? -1 : (1 << fm), 0 };
                        if (run_case(&env, &p, &cfg, msg, sizeof(msg), &st, &seen)) {
                            if (ME == 0) dh_violation(msg);
                            st.violations++; st.exhaustive = 0; if (st.violations >= 3) { cut = 1; break; }
                        }
                        if (ME == 0 && st.nsamples < 2 && (st.executions == 40 || st.executions == 900)) { char ps[300]; dd_prog_print(&p, ps, sizeof(ps)); dh_stats_sample(&st, "%d ranks: program [%s] flush_mask=%d: owner copies and all body observations equal the sequential reference", NR, ps, cfg.flush_mask); }
                    }
                }
            } while (!cut && dd_odometer_next(idx, nt, na));
        }
        if (cut && st.violations < 3) st.exhaustive = 0;
    }
    if (ME == 0) { char extra[200]; snprintf(extra, sizeof(extra), "\"nranks\":%d,\"programs\":%ld,\"part\":\"%d/%d\"", NR, st.states, part, parts); dh_report(NAME, &st, dh_now() - t0, extra); rc = dh_finish(st.violations, st.broken); }
    else rc = st.violations ? 1 : 0;
done:
    dd_env_fini(&env);
    parsec_dtd_detach_arena_datatype(ctx, dd_arena_id);
    parsec_fini(&ctx);
    MPI_Finalize();
    return rc;
}
