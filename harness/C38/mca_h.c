/* C38 (E2, full box): runtime (MCA) parameters resolve by the documented precedence.
 *
 * One child process per configuration (the MCA registry, the environment and the parsed parameter files are
 * process-global). A configuration says which sources carry a value for one test parameter "verif_p1" with the
 * synonym "verif_alias":
 *   type  in {int, sizet, string}
 *   ov    in {0: no override, 1: parsec_mca_param_set_*, 2: set then parsec_mca_param_unset}
 *   mca   in 0..3   : number of "--mca verif_p1 <v>" options given to parsec_init
 *   smca  in {0,1}  : "--mca verif_alias <v>"
 *   env   in {0,1}  : PARSEC_MCA_verif_p1 in the environment
 *   senv  in {0,1}  : PARSEC_MCA_verif_alias in the environment
 *   file  in {-,P,S,PS,SP}: parameter file (named by PARSEC_MCA_mca_param_files) with the primary and/or synonym name
 *   reg   in {late, early}: parameter registered after / before parsec_init processed the command line
 *   via   in {init, api}  : real parsec_init, or parsec_mca_param_init only (api: only when mca=smca=0)
 * The child reports lookup_<type> (twice), lookup_source and the source file; the parent compares with the
 * precedence model: override > {--mca, environment} (primary or synonym name) > file > default.
 */
#include "parsec/parsec_config.h"
#include "parsec/runtime.h"
#include "parsec/constants.h"
#include "parsec/utils/mca_param.h"
#include <stdlib.h>
#include <string.h>
#include <stdio.h>
#include <unistd.h>
#include <fcntl.h>
#include <errno.h>
#include <sys/wait.h>
#include <sys/stat.h>
#include "seqx.h"

enum { T_INT, T_SIZET, T_STRING };
static const char *tname[] = { "int", "sizet", "string" };
static const char *fname[] = { "-", "P", "S", "PS", "SP" };
typedef struct { int type, ov, mca, smca, env, senv, file, early, api, syn2; } cfg_t;   /* syn2: 0 = one synonym; 1 = a second, never used synonym registered AFTER verif_alias; 2 = registered BEFORE it */
typedef struct { int ok; int rc1, rc2, rcs, src; char v1[96], v2[96], regval[96], sfile[200]; int idx, found, syn_rc; } res_t;

static const char *V_OV[3] = { "11", "11", "ov" }, *V_ENV[3] = { "33", "33", "ev" }, *V_SENV[3] = { "44", "44", "sv" }, *V_SMCA[3] = { "45", "45", "sm" },
                  *V_FP[3] = { "55", "55", "fp" }, *V_FS[3] = { "56", "56", "fs" }, *V_DEF[3] = { "66", "66", "dv" };
static const char *V_MCA[3][3] = { { "22", "23", "24" }, { "22", "23", "24" }, { "m1", "m2", "m3" } };
static char g_dir[128]; static int g_verbose;

static void cfg_str(const cfg_t *c, char *b, size_t cap)
{ snprintf(b, cap, "type=%s ov=%d mca=%d smca=%d env=%d senv=%d file=%s reg=%s via=%s syn2=%d", tname[c->type], c->ov, c->mca, c->smca, c->env, c->senv, fname[c->file], c->early ? "early" : "late", c->api ? "api" : "init", c->syn2); }
static int cfg_parse(const char *s, cfg_t *c)
{
    char t[16], f[8], r[8], v[8];
    c->syn2 = 0;
    if (sscanf(s, "type=%15s ov=%d mca=%d smca=%d env=%d senv=%d file=%7s reg=%7s via=%7s syn2=%d", t, &c->ov, &c->mca, &c->smca, &c->env, &c->senv, f, r, v, &c->syn2) < 9) return -1;
    c->type = -1; for (int i = 0; i < 3; i++) if (!strcmp(t, tname[i])) c->type = i;
    c->file = -1; for (int i = 0; i < 5; i++) if (!strcmp(f, fname[i])) c->file = i;
    c->early = !strcmp(r, "early"); c->api = !strcmp(v, "api");
    return (c->type < 0 || c->file < 0) ? -1 : 0;
}

/* ---------------------------------------------------------------- child: runs one configuration on the real runtime */
static int reg_param(const cfg_t *c, res_t *r)
{
    int idx = -1;
    if (c->type == T_INT) { int cur = -1; idx = parsec_mca_param_reg_int_name("verif", "p1", "test parameter", false, false, atoi(V_DEF[0]), &cur); snprintf(r->regval, sizeof(r->regval), "%d", cur); }
    else if (c->type == T_SIZET) { size_t cur = 0; idx = parsec_mca_param_reg_sizet_name("verif", "p1", "test parameter", false, false, (size_t)atoi(V_DEF[1]), &cur); snprintf(r->regval, sizeof(r->regval), "%zu", cur); }
    else { char *cur = NULL; idx = parsec_mca_param_reg_string_name("verif", "p1", "test parameter", false, false, V_DEF[2], &cur); snprintf(r->regval, sizeof(r->regval), "%s", cur ? cur : "(null)"); }
    /* a parameter may have several synonyms; "verif_alias2" never carries a value, so the expected results do not depend on syn2 */
    if (idx >= 0 && c->syn2 == 2) parsec_mca_param_reg_syn_name(idx, "verif", "alias2", false);
    if (idx >= 0) r->syn_rc = parsec_mca_param_reg_syn_name(idx, "verif", "alias", false);
    if (idx >= 0 && c->syn2 == 1) parsec_mca_param_reg_syn_name(idx, "verif", "alias2", false);
    return idx;
}
static void lookup(const cfg_t *c, int idx, int *rc, char *out, size_t cap)
{
    if (c->type == T_INT) { int v = -12345; *rc = parsec_mca_param_lookup_int(idx, &v); snprintf(out, cap, "%d", v); }
    else if (c->type == T_SIZET) { size_t v = 12345; *rc = parsec_mca_param_lookup_sizet(idx, &v); snprintf(out, cap, "%zu", v); }
    else { char *v = NULL; *rc = parsec_mca_param_lookup_string(idx, &v); snprintf(out, cap, "%s", v ? v : "(null)"); }
}
static void child_run(const cfg_t *c, long serial, res_t *r)
{
    char path[200]; memset(r, 0, sizeof(*r));
    setenv("PARSEC_MCA_bind_threads", "0", 1);
    setenv("HWLOC_COMPONENTS", "-x86", 0);     /* topology discovery without the cpuid backend (it binds to every core in turn: slow on a loaded machine) */
    unsetenv("PARSEC_MCA_verif_p1"); unsetenv("PARSEC_MCA_verif_alias"); unsetenv("PARSEC_MCA_verif_alias2"); unsetenv("PARSEC_MCA_mca_param_files");
    if (c->env) setenv("PARSEC_MCA_verif_p1", V_ENV[c->type], 1);
    if (c->senv) setenv("PARSEC_MCA_verif_alias", V_SENV[c->type], 1);
    if (c->file) {
        snprintf(path, sizeof(path), "%s/%ld.conf", g_dir, serial);
        FILE *f = fopen(path, "w"); if (!f) { perror(path); _exit(3); }
        fprintf(f, "# C38 test parameter file\n");
        if (c->file == 1 || c->file == 3) fprintf(f, "verif_p1 = %s\n", V_FP[c->type]);
        if (c->file >= 2) fprintf(f, "verif_alias = %s\n", V_FS[c->type]);
        if (c->file == 4) fprintf(f, "verif_p1 = %s\n", V_FP[c->type]);
        fclose(f);
        setenv("PARSEC_MCA_mca_param_files", path, 1);
    }
    char *args[16]; int na = 0;
    /* the synonym first, then the primary ones (their relative order must not matter) */
    if (c->smca) { args[na++] = "--mca"; args[na++] = "verif_alias"; args[na++] = (char *)V_SMCA[c->type]; }
    for (int k = 0; k < c->mca; k++) { args[na++] = "--mca"; args[na++] = "verif_p1"; args[na++] = (char *)V_MCA[c->type][k]; }
    args[na] = NULL;
    int idx = -1;
    if (c->early) { parsec_mca_param_init(); idx = reg_param(c, r); }
    if (c->api) parsec_mca_param_init();
    else {
        int argc = na; char **argv = args;
        parsec_context_t *ctx = parsec_init(1, na ? &argc : NULL, na ? &argv : NULL);
        if (!ctx) { r->ok = 0; return; }
    }
    if (!c->early) idx = reg_param(c, r);
    r->idx = idx;
    if (idx < 0) { r->ok = 0; return; }
    if (c->ov) {
        if (c->type == T_INT) parsec_mca_param_set_int(idx, atoi(V_OV[0])); else if (c->type == T_SIZET) parsec_mca_param_set_sizet(idx, (size_t)atoi(V_OV[1])); else parsec_mca_param_set_string(idx, (char *)V_OV[2]);
        if (c->ov == 2) parsec_mca_param_unset(idx);
    }
    lookup(c, idx, &r->rc1, r->v1, sizeof(r->v1));
    parsec_mca_param_source_t src = MCA_PARAM_SOURCE_MAX; char *sf = NULL;
    r->rcs = parsec_mca_param_lookup_source(idx, &src, &sf); r->src = (int)src; snprintf(r->sfile, sizeof(r->sfile), "%s", sf ? sf : "");
    lookup(c, idx, &r->rc2, r->v2, sizeof(r->v2));
    r->found = (parsec_mca_param_find("verif", NULL, "p1") == idx);
    r->ok = 1;
}

/* ---------------------------------------------------------------- parent: model and comparison */
static const char *srcname(int s) { return s == MCA_PARAM_SOURCE_DEFAULT ? "default" : s == MCA_PARAM_SOURCE_ENV ? "env" : s == MCA_PARAM_SOURCE_FILE ? "file" : s == MCA_PARAM_SOURCE_OVERRIDE ? "override" : "?"; }
static void num(const char *s, char *out, size_t cap) { snprintf(out, cap, "%ld", strtol(s, NULL, 0)); }   /* int / size_t parameters keep the leading number of "22,23,24" */
static int judge(const cfg_t *c, long serial, const res_t *r, char *msg, size_t cap, char *outcome, size_t ocap)
{
    char cand[4][96]; int nc = 0, want_src; char joined[96] = "";
    for (int k = 0; k < c->mca; k++) { if (k) strcat(joined, ","); strcat(joined, V_MCA[c->type][k]); }
    if (!r->ok) { snprintf(msg, cap, "the child could not initialise the runtime or register the parameter (index %d)", r->idx); return 1; }
    if (c->ov == 1) { want_src = MCA_PARAM_SOURCE_OVERRIDE; snprintf(cand[nc++], 96, "%s", V_OV[c->type]); }
    else if (c->mca || c->env || c->smca || c->senv) {
        want_src = MCA_PARAM_SOURCE_ENV;
        /* same name: the command line replaces the environment variable (parsec_init sets it with overwrite); repeated options are comma-joined.
         * primary vs. synonym name: the statement gives no order, either is accepted */
        if (c->mca) snprintf(cand[nc++], 96, "%s", joined); else if (c->env) snprintf(cand[nc++], 96, "%s", V_ENV[c->type]);
        if (c->smca) snprintf(cand[nc++], 96, "%s", V_SMCA[c->type]); else if (c->senv) snprintf(cand[nc++], 96, "%s", V_SENV[c->type]);
    }
    else if (c->file) { want_src = MCA_PARAM_SOURCE_FILE; if (c->file != 2) snprintf(cand[nc++], 96, "%s", V_FP[c->type]); if (c->file >= 2) snprintf(cand[nc++], 96, "%s", V_FS[c->type]); }
    else { want_src = MCA_PARAM_SOURCE_DEFAULT; snprintf(cand[nc++], 96, "%s", V_DEF[c->type]); }
    if (c->type != T_STRING) for (int k = 0; k < nc; k++) { char t[96]; num(cand[k], t, sizeof(t)); strcpy(cand[k], t); }
    snprintf(outcome, ocap, "%s|%s|%s", tname[c->type], r->v1, srcname(r->src));
    if (r->rc1 != PARSEC_SUCCESS || r->rc2 != PARSEC_SUCCESS || r->rcs != PARSEC_SUCCESS) { snprintf(msg, cap, "a lookup failed (rc %d %d, source rc %d)", r->rc1, r->rc2, r->rcs); return 1; }
    int hit = -1; for (int k = 0; k < nc; k++) if (!strcmp(cand[k], r->v1)) hit = k;
    if (hit < 0) { snprintf(msg, cap, "lookup returned \"%s\" (source %s); by precedence the value must come from the %s level: \"%s\"%s%s%s", r->v1, srcname(r->src), srcname(want_src), cand[0], nc > 1 ? " or \"" : "", nc > 1 ? cand[1] : "", nc > 1 ? "\"" : ""); return 1; }
    if (strcmp(r->v1, r->v2)) { snprintf(msg, cap, "two consecutive lookups returned \"%s\" then \"%s\"", r->v1, r->v2); return 1; }
    if (r->src != want_src) { snprintf(msg, cap, "lookup_source says %s, expected %s (value \"%s\")", srcname(r->src), srcname(want_src), r->v1); return 1; }
    if (want_src == MCA_PARAM_SOURCE_FILE) { char path[200]; snprintf(path, sizeof(path), "%s/%ld.conf", g_dir, serial); if (strcmp(path, r->sfile)) { snprintf(msg, cap, "source file reported as \"%s\", expected \"%s\"", r->sfile, path); return 1; } }
    if (!r->found) { snprintf(msg, cap, "parsec_mca_param_find does not return the registered index"); return 1; }
    if (r->syn_rc < 0) { snprintf(msg, cap, "registering the synonym failed (%d)", r->syn_rc); return 1; }
    return 0;
}

#define MAXJ 16
typedef struct { pid_t pid; int fd; cfg_t c; long serial; } slot_t;
static long n_exec, n_nontriv, n_viol; static sx_set_t outs; static char sample[3][256]; static int nsample;
static void reap(slot_t *s)
{
    res_t r; memset(&r, 0, sizeof(r)); ssize_t k = read(s->fd, &r, sizeof(r)); close(s->fd); int ws; waitpid(s->pid, &ws, 0);
    char cs[256], msg[600] = "", outcome[256] = "crash"; cfg_str(&s->c, cs, sizeof(cs)); int bad;
    if (k != (ssize_t)sizeof(r)) { bad = 1; if (WIFSIGNALED(ws)) snprintf(msg, sizeof(msg), "the child crashed (signal %d: %s)", WTERMSIG(ws), strsignal(WTERMSIG(ws))); else snprintf(msg, sizeof(msg), "the child exited with status %d without a result", WEXITSTATUS(ws)); }
    else bad = judge(&s->c, s->serial, &r, msg, sizeof(msg), outcome, sizeof(outcome));
    n_exec++; if (s->c.ov == 1 || s->c.mca || s->c.env || s->c.smca || s->c.senv || s->c.file) { int lv = (s->c.ov == 1) + (s->c.mca || s->c.env || s->c.smca || s->c.senv) + (s->c.file != 0); if (lv >= 2) n_nontriv++; }
    sx_set_add(&outs, sx_hash(outcome, strlen(outcome)));
    if (g_verbose) printf("  %s -> %s%s%s\n", cs, outcome, bad ? "  ** " : "", msg);
    if (nsample < 3 && (n_exec == 7 || n_exec == 400 || n_exec == 1500)) snprintf(sample[nsample++], 256, "%s -> %s", cs, outcome);
    if (bad) { if (n_viol < 3 && !sx_replay_file) sx_violation("precedence", cs, msg); n_viol++; }
    if (s->c.file) { char path[200]; snprintf(path, sizeof(path), "%s/%ld.conf", g_dir, s->serial); unlink(path); }
    s->pid = 0;
}
static void launch(slot_t *s, const cfg_t *c, long serial)
{
    int p[2]; if (pipe(p)) { perror("pipe"); exit(2); }
    fflush(NULL);
    pid_t pid = fork(); if (pid < 0) { perror("fork"); exit(2); }
    if (pid == 0) {
        close(p[0]); alarm(120);
        if (!g_verbose) { int dn = open("/dev/null", O_WRONLY); if (dn >= 0) { dup2(dn, 2); dup2(dn, 1); close(dn); } }
        res_t r; child_run(c, serial, &r);
        if (write(p[1], &r, sizeof(r)) != (ssize_t)sizeof(r)) _exit(4);
        _exit(0);
    }
    close(p[1]); s->pid = pid; s->fd = p[0]; s->c = *c; s->serial = serial;
}

int main(int argc, char **argv)
{
    sx_init(argc, argv, "C38");
    int jobs = 8;
    for (int i = 1; i < argc; i++) { if (!strcmp(argv[i], "--jobs") && i + 1 < argc) jobs = atoi(argv[++i]); else if (!strcmp(argv[i], "-v")) g_verbose = 1; }
    if (jobs < 1) jobs = 1; if (jobs > MAXJ) jobs = MAXJ;
    snprintf(g_dir, sizeof(g_dir), "/tmp/verif-c38-%d", (int)getpid()); mkdir(g_dir, 0700);
    slot_t slots[MAXJ]; memset(slots, 0, sizeof(slots));
    double t0 = sx_now(); int exhaustive = 1;
    if (sx_replay_file) {
        static char sc[64], h[512]; cfg_t c; if (sx_read_replay(sx_replay_file, sc, sizeof(sc), h, sizeof(h)) || cfg_parse(h, &c)) { fprintf(stderr, "cannot parse %s\n", sx_replay_file); return 2; }
        g_verbose = 1; launch(&slots[0], &c, 0); reap(&slots[0]); rmdir(g_dir);
        if (n_viol) { printf("VIOLATION property=C38 replay=%s\n", sx_replay_file); return 1; }
        printf("replay: configuration passes\n"); return 0;
    }
    long serial = 0; cfg_t c;
    /* quick: ov in {0,1}, mca in {0,2}, file in {-,P,PS}, registered after parsec_init, through parsec_init only (288 children);
     * thorough: the whole box (3240 children) */
    int T = sx_tier_thorough, ovs[3] = { 0, 1, 2 }, novs = T ? 3 : 2, mcas[4] = { 0, 2, 1, 3 }, nmcas = T ? 4 : 2, files[5] = { 0, 1, 3, 2, 4 }, nfiles = T ? 5 : 3, next_reap = 0;
    /* nesting: the sources that interact most vary fastest, so that even a deadline-cut prefix mixes types and levels */
    for (c.api = 0; c.api < (T ? 2 : 1); c.api++) for (c.early = 0; c.early < (T ? 2 : 1); c.early++) for (int ifl = 0; ifl < nfiles; ifl++) for (c.senv = 0; c.senv < 2; c.senv++) for (c.smca = 0; c.smca < 2; c.smca++)
    for (c.env = 0; c.env < 2; c.env++) for (int im = 0; im < nmcas; im++) for (int io = 0; io < novs; io++) for (c.type = 2; c.type >= 0; c.type--) for (c.syn2 = 0; c.syn2 < 3; c.syn2++) {
        c.file = files[ifl];
        c.ov = ovs[io]; c.mca = mcas[im];
        if (c.api && (c.mca || c.smca)) continue;          /* --mca needs parsec_init */
        if (c.syn2 && !T && (c.ov || !(c.smca || c.senv || c.file >= 2))) continue;   /* quick: the second synonym only where the synonym name carries a value that is not overridden */
        serial++;
        if (sx_deadline > 0 && sx_now() > sx_deadline) { exhaustive = 0; goto drain; }
        int k; for (k = 0; k < jobs; k++) if (!slots[k].pid) break;
        if (k == jobs) { k = next_reap; next_reap = (next_reap + 1) % jobs; reap(&slots[k]); }    /* all busy: wait for the oldest */
        launch(&slots[k], &c, serial);
    }
drain:
    for (int k = 0; k < jobs; k++) if (slots[k].pid) reap(&slots[k]);
    rmdir(g_dir);
    const char *sp[3] = { sample[0], sample[1], sample[2] };
    sx_report("precedence", (long)outs.n, n_exec, n_exec, n_nontriv, (long)outs.n, exhaustive && !n_viol, (int)n_viol, sx_now() - t0, "", sp, nsample);
    return sx_finish();
}
