/* C30: the lock-free LIFO is a linearizable stack (E1, real parsec_lifo_t). */
#include "parsec/parsec_config.h"
#include "parsec/class/lifo.h"
#include "cosched.h"
#include <stdio.h>
#include <string.h>
#include <stdlib.h>

#define NITEMS 6
enum { OP_PUSH, OP_POP, OP_TRYPOP, OP_CHAIN2 };
typedef struct { int type; int a, b; int res; long call, ret; } op_t;   /* a,b: item ids (pushed / chained), res: popped id or -1 */
#define MAXOPS 12
static op_t ops[MAXOPS]; static int nops;
static parsec_lifo_t *lifo;
static parsec_list_item_t *items[NITEMS];
static int init_stack[NITEMS], ninit;             /* bottom .. top */
static int final_stack[NITEMS], nfinal;           /* top .. bottom */

static int id_of(parsec_list_item_t *it) { if (!it) return -1; for (int i = 0; i < NITEMS; i++) if (items[i] == it) return i; return -2; }
static const char *opname[] = { "push", "pop", "try_pop", "chain" };

static int new_op(int type, int a, int b) { int k = __sync_fetch_and_add(&nops, 1); ops[k].type = type; ops[k].a = a; ops[k].b = b; ops[k].res = -9; return k; }
static void do_push(int a) { int k = new_op(OP_PUSH, a, -1); ops[k].call = cs_stamp(); parsec_lifo_push(lifo, items[a]); ops[k].ret = cs_stamp(); }
static int do_pop(void) { int k = new_op(OP_POP, -1, -1); ops[k].call = cs_stamp(); parsec_list_item_t *it = parsec_lifo_pop(lifo); ops[k].ret = cs_stamp(); ops[k].res = id_of(it); return ops[k].res; }
static int do_trypop(void) { int k = new_op(OP_TRYPOP, -1, -1); ops[k].call = cs_stamp(); parsec_list_item_t *it = parsec_lifo_try_pop(lifo); ops[k].ret = cs_stamp(); ops[k].res = id_of(it); return ops[k].res; }
static void do_chain2(int a, int b)
{   /* ring a -> b (a first) */
    int k = new_op(OP_CHAIN2, a, b);
    items[a]->list_next = items[b]; items[a]->list_prev = items[b];
    items[b]->list_next = items[a]; items[b]->list_prev = items[a];
    ops[k].call = cs_stamp(); parsec_lifo_chain(lifo, items[a]); ops[k].ret = cs_stamp();
}

/* sequential model check of one candidate order */
static int seq_check(const int *order, int n, void *ctx)
{
    (void)ctx;
    int st[2 * NITEMS + 4], sp = 0;
    for (int i = 0; i < ninit; i++) st[sp++] = init_stack[i];
    for (int i = 0; i < n; i++) {
        op_t *o = &ops[order[i]];
        switch (o->type) {
        case OP_PUSH: st[sp++] = o->a; break;
        case OP_CHAIN2: st[sp++] = o->b; st[sp++] = o->a; break;
        case OP_POP: { int e = sp ? st[--sp] : -1; if (e != o->res) return 0; } break;
        case OP_TRYPOP:
            if (o->res == -1) {
                /* NULL: either empty, or (documented weak semantics) it overlapped another operation */
                if (sp != 0) { int overl = 0; for (int j = 0; j < n; j++) if (&ops[j] != o && ops[j].call < o->ret && o->call < ops[j].ret) overl = 1; if (!overl) return 0; }
            } else { int e = sp ? st[--sp] : -1; if (e != o->res) return 0; }
            break;
        }
    }
    if (sp != nfinal) return 0;
    for (int i = 0; i < sp; i++) if (st[sp - 1 - i] != final_stack[i]) return 0;
    return 1;
}

static void setup_lifo(int n_init)
{
    lifo = PARSEC_OBJ_NEW(parsec_lifo_t);
    for (int i = 0; i < NITEMS; i++) items[i] = PARSEC_OBJ_NEW(parsec_list_item_t);
    ninit = n_init; nops = 0;
    for (int i = 0; i < n_init; i++) { init_stack[i] = n_init - 1 - i; }   /* item 0 on top */
    for (int i = 0; i < n_init; i++) parsec_lifo_push(lifo, items[init_stack[i]]);
    cs_watch(&lifo->lifo_head, sizeof(lifo->lifo_head), "lifo_head");
    for (int i = 0; i < NITEMS; i++) cs_watch(&items[i]->list_next, 2 * sizeof(void *), "item");
}

static void finish_and_check(void)
{
    /* walk what is left in the lifo (bounded: detects cycles) */
    nfinal = 0; int seen[NITEMS] = {0};
    for (parsec_list_item_t *it = lifo->lifo_head.data.item; it; it = (parsec_list_item_t *)it->list_next) {
        int id = id_of(it);
        CS_CHECK(id >= 0, "lifo contains an unknown pointer %p", (void *)it);
        CS_CHECK(!seen[id], "item %d appears twice in the lifo (cycle/duplicate)", id);
        CS_CHECK(nfinal < NITEMS, "lifo longer than the number of items");
        seen[id] = 1; final_stack[nfinal++] = id;
    }
    /* conservation: #insertions - #pops == still in the lifo, per item */
    int popped[NITEMS] = {0}, inserted[NITEMS] = {0};
    for (int k = 0; k < nops; k++) CS_CHECK(ops[k].res != -2, "pop returned a pointer that is not an item");
    for (int k = 0; k < nops; k++) if ((ops[k].type == OP_POP || ops[k].type == OP_TRYPOP) && ops[k].res >= 0) popped[ops[k].res]++;
    for (int i = 0; i < ninit; i++) inserted[init_stack[i]]++;
    for (int k = 0; k < nops; k++) { if (ops[k].type == OP_PUSH) inserted[ops[k].a]++; if (ops[k].type == OP_CHAIN2) { inserted[ops[k].a]++; inserted[ops[k].b]++; } }
    for (int i = 0; i < NITEMS; i++)
        CS_CHECK(inserted[i] - popped[i] == seen[i], "item %d: inserted %d times, popped %d times, in lifo %d (lost or duplicated)", i, inserted[i], popped[i], seen[i]);
    cs_span_t sp[MAXOPS];
    for (int k = 0; k < nops; k++) { sp[k].call = ops[k].call; sp[k].ret = ops[k].ret; }
    char buf[400]; int o = 0;
    for (int k = 0; k < nops; k++) o += snprintf(buf + o, sizeof(buf) - o, "%s(%d,%d)=%d ", opname[ops[k].type], ops[k].a, ops[k].b, ops[k].res);
    o += snprintf(buf + o, sizeof(buf) - o, "| final:");
    for (int i = 0; i < nfinal; i++) o += snprintf(buf + o, sizeof(buf) - o, " %d", final_stack[i]);
    CS_CHECK(cs_linearizable(sp, nops, seq_check, NULL), "history not linearizable w.r.t. a sequential stack: %s", buf);
    cs_observe("%s", buf);
}

/* ---- scenario 1: ABA seeker. stack top->bottom: 0,1,2. T0: pop. T1: pop,pop,push(first popped) ---- */
static void s1_t0(void *a) { (void)a; do_pop(); }
static void s1_t1(void *a) { (void)a; int x = do_pop(); do_pop(); if (x >= 0) do_push(x); }
static void scen_aba(void) { setup_lifo(3); cs_body_t b[] = { s1_t0, s1_t1 }; cs_run(2, b, NULL); finish_and_check(); }

/* ---- scenario 2: push || pop || push on a 1-element stack ---- */
static void s2_t0(void *a) { (void)a; do_push(3); }
static void s2_t1(void *a) { (void)a; do_pop(); }
static void s2_t2(void *a) { (void)a; do_push(4); }
static void scen_ppp(void) { setup_lifo(1); cs_body_t b[] = { s2_t0, s2_t1, s2_t2 }; cs_run(3, b, NULL); finish_and_check(); }

/* ---- scenario 3: chain(ring of 2) || pop,pop || push ---- */
static void s3_t0(void *a) { (void)a; do_chain2(3, 4); }
static void s3_t1(void *a) { (void)a; do_pop(); do_pop(); }
static void s3_t2(void *a) { (void)a; do_push(5); }
static void scen_chain(void) { setup_lifo(1); cs_body_t b[] = { s3_t0, s3_t1, s3_t2 }; cs_run(3, b, NULL); finish_and_check(); }

/* ---- scenario 4: try_pop || try_pop || push, stack of 2 ---- */
static void s4_t0(void *a) { (void)a; do_trypop(); }
static void s4_t1(void *a) { (void)a; do_trypop(); }
static void s4_t2(void *a) { (void)a; do_push(5); }
static void scen_try(void) { setup_lifo(2); cs_body_t b[] = { s4_t0, s4_t1, s4_t2 }; cs_run(3, b, NULL); finish_and_check(); }

/* ---- scenario 5: ABA with three threads: pop || pop,push(x) || pop ---- */
static void s5_t1(void *a) { (void)a; int x = do_pop(); if (x >= 0) do_push(x); }
static void scen_aba3(void) { setup_lifo(3); cs_body_t b[] = { s1_t0, s5_t1, s1_t0 }; cs_run(3, b, NULL); finish_and_check(); }

/* ---- scenario 6: uninterrupted chained ring pops in ring order (sequential sanity + concurrent pop) ---- */
static void s6_t0(void *a) { (void)a; do_chain2(3, 4); int x = do_pop(); (void)x; }
static void s6_t1(void *a) { (void)a; do_pop(); }
static void scen_chain2(void) { setup_lifo(0); cs_body_t b[] = { s6_t0, s6_t1 }; cs_run(2, b, NULL); finish_and_check(); }

static cs_scenario_t scenarios[] = {
    { "aba_pop_vs_pop_pop_push", scen_aba, 0 },
    { "push_pop_push", scen_ppp, 0 },
    { "chain_pop_push", scen_chain, 0 },
    { "trypop_trypop_push", scen_try, 0 },
    { "aba3", scen_aba3, 0 },
    { "chain_order", scen_chain2, 0 },
};
int main(int argc, char **argv) { return cs_main(argc, argv, "C30", scenarios, sizeof(scenarios) / sizeof(scenarios[0]), NULL); }
