/* C37 (E2/seqx): taskpool identifier registry of parsec/parsec.c - sequential histories against a reference map.
 * The REAL parsec/parsec.c is compiled into this TU (#include) so that the file-static registry (array, size, pos)
 * can be reset between histories (parsec_taskpool_release_resources, as parsec_fini does) and encoded canonically. */
#include "parsec/parsec.c"
#include "seqx.h"
#include <setjmp.h>
#include <signal.h>
static sigjmp_buf jb; static volatile int jb_armed = 0;
static void on_abort(int sg) { (void)sg; if (jb_armed) siglongjmp(jb, 1); _exit(3); }

#ifndef NP
#define NP 5                       /* taskpools */
#endif
enum { ST_NEW = 0, ST_RESERVED, ST_REGISTERED, ST_UNREGISTERED };
/* The registry is a process-wide singleton: the pools are global too, so that two objects built from the same history
 * (seqx re-plays histories to test canonical-state stability) leave the registry in the identical state. */
static parsec_taskpool_t g_tp[NP];
typedef struct {
    parsec_taskpool_t *tp; int st[NP]; int id[NP];              /* model: state and current id of each pool */
    int ever[64]; int never;                                     /* every id ever handed out */
    int maxid;
} obj_t;
/* ops: reserve(p) | register(p) | unregister(p) | sync (single process: must change nothing); lookups of every id >= 1 are part of the oracle */
#define OP_RES(p) (p)
#define OP_REG(p) (NP + (p))
#define OP_UNR(p) (2 * NP + (p))
#define OP_SYNC   (3 * NP)
#define NOPS (3 * NP + 1)

static void *fresh(void)
{
    parsec_taskpool_release_resources();                         /* what parsec_fini() does: empty registry */
    obj_t *o = calloc(1, sizeof(obj_t));
    memset(g_tp, 0, sizeof(g_tp)); o->tp = g_tp;
    for (int p = 0; p < NP; p++) { o->tp[p].taskpool_name = "h"; o->tp[p].tdm.module = NULL; }
    return o;
}
static void destroy(void *p) { free(p); }
static int enabled(void *p, int op)
{
    obj_t *o = p;
    if (op < NP) return o->st[op] != ST_REGISTERED && o->never < 60;        /* a registered pool keeps its id */
    if (op < 2 * NP) return o->st[op - NP] == ST_RESERVED || o->st[op - NP] == ST_UNREGISTERED;  /* has an id, not in the registry */
    if (op < 3 * NP) return o->st[op - 2 * NP] == ST_REGISTERED;
    return 1;
}
static int oracle(obj_t *o, char *err)
{
    for (int id = 1; id <= o->maxid + 3; id++) {
        parsec_taskpool_t *want = NULL;
        for (int p = 0; p < NP; p++) if (o->st[p] == ST_REGISTERED && o->id[p] == id) want = &o->tp[p];
        parsec_taskpool_t *got = parsec_taskpool_lookup((uint32_t)id);
        if (got != want) {
            snprintf(err, SX_ERRLEN, "lookup(%d) returned %s, expected %s", id, got ? (got >= &o->tp[0] && got < &o->tp[NP] ? "another/unregistered taskpool" : "a foreign pointer") : "NULL", want ? "the registered taskpool" : "NULL (nothing registered under this id)");
            return 1;
        }
    }
    return 0;
}
static int apply(void *p, int op, char *err)
{
    obj_t *o = p;
    jb_armed = 1;
    if (sigsetjmp(jb, 1)) { jb_armed = 0; taskpool_array_lock = 0; snprintf(err, SX_ERRLEN, "the registry aborted (its own assertion failed) on an operation the usage contract allows"); return 1; }
    if (op < NP) {
        int id = parsec_taskpool_reserve_id(&o->tp[op]);
        if (id < 1) { snprintf(err, SX_ERRLEN, "reserve_id returned %d (identifiers start at 1)", id); return 1; }
        if ((int)o->tp[op].taskpool_id != id) { snprintf(err, SX_ERRLEN, "reserve_id returned %d but stored %u in the taskpool", id, o->tp[op].taskpool_id); return 1; }
        for (int i = 0; i < o->never; i++) if (o->ever[i] == id) { snprintf(err, SX_ERRLEN, "reserve_id handed out identifier %d a second time", id); return 1; }
        o->ever[o->never++] = id; if (id > o->maxid) o->maxid = id;
        o->st[op] = ST_RESERVED; o->id[op] = id;
    } else if (op < 2 * NP) {
        int q = op - NP; int id = parsec_taskpool_register(&o->tp[q]);
        if (id != o->id[q]) { snprintf(err, SX_ERRLEN, "register returned %d for the taskpool holding identifier %d", id, o->id[q]); return 1; }
        o->st[q] = ST_REGISTERED;
    } else if (op < 3 * NP) {
        int q = op - 2 * NP; parsec_taskpool_unregister(&o->tp[q]); o->st[q] = ST_UNREGISTERED;
    } else {
        parsec_taskpool_sync_ids();
    }
    { int rc = oracle(o, err); jb_armed = 0; return rc; }
}
static size_t canon(void *p, char *b, size_t cap)
{
    obj_t *o = p; size_t n = snprintf(b, cap, "pos%u size%u|", taskpool_array_pos, taskpool_array_size);
    for (uint32_t i = 1; i <= taskpool_array_pos && taskpool_array && n + 8 < cap; i++) {
        parsec_taskpool_t *t = taskpool_array[i];
        n += snprintf(b + n, cap - n, "%c", t == NOTASKPOOL ? '.' : (t >= &o->tp[0] && t < &o->tp[NP]) ? (char)('a' + (t - &o->tp[0])) : '?');
    }
    for (int q = 0; q < NP; q++) n += snprintf(b + n, cap - n, "|%d:%d", o->st[q], o->st[q] == ST_NEW ? 0 : o->id[q]);
    return n;
}
static void opname(int op, char *b, size_t cap)
{
    if (op < NP) snprintf(b, cap, "reserve%d", op); else if (op < 2 * NP) snprintf(b, cap, "register%d", op - NP);
    else if (op < 3 * NP) snprintf(b, cap, "unregister%d", op - 2 * NP); else snprintf(b, cap, "sync");
}
int main(int argc, char **argv)
{
    sx_init(argc, argv, "C37");
    struct sigaction sa; memset(&sa, 0, sizeof(sa)); sa.sa_handler = on_abort; sa.sa_flags = SA_NODEFER; sigaction(SIGABRT, &sa, NULL);
    int depth = 7;
    for (int i = 1; i < argc; i++) if (!strcmp(argv[i], "--depth") && i + 1 < argc) depth = atoi(argv[i + 1]);
    char nm[64]; snprintf(nm, sizeof(nm), "registry_%dpools_depth%d", NP, depth);
    sx_system_t sys = { nm, NOPS, fresh, destroy, enabled, apply, canon, opname, depth, 0 };
    if (sx_replay_file) { char sc[128], h[4096]; if (sx_read_replay(sx_replay_file, sc, sizeof(sc), h, sizeof(h))) return 2; return sx_replay_named(&sys, h); }
    sx_stats_t st; sx_bfs(&sys, &st);
    return sx_finish();
}
