/* C03, instruction-level leg of the real DTD runtime: the executable of harness/C04/c04_il.c (E1/cosched over the real
 * parsec_dtd_insert_task / complete_hook_of_dtd paths on 2 borrowed execution streams) with the C03 value oracle:
 * every body's observations and the final tile values equal sequential execution in insertion order. */
#define IL_PROPERTY "C03"
#define IL_DEFAULT_ORACLE 1
#include "../C04/c04_il.c"
