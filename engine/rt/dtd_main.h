/* dtd_main: the harness executable shared by C03 / C04 / C17 (single-process legs). The including TU defines
 *   DTD_PROPERTY  "C03" | "C04" | "C17"      and   DTD_DEFAULT_ORACLE  (bitmask: 1 values, 2 exclusion/order, 4 flush)
 * Legs (--leg):
 *   inproc : bounded-exhaustive program family x configurations, free running on N threads of ONE context per worker
 *   scheds : same, one worker process per scheduler module (PARSEC_MCA_mca_sched), all modules minus --exclude
 *   gate   : one stream, harness scheduler: DFS over {insert next | execute ready task T} gates + every runtime select
 *   hold   : two streams, harness scheduler: task A is kept inside its body on stream 1 while stream 0 inserts and runs
 *            everything the runtime considers ready (DFS over its choices); for every task A of every program
 * Options: --isolate 1 runs every case in a forked child (crash / hang containment and attribution of the two
 * known findings); --norecycle 1 keeps completed task objects out of the free lists; --dup 0|1|2 program filter;
 * --flush 1 enumerates flush subsets (C17). */
#include "dtd_driver.h"
#include "dtd_sched.h"
#include "dtd_harness.h"

#ifndef DTD_DEFAULT_ORACLE
#define DTD_DEFAULT_ORACLE 1
#endif
#define ID_ABA "C03-stale-last-user-aba"
#define ID_DUP "C03-dup-tile-reader-count"
#define ID_DUPNULL "C03-dup-tile-null-data-in"
#define ID_DUPLOST "C03-dup-tile-lost-activation"

typedef struct {
    const char *leg, *name, *sched, *alpha, *hash, *known;
    int threads, nt_lo, nt_hi, ntiles, maxp, api_mask, nest, jobs, stride, nwin, win[8][2], spin, dup, keep, isolate, oracle, flush;
    long max_runs_per_case;
} opts_t;
static opts_t O;

/* per worker, shared with its forked case children */
typedef struct { dh_stats_t st; int failed; char msg[3000]; char kv[1900]; char choices[DS_MAXPTS * 4]; } shared_t;
static shared_t *SH;
#define ST (&SH->st)
/* extra[]: 7 cases attributed to DUP-NULL, 8 cases attributed to DUP-LOST, 10 max choice points (was 6); 0 tree nodes, 1 cases attributed to ABA, 2 AGAIN re-submissions, 3 cases attributed to DUP, 4 tasks overlapped with a held task, 5 witness: readers inside together; 6 max choice points */

static void parse_opts(int argc, char **argv)
{
    O.leg = dh_arg(argc, argv, "--leg", "inproc"); O.name = dh_arg(argc, argv, "--name", O.leg); O.sched = dh_arg(argc, argv, "--sched", "");
    O.alpha = dh_arg(argc, argv, "--alpha", "q"); O.hash = dh_arg(argc, argv, "--hash", "64"); O.known = dh_arg(argc, argv, "--known", "");
    O.threads = atoi(dh_arg(argc, argv, "--threads", "1"));
    const char *nt = dh_arg(argc, argv, "--nt", "1:3"); O.nt_lo = atoi(nt); O.nt_hi = strchr(nt, ':') ? atoi(strchr(nt, ':') + 1) : O.nt_lo;
    O.ntiles = atoi(dh_arg(argc, argv, "--tiles", "2")); O.maxp = atoi(dh_arg(argc, argv, "--maxp", "2"));
    O.api_mask = atoi(dh_arg(argc, argv, "--api", "3")); O.nest = atoi(dh_arg(argc, argv, "--nest", "0"));
    O.jobs = atoi(dh_arg(argc, argv, "--jobs", "8")); O.stride = atoi(dh_arg(argc, argv, "--stride", "1")); O.spin = atoi(dh_arg(argc, argv, "--spin", "0"));
    O.dup = atoi(dh_arg(argc, argv, "--dup", "1"));      /* 0: no task names a tile twice; 1: all; 2: only programs with such a task */
    dd_norecycle = atoi(dh_arg(argc, argv, "--norecycle", "0"));
    O.keep = atoi(dh_arg(argc, argv, "--keep", "-1"));   /* runtime_keep_highest_priority_task: -1 = 0 for gate/hold (every ready task goes through select), library default 1 otherwise */
    O.isolate = atoi(dh_arg(argc, argv, "--isolate", "0"));
    O.oracle = atoi(dh_arg(argc, argv, "--oracle", "0")); if (!O.oracle) O.oracle = DTD_DEFAULT_ORACLE;
    O.flush = atoi(dh_arg(argc, argv, "--flush", "0"));
    O.max_runs_per_case = atol(dh_arg(argc, argv, "--maxruns", "0"));
    const char *w = dh_arg(argc, argv, "--win", "1,1;2,1;4,2;0,0"); O.nwin = 0;
    while (*w && O.nwin < 8) { O.win[O.nwin][0] = (int)strtol(w, (char **)&w, 10); if (*w == ',') w++; O.win[O.nwin][1] = (int)strtol(w, (char **)&w, 10); O.nwin++; if (*w == ';') w++; }
}
static int is_known(const char *id) { char h[8192], n[100]; snprintf(h, sizeof(h), ",%s,", O.known); snprintf(n, sizeof(n), ",%s,", id); return strstr(h, n) != NULL; }
static int leg_is(const char *l) { return !strcmp(O.leg, l); }
static int alpha_build(dd_task_t *alpha, int cap)
{
    int rw_only = (O.alpha[0] == 'q'), allow3 = (O.alpha[0] == 'x');
    return dd_alphabet(alpha, cap, O.ntiles, O.maxp, rw_only, allow3);
}
static parsec_context_t *rt_init(int threads)
{
    if (O.sched && O.sched[0]) setenv("PARSEC_MCA_mca_sched", O.sched, 1);
    setenv("PARSEC_MCA_bind_threads", "0", 1);
    /* the default 2^16-bucket task/tile hash tables cost ~7 ms per taskpool in the instrumented build (bucket init loop);
     * their size is irrelevant to the property, --hash default keeps the library defaults */
    if (strcmp(O.hash, "default")) { setenv("PARSEC_MCA_dtd_task_hash_size", O.hash, 1); setenv("PARSEC_MCA_dtd_tile_hash_size", O.hash, 1); }
    int argc = 1; char *av[] = { (char *)"dtd", NULL }; char **argv = av;
    parsec_context_t *ctx = parsec_init(threads, &argc, &argv);
    if (!ctx) { fprintf(stderr, "parsec_init failed\n"); exit(2); }
    { extern int parsec_runtime_keep_highest_priority_task; int k = O.keep >= 0 ? O.keep : ((leg_is("gate") || leg_is("hold")) ? 0 : 1); parsec_runtime_keep_highest_priority_task = k; O.keep = k; }
    return ctx;
}
static int cur_hold = -1;
static void case_kv(const dd_prog_t *p, const dd_cfg_t *cfg, const char *choices)
{
    char ps[256]; dd_prog_print(p, ps, sizeof(ps));
    snprintf(SH->choices, sizeof(SH->choices), "%s", choices ? choices : "");
    dh_case(O.name, "\"harness\":\"dtd\",\"leg\":\"%s\",\"program\":\"%s\",\"window\":\"%d\",\"threshold\":\"%d\",\"api\":\"%d\",\"gen_at\":\"%d\",\"flush_mask\":\"%d\",\"spin\":\"%d\",\"hold\":\"%d\",\"threads\":\"%d\",\"sched\":\"%s\",\"tiles\":\"%d\",\"norecycle\":\"%d\",\"keep\":\"%d\",\"oracle\":\"%d\",\"choices\":\"%s\"",
            O.leg, ps, cfg->window, cfg->threshold, cfg->api, cfg->gen_at, cfg->flush_mask, cfg->spin, cur_hold, O.threads, O.sched, O.ntiles, dd_norecycle, O.keep, O.oracle, SH->choices);
}
static void fail_record(const char *msg)
{
    SH->failed = 1; snprintf(SH->msg, sizeof(SH->msg), "%s", msg); snprintf(SH->kv, sizeof(SH->kv), "%s", (const char *)dh_slot->kv);
}
static uint64_t behaviour_hash(const dd_prog_t *p, const dd_cfg_t *cfg)
{
    char ps[256]; int n = dd_prog_print(p, ps, sizeof(ps));
    uint64_t h = dh_hash(ps, (size_t)n, 7); h = dh_hash(cfg, sizeof(*cfg), h);
    for (int t = 0; t < p->nt; t++) { int64_t v[2] = { dd_log[t].enter, dd_log[t].th }; h = dh_hash(v, sizeof(v), h); }
    return h;
}
static int run_is_nontrivial(const dd_prog_t *p)
{
    for (int t = 1; t < p->nt; t++) if (dd_log[t].enter < dd_log[t - 1].enter || dd_log[t].th != dd_log[0].th) return 1;
    return 0;
}
/* the oracles selected for this property */
static int oracle(const dd_prog_t *p, const dd_cfg_t *cfg, const dd_ref_t *ref, const dd_res_t *res, char *msg, size_t cap)
{
    if ((O.oracle & 1) && dd_check_values(p, cfg, ref, dd_log, res->final, dd_gen_count, msg, cap)) return 1;
    if (O.oracle & 2) {
        for (int t = 0; t < p->nt; t++) if (dd_log[t].count != 1) { snprintf(msg, cap, "task %d executed %d times", t, dd_log[t].count); return 1; }
        if (dd_check_exclusion(p, dd_log, msg, cap)) return 1;
    }
    if (O.oracle & 4) {
        /* C17: after flush (+wait) the owner's copy of every flushed tile holds the value of the last inserted writer */
        if (res->partial_done) for (int i = 0; i < p->ntiles; i++) if ((cfg->flush_mask & (1 << i)) && res->after_partial[i] != ref->final[i]) {
            snprintf(msg, cap, "after parsec_dtd_data_flush(tile %c) + wait the owner copy holds %ld, the last inserted writer (task %d) produced %ld", 'a' + i, (long)res->after_partial[i], ref->last_writer[i], (long)ref->final[i]); return 1; }
        for (int i = 0; i < p->ntiles; i++) if (res->final[i] != ref->final[i]) {
            snprintf(msg, cap, "after parsec_dtd_data_flush_all + wait the owner copy of tile %c holds %ld, the last inserted writer (task %d) produced %ld", 'a' + i, (long)res->final[i], ref->last_writer[i], (long)ref->final[i]); return 1; }
    }
    return 0;
}

/* iterate the canonical programs of this worker's slice */
typedef int (*prog_cb)(const dd_prog_t *p, long pidx, void *arg);
static long for_programs(int j, int J, prog_cb cb, void *arg, double t_end, int *cut)
{
    static dd_task_t alpha[4096]; int na = alpha_build(alpha, 4096); long pidx = 0, mine = 0;
    for (int nt = O.nt_lo; nt <= O.nt_hi; nt++) {
        int idx[DD_MAXT]; memset(idx, 0, sizeof(idx));
        do {
            dd_prog_t p; dd_prog_from_idx(&p, alpha, idx, nt, O.ntiles);
            if (!dd_prog_canonical(&p)) continue;
            if (O.dup != 1) { int d = dd_prog_has_dup(&p); if ((O.dup == 0 && d) || (O.dup == 2 && !d)) continue; }
            long id = pidx++;
            if (id % O.stride) continue;
            if ((id / O.stride) % J != j) continue;
            if (t_end > 0 && dh_now() > t_end) { *cut = 1; return mine; }
            mine++;
            if (cb(&p, id, arg)) return mine;
        } while (dd_odometer_next(idx, nt, na));
    }
    return mine;
}
/* configurations of one program: every window pair with the function-pointer API; the last window pair (library default)
 * with explicit task classes; with --nest: the generator task taking over at every position g, under the first and the
 * last window pair; with --flush: every subset of tiles flushed individually first (then flush_all) */
static int cfg_list(const dd_prog_t *p, dd_cfg_t *out)
{
    int n = 0, dfs = leg_is("gate") || leg_is("hold");     /* DFS legs: one configuration per window, the API alternates with the program index */
    for (int w = 0; w < O.nwin; w++) if ((O.api_mask & 1) || dfs) out[n++] = (dd_cfg_t){ O.win[w][0], O.win[w][1], 0, -1, -1, O.spin };
    if ((O.api_mask & 2) && !dfs) out[n++] = (dd_cfg_t){ O.win[O.nwin - 1][0], O.win[O.nwin - 1][1], 1, -1, -1, O.spin };
    if (O.nest) for (int g = 0; g < p->nt; g++) {
        out[n++] = (dd_cfg_t){ O.win[0][0], O.win[0][1], (O.api_mask & 1) ? 0 : 1, g, -1, O.spin };
        if (O.nwin > 1) out[n++] = (dd_cfg_t){ O.win[O.nwin - 1][0], O.win[O.nwin - 1][1], (O.api_mask & 2) ? 1 : 0, g, -1, O.spin };
    }
    if (O.flush) { int base = n; for (int c = 0; c < base; c++) for (int m = 0; m < (1 << O.ntiles); m++) { out[n] = out[c]; out[n].flush_mask = m; n++; } }
    return n;
}

/* ------------------------------------------------------------------ one case of each kind (runs in the worker or in a forked child) */
typedef struct { dd_env_t env; dh_set_t seen; double t_end; const unsigned char *replay; int nreplay; int verbose; } legctx_t;
static legctx_t L;

static int inproc_case(const dd_prog_t *p, const dd_cfg_t *cfg)
{
    dd_ref_t ref; dd_res_t res; char msg[600];
    case_kv(p, cfg, NULL);
    dd_run(&L.env, p, cfg, &res);
    dd_reference(p, &ref);
    ST->executions++; ST->transitions += p->nt;
    if (dh_set_add(&L.seen, behaviour_hash(p, cfg))) ST->outcomes++;
    if (run_is_nontrivial(p)) ST->nontrivial++;
    for (int t = 0; t < p->nt; t++) if (dd_log[t].with_reader) { ST->extra[5]++; break; }
    { int ov = 0; for (int i = 0; i < p->nt; i++) for (int j = i + 1; j < p->nt; j++) if (dd_log[i].count && dd_log[j].count && dd_log[j].enter < dd_log[i].exit && dd_log[i].enter < dd_log[j].exit) ov = 1; if (ov) ST->extra[4]++; }
    if (oracle(p, cfg, &ref, &res, msg, sizeof(msg))) { fail_record(msg); return 1; }
    return 0;
}
static void gate_hook(parsec_taskpool_t *tp, int next)
{
    char lb[16]; if (next >= dd_cur_prog->nt) snprintf(lb, sizeof(lb), "|flush"); else snprintf(lb, sizeof(lb), "|ins%d", next);
    if (ds_hold_mode) { ds_hold_sync(); ds_note(lb); } else ds_gate(tp, lb);
}
static void on_livelock(const char *task)
{
    char msg[200]; snprintf(msg, sizeof(msg), "livelock: ready task %s is refused by data_lookup (AGAIN) forever although no other task can run", task);
    fail_record(msg); fflush(stdout); _exit(1);
}
/* DFS over one (program, configuration[, held task]) */
static int dfs_case(const dd_prog_t *p, const dd_cfg_t *cfg)
{
    static ds_explorer_t ex; dd_ref_t ref; dd_res_t res; char msg[600], cs[DS_MAXPTS * 4];
    dd_reference(p, &ref);
    if (L.replay) ds_begin_replay(&ex, L.replay, L.nreplay); else ds_begin(&ex, 0);
    ex.max_runs = L.replay ? 1 : O.max_runs_per_case;
    int bad = 0;
    while (ds_next(&ex)) {
        if (L.t_end > 0 && dh_now() > L.t_end) { ex.exhaustive = 0; ex.cur = NULL; break; }
        { size_t o = 0; cs[0] = 0; for (int i = 0; i < ex.prefix_len; i++) o += snprintf(cs + o, sizeof(cs) - o, "%s%d", i ? "," : "", ex.prefix[i]); case_kv(p, cfg, cs); }
        ds_hold_overlapped = 0;
        dd_run(&L.env, p, cfg, &res);
        ds_choices_str(&ex, cs, sizeof(cs));
        ST->executions++; ST->extra[2] += ds_again_events; ds_again_events = 0;
        if (dh_set_add(&L.seen, dh_hash(ex.order, strlen(ex.order), behaviour_hash(p, cfg)))) ST->outcomes++;
        ST->extra[4] += ds_hold_overlapped;
        for (int t = 0; t < p->nt; t++) if (dd_log[t].with_reader) { ST->extra[5]++; break; }
        if (L.verbose) printf("  trace: %s\n  choices: %s\n", ex.order, cs);
        if (oracle(p, cfg, &ref, &res, msg, sizeof(msg))) {
            case_kv(p, cfg, cs);
            char m2[3000]; snprintf(m2, sizeof(m2), "%s | trace: %s", msg, ex.order);
            fail_record(m2); bad = 1;
        }
        if (ds_hold_mode && cur_hold >= 0 && !bad && !ds_hold_done) { case_kv(p, cfg, cs); fail_record("internal: the held task never entered its body"); ST->broken++; bad = 1; }
        if (ST->nsamples < 2 && ex.runs == 1 && (ST->states % 23) == 7 && p->nt >= 2) {
            char ps[256]; dd_prog_print(p, ps, sizeof(ps));
            dh_stats_sample(ST, "program [%s] window=%d/%d held task %d interleaving: %s", ps, cfg->window, cfg->threshold, cur_hold, ex.order);
        }
        ds_end_run(&ex);
        if (ex.diverged) { fprintf(stderr, "dtd gate/hold: nondeterministic replay\n"); ST->broken++; break; }
        if (bad) break;
    }
    while (ex.stack) { ds_item_t *n = ex.stack->next; free(ex.stack); ex.stack = n; ex.exhaustive = 0; }
    ds_ex = NULL;
    ST->transitions += ex.transitions; ST->nontrivial += ex.nontrivial; ST->extra[0] += ex.nodes;
    if (ex.max_points > ST->extra[10]) ST->extra[10] = ex.max_points;
    if (!ex.exhaustive && !L.replay) ST->exhaustive = 0;
    return bad;
}
static int one_case(const dd_prog_t *p, const dd_cfg_t *cfg) { return (leg_is("gate") || leg_is("hold")) ? dfs_case(p, cfg) : inproc_case(p, cfg); }

/* ------------------------------------------------------------------ isolation + attribution */
typedef struct { const dd_prog_t *p; const dd_cfg_t *cfg; } carg_t;
static int child_case(void *a) { carg_t *c = (carg_t *)a; return one_case(c->p, c->cfg); }
static void emit_failure(void)
{
    dh_violation_kv(O.name, SH->kv, SH->msg); ST->violations++; ST->exhaustive = 0;
}
/* structural predicates of the two further dup-tile findings */
/* task j names tile x in an earlier writable parameter k1 and a later INPUT parameter k2, and an earlier task uses x: returns k2 (or -1) for task j */
static int pred_dup_null(const dd_prog_t *p, int j)
{
    const dd_task_t *T = &p->t[j];
    for (int k1 = 0; k1 < T->np; k1++) for (int k2 = k1 + 1; k2 < T->np; k2++) if (T->tile[k1] == T->tile[k2] && T->mode[k1] != DD_R && T->mode[k2] == DD_R) {
        for (int i = 0; i < j; i++) for (int k = 0; k < p->t[i].np; k++) if (p->t[i].tile[k] == T->tile[k1]) return k2;
    }
    return -1;
}
/* some task names tile x in two INPUT parameters and a LATER task reads x */
static int pred_dup_lost(const dd_prog_t *p)
{
    for (int j = 0; j < p->nt; j++) { const dd_task_t *T = &p->t[j];
        for (int k1 = 0; k1 < T->np; k1++) for (int k2 = k1 + 1; k2 < T->np; k2++) if (T->tile[k1] == T->tile[k2] && T->mode[k1] == DD_R && T->mode[k2] == DD_R)
            for (int i = j + 1; i < p->nt; i++) for (int k = 0; k < p->t[i].np; k++) if (p->t[i].tile[k] == T->tile[k1] && p->t[i].mode[k] == DD_R) return 1; }
    return 0;
}
/* returns 1 if a (non attributed) violation was reported */
static int run_case(const dd_prog_t *p, const dd_cfg_t *cfg)
{
    SH->failed = 0;
    if (!O.isolate) { if (one_case(p, cfg)) { emit_failure(); return 1; } return 0; }
    carg_t ca = { p, cfg }; char err[600]; int sig = 0;
    int r = dh_isolated(child_case, &ca, dh_hang_s, err, sizeof(err), &sig);
    if (r == 0) return 0;
    if (r == 3) {            /* a hang is believed only after a re-run of the case alone with a 4x limit; whatever that run shows is classified */
        SH->failed = 0;
        r = dh_isolated(child_case, &ca, 4 * dh_hang_s, err, sizeof(err), &sig);
        if (r == 0) return 0;
    }
    if (!SH->failed) {       /* crash or hang: the child could not record anything */
        ST->executions++;
        snprintf(SH->kv, sizeof(SH->kv), "%s", (const char *)dh_slot->kv);
        if (r == 3) snprintf(SH->msg, sizeof(SH->msg), "no progress for %.0f s (re-run alone with a 4x limit): the taskpool never terminated (hang / lost task / livelock)", 0.6 * 4 * dh_hang_s);
        else snprintf(SH->msg, sizeof(SH->msg), "the runtime crashed (signal %d) while executing this case: %s", sig, err);
        SH->failed = 1;
    }
    int reader_sig = strstr(err, "parsec_dtd_data_copy_reader_re") != NULL && strstr(err, "Assertion") != NULL;
    /* finding DUP: only programs in which a task names a tile twice, reader-count assertion */
    if (dd_prog_has_dup(p) && reader_sig && dd_norecycle) {
        if (is_known(ID_DUP)) { if (ST->extra[3]++ == 0) dh_stats_sample(ST, "KNOWN %s: %s", ID_DUP, SH->kv); return 0; }
        emit_failure(); return 1;
    }
    /* finding DUP-NULL: SIGSEGV raised by the body on a NULL data pointer for exactly the later duplicate parameter of a task matching the predicate */
    if (dd_prog_has_dup(p) && dd_norecycle && r == 2 && sig == SIGSEGV) {
        int pk = -1, pt = -1; const char *q = strstr(err, "NULL data pointer for parameter ");
        if (q && sscanf(q, "NULL data pointer for parameter %d of task %d", &pk, &pt) == 2 && pt >= 0 && pt < p->nt && pred_dup_null(p, pt) == pk) {
            if (is_known(ID_DUPNULL)) { if (ST->extra[7]++ == 0) dh_stats_sample(ST, "KNOWN %s: %s", ID_DUPNULL, SH->kv); return 0; }
            emit_failure(); return 1;
        }
    }
    /* finding DUP-LOST: hang (no wrong value; already confirmed with the 4x limit above), program matches the predicate */
    if (dd_prog_has_dup(p) && dd_norecycle && r == 3 && pred_dup_lost(p)) {
        if (is_known(ID_DUPLOST)) { if (ST->extra[8]++ == 0) dh_stats_sample(ST, "KNOWN %s: %s", ID_DUPLOST, SH->kv); return 0; }
        emit_failure(); return 1;
    }
    /* finding ABA: differential re-run of the identical case (same choice list) with task-object recycling disabled */
    if (!dd_norecycle && (leg_is("gate") || leg_is("hold") || O.threads == 1)) {
        static unsigned char ch[DS_MAXPTS]; int n = 0; const char *c = SH->choices; while (*c && n < DS_MAXPTS) { ch[n++] = (unsigned char)strtol(c, (char **)&c, 10); if (*c == ',') c++; }
        shared_t keep = *SH; legctx_t keepL = L;
        dd_norecycle = 1; L.replay = ch; L.nreplay = n; SH->failed = 0;
        char err2[600]; int sig2 = 0;
        int r2 = dh_isolated(child_case, &ca, dh_hang_s, err2, sizeof(err2), &sig2);
        dd_norecycle = 0; L = keepL; dh_stats_t now = SH->st; *SH = keep; SH->st = now;
        if (r2 == 0) {
            if (is_known(ID_ABA)) { if (ST->extra[1]++ == 0) dh_stats_sample(ST, "KNOWN %s (identical case passes with recycling disabled): %s", ID_ABA, SH->kv); ST->exhaustive = ST->exhaustive; return 0; }
            snprintf(SH->msg + strlen(SH->msg), sizeof(SH->msg) - strlen(SH->msg), " [the identical case passes with task-object recycling disabled: finding %s]", ID_ABA);
        }
    }
    emit_failure(); return 1;
}

/* ------------------------------------------------------------------ leg mt: real scheduler module behind a gate */
/* N free-running streams and the REAL scheduler module (any of the 11), wrapped so that an insertion by the main thread
 * never overlaps the prepare_input / body / completion of a task on another stream: select() hands nothing out while
 * the main thread is inserting, and the main thread starts inserting only when no other stream holds a task
 * (Dekker handshake on ws_inserting / ws_busy[]). Tasks still run concurrently with each other, in the order and on
 * the streams the real scheduler decides. (Excludes the instruction-level window of NOTES.md F5.) */
static parsec_sched_module_t *ws_real = NULL; static parsec_sched_module_t ws_module;
static volatile int ws_inserting = 0; static volatile int ws_busy[64]; static volatile long ws_denied = 0, ws_parallel = 0;
static int ws_install(parsec_context_t *c) { (void)c; return 0; }
static int ws_flow_init(parsec_execution_stream_t *es, struct parsec_barrier_t *b) { (void)es; (void)b; return 0; }
static void ws_remove(parsec_context_t *c) { (void)c; }
static int ws_schedule(parsec_execution_stream_t *es, parsec_task_t *ring, int32_t d) { return ws_real->module.schedule(es, ring, d); }
static parsec_task_t *ws_select(parsec_execution_stream_t *es, int32_t *d)
{
    int me = es->th_id & 63;
    __atomic_store_n(&ws_busy[me], 0, __ATOMIC_SEQ_CST);
    if (me == 0) return ws_real->module.select(es, d);
    __atomic_store_n(&ws_busy[me], 1, __ATOMIC_SEQ_CST);
    if (__atomic_load_n(&ws_inserting, __ATOMIC_SEQ_CST)) { __atomic_store_n(&ws_busy[me], 0, __ATOMIC_SEQ_CST); ws_denied++; return NULL; }
    parsec_task_t *t = ws_real->module.select(es, d);
    if (!t) __atomic_store_n(&ws_busy[me], 0, __ATOMIC_SEQ_CST);
    else { int others = 0; for (int i = 0; i < 64; i++) if (i != me && ws_busy[i]) others++; if (others) ws_parallel++; }
    return t;
}
static void ws_before_insert(parsec_taskpool_t *tp, int next)
{
    (void)tp; (void)next;
    __atomic_store_n(&ws_inserting, 1, __ATOMIC_SEQ_CST);
    for (;;) { int b = 0; for (int i = 1; i < 64; i++) if (__atomic_load_n(&ws_busy[i], __ATOMIC_SEQ_CST)) b = 1; if (!b) break; sched_yield(); }
}
static void ws_open(void) { __atomic_store_n(&ws_inserting, 0, __ATOMIC_SEQ_CST); }
static void ws_wrap(void)
{
    ws_real = parsec_current_scheduler;
    ws_module.component = ws_real->component;
    ws_module.module.install = ws_install; ws_module.module.flow_init = ws_flow_init; ws_module.module.schedule = ws_schedule;
    ws_module.module.select = ws_select; ws_module.module.display_stats = NULL; ws_module.module.remove = ws_remove;
    parsec_current_scheduler = &ws_module;
    dd_hook_before_insert = ws_before_insert; dd_hook_after_insert = ws_open; dd_hook_before_wait = ws_open;
}
static void ws_unwrap(void) { if (ws_real) parsec_current_scheduler = ws_real; }

/* ------------------------------------------------------------------ workers */
static int prog_cb_all(const dd_prog_t *p, long pidx, void *arg)
{
    (void)arg; ST->states++;
    dd_cfg_t cf[512]; int nc = cfg_list(p, cf);
    int dfs = leg_is("gate") || leg_is("hold");
    for (int c = 0; c < nc; c++) {
        if (dfs) cf[c].api = (int)((pidx + c) & 1) ? ((O.api_mask & 2) ? 1 : 0) : ((O.api_mask & 1) ? 0 : 1);
        for (int a = leg_is("hold") ? 0 : -1; a < (leg_is("hold") ? p->nt : 0); a++) {
            cur_hold = a; ds_hold_tid = a;
            if (run_case(p, &cf[c]) && ST->violations >= 3) return 1;
            if (ST->broken) return 1;
        }
    }
    if (!dfs && ST->nsamples < 2 && (ST->states == 3 || ST->states == 700)) {
        char ps[256]; dd_prog_print(p, ps, sizeof(ps));
        dh_stats_sample(ST, "program [%s] threads=%d sched=%s: %d configurations agree with the reference (tile a finally %ld)", ps, O.threads, O.sched[0] ? O.sched : "default", nc, (long)*(int64_t *)vdc_elem(L.env.dc, 0));
    }
    return 0;
}
static const char *SCHEDS_ALL[] = { "ap", "gd", "ip", "lfq", "lhq", "ll", "llp", "ltq", "pbq", "rnd", "spq" };
static const char *SCHEDS[11]; static int NSCHEDS = 0, ALLSCHEDS = 0;
static void scheds_parse(const char *excl)
{
    NSCHEDS = 0;
    for (int i = 0; i < 11; i++) { char pat[16]; snprintf(pat, sizeof(pat), ",%s,", SCHEDS_ALL[i]); char hay[128]; snprintf(hay, sizeof(hay), ",%s,", excl); if (!strstr(hay, pat)) SCHEDS[NSCHEDS++] = SCHEDS_ALL[i]; }
}
static parsec_context_t *leg_setup(void)
{
    int dfs = leg_is("gate") || leg_is("hold");
    int threads = leg_is("gate") ? 1 : leg_is("hold") ? 2 : O.threads;
    O.threads = threads;
    parsec_context_t *ctx = rt_init(threads);
    if (dfs) { ds_install(ctx); ds_nstreams = threads; ds_on_livelock = on_livelock; ds_hold_mode = leg_is("hold"); dd_hook_before_insert = gate_hook; if (ds_hold_mode) dd_hook_body_inside = ds_hold_body; }
    if (leg_is("mt")) ws_wrap();
    dd_env_init(&L.env, ctx, O.ntiles);
    if (O.isolate) {   /* warm-up in the worker itself: start the context, create the data collection, fault in the allocator, so that the forked case children do not pay for it */
        dd_prog_t wp; dd_prog_parse(&wp, "RWa"); wp.ntiles = O.ntiles; dd_cfg_t wc = { 0, 0, 0, -1, -1, 0 }; dd_res_t wr;
        void (*h)(parsec_taskpool_t *, int) = dd_hook_before_insert; dd_hook_before_insert = NULL; int nr = dd_norecycle; dd_norecycle = 1; int hm = ds_hold_mode; ds_hold_mode = 0; ds_fifo = 1;
        for (int i = 0; i < 3; i++) dd_run(&L.env, &wp, &wc, &wr);
        dd_hook_before_insert = h; dd_norecycle = nr; ds_hold_mode = hm; ds_fifo = 0; ds_again_events = 0;
    }
    return ctx;
}
static void leg_teardown(parsec_context_t *ctx)
{
    dd_env_fini(&L.env);
    if (leg_is("gate") || leg_is("hold")) ds_uninstall(ctx);
    if (leg_is("mt")) ws_unwrap();
    parsec_fini(&ctx);
}
static void worker(int j, int J, void *arg, dh_stats_t *st)
{
    (void)arg; memset(&L, 0, sizeof(L));
    SH = (shared_t *)mmap(NULL, sizeof(shared_t), PROT_READ | PROT_WRITE, MAP_SHARED | MAP_ANONYMOUS, -1, 0);
    memset(SH, 0, sizeof(*SH)); dh_stats_init(ST);
    if (ALLSCHEDS) { O.sched = SCHEDS[j % NSCHEDS]; j = 0; J = 1; }
    if (O.isolate && !(leg_is("gate") || O.threads == 1)) { fprintf(stderr, "--isolate needs a single-threaded worker\n"); st->broken++; return; }
    parsec_context_t *ctx = leg_setup();
    L.t_end = dh_deadline_s > 0 ? dh_now() + dh_deadline_s : 0;
    int cut = 0;
    for_programs(j, J, prog_cb_all, NULL, L.t_end, &cut);
    if (cut) ST->exhaustive = 0;
    leg_teardown(ctx);
    *st = *ST;
}

/* ------------------------------------------------------------------ replay */
static dd_prog_t R_prog; static dd_cfg_t R_cfg; static unsigned char R_ch[DS_MAXPTS]; static int R_nch;
static char R_leg[32], R_sched[32], R_name[64]; static double R_hang = 0;
static void replay_worker(int j, int J, void *arg, dh_stats_t *st)
{
    (void)j; (void)J; (void)arg; memset(&L, 0, sizeof(L));
    SH = (shared_t *)mmap(NULL, sizeof(shared_t), PROT_READ | PROT_WRITE, MAP_SHARED | MAP_ANONYMOUS, -1, 0);
    memset(SH, 0, sizeof(*SH)); dh_stats_init(ST);
    char ps[256]; dd_prog_print(&R_prog, ps, sizeof(ps));
    printf("replay: leg=%s program=[%s] window=%d threshold=%d api=%d gen_at=%d flush_mask=%d hold=%d threads=%d sched=%s norecycle=%d\n", O.leg, ps, R_cfg.window, R_cfg.threshold, R_cfg.api, R_cfg.gen_at, R_cfg.flush_mask, cur_hold, O.threads, O.sched, dd_norecycle);
    dd_ref_t ref; dd_reference(&R_prog, &ref);
    for (int t = 0; t < R_prog.nt; t++) { printf("  reference: task %d sees", t); for (int k = 0; k < R_prog.t[t].np; k++) printf(" %s%c=%ld", dd_mode_name[R_prog.t[t].mode[k]], 'a' + R_prog.t[t].tile[k], (long)ref.seen[t][k]); printf("\n"); }
    int dfs = leg_is("gate") || leg_is("hold");
    if (leg_is("scheds")) O.leg = "inproc";
    if (!dfs && !leg_is("mt") && !leg_is("inproc")) O.leg = "inproc";
    parsec_context_t *ctx = leg_setup();
    ds_hold_tid = cur_hold;
    O.isolate = 0;
    if (dfs) { L.replay = R_ch; L.nreplay = R_nch; L.verbose = 1; if (one_case(&R_prog, &R_cfg)) emit_failure(); }
    else {
        int tries = 0;
        for (; tries < 5000 && !ST->violations; tries++) if (one_case(&R_prog, &R_cfg)) emit_failure();
        printf("  free-running case executed %d times, %d violation(s)\n", tries, ST->violations);
    }
    for (int t = 0; t < R_prog.nt; t++) { printf("  observed:  task %d saw ", t); for (int k = 0; k < R_prog.t[t].np; k++) printf(" %ld", (long)dd_log[t].seen[k]); printf(" (executions: %d, thread %d, stamps %ld..%ld)\n", dd_log[t].count, dd_log[t].th, (long)dd_log[t].enter, (long)dd_log[t].exit); }
    leg_teardown(ctx);
    *st = *ST;
}
static int do_replay(void)
{
    const char *f = dh_replay_file; char b[4096];
    if (dh_replay_get(f, "program", b, sizeof(b)) || dd_prog_parse(&R_prog, b)) { fprintf(stderr, "replay: no/invalid program in %s\n", f); return 2; }
    dh_replay_get(f, "leg", R_leg, sizeof(R_leg)); O.leg = R_leg;
    dh_replay_get(f, "sched", R_sched, sizeof(R_sched)); O.sched = R_sched;
    dh_replay_get(f, "scenario", R_name, sizeof(R_name)); O.name = R_name; O.hash = "64"; O.known = "";
    O.threads = dh_replay_int(f, "threads", 1); O.ntiles = dh_replay_int(f, "tiles", 2);
    R_cfg.window = dh_replay_int(f, "window", 0); R_cfg.threshold = dh_replay_int(f, "threshold", 0); R_cfg.api = dh_replay_int(f, "api", 0);
    dd_norecycle = dh_replay_int(f, "norecycle", 0); O.keep = dh_replay_int(f, "keep", -1); O.oracle = dh_replay_int(f, "oracle", DTD_DEFAULT_ORACLE);
    R_cfg.gen_at = dh_replay_int(f, "gen_at", -1); R_cfg.flush_mask = dh_replay_int(f, "flush_mask", -1); R_cfg.spin = dh_replay_int(f, "spin", 0);
    cur_hold = dh_replay_int(f, "hold", -1);
    R_nch = 0; if (!dh_replay_get(f, "choices", b, sizeof(b))) { const char *c = b; while (*c && R_nch < DS_MAXPTS) { R_ch[R_nch++] = (unsigned char)strtol(c, (char **)&c, 10); if (*c == ',') c++; } }
    dh_stats_t st; dh_hang_s = R_hang > 0 ? R_hang : 20;
    dh_pool(1, replay_worker, NULL, &st);
    if (st.violations) { printf("VIOLATION property=%s replay=%s\n", DTD_PROPERTY, f); return 1; }
    printf("replay: the case passes\n");
    return st.broken ? 2 : 0;
}

int main(int argc, char **argv)
{
    dh_init(argc, argv, DTD_PROPERTY);
    parse_opts(argc, argv);
    R_hang = atof(dh_arg(argc, argv, "--hang", "0"));
    if (dh_replay_file) return do_replay();
    if (R_hang > 0) dh_hang_s = R_hang;
    double t0 = dh_now(); dh_stats_t st; char extra[900];
    scheds_parse(dh_arg(argc, argv, "--exclude", ""));
    ALLSCHEDS = leg_is("scheds") || atoi(dh_arg(argc, argv, "--allscheds", "0"));
    if (leg_is("scheds")) O.leg = "inproc";
    dh_pool(ALLSCHEDS ? NSCHEDS : O.jobs, worker, NULL, &st);
    if (leg_is("hold")) O.threads = 2;
    if (ALLSCHEDS) { static char sl[128]; sl[0] = 0; for (int i = 0; i < NSCHEDS; i++) { strcat(sl, i ? "," : ""); strcat(sl, SCHEDS[i]); } O.sched = sl; }
    if (st.extra[1]) printf("KNOWN-FINDING: property=%s %s leg=%s: %ld case(s) fail with task-object recycling on and pass, identical choice list, with recycling disabled\n", DTD_PROPERTY, ID_ABA, O.name, st.extra[1]);
    if (st.extra[3]) printf("KNOWN-FINDING: property=%s %s leg=%s: %ld program/configuration case(s) with a tile named twice by one task abort on the reader-count assertion\n", DTD_PROPERTY, ID_DUP, O.name, st.extra[3]);
    if (st.extra[7]) printf("KNOWN-FINDING: property=%s %s leg=%s: %ld case(s): the body of a task naming a tile in a writable and then an INPUT parameter got a NULL data pointer for the later parameter\n", DTD_PROPERTY, ID_DUPNULL, O.name, st.extra[7]);
    if (st.extra[8]) printf("KNOWN-FINDING: property=%s %s leg=%s: %ld case(s): a reader after a task naming the tile in two INPUT parameters is never activated (hang confirmed with a 4x limit, no wrong value)\n", DTD_PROPERTY, ID_DUPLOST, O.name, st.extra[8]);
    snprintf(extra, sizeof(extra), "\"programs\":%ld,\"threads\":%d,\"sched\":\"%s\",\"recycling\":%s,\"tree_nodes\":%ld,\"max_choice_points\":%ld,\"again_resubmissions\":%ld,\"attributed_aba\":%ld,\"attributed_dup\":%ld,\"attributed_dup_null\":%ld,\"attributed_dup_lost\":%ld,\"overlapped_with_held\":%ld,\"runs_with_readers_together\":%ld",
             st.states, O.threads, O.sched[0] ? O.sched : "default", dd_norecycle ? "false" : "true", st.extra[0], st.extra[10], st.extra[2], st.extra[1], st.extra[3], st.extra[7], st.extra[8], st.extra[4], st.extra[5]);
    dh_report(O.name, &st, dh_now() - t0, extra);
    return dh_finish(st.violations, st.broken);
}
