/* C39 (E2, full boxes): argument-vector utilities and command-line parsing are consistent.
 *
 * parsec/utils/argv.c is compiled into this TU with its heap calls routed to an exact-size allocator with
 * red zones (so an off-by-one in a realloc size shows up as a red-zone hit instead of silently working);
 * the definitions here also interpose the ones libparsec's cmd_line.c calls. cmd_line.c itself is used from
 * the library. Three boxes are enumerated completely; every case runs in a worker process, so a crash of
 * the code under test is reported as a violation of that case and the enumeration continues behind it.
 *
 *   split_join : every string over {a,b,<delim>} up to length L (+ tokens around the 128-byte buffer limit)
 *   edits      : every argv of <= 4 elements over {"x","yy",""} x every delete/insert/insert_element/
 *                prepend/append/append_unique/copy/join_range argument combination
 *   cmdline    : every arrangement of <= T tokens from a 15-token alphabet over three declared options
 *                (0/1/2 parameters; short, single-dash and long names), with ignore_unknown in {0,1}
 */
#include "parsec/parsec_config.h"
#include <stdlib.h>
#include <string.h>
#include <stdio.h>
#include <stdbool.h>
#include <unistd.h>
#include <signal.h>
#include <fcntl.h>
#include <sys/mman.h>
#include <sys/wait.h>
#include "parsec/constants.h"
#include "parsec/utils/argv.h"
#include "parsec/utils/cmd_line.h"
#include "seqx.h"

/* ------------------------------------------------------------------ tracking allocator (for argv.c only) */
#define HX_MAX 1024
#define HX_RED 16
typedef struct { unsigned char *p; size_t n; } hx_ent_t;
static hx_ent_t hx_tab[HX_MAX]; static int hx_hi;
static char hx_err[200];
static void hx_note(const char *m) { if (!hx_err[0]) snprintf(hx_err, sizeof(hx_err), "%s", m); }
static int hx_find(void *p) { if (p) for (int i = 0; i < hx_hi; i++) if (hx_tab[i].p == (unsigned char *)p) return i; return -1; }
static void *hx_new(size_t n, int fill)
{
    unsigned char *p = malloc(n + HX_RED);
    memset(p, fill, n); memset(p + n, 0xA5, HX_RED);
    int i = hx_find(p);                                  /* stale entry of a block the library freed directly */
    if (i < 0) { for (i = 0; i < hx_hi; i++) if (!hx_tab[i].p) break; if (i == hx_hi) { if (hx_hi == HX_MAX) { fprintf(stderr, "C39 harness: allocation table full\n"); _exit(2); } hx_hi++; } }
    hx_tab[i].p = p; hx_tab[i].n = n; return p;
}
static void hx_redzone(int i) { for (int k = 0; k < HX_RED; k++) if (hx_tab[i].p[hx_tab[i].n + k] != 0xA5) { hx_note("argv.c wrote past the end of a heap block it allocated"); return; } }
static void *hx_malloc(size_t n) { return hx_new(n, 0xA5); }
static void hx_free(void *p) { int i = hx_find(p); if (i >= 0) { hx_redzone(i); memset(p, 0xDD, hx_tab[i].n); hx_tab[i].p = NULL; } free(p); }
static void *hx_realloc(void *p, size_t n)
{
    if (!p) return hx_malloc(n);
    int i = hx_find(p); if (i < 0) return realloc(p, n);
    size_t old = hx_tab[i].n; unsigned char *q = hx_new(n, 0xA5);
    memcpy(q, p, old < n ? old : n); hx_free(p); return q;
}
static char *hx_strdup(const char *s) { size_t n = strlen(s) + 1; char *p = hx_new(n, 0xA5); memcpy(p, s, n); return p; }
static void hx_check_all(void) { for (int i = 0; i < hx_hi; i++) if (hx_tab[i].p) hx_redzone(i); }
static void hx_forget(void) { hx_hi = 0; hx_err[0] = 0; }   /* per case: leaks of earlier cases are dropped from the table */

#define malloc(n)     hx_malloc(n)
#define realloc(p, n) hx_realloc(p, n)
#define free(p)       hx_free(p)
#undef strdup
#define strdup(s)     hx_strdup(s)
#include "parsec/utils/argv.c"          /* the code under test, from /repo's working tree */
#undef malloc
#undef realloc
#undef free
#undef strdup

/* ------------------------------------------------------------------ worker / crash isolation */
typedef struct {
    volatile long index;                 /* cases completed by all workers of this leg */
    volatile long evals, nontrivial, observations;
    volatile int nviol;
    char viol_case[3][1024], viol_msg[3][512];
    char cur[1024];                      /* case being executed (for crash attribution) */
    volatile int done, cut;              /* cut: the deadline stopped the enumeration */
} shm_t;
static shm_t *S;
static const char *g_filter;             /* replay: only the case with this string */
static int g_verbose;
typedef struct { uint64_t *v; size_t cap, n; } oset_t;
static oset_t outcomes;
static void oset_add(oset_t *s, uint64_t h)
{
    if (!h) h = 1;
    if (s->n * 2 >= s->cap) { size_t nc = s->cap ? s->cap * 2 : 4096; uint64_t *nv = calloc(nc, 8); for (size_t i = 0; i < s->cap; i++) if (s->v[i]) { size_t j = s->v[i] & (nc - 1); while (nv[j]) j = (j + 1) & (nc - 1); nv[j] = s->v[i]; } free(s->v); s->v = nv; s->cap = nc; }
    size_t j = h & (s->cap - 1); while (s->v[j]) { if (s->v[j] == h) return; j = (j + 1) & (s->cap - 1); } s->v[j] = h; s->n++;
}
static uint64_t fnv(const char *s) { uint64_t h = 1469598103934665603ULL; for (; *s; s++) { h ^= (unsigned char)*s; h *= 1099511628211ULL; } return h; }

static void fail_case(const char *cs, const char *fmt, ...)
{
    char m[512]; va_list ap; va_start(ap, fmt); vsnprintf(m, sizeof(m), fmt, ap); va_end(ap);
    for (char *q = m; *q; q++) if ((unsigned char)*q < 0x20 || (unsigned char)*q > 0x7e) *q = '?';     /* poisoned / garbage strings of the code under test */
    if (g_verbose) printf("  case [%s]: %s\n", cs, m);
    int k = S->nviol; if (k < 3) { snprintf(S->viol_case[k], 1024, "%s", cs); snprintf(S->viol_msg[k], 512, "%s", m); } S->nviol = k + 1;
}
/* returns 1 if the case is to be executed */
static long case_no, skip_until;
static int begin_case(const char *cs)
{
    if (g_filter) { if (strcmp(cs, g_filter)) return 0; }
    else if (case_no++ < skip_until) return 0;
    if (S->nviol >= 3 || S->cut) return 0;
    if (sx_deadline > 0 && (S->evals & 4095) == 0 && sx_now() > sx_deadline) { S->cut = 1; return 0; }
    memcpy(S->cur, cs, strlen(cs) + 1);
    hx_forget();
    S->evals++;
    return 1;
}
static void end_case(const char *cs, const char *outcome, int nontrivial)
{
    hx_check_all();
    if (hx_err[0]) fail_case(cs, "%s", hx_err);
    oset_add(&outcomes, fnv(outcome));
    if (nontrivial) S->nontrivial++;
    if (g_verbose) { char o[700]; snprintf(o, sizeof(o), "%s", outcome); for (char *q = o; *q; q++) if ((unsigned char)*q < 0x20 || (unsigned char)*q > 0x7e) *q = '?'; printf("  case [%s] -> %s\n", cs, o); }
    S->index++;
}

/* ------------------------------------------------------------------ helpers on argv values */
static int av_count(char **v) { int n = 0; if (v) while (v[n]) n++; return n; }
static int av_equal(char **v, char *const *e, int ne) { if (av_count(v) != ne) return 0; for (int i = 0; i < ne; i++) if (strcmp(v[i], e[i])) return 0; return 1; }
static void av_str(char **v, char *b, size_t cap) { size_t o = 0; b[0] = 0; if (!v) { snprintf(b, cap, "NULL"); return; } o += snprintf(b + o, cap - o, "["); for (int i = 0; v[i] && o + 8 < cap; i++) o += snprintf(b + o, cap - o, "%s\"%.40s\"", i ? " " : "", v[i]); snprintf(b + o, cap - o, "]"); }
static char **av_make(char *const *e, int n) { char **v = NULL; if (n == 0) { v = hx_malloc(sizeof(char *)); v[0] = NULL; return v; } for (int i = 0; i < n; i++) parsec_argv_append_nosize(&v, e[i]); return v; }

/* ------------------------------------------------------------------ leg 1: split / join */
static int g_maxlen = 6;
static void one_split(const char *s, int delim)
{
    char cs[1024]; size_t L = strlen(s);
    if (L > 40) snprintf(cs, sizeof(cs), "delim='%c' len=%zu s=%.12s...%s", delim, L, s, s + L - 12); else snprintf(cs, sizeof(cs), "delim='%c' s=<%s>", delim, s);
    if (!begin_case(cs)) return;
    /* reference: fields between delimiters */
    static char *f[1100]; static char buf[2200]; int nf = 0; { size_t o = 0; const char *p = s; for (;;) { const char *q = strchr(p, delim); size_t l = q ? (size_t)(q - p) : strlen(p); f[nf++] = buf + o; memcpy(buf + o, p, l); buf[o + l] = 0; o += l + 1; if (!q) break; p = q + 1; } }
    static char *ne[1100], *we[1100]; int nne = 0, nwe = 0;
    for (int i = 0; i < nf; i++) if (f[i][0]) ne[nne++] = f[i];
    for (int i = 0; i < nf; i++) we[nwe++] = f[i];
    if (nwe && !we[nwe - 1][0]) nwe--;                 /* a trailing delimiter terminates the last field (no empty field after it) */
    char b1[300], b2[300], out[700];
    char **r1 = parsec_argv_split(s, delim), **r2 = parsec_argv_split_with_empty(s, delim);
    av_str(r1, b1, sizeof(b1)); av_str(r2, b2, sizeof(b2));
    if (!av_equal(r1, ne, nne)) fail_case(cs, "split returned %s (%d fields), expected %d non-empty fields", b1, av_count(r1), nne);
    if (!av_equal(r2, we, nwe)) fail_case(cs, "split_with_empty returned %s (%d fields), expected %d fields", b2, av_count(r2), nwe);
    if (nne == 0 && r1) fail_case(cs, "split of a string without fields returned a non-NULL array");
    /* join(split(s)) == s modulo dropped empty fields */
    static char e1[2300], e2[2300]; e1[0] = e2[0] = 0;
    for (int i = 0; i < nne; i++) { if (i) { size_t l = strlen(e1); e1[l] = (char)delim; e1[l + 1] = 0; } strcat(e1, ne[i]); }
    strcpy(e2, s); if (L && s[L - 1] == delim) e2[L - 1] = 0;
    char *j1 = parsec_argv_join(r1, delim), *j2 = parsec_argv_join(r2, delim);
    if (!j1 || strcmp(j1, e1)) fail_case(cs, "join(split(s)) = \"%.80s\", expected \"%.80s\"", j1 ? j1 : "(null)", e1);
    if (!j2 || strcmp(j2, e2)) fail_case(cs, "join(split_with_empty(s)) = \"%.80s\", expected the original string (without a terminating delimiter) \"%.80s\"", j2 ? j2 : "(null)", e2);
    if (nne == nf && j1 && strcmp(j1, s)) fail_case(cs, "no empty field, but join(split(s)) differs from s");
    /* splitting the joined string again is a fixed point */
    char **r3 = parsec_argv_split(j1 ? j1 : "", delim);
    if (!av_equal(r3, ne, nne)) fail_case(cs, "split(join(split(s))) differs from split(s)");
    snprintf(out, sizeof(out), "%.200s|%.200s|%.100s|%.100s", b1, b2, j1 ? j1 : "", j2 ? j2 : "");
    hx_free(j1); hx_free(j2); parsec_argv_free(r1); parsec_argv_free(r2); parsec_argv_free(r3);
    end_case(cs, out, nf > 1);
}
static void leg_split(void)
{
    static char s[2200]; const char sym[3] = { 'a', 'b', ',' };
    for (int L = 0; L <= g_maxlen; L++) {
        long tot = 1; for (int i = 0; i < L; i++) tot *= 3;
        for (long c = 0; c < tot; c++) { long x = c; for (int i = 0; i < L; i++) { s[i] = sym[x % 3]; x /= 3; } s[L] = 0; one_split(s, ','); }
    }
    /* another delimiter, and the delimiter absent from the alphabet */
    for (int L = 0; L <= 4; L++) { long tot = 1; for (int i = 0; i < L; i++) tot *= 3; for (long c = 0; c < tot; c++) { long x = c; for (int i = 0; i < L; i++) { s[i] = "a:,"[x % 3]; x /= 3; } s[L] = 0; one_split(s, ':'); one_split(s, ' '); } }
    /* tokens around the internal 128-byte buffer */
    const char *pre[] = { "", "b,", ",,", "bb,a," }, *suf[] = { "", ",b", ",", ",,b" };
    int lens[] = { 1, 126, 127, 128, 129, 130, 255, 256, 257, 1000 };
    for (unsigned li = 0; li < sizeof(lens) / sizeof(lens[0]); li++) for (int p = 0; p < 4; p++) for (int q = 0; q < 4; q++) for (int two = 0; two < 2; two++) {
        size_t o = 0; o += sprintf(s + o, "%s", pre[p]); memset(s + o, 'a', lens[li]); o += lens[li];
        if (two) { s[o++] = ','; memset(s + o, 'b', lens[li]); o += lens[li]; }
        sprintf(s + o, "%s", suf[q]); one_split(s, ',');
    }
}

/* ------------------------------------------------------------------ leg 2: positional edits */
static const char *EL[3] = { "x", "yy", "" };
static const char *SRC[2] = { "p", "qq" };
static void arr_name(char *const *e, int n, char *b) { size_t o = 0; o += sprintf(b + o, "["); for (int i = 0; i < n; i++) o += sprintf(b + o, "%s'%s'", i ? "," : "", e[i]); sprintf(b + o, "]"); }
static void check_result(const char *cs, const char *what, char **got, char *const *exp, int nexp)
{
    char b[300]; av_str(got, b, sizeof(b));
    if (!av_equal(got, exp, nexp)) { char eb[200]; arr_name(exp, nexp, eb); fail_case(cs, "%s produced %s, expected %s", what, b, eb); }
}
static void leg_edits(void)
{
    char *e[8]; char an[100], cs[400], out[400];
    for (int n = 0; n <= 4; n++) {
        long tot = 1; for (int i = 0; i < n; i++) tot *= 3;
        for (long c = 0; c < tot; c++) {
            long x = c; for (int i = 0; i < n; i++) { e[i] = (char *)EL[x % 3]; x /= 3; } arr_name(e, n, an);
            /* count / len / copy / join_range */
            snprintf(cs, sizeof(cs), "arr=%s op=count_len_copy", an);
            if (begin_case(cs)) {
                char **v = av_make(e, n); size_t bytes = sizeof(char *); for (int i = 0; i < n; i++) bytes += strlen(e[i]) + 1 + sizeof(char *);
                if (parsec_argv_count(v) != n) fail_case(cs, "count returned %d", parsec_argv_count(v));
                if (parsec_argv_len(v) != bytes) fail_case(cs, "len returned %zu, expected %zu", parsec_argv_len(v), bytes);
                char **cp = parsec_argv_copy(v); check_result(cs, "copy", cp, e, n); if (!cp) fail_case(cs, "copy of a valid (possibly empty) array returned NULL");
                for (int i = 0; cp && i < n; i++) if (cp[i] == v[i]) fail_case(cs, "copy shares the string of element %d", i);
                if (parsec_argv_copy(NULL) != NULL || parsec_argv_count(NULL) != 0 || parsec_argv_len(NULL) != 0) fail_case(cs, "NULL array not handled as documented");
                parsec_argv_free(cp); parsec_argv_free(v); parsec_argv_free(NULL);
                snprintf(out, sizeof(out), "%d/%zu", n, bytes); end_case(cs, out, n > 0);
            }
            for (int st = 0; st <= n + 1; st++) for (int en = 0; en <= n + 2; en++) {
                snprintf(cs, sizeof(cs), "arr=%s op=join_range start=%d end=%d", an, st, en);
                if (!begin_case(cs)) continue;
                char **v = av_make(e, n); char ex[64] = ""; int first = 1;
                for (int i = st; i < en && i < n; i++) { if (!first) strcat(ex, "+"); strcat(ex, e[i]); first = 0; }
                char *j = parsec_argv_join_range(v, st, en, '+');
                if (!j || strcmp(j, ex)) fail_case(cs, "join_range returned \"%s\", expected \"%s\"", j ? j : "(null)", ex);
                snprintf(out, sizeof(out), "%s", j ? j : "(null)"); hx_free(j); parsec_argv_free(v); end_case(cs, out, st < en && st < n);
            }
            /* delete */
            for (int st = -1; st <= n + 1; st++) for (int num = -1; num <= n + 2; num++) {
                snprintf(cs, sizeof(cs), "arr=%s op=delete start=%d num=%d", an, st, num);
                if (!begin_case(cs)) continue;
                char **v = av_make(e, n); int argc = n; char *ex[8]; int nex = 0, erc = PARSEC_SUCCESS;
                if (num == 0 || st > n) { for (int i = 0; i < n; i++) ex[nex++] = e[i]; }
                else if (st < 0 || num < 0) { erc = PARSEC_ERR_BAD_PARAM; for (int i = 0; i < n; i++) ex[nex++] = e[i]; }
                else for (int i = 0; i < n; i++) if (i < st || i >= st + num) ex[nex++] = e[i];
                int rc = parsec_argv_delete(&argc, &v, st, num);
                if (rc != erc) fail_case(cs, "delete returned %d, expected %d", rc, erc);
                check_result(cs, "delete", v, ex, nex);
                if (argc != nex) {
                    /* documented: "will delete all tokens starting with start to the end"; what *argc becomes then is not documented.
                     * The code subtracts num_to_delete even when fewer tokens existed: counted as an observation, not a violation. */
                    if (erc == PARSEC_SUCCESS && num > 0 && st >= 0 && st <= n && st + num > n && argc == n - num) S->observations++;
                    else fail_case(cs, "delete left argc=%d for an array of %d elements", argc, nex);
                }
                snprintf(out, sizeof(out), "rc=%d argc=%d n=%d", rc, argc, av_count(v)); parsec_argv_free(v); end_case(cs, out, nex != n);
            }
            if (begin_case((snprintf(cs, sizeof(cs), "arr=%s op=delete_null", an), cs))) { int argc = 0; char **nv = NULL; if (parsec_argv_delete(&argc, &nv, 0, 1) != PARSEC_SUCCESS || parsec_argv_delete(&argc, NULL, 0, 1) != PARSEC_SUCCESS) fail_case(cs, "delete on a NULL array is documented as a no-op"); end_case(cs, "ok", 0); }
            /* insert (array) */
            for (int st = -1; st <= n + 2; st++) for (int sn = -1; sn <= 2; sn++) for (int sc = 0; sc < (sn <= 0 ? 1 : (sn == 1 ? 2 : 4)); sc++) {
                char *s[3]; char sname[40] = "NULL"; for (int i = 0; i < sn; i++) s[i] = (char *)SRC[(sc >> i) & 1]; if (sn >= 0) arr_name(s, sn, sname);
                snprintf(cs, sizeof(cs), "arr=%s op=insert start=%d source=%s", an, st, sname);
                if (!begin_case(cs)) continue;
                char **v = av_make(e, n), **src = sn < 0 ? NULL : av_make(s, sn); char *ex[12]; int nex = 0, erc = PARSEC_SUCCESS;
                if (st < 0) { erc = PARSEC_ERR_BAD_PARAM; for (int i = 0; i < n; i++) ex[nex++] = e[i]; }
                else { int at = st > n ? n : st; for (int i = 0; i < at; i++) ex[nex++] = e[i]; for (int i = 0; i < sn; i++) ex[nex++] = s[i]; for (int i = at; i < n; i++) ex[nex++] = e[i]; }
                int rc = parsec_argv_insert(&v, st, src);
                if (rc != erc) fail_case(cs, "insert returned %d, expected %d", rc, erc);
                check_result(cs, "insert", v, ex, nex);
                if (src) check_result(cs, "insert (source afterwards)", src, s, sn);
                for (int i = 0; src && i < av_count(v); i++) for (int k = 0; k < sn; k++) if (v[i] == src[k]) fail_case(cs, "insert shares a string with the source array");
                snprintf(out, sizeof(out), "rc=%d n=%d", rc, av_count(v)); parsec_argv_free(v); parsec_argv_free(src); end_case(cs, out, sn > 0 && st >= 0);
            }
            if (begin_case((snprintf(cs, sizeof(cs), "arr=%s op=insert_null_target", an), cs))) { char **nv = NULL; char **src = av_make(e, n); if (parsec_argv_insert(&nv, 0, src) != PARSEC_ERR_BAD_PARAM || parsec_argv_insert(NULL, 0, src) != PARSEC_ERR_BAD_PARAM || parsec_argv_insert_element(&nv, 0, "p") != PARSEC_ERR_BAD_PARAM) fail_case(cs, "insert into a NULL target must return BAD_PARAM"); parsec_argv_free(src); end_case(cs, "ok", 0); }
            /* insert_element */
            for (int st = -1; st <= n + 2; st++) for (int w = 0; w < 3; w++) {
                char *el = w == 0 ? NULL : (char *)SRC[w - 1];
                snprintf(cs, sizeof(cs), "arr=%s op=insert_element at=%d elem=%s", an, st, el ? el : "NULL");
                if (!begin_case(cs)) continue;
                char **v = av_make(e, n); char *ex[12]; int nex = 0, erc = PARSEC_SUCCESS;
                if (st < 0) { erc = PARSEC_ERR_BAD_PARAM; for (int i = 0; i < n; i++) ex[nex++] = e[i]; }
                else { int at = st > n ? n : st; for (int i = 0; i < at; i++) ex[nex++] = e[i]; if (el) ex[nex++] = el; for (int i = at; i < n; i++) ex[nex++] = e[i]; }
                int rc = parsec_argv_insert_element(&v, st, el);
                if (rc != erc) fail_case(cs, "insert_element returned %d, expected %d", rc, erc);
                check_result(cs, "insert_element", v, ex, nex);
                snprintf(out, sizeof(out), "rc=%d n=%d", rc, av_count(v)); parsec_argv_free(v); end_case(cs, out, el && st >= 0);
            }
            /* append / prepend / append_unique, also starting from a NULL array when n == 0 */
            for (int fromnull = 0; fromnull <= (n == 0); fromnull++) for (int w = 0; w < 3; w++) for (int op = 0; op < 4; op++) {
                const char *arg = w < 2 ? EL[w] : "zz"; static const char *opn[] = { "append", "prepend", "append_unique", "append_unique_overwrite" };
                snprintf(cs, sizeof(cs), "arr=%s%s op=%s arg='%s'", fromnull ? "NULL" : "", fromnull ? "" : an, opn[op], arg);
                if (!begin_case(cs)) continue;
                char **v = fromnull ? NULL : av_make(e, n); char *ex[12]; int nex = 0, argc = n, present = -1, rc;
                for (int i = 0; i < n; i++) if (present < 0 && !strcmp(e[i], arg)) present = i;
                if (op == 1) ex[nex++] = (char *)arg;
                for (int i = 0; i < n; i++) ex[nex++] = e[i];
                if (op == 0 || (op >= 2 && present < 0)) ex[nex++] = (char *)arg;
                char *before = (present >= 0 && v) ? v[present] : NULL;
                if (op == 0) rc = parsec_argv_append(&argc, &v, arg); else if (op == 1) rc = parsec_argv_prepend_nosize(&v, arg); else rc = parsec_argv_append_unique_nosize(&v, arg, op == 3);
                if (rc != PARSEC_SUCCESS) fail_case(cs, "%s returned %d", opn[op], rc);
                check_result(cs, opn[op], v, ex, nex);
                if (op == 0 && argc != nex) fail_case(cs, "append set argc=%d for %d elements", argc, nex);
                if (op == 2 && present >= 0 && v[present] != before) fail_case(cs, "append_unique without overwrite replaced the existing element");
                for (int i = 0; i < av_count(v); i++) if (v[i] == arg) fail_case(cs, "%s stored the caller's pointer instead of a copy", opn[op]);
                snprintf(out, sizeof(out), "rc=%d n=%d", rc, av_count(v)); parsec_argv_free(v); end_case(cs, out, 1);
            }
        }
    }
}

/* ------------------------------------------------------------------ leg 3: command-line parsing */
typedef struct { char sh; const char *sd, *lg; int np; } odecl_t;
static const odecl_t decl[3] = { { 'a', NULL, "alpha", 0 }, { 'b', "beta", "bravo", 1 }, { 'c', "cc", "charlie", 2 } };
static const char *TOK[] = { "-a", "--alpha", "-b", "-beta", "--bravo", "-c", "-cc", "--charlie", "x", "y", "--", "-ab", "-ca", "-z", "--zulu", "-bc", "-cb" };   /* -bc / -cb: two parameter-taking options in one combined token (seeded change C39-1) */
#define NTOK ((int)(sizeof(TOK) / sizeof(TOK[0])))
static int g_maxtok = 5;
static int m_lookup(const char *name) { for (int k = 0; k < 3; k++) if ((decl[k].lg && !strcmp(name, decl[k].lg)) || (decl[k].sd && !strcmp(name, decl[k].sd)) || (strlen(name) == 1 && name[0] == decl[k].sh)) return k; return -1; }
#define SPECIAL "\x01"                    /* model's marker for "parameter missing after expanding combined short options" */
typedef struct { int rc; int ninst; int iopt[16]; const char *ipar[16][2]; int ntail; const char *tail[16]; int tail_checked; int expanded; } mres_t;
static void model_parse(const char **tok, int nt, int ignore_unknown, mres_t *r)
{
    static char fake[16][3]; int nfake = 0; const char *L[40]; int n = 0;
    memset(r, 0, sizeof(*r)); r->rc = PARSEC_SUCCESS; r->tail_checked = 1;
    for (int i = 0; i < nt; i++) L[n++] = tok[i];
    int i = 0;
    while (i < n) {
        const char *t = L[i]; int o = -1;
        if (!strcmp(t, "--")) { for (int k = i + 1; k < n; k++) r->tail[r->ntail++] = L[k]; return; }
        if (t[0] != '-') { if (!ignore_unknown) r->rc = PARSEC_ERROR; for (int k = i; k < n; k++) r->tail[r->ntail++] = L[k]; return; }
        if (!strncmp(t, "--", 2)) o = m_lookup(t + 2);
        else {
            o = m_lookup(t + 1);
            if (o < 0 && t[1]) {          /* combined single-letter options */
                const char *out[24]; int no = 0, used = 0, bad = 0;
                for (const char *c = t + 1; *c; c++) {
                    char nm[2] = { *c, 0 }; int oo = m_lookup(nm);
                    if (oo < 0 && !ignore_unknown) { bad = 1; break; }
                    fake[nfake][0] = '-'; fake[nfake][1] = *c; fake[nfake][2] = 0; out[no++] = fake[nfake++];
                    if (oo >= 0) for (int j = 0; j < decl[oo].np; j++) out[no++] = (i + 1 + used < n) ? L[i + 1 + used++] : SPECIAL;
                }
                if (!bad && (o = m_lookup(out[0] + 1)) >= 0) {
                    const char *N[40]; int nn = 0; for (int k = 0; k < i; k++) N[nn++] = L[k]; for (int k = 0; k < no; k++) N[nn++] = out[k]; for (int k = i + 1 + used; k < n; k++) N[nn++] = L[k];
                    memcpy(L, N, sizeof(char *) * nn); n = nn; r->expanded = 1;
                }
            }
        }
        if (o < 0) { r->rc = PARSEC_ERROR; for (int k = i; k < n; k++) r->tail[r->ntail++] = L[k]; return; }   /* unknown option: always an error */
        i++;
        for (int j = 0; j < decl[o].np; j++, i++) {
            if (i >= n) { r->rc = PARSEC_ERROR; return; }                       /* ran out of tokens: nothing left for the tail */
            if (!strcmp(L[i], SPECIAL)) { r->rc = PARSEC_ERROR; r->tail_checked = 0; return; }
            r->ipar[r->ninst][j] = L[i];
        }
        r->iopt[r->ninst++] = o;
    }
}
static int saved_stderr = -1;
static void one_cmdline(const int *ti, int nt, int ignore_unknown)
{
    char cs[400]; size_t o = 0; o += snprintf(cs + o, sizeof(cs) - o, "ignore_unknown=%d argv=prog", ignore_unknown);
    const char *tok[8]; for (int i = 0; i < nt; i++) { tok[i] = TOK[ti[i]]; o += snprintf(cs + o, sizeof(cs) - o, " %s", tok[i]); }
    if (!begin_case(cs)) return;
    mres_t m; model_parse(tok, nt, ignore_unknown, &m);
    char *argv[10]; argv[0] = "prog"; for (int i = 0; i < nt; i++) argv[i + 1] = (char *)tok[i]; argv[nt + 1] = NULL;
    parsec_cmd_line_t cmd; PARSEC_OBJ_CONSTRUCT(&cmd, parsec_cmd_line_t);
    for (int k = 0; k < 3; k++) if (parsec_cmd_line_make_opt3(&cmd, decl[k].sh, decl[k].sd, decl[k].lg, decl[k].np, "help text") != PARSEC_SUCCESS) fail_case(cs, "make_opt3 failed");
    int rc = parsec_cmd_line_parse(&cmd, ignore_unknown, nt + 1, argv);
    char out[600]; size_t oo = 0; oo += snprintf(out + oo, sizeof(out) - oo, "rc=%d", rc);
    if ((rc == PARSEC_SUCCESS) != (m.rc == PARSEC_SUCCESS)) fail_case(cs, "parse returned %d, expected %s", rc, m.rc == PARSEC_SUCCESS ? "success" : "an error");
    for (int i = 0; i <= nt; i++) if (argv[i] != (i ? tok[i - 1] : argv[0]) ) fail_case(cs, "parse modified the caller's argv");
    /* every declared option, by each of its names: instances and parameters */
    for (int k = 0; k < 3; k++) {
        int want = 0; for (int q = 0; q < m.ninst; q++) if (m.iopt[q] == k) want++;
        char shn[2] = { decl[k].sh, 0 }; const char *nm[3] = { shn, decl[k].sd, decl[k].lg };
        for (int f = 0; f < 3; f++) {
            if (!nm[f]) continue;
            int got = parsec_cmd_line_get_ninsts(&cmd, nm[f]);
            if (got != want) { fail_case(cs, "option %s reported %d times, expected %d", nm[f], got, want); continue; }
            if (parsec_cmd_line_is_taken(&cmd, nm[f]) != (want > 0)) fail_case(cs, "is_taken(%s) inconsistent with %d instances", nm[f], want);
            int inst = 0;
            for (int q = 0; q < m.ninst; q++) if (m.iopt[q] == k) {
                for (int j = 0; j < decl[k].np; j++) { char *p = parsec_cmd_line_get_param(&cmd, nm[f], inst, j); if (!p || strcmp(p, m.ipar[q][j])) fail_case(cs, "parameter %d of instance %d of %s is \"%s\", expected \"%s\"", j, inst, nm[f], p ? p : "(null)", m.ipar[q][j]); }
                if (parsec_cmd_line_get_param(&cmd, nm[f], inst, decl[k].np) != NULL) fail_case(cs, "option %s has %d parameters but parameter %d is not NULL", nm[f], decl[k].np, decl[k].np);
                inst++;
            }
            if (decl[k].np && parsec_cmd_line_get_param(&cmd, nm[f], want, 0) != NULL) fail_case(cs, "instance %d of %s does not exist but has a parameter", want, nm[f]);
        }
        oo += snprintf(out + oo, sizeof(out) - oo, " %c*%d", decl[k].sh, want);
    }
    if (parsec_cmd_line_get_ninsts(&cmd, "zulu") != 0 || parsec_cmd_line_is_taken(&cmd, "z")) fail_case(cs, "an undeclared option is reported as taken");
    for (int q = 0; q < m.ninst; q++) { oo += snprintf(out + oo, sizeof(out) - oo, " %c(", decl[m.iopt[q]].sh); for (int j = 0; j < decl[m.iopt[q]].np; j++) oo += snprintf(out + oo, sizeof(out) - oo, "%s%s", j ? "," : "", m.ipar[q][j]); oo += snprintf(out + oo, sizeof(out) - oo, ")"); }
    /* the tail */
    int tc = -1; char **tv = NULL;
    if (parsec_cmd_line_get_tail(&cmd, &tc, &tv) != PARSEC_SUCCESS) fail_case(cs, "get_tail failed");
    if (m.tail_checked) {
        char b[300]; av_str(tv, b, sizeof(b));
        if (tc != m.ntail || !av_equal(tv, (char *const *)m.tail, m.ntail)) fail_case(cs, "tail is %s (tailc=%d), expected %d tokens starting with \"%s\"", b, tc, m.ntail, m.ntail ? m.tail[0] : "");
    }
    oo += snprintf(out + oo, sizeof(out) - oo, " tail=%d", tc); for (int i = 0; i < tc && tv && i < 6; i++) oo += snprintf(out + oo, sizeof(out) - oo, ",%s", tv[i]);
    if (!m.expanded) { if (parsec_cmd_line_get_argc(&cmd) != nt + 1) fail_case(cs, "get_argc returned %d for %d tokens", parsec_cmd_line_get_argc(&cmd), nt + 1); for (int i = 0; i <= nt; i++) { char *a = parsec_cmd_line_get_argv(&cmd, i); if (!a || strcmp(a, argv[i])) fail_case(cs, "get_argv(%d) differs from the parsed command line", i); } if (parsec_cmd_line_get_argv(&cmd, nt + 1) || parsec_cmd_line_get_argv(&cmd, -1)) fail_case(cs, "get_argv outside the range is not NULL"); }
    parsec_argv_free(tv);
    /* parsing again on the same handle erases the previous results */
    char *argv2[3] = { "prog", "--alpha", NULL };
    if (parsec_cmd_line_parse(&cmd, false, 2, argv2) != PARSEC_SUCCESS || parsec_cmd_line_get_ninsts(&cmd, "alpha") != 1 || parsec_cmd_line_get_ninsts(&cmd, "b") != 0 || parsec_cmd_line_get_ninsts(&cmd, "c") != 0) fail_case(cs, "a second parse on the same handle did not replace the results of the first");
    int tc2 = -1; char **tv2 = NULL; parsec_cmd_line_get_tail(&cmd, &tc2, &tv2); if (tc2 != 0) fail_case(cs, "a second parse kept the tail of the first"); parsec_argv_free(tv2);
    PARSEC_OBJ_DESTRUCT(&cmd);
    end_case(cs, out, m.ninst > 0);
}
static void leg_cmdline(void)
{
    int ti[8];
    for (int nt = 0; nt <= g_maxtok; nt++) {
        long tot = 1; for (int i = 0; i < nt; i++) tot *= NTOK;
        for (long c = 0; c < tot; c++) { long x = c; for (int i = nt - 1; i >= 0; i--) { ti[i] = (int)(x % NTOK); x /= NTOK; } one_cmdline(ti, nt, 0); one_cmdline(ti, nt, 1); }
    }
}

/* ------------------------------------------------------------------ driver */
static int run_leg(const char *name, void (*leg)(void))
{
    double t0 = sx_now(); int crashes = 0, exhaustive = 1;
    memset(S, 0, sizeof(*S));
    long total_outcomes = 0;
    int pfd[2];
    for (;;) {
        if (pipe(pfd)) { perror("pipe"); exit(2); }
        fflush(NULL);
        pid_t p = fork();
        if (p < 0) { perror("fork"); exit(2); }
        if (p == 0) {
            close(pfd[0]); alarm(3000);
            int dn = open("/dev/null", O_WRONLY); if (dn >= 0) { dup2(dn, 2); close(dn); }      /* the parser prints its diagnostics to stderr */
            skip_until = S->index; case_no = 0;
            leg();
            long no = (long)outcomes.n; if (write(pfd[1], &no, sizeof(no)) != sizeof(no)) _exit(3);
            S->done = 1; _exit(0);
        }
        close(pfd[1]); long no = 0; int ws;
        if (read(pfd[0], &no, sizeof(no)) == sizeof(no)) total_outcomes += no;
        close(pfd[0]); waitpid(p, &ws, 0);
        if (S->done) break;
        /* the worker died inside a case */
        crashes++; exhaustive = 0;
        char msg[300];
        if (WIFSIGNALED(ws)) snprintf(msg, sizeof(msg), "the code under test crashed (signal %d: %s)", WTERMSIG(ws), strsignal(WTERMSIG(ws))); else snprintf(msg, sizeof(msg), "the worker exited with status %d inside this case", WEXITSTATUS(ws));
        int k = S->nviol; if (k < 3) { snprintf(S->viol_case[k], 1024, "%s", S->cur); snprintf(S->viol_msg[k], 512, "%s", msg); } S->nviol = k + 1;
        S->index++;
        if (S->nviol >= 3 || (sx_deadline > 0 && sx_now() > sx_deadline)) break;
    }
    for (int k = 0; k < S->nviol && k < 3; k++) sx_violation(name, S->viol_case[k], S->viol_msg[k]);
    if (S->nviol || S->cut) exhaustive = 0;
    char extra[200]; snprintf(extra, sizeof(extra), "\"crashes\":%d,\"observations\":%ld", crashes, (long)S->observations);
    const char *sp[1] = { S->cur };
    sx_report(name, total_outcomes, S->evals, S->evals, S->nontrivial, total_outcomes, exhaustive, S->nviol, sx_now() - t0, extra, sp, 1);
    return S->nviol;
}

int main(int argc, char **argv)
{
    sx_init(argc, argv, "C39");
    for (int i = 1; i < argc; i++) { if (!strcmp(argv[i], "--maxlen") && i + 1 < argc) g_maxlen = atoi(argv[++i]); else if (!strcmp(argv[i], "--maxtok") && i + 1 < argc) g_maxtok = atoi(argv[++i]); }
    S = mmap(NULL, sizeof(shm_t), PROT_READ | PROT_WRITE, MAP_SHARED | MAP_ANONYMOUS, -1, 0);
    if (S == MAP_FAILED) { perror("mmap"); return 2; }
    struct { const char *name; void (*fn)(void); } legs[] = { { "split_join", leg_split }, { "edits", leg_edits }, { "cmdline", leg_cmdline } };
    if (sx_replay_file) {
        static char sc[128], h[4096]; if (sx_read_replay(sx_replay_file, sc, sizeof(sc), h, sizeof(h))) return 2;
        g_filter = h; g_verbose = 1; memset(S, 0, sizeof(*S));
        for (int l = 0; l < 3; l++) if (!strcmp(legs[l].name, sc)) {
            fflush(NULL); pid_t p = fork();
            if (p == 0) { legs[l].fn(); _exit(S->nviol ? 1 : 0); }
            int ws; waitpid(p, &ws, 0);
            if (WIFSIGNALED(ws)) { printf("  case [%s]: the code under test crashed (signal %d: %s)\n", h, WTERMSIG(ws), strsignal(WTERMSIG(ws))); S->nviol++; }
            if (!S->evals) { fprintf(stderr, "replay: case not found in the box\n"); return 2; }
            if (S->nviol) { printf("VIOLATION property=C39 replay=%s\n", sx_replay_file); return 1; }
            printf("replay: case passes\n"); return 0;
        }
        fprintf(stderr, "unknown scenario %s\n", sc); return 2;
    }
    for (int l = 0; l < 3; l++) run_leg(legs[l].name, legs[l].fn);
    return sx_finish();
}
