import os, vlib
META = dict(
    engine='cosched+seqx',
    technique='stateless model checking (CHESS-style preemption-bounded schedule enumeration) of the real arena and thread mempools with a tracking allocator and ownership ground truth, plus exhaustive BFS over allocate/release histories of the real arena against a counter model',
    level_text='E1: every schedule with <= b preemptions (b=2 quick, 3 thorough) of 15 two/three-thread allocate/tag/verify/release scripts over a shared parsec_arena_t (limits (2,1),(2,0),(3,0),(inf,1),(3,2),(4,2),(2,inf),(4,1),(4,0); element counts 1 and 2) and over a shared parsec_mempool_t (blocks freed by the other thread: owner-return path); after every allocation: alignment, size, distinct live owners, owned elements <= max_used; at rest: counters equal the real list contents, exactly max_used single blocks can be had, no leak, no double free; at most max_released blocks cached (also with two or three threads releasing at the same time). E2: all allocate(1)/allocate(2)/release(k) histories up to depth 8 (thorough 10) for six (max_used,max_cached,elem,alignment) settings against a counter model (grant/refuse, cache hit/miss, counters, cache size).',
    level_note='Sequential consistency at instrumented accesses; 2-3 threads, <= 5 operations per thread; the arena is driven through parsec_arena_allocate_device_private / parsec_arena_release with harness-built data copies (the chunk layer under test is unchanged), blocks come from a tracking allocator installed in arena->data_malloc/data_free.',
)
RULE = ("cosched: every schedule of each 2-3 thread script with at most b preemptions (scheduling points = every instrumented access to the arena's "
        "free-list head, its used/released counters, the list links of every block, the mempools' list heads/nb_elt, the links of every pool "
        "element and the hand-over mailbox); non-trivial = at least one preemption; states = nodes of the schedule tree; distinct outcomes = "
        "distinct (grants, refusals, cache hits, cached blocks, used counter, system allocations). seqx: BFS over operation histories "
        "deduplicated by (used, cached, released, blocks held, free-list shape); non-trivial = history of >= 2 operations")
def build(ctx):
    return ctx.compile('hk-shm', 'arena', ['arena_conc.c'], engine='cosched')
def build_seq(ctx, depth):
    return ctx.compile('hk-shm', 'arenaseq%d' % depth, ['arena_seq.c'], instr=False, cflags=['-DMAXDEPTH=%d' % depth])
def check(ctx):
    exe = build(ctx)
    def leg(sets, bound, deadline):
        env = dict(os.environ); env['C27_SET'] = sets
        args = ['--bound', str(bound), '--jobs', str(min(vlib.NJOBS, 4 if ctx.tier == 'quick' else 12)), '--outdir', vlib.OUT, '--deadline', str(deadline)]
        ctx.run_engine(exe, args, label='arena-%s-b%d' % (sets, bound), timeout=deadline + 600, env=env)
    if ctx.tier == 'quick':
        leg('a', 2, 30)
        leg('k', 2, 6)
        leg('b', 1, 8)
        ctx.run_engine(build_seq(ctx, 8), ['--outdir', vlib.OUT, '--deadline', '20'], label='arena-seq-d8', timeout=300)
    else:
        leg('a', 3, 300)
        leg('k', 3, 45)
        leg('b', 2, 250)
        ctx.run_engine(build_seq(ctx, 10), ['--outdir', vlib.OUT, '--deadline', '120'], label='arena-seq-d10', timeout=900)
    return ctx.finish(RULE, ["sequential consistency at instrumented accesses (no weak-memory effects)",
                             "gcc -fsanitize=thread instrumentation reports every access to the watched objects",
                             "owners respect the usage contract (a block is released once, by its owner, after detaching the copy)"])
def replay(ctx, path, obj):
    import subprocess
    if obj.get('engine') == 'seqx':
        return subprocess.call([build_seq(ctx, 10), '--replay', path])
    return subprocess.call([build(ctx), '--replay', path])
