"""C05: enumerated PTG program family with data-collection placement.

Each family is ONE .jdf (globals: A, B collections sharing one owner table; ints N, M, L); a VARIANT is a family with
concrete (N, M, L).  For every variant this module builds the list of task instances in a topological order (a tiny
reference interpreter), computes - sequentially, independent of any placement - the value every instance must read on each
flow and the final value of every tile, and emits the C table consumed by the generic MPI driver (drv.c).

Tile model: a tile holds E int64; its "value" v is element 0 and element e>0 is mix(v + e) (well-formedness is checked by the
bodies and by the final audit).  A task (cls, k) that reads values i0..i(m-1) (all its READ and RW flows, in flow order)
writes on its j-th written flow  H(cls, k, j, i0..i(m-1)).  Initial values: A[i] = mix(1000 + i), B[i] = mix(2000 + i).

Programs are valid in the sense C05 needs: every collection tile is modified by at most one task and only in place by the task
that owns it (or the final content is declared dont-care: the travelling tile of `pipeline`), no write-back to a remote tile,
one data shape per flow.
"""
import itertools

M64 = (1 << 64) - 1


def mix(x):
    x = (x + 0x9e3779b97f4a7c15) & M64
    x = ((x ^ (x >> 30)) * 0xbf58476d1ce4e5b9) & M64
    x = ((x ^ (x >> 27)) * 0x94d049bb133111eb) & M64
    return x ^ (x >> 31)


def H(cls, k, j, ins):
    h = mix(0xC05 ^ (cls << 8) ^ (k << 16) ^ (j << 24))
    for v in ins:
        h = mix(h ^ v)
    return h


HDR = '''extern "C" %{
#include <stdint.h>
#include "parsec/data_distribution.h"
extern void c05_body(int slot, int cls, int k, int nin, void **in, int nout, void **out);
%}
A [type = "parsec_data_collection_t*"]
B [type = "parsec_data_collection_t*"]
N [type = int]
M [type = int]
L [type = int]
SLOT [type = int]
'''


def body(cls, k, ins, outs):
    return ('BODY\n{ void *in_[%d] = {%s}; void *out_[%d] = {%s}; c05_body(SLOT, %d, %s, %d, in_, %d, out_); }\nEND\n'
            % (max(len(ins), 1), ', '.join(ins) or 'NULL', max(len(outs), 1), ', '.join(outs) or 'NULL', cls, k, len(ins), len(outs)))


JDF = {}

# --- chainread: T(k) produces R (its own tile B(k)), the next task reads it ------------------------------------------------
JDF['chainread'] = HDR + '''
T(k)
k = 0 .. N-1
: A(k)
READ P <- (k == 0) ? A(0) : R T(k-1)
RW R <- B(k)
     -> B(k)
     -> (k < N-1) ? P T(k+1)
''' + body(0, 'k', ['P', 'R'], ['R'])

# --- pipeline: one tile travels RW through N tasks; every stage records what it saw into its own B(k) ----------------------
JDF['pipeline'] = HDR + '''
T(k)
k = 0 .. N-1
: A(k)
RW X <- (k == 0) ? A(0) : X T(k-1)
     -> (k < N-1) ? X T(k+1)
RW R <- B(k)
     -> B(k)
''' + body(0, 'k', ['X', 'R'], ['X', 'R'])

# --- bcast: one output to a range of consumers (step L) ---------------------------------------------------------------------
JDF['bcast'] = HDR + '''
P(z)
z = 0 .. 0
: A(0)
RW X <- A(0)
     -> A(0)
     -> X C(1 .. N-1 .. L)
''' + body(0, 'z', ['X'], ['X']) + '''
C(i)
i = 1 .. N-1 .. L
: A(i)
READ X <- X P(0)
RW R <- B(i)
     -> B(i)
''' + body(1, 'i', ['X', 'R'], ['R'])

# --- twoout: two outputs with different destination sets: X -> C1(1..M), Y -> C2(L..N-1) -------------------------------------
JDF['twoout'] = HDR + '''
P(z)
z = 0 .. 0
: A(0)
RW X <- A(0)
     -> A(0)
     -> X C1(1 .. M)
RW Y <- B(0)
     -> B(0)
     -> Y C2(L .. N-1)
''' + body(0, 'z', ['X', 'Y'], ['X', 'Y']) + '''
C1(i)
i = 1 .. M
: A(i)
READ X <- X P(0)
RW R <- B(i)
     -> B(i)
''' + body(1, 'i', ['X', 'R'], ['R']) + '''
C2(j)
j = L .. N-1
: A(j)
READ Y <- Y P(0)
RW Q <- A(j)
     -> A(j)
''' + body(2, 'j', ['Y', 'Q'], ['Q'])

# --- gather2 / gather3: a reduction-like gather of 2 (3) values produced on other tiles --------------------------------------
JDF['gather2'] = HDR + '''
S(i)
i = 1 .. 2
: A(i)
RW R <- B(i)
     -> B(i)
     -> (i == 1) ? I1 G(0) : I2 G(0)
''' + body(0, 'i', ['R'], ['R']) + '''
G(z)
z = 0 .. 0
: A(0)
READ I1 <- R S(1)
READ I2 <- R S(2)
RW Z <- A(0)
     -> A(0)
''' + body(1, 'z', ['I1', 'I2', 'Z'], ['Z'])

JDF['gather3'] = HDR + '''
S(i)
i = 1 .. 3
: A(i)
RW R <- B(i)
     -> B(i)
     -> (i == 1) ? I1 G(0)
     -> (i == 2) ? I2 G(0)
     -> (i == 3) ? I3 G(0)
''' + body(0, 'i', ['R'], ['R']) + '''
G(z)
z = 0 .. 0
: A(0)
READ I1 <- R S(1)
READ I2 <- R S(2)
READ I3 <- R S(3)
RW Z <- A(0)
     -> A(0)
''' + body(1, 'z', ['I1', 'I2', 'I3', 'Z'], ['Z'])

# --- diamond: broadcast to two, both feed a join -------------------------------------------------------------------------------
JDF['diamond'] = HDR + '''
P(z)
z = 0 .. 0
: A(0)
RW X <- A(0)
     -> A(0)
     -> X C(1 .. 2)
''' + body(0, 'z', ['X'], ['X']) + '''
C(i)
i = 1 .. 2
: A(i)
READ X <- X P(0)
RW R <- B(i)
     -> B(i)
     -> (i == 1) ? I1 G(0) : I2 G(0)
''' + body(1, 'i', ['X', 'R'], ['R']) + '''
G(z)
z = 0 .. 0
: A(3)
READ I1 <- R C(1)
READ I2 <- R C(2)
RW Z <- B(3)
     -> B(3)
''' + body(2, 'z', ['I1', 'I2', 'Z'], ['Z'])

# --- ctlchain: control-only dependencies across ranks ----------------------------------------------------------------------------
JDF['ctlchain'] = HDR + '''
T(k)
k = 0 .. N-1
: A(k)
RW R <- B(k)
     -> B(k)
CTL S <- (k > 0) ? S T(k-1)
      -> (k < N-1) ? S T(k+1)
''' + body(0, 'k', ['R'], ['R'])

FAMILIES = ['chainread', 'pipeline', 'bcast', 'twoout', 'gather2', 'gather3', 'diamond', 'ctlchain']
CLASS_NAMES = {'chainread': ['T'], 'pipeline': ['T'], 'bcast': ['P', 'C'], 'twoout': ['P', 'C1', 'C2'], 'gather2': ['S', 'G'],
               'gather3': ['S', 'G'], 'diamond': ['P', 'C', 'G'], 'ctlchain': ['T']}


class Inst:
    """tile: the A-tile the instance is placed on; ins: sources in flow order, ('A', i) | ('B', i) | (cls, k, outpos);
    nout: number of written flows; wb: {outpos: ('A'|'B', i)} write-backs (always to a tile with the instance's owner);
    succ: [[tile of each consumer instance] for each OUTPUT in the order the runtime numbers them]"""
    def __init__(self, cls, k, tile, ins, nout, wb, succ):
        self.cls, self.k, self.tile, self.ins, self.nout, self.wb, self.succ = cls, k, tile, ins, nout, wb, succ


def instances(fam, N, M, L):
    I = []
    if fam == 'chainread':
        for k in range(N):
            I.append(Inst(0, k, k, [('A', 0) if k == 0 else (0, k - 1, 0), ('B', k)], 1, {0: ('B', k)}, [[k + 1]] if k < N - 1 else []))
    elif fam == 'pipeline':
        for k in range(N):
            I.append(Inst(0, k, k, [('A', 0) if k == 0 else (0, k - 1, 0), ('B', k)], 2, {1: ('B', k)}, [[k + 1]] if k < N - 1 else []))
    elif fam == 'bcast':
        cons = list(range(1, N, L))
        I.append(Inst(0, 0, 0, [('A', 0)], 1, {0: ('A', 0)}, [cons]))
        for i in cons:
            I.append(Inst(1, i, i, [(0, 0, 0), ('B', i)], 1, {0: ('B', i)}, []))
    elif fam == 'twoout':
        c1, c2 = list(range(1, M + 1)), list(range(L, N))
        I.append(Inst(0, 0, 0, [('A', 0), ('B', 0)], 2, {0: ('A', 0), 1: ('B', 0)}, [c1, c2]))
        for i in c1:
            I.append(Inst(1, i, i, [(0, 0, 0), ('B', i)], 1, {0: ('B', i)}, []))
        for j in c2:
            I.append(Inst(2, j, j, [(0, 0, 1), ('A', j)], 1, {0: ('A', j)}, []))
    elif fam in ('gather2', 'gather3'):
        n = 2 if fam == 'gather2' else 3
        for i in range(1, n + 1):
            I.append(Inst(0, i, i, [('B', i)], 1, {0: ('B', i)}, [[0]]))
        I.append(Inst(1, 0, 0, [(0, i, 0) for i in range(1, n + 1)] + [('A', 0)], 1, {0: ('A', 0)}, []))
    elif fam == 'diamond':
        I.append(Inst(0, 0, 0, [('A', 0)], 1, {0: ('A', 0)}, [[1, 2]]))
        for i in (1, 2):
            I.append(Inst(1, i, i, [(0, 0, 0), ('B', i)], 1, {0: ('B', i)}, [[3]]))
        I.append(Inst(2, 0, 3, [(1, 1, 0), (1, 2, 0), ('B', 3)], 1, {0: ('B', 3)}, []))
    elif fam == 'ctlchain':
        for k in range(N):
            I.append(Inst(0, k, k, [('B', k)], 1, {0: ('B', k)}, [[k + 1]] if k < N - 1 else []))
    else:
        raise ValueError(fam)
    return I


def variants(tier):
    """(family, N, M, L).  quick: 10 variants with N = 3 (6 programs); thorough: the whole family (30 variants, N = 2..4)."""
    V = []
    if tier == 'quick':
        V += [('chainread', 3, 0, 0), ('pipeline', 3, 0, 0), ('bcast', 3, 0, 1), ('bcast', 3, 0, 2), ('gather2', 3, 0, 0), ('ctlchain', 3, 0, 0)]
        V += [('twoout', 3, m, l) for m in (1, 2) for l in (1, 2)]
        return V
    for N in (2, 3, 4):
        V += [('chainread', N, 0, 0), ('pipeline', N, 0, 0), ('bcast', N, 0, 1), ('ctlchain', N, 0, 0)]
    V += [('bcast', 3, 0, 2), ('bcast', 4, 0, 2), ('gather2', 3, 0, 0), ('gather3', 4, 0, 0), ('diamond', 4, 0, 0)]
    for N in (3, 4):
        V += [('twoout', N, m, l) for m in range(1, N) for l in range(1, N)]
    return V


def reference(fam, N, M, L):
    """sequential execution: returns (instances, expected inputs per instance, final A, final B, dontcare mask)"""
    I = instances(fam, N, M, L)
    A = [mix(1000 + i) for i in range(N)]
    Bv = [mix(2000 + i) for i in range(N)]
    out = {}
    exp_in = []
    for t in I:
        vals = []
        for s in t.ins:
            if s[0] == 'A':
                vals.append(A[s[1]])
            elif s[0] == 'B':
                vals.append(Bv[s[1]])
            else:
                vals.append(out[(s[0], s[1], s[2])])
        exp_in.append(vals)
        for j in range(t.nout):
            out[(t.cls, t.k, j)] = H(t.cls, t.k, j, vals)
        for j, (c, i) in t.wb.items():
            if c == 'A':
                A[i] = out[(t.cls, t.k, j)]
            else:
                Bv[i] = out[(t.cls, t.k, j)]
    dont = [0] * N
    if fam == 'pipeline':
        dont[0] = 1          # the travelling tile is modified in place by however many stages run on the owner of A(0)
    return I, exp_in, A, Bv, dont


def emit_tables(V, path):
    fams = [f for f in FAMILIES if any(v[0] == f for v in V)]
    o = ['/* generated by harness/C05/gen.py - do not edit */', '#include "c05.h"']
    for f in fams:
        o.append('#include "%s.h"' % f)
    for f in fams:
        o.append('static parsec_taskpool_t *mk_%s(parsec_data_collection_t *A, parsec_data_collection_t *B, int N, int M, int L, int slot, size_t bytes, parsec_datatype_t dtt)\n{\n'
                 '    parsec_%s_taskpool_t *tp = parsec_%s_new(A, B, N, M, L, slot);\n'
                 '    parsec_arena_datatype_set_type(&tp->arenas_datatypes[PARSEC_%s_DEFAULT_ADT_IDX], bytes, PARSEC_ARENA_ALIGNMENT_SSE, dtt);\n'
                 '    return &tp->super;\n}' % (f, f, f, f))
    for vi, (f, N, M, L) in enumerate(V):
        I, exp_in, A, Bv, dont = reference(f, N, M, L)
        o.append('static const c05_inst_t inst_%d[] = {' % vi)
        for t, vals in zip(I, exp_in):
            o.append('    { %d, %d, %d, %d, { %s } },' % (t.cls, t.k, t.tile, len(vals), ', '.join('0x%016xull' % v for v in vals)))
        o.append('};')
        o.append('static const uint64_t fa_%d[] = { %s }, fb_%d[] = { %s };' % (vi, ', '.join('0x%016xull' % v for v in A), vi, ', '.join('0x%016xull' % v for v in Bv)))
        o.append('static const int dc_%d[] = { %s };' % (vi, ', '.join(map(str, dont))))
    o.append('const c05_variant_t c05_variants[] = {')
    for vi, (f, N, M, L) in enumerate(V):
        I = instances(f, N, M, L)
        o.append('    { "%s", %d, %d, %d, %d, inst_%d, fa_%d, fb_%d, dc_%d, mk_%s },' % (f, N, M, L, len(I), vi, vi, vi, vi, f))
    o.append('};')
    o.append('const int c05_nvariants = %d;' % len(V))
    open(path, 'w').write('\n'.join(o) + '\n')


# ------------------------------------------------------------------------------------------------------------------------------
# Model of parsec_remote_dep_activate / parsec_remote_dep_propagate (remote_dep.c) used ONLY to classify a failing case as the
# known finding: which (rank, output) pairs receive the activation of one task with the given destination sets.
def child(topo, me, him):
    if topo == 0:
        return me == 0
    if topo == 1:
        return me != -1 and him == me + 1
    if him == 0 or me == -1:
        return False
    k = him.bit_length() - 1
    return (him ^ (1 << k)) == me


def simulate(topo, n, root, S):
    """S: list (per output, in the runtime's output order) of sets of destination ranks (root excluded).
    Every rank that is activated runs the SAME loop over ALL outputs (the wire mask of the activation names every output the
    root propagated); the payload of a message q -> dst holds the outputs k with dst in S_k that q itself holds (q is the root,
    or q consumes k and received it).  Returns (delivered, senders): delivered = set of (rank, output);
    senders[rank] = list of ranks that sent it an activation."""
    delivered, senders = set(), {}
    mask = list(range(len(S)))
    work = [root]
    seen = set()
    while work:
        me = work.pop(0)
        if me in seen:
            continue
        seen.add(me)
        fw = {root}
        sends = []
        for k in mask:
            my_idx = 0 if me == root else -1
            idx = 0
            for rank in sorted(S[k], key=lambda r: (r - root) % n):
                if rank in fw:
                    continue
                idx += 1
                if my_idx == -1:
                    if rank == me:
                        my_idx = idx
                    fw.add(rank)
                    continue
                if child(topo, my_idx, idx) and rank not in sends:
                    sends.append(rank)
                fw.add(rank)
        for dst in sends:
            for k in mask:
                if dst in S[k] and (me == root or (me in S[k] and (me, k) in delivered)):
                    delivered.add((dst, k))
            senders.setdefault(dst, []).append(me)
            work.append(dst)
    return delivered, senders


def predict(topo, n, owner, fam, N, M, L):
    """For every task of the variant whose outputs leave its rank: which (rank, output) deliveries the runtime's propagation
    loses under the topology, and whether each loss is attributable to the known finding: the rank IS reached by the
    activation, but every path root -> ... -> rank of senders passes through a relay q != root that does not consume that
    output (q not in S_k) - the relay where the output was dropped; everything behind it cannot have it either.
    Returns (lost, attributable, duplicated)."""
    lost, attributable, dup = [], True, False
    for t in instances(fam, N, M, L):
        root = owner[t.tile]
        S = [set(owner[c] for c in cons) - {root} for cons in t.succ]
        if not any(S):
            continue
        delivered, senders = simulate(topo, n, root, S)
        if any(len(v) > 1 for v in senders.values()):
            dup = True

        def dropped_before(r, k, seen=()):
            """True iff every sender chain from the root to r contains a relay (not the root) outside S_k"""
            qs = senders.get(r, [])
            if not qs or r in seen:
                return False                       # never activated (or a cycle): not this finding
            for q in qs:
                if q == root:
                    return False                   # the root itself activated r without output k: something else
                if q in S[k]:
                    if (q, k) in delivered or not dropped_before(q, k, seen + (r,)):
                        return False               # q had the output (or lost it for another reason) and did not pass it on
            return True
        for k, dests in enumerate(S):
            for r in dests:
                if (r, k) not in delivered:
                    lost.append((t.cls, t.k, r, k))
                    if not dropped_before(r, k):
                        attributable = False
    return lost, attributable, dup


if __name__ == '__main__':
    import sys
    for f in FAMILIES:
        print(f, len(JDF[f].splitlines()))
    print(predict(1, 3, [0, 1, 2], 'twoout', 3, 2, 2))
    print(predict(2, 4, [0, 1, 2, 3], 'twoout', 4, 3, 3))
