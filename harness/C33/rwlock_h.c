/* C33: the runtime read-write lock excludes correctly and makes progress (E1, real parsec_atomic_rwlock_t).
 *
 * The harness is implementation-agnostic: it only uses the five public functions.
 * Each controlled thread runs a script of 1-2 cycles out of {R = rdlock..rdunlock, W = wrlock..wrunlock}.
 * Inside a critical section the thread bumps harness-owned occupancy counters (watched, so they are
 * scheduling points: a thread can be preempted in the middle of its critical section) and a writer
 * performs a deliberately non-atomic read-modify-write of a protected word.
 */
#include "parsec/parsec_config.h"
#include "parsec/class/parsec_rwlock.h"
#include "cosched.h"
#include <stdio.h>
#include <string.h>
#include <stdlib.h>

#define MAXT 3
static parsec_atomic_rwlock_t *L;
/* harness-owned shared state, watched */
static struct shared_s {
    volatile int readers_in, writers_in;
    volatile long data;          /* protected word: writers do data = data + 1 non-atomically */
    volatile int flag[MAXT];     /* rendezvous flags of the forced-sharing scenarios */
} *S;
/* bookkeeping (not watched: only touched while the thread holds the baton; all threads are serialised) */
static int max_readers, max_writers, nacq, order_len;
static char order[64];
static const char *script[MAXT];
static int done_cycles[MAXT];
static int nwrites_expected;
/* bypass accounting: acquisitions by others between my lock call and my acquisition */
static int max_bypass_w, max_bypass_r;

static void enter_note(int me, char kind)
{
    if (order_len < 60) { order[order_len++] = kind; order[order_len++] = (char)('0' + me); }
    nacq++;
}

static void read_cycle(int me)
{
    int before = nacq;
    parsec_atomic_rwlock_rdlock(L);
    int byp = nacq - before; if (byp > max_bypass_r) max_bypass_r = byp;
    enter_note(me, 'r');
    int r = __sync_add_and_fetch(&S->readers_in, 1);
    if (r > max_readers) max_readers = r;
    int w = S->writers_in;
    CS_CHECK(w == 0, "reader T%d is inside together with %d writer(s)", me, w);
    long d1 = S->data;
    long d2 = S->data;
    CS_CHECK(d1 == d2, "reader T%d saw the protected word change under the read lock (%ld -> %ld)", me, d1, d2);
    __sync_sub_and_fetch(&S->readers_in, 1);
    parsec_atomic_rwlock_rdunlock(L);
}

static void write_cycle(int me)
{
    int before = nacq;
    parsec_atomic_rwlock_wrlock(L);
    int byp = nacq - before; if (byp > max_bypass_w) max_bypass_w = byp;
    enter_note(me, 'w');
    int w = __sync_add_and_fetch(&S->writers_in, 1);
    if (w > max_writers) max_writers = w;
    CS_CHECK(w == 1, "writer T%d is inside together with another writer (writers_in=%d)", me, w);
    int r = S->readers_in;
    CS_CHECK(r == 0, "writer T%d is inside together with %d reader(s)", me, r);
    long d = S->data;                 /* non-atomic RMW: lost update if exclusion fails */
    S->data = d + 1;
    __sync_sub_and_fetch(&S->writers_in, 1);
    parsec_atomic_rwlock_wrunlock(L);
}

static void body(void *a)
{
    int me = (int)(intptr_t)a;
    for (const char *p = script[me]; *p; p++) {
        if (*p == 'R') read_cycle(me); else write_cycle(me);
        done_cycles[me]++;
    }
}

static void common_setup(void)
{
    L = calloc(1, sizeof(*L));
    S = calloc(1, sizeof(*S));
    memset((void *)L, 0x5a, sizeof(*L));            /* init must not depend on the previous content */
    parsec_atomic_rwlock_init(L);
    max_readers = max_writers = nacq = order_len = 0; max_bypass_r = max_bypass_w = 0;
    memset(order, 0, sizeof(order)); memset(done_cycles, 0, sizeof(done_cycles));
    cs_watch(L, sizeof(*L), "rwlock");
    cs_watch(S, sizeof(*S), "occupancy");
}

static void run_scripts(int n, const char *s0, const char *s1, const char *s2)
{
    common_setup();
    script[0] = s0; script[1] = s1; script[2] = s2;
    nwrites_expected = 0; int ncycles = 0;
    for (int t = 0; t < n; t++) for (const char *p = script[t]; *p; p++) { ncycles++; if (*p == 'W') nwrites_expected++; }
    cs_body_t b[MAXT] = { body, body, body };
    void *args[MAXT] = { (void *)0, (void *)1, (void *)2 };
    cs_run(n, b, args);
    /* progress: cs_run returned, so no deadlock / livelock in this schedule; every cycle completed */
    for (int t = 0; t < n; t++) CS_CHECK(done_cycles[t] == (int)strlen(script[t]), "T%d completed %d of %zu cycles", t, done_cycles[t], strlen(script[t]));
    CS_CHECK(nacq == ncycles, "%d acquisitions for %d cycles", nacq, ncycles);
    CS_CHECK(S->data == nwrites_expected, "protected word is %ld after %d write cycles (lost update: two writers overlapped)", S->data, nwrites_expected);
    CS_CHECK(S->readers_in == 0 && S->writers_in == 0, "occupancy counters not back to zero");
    CS_CHECK(max_writers <= 1, "two writers inside");
    /* the lock must be reusable afterwards: quiescent state lets a writer and then two readers in (sequentially, uncontrolled) */
    parsec_atomic_rwlock_wrlock(L); parsec_atomic_rwlock_wrunlock(L);
    parsec_atomic_rwlock_rdlock(L); parsec_atomic_rwlock_rdlock(L); parsec_atomic_rwlock_rdunlock(L); parsec_atomic_rwlock_rdunlock(L);
    parsec_atomic_rwlock_wrlock(L); parsec_atomic_rwlock_wrunlock(L);
    cs_observe("order=%s maxr=%d bypass_r=%d bypass_w=%d", order, max_readers, max_bypass_r, max_bypass_w);
}

/* ---- forced reader sharing: every reader stays inside until all the readers are inside.
 * A lock whose readers cannot share deadlocks in every schedule; the real lock must terminate in every
 * schedule with max_readers == n. No writer takes part (with a phase-fair lock a waiting writer
 * legitimately blocks late readers, which would make the rendezvous deadlock by design). ---- */
static int share_n;
static void share_body(void *a)
{
    int me = (int)(intptr_t)a;
    parsec_atomic_rwlock_rdlock(L);
    enter_note(me, 'r');
    int r = __sync_add_and_fetch(&S->readers_in, 1);
    if (r > max_readers) max_readers = r;
    S->flag[me] = 1;
    for (int o = 0; o < share_n; o++) while (!S->flag[o]) cs_wait();
    __sync_sub_and_fetch(&S->readers_in, 1);
    parsec_atomic_rwlock_rdunlock(L);
    done_cycles[me]++;
}
/* after the rendezvous a writer must still be able to get in (T0 continues as a writer) */
static void share_body_then_write(void *a)
{
    share_body(a);
    script[0] = "W";
    write_cycle((int)(intptr_t)a);
    done_cycles[0]++;
}
static void run_share(int n, int then_write)
{
    common_setup();
    share_n = n; nwrites_expected = then_write ? 1 : 0;
    cs_body_t b[MAXT] = { then_write ? share_body_then_write : share_body, share_body, share_body };
    void *args[MAXT] = { (void *)0, (void *)1, (void *)2 };
    cs_run(n, b, args);
    CS_CHECK(max_readers == n, "readers did not share the lock: at most %d of %d readers were inside together", max_readers, n);
    CS_CHECK(S->data == nwrites_expected, "protected word is %ld, expected %d", S->data, nwrites_expected);
    CS_CHECK(S->readers_in == 0 && S->writers_in == 0, "occupancy counters not back to zero");
    cs_observe("order=%s maxr=%d", order, max_readers);
}

#define SCEN2(id, a, b)    static void scen_##id(void) { run_scripts(2, a, b, ""); }
#define SCEN3(id, a, b, c) static void scen_##id(void) { run_scripts(3, a, b, c); }
/* one cycle per thread: all role assignments up to thread symmetry */
SCEN3(R_R_R, "R", "R", "R")
SCEN3(R_R_W, "R", "R", "W")
SCEN3(R_W_W, "R", "W", "W")
SCEN3(W_W_W, "W", "W", "W")
/* two threads, two cycles each: all 4x4 pairs up to symmetry (10) */
SCEN2(RR_RR, "RR", "RR")
SCEN2(RR_RW, "RR", "RW")
SCEN2(RR_WR, "RR", "WR")
SCEN2(RR_WW, "RR", "WW")
SCEN2(RW_RW, "RW", "RW")
SCEN2(RW_WR, "RW", "WR")
SCEN2(RW_WW, "RW", "WW")
SCEN2(WR_WR, "WR", "WR")
SCEN2(WR_WW, "WR", "WW")
SCEN2(WW_WW, "WW", "WW")
/* three threads, mixed lengths (phase change while a reader waits, writer queue of two, reader re-entry) */
SCEN3(RR_W_W,  "RR", "W", "W")
SCEN3(RW_R_W,  "RW", "R", "W")
SCEN3(WR_R_W,  "WR", "R", "W")
SCEN3(WW_R_R,  "WW", "R", "R")
SCEN3(WR_WR_R, "WR", "WR", "R")
SCEN3(RW_RW_W, "RW", "RW", "W")
SCEN3(RR_WW_RW, "RR", "WW", "RW")
SCEN3(WR_RW_WW, "WR", "RW", "WW")
static void scen_share2(void) { run_share(2, 0); }
static void scen_share3(void) { run_share(3, 0); }
static void scen_share2_then_write(void) { run_share(2, 1); }

#define S(id, mb) { #id, scen_##id, mb }
/* sets: "pairs" (2 threads x 2 cycles), "small3"/"big3" (3 threads x 1 cycle, 3-reader rendezvous), "mixed3" (3 threads, 4-6 cycles),
 * "quick3" (the larger 3-thread scripts the quick tier runs at preemption bound 1) */
static cs_scenario_t set_pairs[] = {
    S(share2, 0), S(share2_then_write, 0),
    S(RR_RR, 0), S(RR_RW, 0), S(RR_WR, 0), S(RR_WW, 0), S(RW_RW, 0), S(RW_WR, 0), S(RW_WW, 0), S(WR_WR, 0), S(WR_WW, 0), S(WW_WW, 0),
};
static cs_scenario_t set_small3[] = { S(R_R_R, 0), S(R_R_W, 0), S(R_W_W, 0), };
static cs_scenario_t set_big3[] = { S(share3, 0), S(W_W_W, 0), };
static cs_scenario_t set_mixed3[] = {
    S(RW_R_W, 0), S(WR_R_W, 0), S(WW_R_R, 0), S(RR_W_W, 0), S(WR_WR_R, 0), S(RW_RW_W, 0), S(RR_WW_RW, 0), S(WR_RW_WW, 0),
};
static cs_scenario_t set_quick3[] = { S(share3, 0), S(W_W_W, 0), S(RW_R_W, 0), S(WR_WR_R, 0), };
#define N(a) (int)(sizeof(a) / sizeof(a[0]))
int main(int argc, char **argv)
{
    static cs_scenario_t all[40]; int n = 0;
    const char *set = getenv("C33_SET");            /* unset (replay): every scenario */
    #define ADD(key, arr) if (!set || strstr(set, key)) for (int i = 0; i < N(arr); i++) { int dup = 0; for (int j = 0; j < n; j++) if (!strcmp(all[j].name, arr[i].name)) dup = 1; if (!dup) all[n++] = arr[i]; }
    ADD("pairs", set_pairs) ADD("small3", set_small3) ADD("big3", set_big3) ADD("quick3", set_quick3) ADD("mixed3", set_mixed3)
    return cs_main(argc, argv, "C33", all, n, NULL);
}
