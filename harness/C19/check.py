import os

META = dict(
    engine='seqx',
    technique='exhaustive enumeration of the (m, n, ld, diag, uplo, resized, element type) box on the real datatype constructors; the resulting MPI datatypes are observed with MPI_Pack / MPI_Type_get_extent / MPI_Type_size and compared with a boring reference model of the mathematical region',
    level_text='Every datatype of the box m,n in 1..12, ld in m..m+3, diag in {0,1}, uplo in {full, upper, lower} (plus documented resizing for full types, int32 and double elements, the helper constructors called directly and the parsec_matrix_adt_{define,new}_{rect,square,upper,lower} wrappers) is built by the real code and packed by the real MPI library: the packed element sequence of two consecutive items equals the mathematical region in column-major order, the lower bound is 0 and the extent covers the tile footprint without exceeding the ld x n tile (exactly ld*n*size for triangles, exactly resized*size when resizing is requested).',
    level_note='hk-mpi flavour, Open MPI singleton process; the meaning of diag (non-zero = diagonal included) is the natural reading and matches every call site in the repository - the headers do not document it; bounded to m,n <= 12 (16 in thorough).',
)
RULE = ("full box, no sampling: states = datatypes built, executions = MPI_Pack calls, transitions = packed elements compared with the model; "
        "a type is non-trivial when its region is not contiguous in memory (full with ld>m and n>1, triangles with m,n>1); "
        "distinct outcomes = distinct (selected index sequence, extent) pairs")
ENV = dict(os.environ, OMPI_ALLOW_RUN_AS_ROOT='1', OMPI_ALLOW_RUN_AS_ROOT_CONFIRM='1', OMPI_MCA_btl='self', OMPI_MCA_rmaps_base_oversubscribe='1')


def build(ctx):
    return ctx.compile('hk-mpi', 'c19', ['c19.c'], mpi=True, instr=False)


def check(ctx):
    exe = build(ctx)
    args = ['--outdir', '/verif/out', '--deadline', '900' if ctx.tier == 'thorough' else '70']
    if ctx.tier == 'thorough':
        args.append('--thorough')
    ctx.run_engine(exe, args, label='c19', timeout=1500, env=ENV)
    return ctx.finish(RULE, ['MPI_Pack of the MPI library is trusted as the observer of which elements a datatype selects',
                             'diag != 0 means "diagonal included" (no header documents it; all call sites agree)'])


def replay(ctx, path, obj):
    import subprocess
    return subprocess.call([build(ctx), '--replay', path], env=ENV)
