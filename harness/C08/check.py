META = dict(
    engine='cosched+seqx',
    technique='stateless model checking: preemption-bounded exhaustive schedule enumeration (CHESS) of concurrent schedule/select on the 11 real scheduler modules over borrowed execution streams of a parsec_init context; plus bounded-exhaustive schedule/select sequences with buffer overflow',
    level_text='For each of the 11 scheduler modules (selected through mca_sched, installed by parsec_init, flow_init run for every stream): (E1) every interleaving with <= b preemptions (quick: b=1 on the three core scripts per module plus module-specific ones, b=2 for the llp writer scripts, lfq push/push and ll ring-vs-steal, 3-thread script for lfq and llp; thorough: all scripts, 2 streams b=2 for all and b=3 for ll/llp, 3 streams b=1 for all and b=2 for ll/llp/gd) of eight 2-3 thread scripts (ring vs steal, foreign push onto stream 0, two writers, minimal push/push, buffer overflow vs steal, re-schedule with distance, communication-thread push, three active streams); (E2) every sequence of schedule(ring shape, distance)/select operations up to depth 3-4 (quick) / 4-5 (thorough) on 2 streams and depth 3 (quick) / 4 (thorough) on 3 streams (alphabet sizes in the leg names: shapes x distances), ring shapes including rings larger than all bounded buffers; the same through the real __parsec_schedule_vp (next_task retention, dispatch to stream 0, NULL submitter) with selection as in __parsec_get_next_task. Oracle: every select returns NULL or a pending task, never a task twice, and a drain of all streams returns every task handed to schedule.',
    level_note='Sequential consistency at instrumented accesses to the watched scheduler objects and task links; 2-3 threads, <= 4 operations per thread; select only by the owning thread and foreign schedule only onto stream 0 (the usage contract of scheduling.c); synthetic 2-package hwloc topology; weak-memory effects out of reach.',
)
RULE = ("cosched legs: every schedule of the 2-3 thread script with at most b preemptions, scheduling points = instrumented accesses of libparsec to the "
        "module's shared queues (lists, dequeues, lifo heads, bounded-buffer slots, ltq heaps) and to the tasks' links; non-trivial = schedule with >= 1 preemption; "
        "states = nodes of the schedule tree. seqx legs: every operation sequence of length 1..D from a pristine scheduler followed by a full drain; "
        "non-trivial = a bounded buffer overflowed into the system dequeue or a task was returned on another stream than it was scheduled on; states = sequences executed")
MODS = ['ap', 'gd', 'ip', 'lfq', 'lhq', 'll', 'llp', 'ltq', 'pbq', 'rnd', 'spq']

def build(ctx):
    from concurrent.futures import ThreadPoolExecutor
    ctx.build('hk-shm')
    with ThreadPoolExecutor(max_workers=2) as ex:
        a = ex.submit(ctx.compile, 'hk-shm', 'seq', ['seq_h.c'], instr=False, ldflags=['-ldl'])
        b = ex.submit(ctx.compile, 'hk-shm', 'conc', ['conc_h.c'], engine='cosched', instr=False, ldflags=['-ldl'])
        return a.result(), b.result()

def check(ctx):
    import os, time, vlib
    from concurrent.futures import ThreadPoolExecutor
    os.environ['PARSEC_MCA_bind_threads'] = '0'
    seq, conc = build(ctx)
    built = time.time() - ctx.t0
    quick = ctx.tier == 'quick'
    jobs = []     # (label, exe, args, deadline)
    for m in MODS:
        if quick:
            jobs.append(('seq_%s_k2' % m, seq, ['--sched', m, '--streams', '2', '--config', '3:4:2', '--config', '4:3:1', '--config', '3:3:2:1'], 60))
            jobs.append(('seq_%s_k3' % m, seq, ['--sched', m, '--streams', '3', '--config', '3:3:1', '--config', '2:3:2:1'], 60))
        else:
            jobs.append(('seq_%s_k2' % m, seq, ['--sched', m, '--streams', '2', '--config', '3:4:2:1', '--config', '5:3:1', '--config', '4:4:3'], 500))
            jobs.append(('seq_%s_k3' % m, seq, ['--sched', m, '--streams', '3', '--config', '3:3:2:1', '--config', '4:3:2'], 500))
    for m in MODS:
        if quick:
            # quick: bound 1, three core scripts per module (+ the module-specific ones), bound 2 where the lock-free merge / lifo code is
            only = ['sched_vs_steal', 'two_writers', 'resched', 'detach_vs_ring2'] + {'llp': ['foreign_push', 'push_push', 'detach_vs_ring3'], 'lfq': ['overflow', 'push_push'], 'pbq': ['overflow'], 'lhq': ['foreign_push']}.get(m, [])
            full = {'llp': ['push_push', 'two_writers', 'foreign_push', 'detach_vs_ring2'], 'll': ['sched_vs_steal'], 'lfq': ['push_push']}.get(m)
            a = ['--sched', m, '--streams', '2', '--bound', '2' if full else '1', '--scenario', 'all', '--jobs', '2' if full else '1', '--deadline', '70']
            for o in only: a += ['--only', o]
            for f in (full or []): a += ['--full', f]
            jobs.append(('conc_%s_k2' % m, conc, a, 70))
            if m in ('lfq', 'llp'):
                jobs.append(('conc_%s_k3' % m, conc, ['--sched', m, '--streams', '3', '--bound', '1', '--scenario', '%s_k3_three_comm' % m, '--jobs', '2', '--deadline', '70'], 70))
        else:
            for k in (2, 3):
                b = (3 if m in ('ll', 'llp') else 2) if k == 2 else (2 if m in ('ll', 'llp', 'gd') else 1)
                jobs.append(('conc_%s_k%d_b%d' % (m, k, b), conc, ['--sched', m, '--streams', str(k), '--bound', str(b), '--scenario', 'all', '--jobs', '3', '--deadline', '600'], 600))
    # global wall budget: jobs started late get what is left (exhaustive:false if cut); the legs always get >= 45 s
    ctx.set_budget(max(85, built + 45) if quick else 1080)
    def one(j):
        label, exe, args, dl = j
        if not (quick and label in ('conc_llp_k2', 'conc_lfq_k2', 'conc_ll_k2')):      # the bound-2 legs of the quick tier always get their full deadline
            dl = int(max(15, min(dl, ctx.remaining())))
        if exe == conc:
            args = args[:args.index('--deadline') + 1] + [str(dl)] + args[args.index('--deadline') + 2:]
        extra = ['--deadline', str(dl)] if exe == seq else []
        return ctx.run_engine(exe, args + extra + ['--outdir', vlib.OUT], label=label, timeout=dl + 400)
    # the slow ones first
    slow = ('llp', 'lfq', 'll', 'lhq', 'ltq', 'pbq')
    # quick: the cheap sequence legs first (seconds), then the concurrent legs, slow modules first; thorough: concurrent legs first
    jobs.sort(key=lambda j: ((1 if j[0].startswith('conc') else 0) if quick else (0 if j[0].startswith('seq_lhq') else 1 if j[0].startswith('conc') else 2), 0 if j[0].split('_')[1] in slow else 1))
    with ThreadPoolExecutor(max_workers=max(2, vlib.NJOBS // 2) + (0 if quick else 2)) as ex:
        list(ex.map(one, jobs))
    ctx.legs.sort(key=lambda l: (l.get('leg', ''), l.get('name', '')))
    return ctx.finish(RULE, ["sequential consistency at instrumented accesses (no weak-memory effects)",
                             "usage contract of scheduling.c: select(es_i) only from the thread owning stream i; schedule from a foreign thread only onto stream 0",
                             "HWLOC_SYNTHETIC topology 'pack:2 core:2 pu:1' (pins the neighbour order of lfq/pbq/ltq and the lhq hierarchy)",
                             "rnd: libc rand() re-seeded before every execution"])

def replay(ctx, path, obj):
    import subprocess, re, os
    os.environ['PARSEC_MCA_bind_threads'] = '0'
    seq, conc = build(ctx)
    sc = obj['scenario']
    m = re.match(r'seq_(\w+?)_k(\d+)_sh(\d+)_nd(\d+)_depth(\d+)(_vp)?$', sc)
    if m:
        return subprocess.call([seq, '--sched', m.group(1), '--streams', m.group(2), '--nshapes', m.group(3), '--ndist', m.group(4), '--depth', m.group(5), '--replay', path] + (['--vp'] if m.group(6) else []))
    m = re.match(r'([a-z]+)_k(\d+)_', sc)
    return subprocess.call([conc, '--sched', m.group(1), '--streams', m.group(2), '--replay', path])
