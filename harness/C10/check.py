import os
META = dict(
    engine='cosched',
    technique='stateless model checking: preemption-bounded exhaustive schedule enumeration (CHESS) of the real local termination detector driven by token-discipline scripts',
    level_text='Every schedule with <= b preemptions (b=2 quick, 3 thorough; scheduling points = every instrumented access to nb_tasks, nb_pending_actions and tdm.monitor) of 2-3 thread scripts (7 quick, 17 thorough: PTG start-up with spawning, zero crossings while busy, ready() against the last task/action, set_nb_tasks/set_runtime_actions variants, state pollers, DTD-like insertion before ready) is executed on the real module; in each the termination callback must run exactly once, only after ready() and with no unit of work held and both counters zero, taskpool_state must not return TERMINATED before the callback returned, and termination must have been reported when all threads are done.',
    level_note='Sequential consistency at instrumented accesses; <= 3 threads, <= 4 operations per thread; scripts respect the usage contract (after ready() work is added only by a holder of work; before ready() anybody may add work, as the DTD interface does; set_* only by the owner of all units of that counter). Weak-memory effects and the object reference count of the taskpool are outside the check.',
)
RULE = ("cosched: every schedule of each 2-3 thread token-discipline script over the real termdet_local module with at most b "
        "preemptions (scheduling points = every instrumented access to tp->nb_tasks, tp->nb_pending_actions, tp->tdm.monitor, "
        "plus harness hand-off points); a schedule is non-trivial when it contains at least one preemption; states = nodes of "
        "the explored schedule tree; outcomes = (thread and script step that ran the callback, sequence of polled states)")
ASSUME = ["sequential consistency at instrumented accesses (no weak-memory effects)",
          "gcc -fsanitize=thread instrumentation reports every access to the watched words",
          "callers respect the module's usage contract (token discipline after ready(); set_* by the sole owner of the counter)"]
SRC = ['termdet_h.c']
def _exes(ctx):
    return (ctx.compile('hk-shm', 'termdet', SRC, engine='cosched', cflags=['-DLEG=1']),
            ctx.compile('hk-shm', 'termdet-preready', SRC, engine='cosched', cflags=['-DLEG=2']))
def _run_each(ctx, exe, bound, budget, env, label, cost):
    """One engine invocation per scenario (the engine gives every scenario of one invocation only an equal share of the
    deadline): cheap scenarios first, each may use all the time that is left of this leg's budget."""
    import subprocess, time, vlib
    names = subprocess.run([exe, '--list'], capture_output=True, text=True, env=env).stdout.split()
    names.sort(key=lambda n: (cost.get(n, 10**9), n))
    t_end = time.time() + budget
    for n in names:
        left = max(3, int(t_end - time.time()))
        jobs = max(2, min(vlib.NJOBS, cost.get(n, 10**9) // 60))   # do not fork 16 workers for a few dozen schedules
        args = ['--bound', str(bound), '--scenario', n, '--jobs', str(jobs), '--outdir', vlib.OUT, '--deadline', str(left)]
        ctx.run_engine(exe, args, label='%s.%s' % (label, n), timeout=left + 600, env=env)
# measured number of schedules (bound 2), used only to order the scenarios
COST = dict(set_nb_tasks_2t=150, task_to_action_2t=150, spawn_tree_2workers=102, busy_zero_crossings_2t=137, dtd_min_master_worker=160, ready_vs_last_action_and_task=620,
            ready_vs_last_task_polled=637, set_runtime_actions0_vs_ready=637, task_to_action=1180, set_runtime_actions_then_release=1494,
            set_nb_tasks_owner=1573, set_nb_tasks_holding_action=1765, actions_fanout=2468, ptg_add_then_ready=2726,
            busy_zero_crossings=2996, dtd_insert_then_ready=3400, ptg_startup_spawn=4212)
def check(ctx):
    import time
    e1, e2 = _exes(ctx)
    q = ctx.tier == 'quick'
    env = dict(os.environ); env['C10_QUICK'] = '1' if q else '0'
    if q:
        _run_each(ctx, e1, 2, 65, env, 'contract', COST)   # strict token discipline (DESIGN.md scripts)
        _run_each(ctx, e2, 2, 20, env, 'preready', COST)   # work added before ready() without holding a unit (DTD pattern)
    else:
        t0 = time.time()
        # pass A: every scenario (15) to bound 2, so that nothing is starved by the deeper pass
        _run_each(ctx, e1, 2, 360, env, 'contract-b2', COST)
        _run_each(ctx, e2, 2, 120, env, 'preready-b2', COST)
        # pass B: bound 3 with what is left of ~18 minutes, cheapest scenarios first
        left = max(60, 1080 - (time.time() - t0))
        _run_each(ctx, e2, 3, left * 0.3, env, 'preready-b3', COST)
        left = max(60, 1080 - (time.time() - t0))
        _run_each(ctx, e1, 3, left, env, 'contract-b3', COST)
    return ctx.finish(RULE, ASSUME)
def replay(ctx, path, obj):
    import subprocess
    e1, e2 = _exes(ctx)
    exe = e2 if 'preready' in obj.get('harness', '') else e1
    return subprocess.call([exe, '--replay', path])
