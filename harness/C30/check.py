META = dict(
    engine='cosched',
    technique='stateless model checking: preemption-bounded exhaustive schedule enumeration (CHESS) of the real parsec_lifo_t, linearizability by brute force',
    level_text='Every schedule with <= b preemptions (b=2..4 per script in quick - 4 for the two-thread ABA seeker -, 3..6 in thorough) of six hand-written 2-3 thread scripts (ABA seekers, chain, try_pop) over the real LIFO is executed; plus GENERATED script families: all scripts pre-state (0..3 items) x T0 ops || T1 ops (|| T2) over the alphabet {pop, try_pop, push fresh, push back the oldest item the thread popped, chain ring of 2, chain ring of 3}, minus contract violations, up to thread symmetry - quick: shape (3,1) with T0 over {pop, push, push-back} and T1 in {pop, try_pop} at b=3 (address re-use = ABA), (1,1) at b=3, (2,1) at b=1, each under a wall budget; thorough: (2,1) b=4, (2,2) b=2, (1,1,1) b=2, (3,1) b=3, (2,1,1) b=1, budget-cut (evidence: scripts generated / filtered / explored). Each history is checked for linearizability against a sequential stack plus conservation of items and absence of cycles.',
    level_note='Sequential consistency at instrumented accesses (gcc -fsanitize=thread instrumentation + own runtime); 2-3 threads, <= 4 operations per thread; generated families are cut by a wall budget on a loaded machine (exhaustive:false for that leg); weak-memory effects (missing fences) are out of reach.',
)
RULE = ("cosched: every schedule of each 2-3 thread script (hand-written, and every script of the generated families 'family/gen_*': see the leg's spec, "
        "scripts_generated / _after_contract / _after_symmetry / _explored / _completed) over the real parsec_lifo_t with at most b preemptions "
        "(scheduling points = every instrumented access to the lifo head and the items' links); a schedule is "
        "non-trivial when it contains at least one preemption; states = nodes of the explored schedule tree")
QUICK = [('aba_pop_vs_pop_pop_push', 4), ('chain_order', 4), ('push_pop_push', 3), ('trypop_trypop_push', 3), ('chain_pop_push', 2), ('aba3', 2)]
THOROUGH = [('aba_pop_vs_pop_pop_push', 6), ('chain_order', 6), ('push_pop_push', 4), ('trypop_trypop_push', 4), ('aba3', 3), ('chain_pop_push', 3)]
# ---- generated (bounded-exhaustive) script families: see NOTES.md and the comment in lifo_h.c ----
# (label, spec, preemption bound, wall budget in s, scripts per engine invocation, order, seconds a started script may always use)
ALL = 'ops=ptubcC;pre=0123'
FAMILIES = {
    'quick': [
        ('gen_31_b3_aba', 'shape=3,1;ops=pub;ops1=pt;pre=32', 3, 16, 2, 'seq', 6),
        ('gen_11_b3', 'shape=1,1;%s' % ALL, 3, 10, 4, 'seq', 3),
        ('gen_21_b1', 'shape=2,1;%s' % ALL, 1, 12, 16, 'seq', 1),
    ],
    'thorough': [
        ('gen_21_b3', 'shape=2,1;%s' % ALL, 3, 110, 8, 'seq', 4),
        ('gen_22_b2', 'shape=2,2;%s' % ALL, 2, 110, 24, 'seq', 2),
        ('gen_111_b2', 'shape=1,1,1;%s' % ALL, 2, 80, 4, 'seq', 10),
        ('gen_31_b3', 'shape=3,1;%s' % ALL, 3, 140, 8, 'spread', 5),
        ('gen_211_b1', 'shape=2,1,1;%s' % ALL, 1, 60, 8, 'spread', 5),
    ],
}


def bitrev_order(n):
    if n <= 1:
        return list(range(n))
    w = (n - 1).bit_length()
    return [j for j in (int(format(i, '0%db' % w)[::-1], 2) for i in range(1 << w)) if j < n]


def gen_family(ctx, exe, label, spec, bound, budget, batch, order, allow, procs, jobs):
    """Explore one generated family: the harness enumerates it (--gen-list), ranges of it are explored by parallel engine
    invocations until everything is done or the wall budget is used up; one aggregated evidence leg."""
    import os, sys, json, subprocess, time, statistics
    from concurrent.futures import ThreadPoolExecutor
    from vlib import OUT
    env = dict(os.environ); env['C30_GEN'] = spec
    r = subprocess.run([exe, '--gen-list'], env=env, capture_output=True, text=True)
    if r.returncode != 0:
        ctx.broken.append('%s: --gen-list failed: %s' % (label, r.stderr[-500:])); return
    fam = json.loads(r.stdout)
    n = fam['after_symmetry']
    t0 = time.time(); t_end = t0 + budget
    ranges = [(lo, min(n, lo + batch)) for lo in range(0, n, batch)]
    if order == 'spread':
        ranges = [ranges[i] for i in bitrev_order(len(ranges))]
    mine = '%s@' % label
    nviol0 = len(ctx.violations)
    def one(rg):
        left = t_end - time.time()
        if left < 1.0 or len(ctx.violations) > nviol0:
            return None                      # budget used up (or a violation is already reported): this range is not explored (exhaustive:false)
        e = dict(env); e['C30_GEN'] = '%s;range=%d:%d' % (spec, rg[0], rg[1])
        dl = max(2, int(left), int(allow * (rg[1] - rg[0])))
        ctx.run_engine(exe, ['--bound', str(bound), '--jobs', str(jobs), '--outdir', OUT, '--deadline', str(dl)], label='%s%d' % (mine, rg[0]), timeout=dl + 300, env=e)
        return rg
    with ThreadPoolExecutor(max_workers=procs) as ex:
        done = [x for x in ex.map(one, ranges) if x]
    legs = [l for l in ctx.legs if str(l.get('leg', '')).startswith(mine)]
    ctx.legs[:] = [l for l in ctx.legs if not str(l.get('leg', '')).startswith(mine)]
    pos = {nm: i for i, nm in enumerate(fam['scripts'])}
    legs.sort(key=lambda l: pos.get(l['name'], 0))
    complete = [l for l in legs if l.get('exhaustive')]
    outs = [int(l.get('distinct_outcomes', 0)) for l in (complete or legs)]      # outcome statistics over the scripts that completed their bound
    samples = []
    for l in sorted(legs, key=lambda l: -int(l.get('distinct_outcomes', 0)))[:2] + legs[:1]:
        for sm in l.get('samples', [])[:1]:
            samples.append(dict(sm, script=l['name']))
    nex = sum(int(l.get('executions', 0)) for l in legs)
    ctx.add_leg(name=label, leg='family', engine='cosched', spec=spec, bound=bound, order=order,
                alphabet=fam['alphabet'], scripts_generated=fam['generated'], scripts_after_contract=fam['after_contract'],
                scripts_after_relevance=fam['after_relevance'], scripts_after_symmetry=n,
                scripts_explored=len(legs), scripts_completed=len(complete),
                states=sum(int(l.get('states', 0)) for l in legs), transitions=sum(int(l.get('transitions', 0)) for l in legs),
                executions=nex, nontrivial=sum(int(l.get('nontrivial', 0)) for l in legs),
                distinct_outcomes=sum(outs), outcomes_per_script=dict(min=min(outs), median=statistics.median(outs), max=max(outs)) if outs else {},
                single_outcome_scripts=sum(1 for o in outs if o <= 1), max_points=max([int(l.get('max_points', 0)) for l in legs] or [0]),
                exhaustive=(len(complete) == n), violations=sum(int(l.get('violations', 0)) for l in legs),
                explored_ranges=[list(x) for x in sorted(done)] if order == 'spread' else [[0, max([x[1] for x in done] or [0])]],
                wall_s=round(time.time() - t0, 2), samples=samples)
    sys.stderr.write('C30 family %s (bound %d): %d generated, %d after contract, %d after relevance, %d after symmetry; explored %d (complete %d), %d schedules, outcomes/script min %s max %s, %d single-outcome, %.1fs\n'
                     % (label, bound, fam['generated'], fam['after_contract'], fam['after_relevance'], n, len(legs), len(complete),
                        nex, min(outs) if outs else '-', max(outs) if outs else '-', sum(1 for o in outs if o <= 1), time.time() - t0))
    # vacuity guard: a family whose scripts all have a single outcome collides with nothing
    if legs and max(outs) <= 1 and len(complete) < n and not sum(int(l.get('violations', 0)) for l in legs):
        ctx.notes.append('%s: the %d scripts explored before the budget cut all have a single outcome (vacuity is only judged on a completely explored family)' % (label, len(legs)))
    elif legs and max(outs) <= 1 and not sum(int(l.get('violations', 0)) for l in legs):
        ctx.broken.append('%s: every script of the family has a single outcome: the alphabet collides with nothing' % label)


def families(ctx, exe):
    import os
    from vlib import NJOBS
    procs = max(1, min(8, NJOBS)); jobs = max(1, min(2, NJOBS // procs))      # 16 cores: 8 invocations x 2 workers
    fams = FAMILIES[ctx.tier]
    if os.environ.get('C30_FAMILIES'):     # development: "label|spec|bound|budget|batch|order|allow;;..."
        fams = [(a, b, int(c), float(d), int(e), f, float(g)) for a, b, c, d, e, f, g in (x.split('|') for x in os.environ['C30_FAMILIES'].split(';;'))]
    # quick tier on a loaded machine: when the legs before took long, the family budgets shrink (down to 40 %: fewer batches are started; a started script always gets its 'allow') so that the tier stays bounded;
    # the evidence then shows scripts_explored < scripts_after_symmetry
    import time
    scale = 1.0 if ctx.tier != 'quick' else min(1.0, max(0.4, (75.0 - (time.time() - ctx.t0)) / 40.0))
    for label, spec, bound, budget, batch, order, allow in fams:
        gen_family(ctx, exe, label, spec, bound, budget * scale, batch, order, allow, procs, jobs)


def check(ctx):
    # one engine invocation per script: small scripts go deeper (the seeded "counter read after the item"
    # change needs 3 preemptions of a 2-thread script), cheapest first so a deadline cuts the biggest last
    import os
    exe = ctx.compile('hk-shm', 'lifo', ['lifo_h.c'], engine='cosched')
    only = os.environ.get('C30_ONLY', '')        # development switch: 'gen' = generated families only, 'hand' = hand-written scripts only
    if only in ('', 'hand'):
        plan = QUICK if ctx.tier == 'quick' else THOROUGH
        budget = 60 if ctx.tier == 'quick' else 700
        ctx.set_budget(budget)
        for i, (sc, b) in enumerate(plan):
            share = max(5, ctx.remaining() / (len(plan) - i))
            ctx.run_cosched(exe, b, scenario=sc, deadline=share, label='lifo-%s-b%d' % (sc, b))
    if only in ('', 'gen'):
        families(ctx, exe)
    return ctx.finish(RULE, ["sequential consistency at instrumented accesses (no weak-memory effects)",
                             "gcc -fsanitize=thread instrumentation reports every access to the watched objects",
                             "generated families: a wall budget bounds each family; scripts_explored < scripts_after_symmetry means the family was cut (exhaustive:false for that leg)"])
def replay(ctx, path, obj):
    import subprocess
    exe = ctx.compile('hk-shm', 'lifo', ['lifo_h.c'], engine='cosched')
    return subprocess.call([exe, '--replay', path])
