/* C11, second leg (E1 / cosched): ONE rank of the four-counter detector under real threads.
 * The E3 leg (fc_h.c) treats every module entry point as atomic. This leg justifies that: worker-thread entry points
 * (addto_nb_tasks / addto_runtime_actions / outgoing_message_start; the first two change the load counter with an atomic
 * outside the rwlock and only then take the lock) run concurrently with the communication thread's entry points
 * (msg_up / msg_down through msg_dispatch, incoming_message_start/_end) under every schedule with <= b preemptions.
 * Oracle: (1) the termination callback never fires while the rank has load; (2) the final monitor state, load counters and
 * the sequence of control messages sent equal those of SOME op-atomic interleaving of the threads' operations (computed
 * beforehand by running all merges sequentially on the real code) -- i.e. entry points are linearizable;
 * (3) no assertion of the module fails.
 * The module file is compiled instrumented into this TU (hk-mpi's library is not instrumented; its rwlock spin loops
 * carry the blocking hooks).
 */
#include "parsec/parsec_config.h"
#include "parsec/parsec_internal.h"
#include "parsec/class/list.h"
#include "parsec/parsec_comm_engine.h"
#include "parsec/mca/termdet/fourcounter/termdet_fourcounter_module.c"
#include "cosched.h"
#include <stdio.h>
#include <string.h>
#include <stdlib.h>
#include <dlfcn.h>

void __assert_fail(const char *expr, const char *file, unsigned int line, const char *func)
{
    const char *b = strrchr(file, '/');
    cs_fail("assertion of the code under test failed: `%s' (%s:%u, %s)", expr, b ? b + 1 : file, line, func);
}

/* hk-mpi's library is not instrumented, so the release of the (library) ticket rwlock is invisible to the explorer and a
 * thread parked in the lock's blocking hook would never be re-enabled: forward to the real function, then tell the explorer. */
#define RELAY(fn) void fn(parsec_atomic_rwlock_t *L) { static void (*real)(parsec_atomic_rwlock_t *); if (!real) real = (void (*)(parsec_atomic_rwlock_t *))dlsym(RTLD_NEXT, #fn); real(L); if (cs_self() >= 0) cs_point_here(); }
RELAY(parsec_atomic_rwlock_wrunlock)
RELAY(parsec_atomic_rwlock_rdunlock)

typedef parsec_termdet_fourcounter_monitor_t mon_t;
static const parsec_termdet_base_module_t *M = &parsec_termdet_fourcounter_module.module;
enum { O_T, O_PA, O_READY, O_OUT, O_INS, O_INE, O_UP, O_DOWN };
typedef struct { int k, a, b, c; } op_t;
#define MAXOPS 4
typedef struct { const char *name; int N, rank; int np; op_t pre[10]; int nt; int n[3]; op_t t[3][MAXOPS]; } scen_t;

static parsec_context_t *ctx; static parsec_taskpool_t *tp;
static struct { int dst, type; unsigned a, b; } sent[32]; static int nsent; static int ncb; static int cb_bad;
parsec_taskpool_t *parsec_taskpool_lookup(uint32_t id) { (void)id; return tp; }
static int stub_send_am(parsec_comm_engine_t *ce, parsec_ce_tag_t tag, int remote, void *addr, size_t size)
{
    (void)ce; (void)tag; (void)size;
    parsec_termdet_fourcounter_msg_up_t *u = addr; int k = nsent++;
    if (k < 32) { sent[k].dst = remote; sent[k].type = u->msg_type; sent[k].a = u->msg_type == PARSEC_TERMDET_FOURCOUNTER_MSG_TYPE_UP ? u->nb_sent : ((parsec_termdet_fourcounter_msg_down_t *)addr)->result; sent[k].b = u->msg_type == PARSEC_TERMDET_FOURCOUNTER_MSG_TYPE_UP ? u->nb_received : 0; }
    return 0;
}
static void term_cb(parsec_taskpool_t *t) { ncb++; if (t->nb_tasks != 0 || t->nb_pending_actions != 0) cb_bad = 1; }

static int s_parent_rank;
static void fresh(const scen_t *s)
{
    ctx = calloc(1, sizeof(parsec_context_t)); ctx->my_rank = s->rank; ctx->nb_nodes = s->N;
    tp = calloc(1, sizeof(parsec_taskpool_t)); tp->taskpool_id = 1; tp->context = ctx; tp->tdm.module = M;
    M->monitor_taskpool(tp, term_cb);
    nsent = 0; ncb = 0; cb_bad = 0;
}
static void apply(const op_t *o)
{
    switch (o->k) {
    case O_T: M->taskpool_addto_nb_tasks(tp, o->a); break;
    case O_PA: M->taskpool_addto_runtime_actions(tp, o->a); break;
    case O_READY: M->taskpool_ready(tp); break;
    case O_OUT: M->outgoing_message_start(tp, o->a, NULL); break;
    case O_INS: { int pos = 0; M->incoming_message_start(tp, o->a, NULL, &pos, 0, NULL); break; }
    case O_INE: M->incoming_message_end(tp, NULL); break;
    case O_UP: { parsec_termdet_fourcounter_msg_up_t m = { PARSEC_TERMDET_FOURCOUNTER_MSG_TYPE_UP, 1, (uint32_t)o->b, (uint32_t)o->c };
        parsec_termdet_fourcounter_msg_dispatch(&parsec_ce, PARSEC_TERMDET_FOURCOUNTER_MSG_TAG, &m, sizeof(m), o->a, NULL); break; }
    case O_DOWN: { parsec_termdet_fourcounter_msg_down_t m = { PARSEC_TERMDET_FOURCOUNTER_MSG_TYPE_DOWN, 1, (uint32_t)o->a };
        parsec_termdet_fourcounter_msg_dispatch(&parsec_ce, PARSEC_TERMDET_FOURCOUNTER_MSG_TAG, &m, sizeof(m), s_parent_rank, NULL); break; }
    }
}
static size_t canon(char *b, size_t cap)
{
    mon_t *m = tp->tdm.monitor;
    size_t o = snprintf(b, cap, "st=%d t=%d pa=%d s/r=%u/%u left=%d acc=%u/%u last=%d/%d cb=%d sent:", m->state, tp->nb_tasks, tp->nb_pending_actions, m->messages_sent, m->messages_received,
                        (int)m->nb_child_left, m->acc_sent, m->acc_received, (int)m->last_acc_sent_at_root, (int)m->last_acc_received_at_root, ncb);
    for (int i = 0; i < nsent && i < 32 && o + 32 < cap; i++) o += snprintf(b + o, cap - o, " %s>%d(%u,%u)", sent[i].type == PARSEC_TERMDET_FOURCOUNTER_MSG_TYPE_UP ? "UP" : "DOWN", sent[i].dst, sent[i].a, sent[i].b);
    return o;
}

/* ---- allowed outcomes: all merges of the threads' op lists, each op atomic ---- */
#define MAXOUT 512
static char allowed[MAXOUT][320]; static int nallowed;
static void merges(const scen_t *s, int *pos, op_t *seq, int len, int total)
{
    if (len == total) {
        fresh(s);
        for (int i = 0; i < s->np; i++) apply(&s->pre[i]);
        for (int i = 0; i < total; i++) apply(&seq[i]);
        char c[320]; canon(c, sizeof(c));
        for (int i = 0; i < nallowed; i++) if (!strcmp(allowed[i], c)) return;
        if (nallowed < MAXOUT) strcpy(allowed[nallowed++], c);
        return;
    }
    for (int t = 0; t < s->nt; t++) if (pos[t] < s->n[t]) { seq[len] = s->t[t][pos[t]]; pos[t]++; merges(s, pos, seq, len + 1, total); pos[t]--; }
}
typedef struct { const scen_t *s; int t; } targ_t;
static struct { long stamp; int t, i; } fin[3 * MAXOPS]; static int nfin;     /* completion order of the operations (observation only) */
static void body(void *a) { targ_t *x = a; for (int i = 0; i < x->s->n[x->t]; i++) { apply(&x->s->t[x->t][i]); int k = __sync_fetch_and_add(&nfin, 1); fin[k].stamp = cs_stamp(); fin[k].t = x->t; fin[k].i = i; } }
static const scen_t *cur_s;
static void run_scen(const scen_t *s)
{
    cur_s = s; s_parent_rank = s->rank ? (s->rank - 1) / 2 : 0;
    parsec_ce.send_am = stub_send_am;
    static int constructed = 0; if (!constructed) { PARSEC_OBJ_CONSTRUCT(&parsec_termdet_fourcounter_delayed_messages, parsec_list_t); constructed = 1; }
    int pos[3] = { 0, 0, 0 }, total = 0; op_t seq[3 * MAXOPS]; nallowed = 0;
    for (int t = 0; t < s->nt; t++) total += s->n[t];
    merges(s, pos, seq, 0, total);
    /* the concurrent execution */
    fresh(s); nfin = 0;
    for (int i = 0; i < s->np; i++) apply(&s->pre[i]);
    mon_t *m = tp->tdm.monitor;
    cs_watch(&m->messages_sent, (char *)&m->stats_nb_busy_idle - (char *)&m->messages_sent, "monitor");   /* protocol fields; the rwlock words live in the (hooked) library */
    cs_watch(&tp->nb_tasks, sizeof(tp->nb_tasks), "nb_tasks");
    cs_watch(&tp->nb_pending_actions, sizeof(tp->nb_pending_actions), "nb_pending_actions");
    cs_watch(&parsec_termdet_fourcounter_delayed_messages, sizeof(parsec_termdet_fourcounter_delayed_messages), "delayed_list");
    targ_t ta[3] = { { s, 0 }, { s, 1 }, { s, 2 } }; void *args[3] = { &ta[0], &ta[1], &ta[2] }; cs_body_t b[3] = { body, body, body };
    cs_run(s->nt, b, args);
    CS_CHECK(!cb_bad, "the termination callback fired while the rank still had load");
    CS_CHECK(ncb <= 1, "the termination callback fired %d times", ncb);
    char c[320]; canon(c, sizeof(c));
    int ok = 0; for (int i = 0; i < nallowed; i++) ok |= !strcmp(allowed[i], c);
    CS_CHECK(ok, "final state / control messages [%s] match none of the %d op-atomic interleavings (first: [%s])", c, nallowed, allowed[0]);
    char ord[128]; size_t oo = 0; ord[0] = 0;
    for (int a = 0; a < nfin; a++) { int best = -1; for (int k = 0; k < nfin; k++) if (fin[k].stamp >= 0 && (best < 0 || fin[k].stamp < fin[best].stamp)) best = k; oo += snprintf(ord + oo, sizeof(ord) - oo, " T%d.%d", fin[best].t, fin[best].i); fin[best].stamp = -1; }
    cs_observe("%s | completion order:%s", c, ord);
}

/* common prefixes: the DSL holds one runtime action across ready */
#define PRE_BUSY1 { O_PA, 1 }, { O_T, 1 }, { O_READY }, { O_PA, -1 }             /* ready, 1 task, start-up action released */
#define PRE_BUSY2 { O_PA, 1 }, { O_T, 2 }, { O_READY }, { O_PA, -1 }
static const scen_t SC[] = {
    /* leaf 1 of 3: last task completes while the comm thread receives an application message */
    { "leaf_done_vs_appmsg", 3, 1, 4, { PRE_BUSY1 }, 2, { 1, 3 }, { { { O_T, -1 } }, { { O_INS, 0 }, { O_T, 1 }, { O_INE } } } },
    /* leaf waiting for its parent's verdict, busy again because of a message: task completes vs DOWN(false) */
    { "leaf_done_vs_down_false", 3, 1, 8, { PRE_BUSY1, { O_T, -1 }, { O_INS, 0 }, { O_T, 1 }, { O_INE } }, 2, { 1, 1 }, { { { O_T, -1 } }, { { O_DOWN, 0 } } } },
    /* root of 3: last task completes vs the last child's UP (exactly one DOWN round must follow) */
    { "root_done_vs_last_up", 3, 0, 5, { PRE_BUSY1, { O_UP, 1, 0, 0 } }, 2, { 1, 1 }, { { { O_T, -1 } }, { { O_UP, 2, 0, 0 } } } },
    /* root, both children reported: task sends a message and completes vs an incoming application message */
    { "root_send_done_vs_appmsg", 3, 0, 6, { PRE_BUSY1, { O_UP, 1, 0, 0 }, { O_UP, 2, 0, 0 } }, 2, { 2, 3 }, { { { O_OUT, 1 }, { O_T, -1 } }, { { O_INS, 2 }, { O_T, 1 }, { O_INE } } } },
    /* interior rank 1 of 5: task completes vs second child's UP (one UP to the parent carrying the subtree sums) */
    { "interior_done_vs_last_up", 5, 1, 5, { PRE_BUSY1, { O_UP, 3, 0, 0 } }, 2, { 1, 1 }, { { { O_T, -1 } }, { { O_UP, 4, 1, 0 } } } },
    /* interior rank, busy waiting for parent: task completes vs DOWN(false) (forward DOWN, then restart the wave) */
    { "interior_done_vs_down_false", 5, 1, 10, { PRE_BUSY1, { O_UP, 3, 0, 0 }, { O_UP, 4, 0, 0 }, { O_T, -1 }, { O_INS, 0 }, { O_T, 1 }, { O_INE } }, 2, { 1, 1 }, { { { O_T, -1 } }, { { O_DOWN, 0 } } } },
    /* two workers complete the last two tasks of a leaf (exactly one UP) */
    { "two_workers_last_tasks", 3, 1, 4, { PRE_BUSY2 }, 2, { 1, 1 }, { { { O_T, -1 } }, { { O_T, -1 } } } },
    /* a task spawns a successor and finishes, the other worker finishes the other task */
    { "worker_spawn_vs_worker_done", 3, 1, 4, { PRE_BUSY2 }, 2, { 1, 3 }, { { { O_T, -1 } }, { { O_T, 1 }, { O_T, -1 }, { O_T, -1 } } } },
    /* start-up action released while the comm thread receives a message (no task yet) */
    { "release_vs_appmsg", 3, 1, 2, { { O_PA, 1 }, { O_READY } }, 2, { 1, 3 }, { { { O_PA, -1 } }, { { O_INS, 0 }, { O_T, 1 }, { O_INE } } } },
    /* three threads: two workers finish, the comm thread delivers DOWN(false) */
    { "two_workers_vs_down_false", 3, 1, 9, { PRE_BUSY1, { O_T, -1 }, { O_INS, 0 }, { O_T, 2 }, { O_INE }, { O_OUT, 0 } }, 3, { 1, 1, 1 }, { { { O_T, -1 } }, { { O_T, -1 } }, { { O_DOWN, 0 } } } },
    /* parked control message: a child's UP arrives while taskpool_ready runs on the parent */
    { "ready_vs_child_up", 3, 0, 2, { { O_PA, 1 }, { O_T, 1 } }, 2, { 2, 1 }, { { { O_READY }, { O_PA, -1 } }, { { O_UP, 1, 0, 0 } } } },
};
#define NSC ((int)(sizeof(SC) / sizeof(SC[0])))
#define R(i) static void run##i(void) { run_scen(&SC[i]); }
R(0) R(1) R(2) R(3) R(4) R(5) R(6) R(7) R(8) R(9) R(10)
static cs_scenario_t scenarios[] = {
    { "leaf_done_vs_appmsg", run0, 0 }, { "leaf_done_vs_down_false", run1, 0 }, { "root_done_vs_last_up", run2, 0 },
    { "interior_done_vs_last_up", run4, 0 }, { "release_vs_appmsg", run8, 0 }, { "ready_vs_child_up", run10, 0 },
#ifndef E1_QUICK     /* the quick tier runs the six scripts above, the thorough tier all eleven */
    { "root_send_done_vs_appmsg", run3, 0 }, { "interior_done_vs_down_false", run5, 0 }, { "two_workers_last_tasks", run6, 0 },
    { "worker_spawn_vs_worker_done", run7, 0 }, { "two_workers_vs_down_false", run9, 0 },
#endif
};
int main(int argc, char **argv) { return cs_main(argc, argv, "C11", scenarios, (int)(sizeof(scenarios) / sizeof(scenarios[0])), NULL); }
