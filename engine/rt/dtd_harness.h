/* dtd_harness: reporting / process-pool helpers shared by the C03, C04, C17 harness executables.
 * Protocol (HARNESS_GUIDE): --json <file> --outdir <dir> --deadline <s> --replay <file>; VIOLATION lines on stdout. */
#ifndef DTD_HARNESS_H
#define DTD_HARNESS_H
#include <stdio.h>
#include <stdlib.h>
#include <string.h>
#include <stdint.h>
#include <stdarg.h>
#include <unistd.h>
#include <time.h>
#include <sys/stat.h>
#include <sys/wait.h>

static const char *dh_property = "C00";
static char dh_outdir[512] = "/verif/out";
static const char *dh_json_path = NULL;
static double dh_deadline_s = 0;           /* seconds granted to this executable */
static const char *dh_replay_file = NULL;
static int dh_worker_id = 0;

static double dh_now(void) { struct timespec ts; clock_gettime(CLOCK_MONOTONIC, &ts); return ts.tv_sec + ts.tv_nsec * 1e-9; }
static uint64_t dh_hash(const void *p, size_t n, uint64_t h)
{
    const uint8_t *s = (const uint8_t *)p; h ^= 1469598103934665603ULL;
    for (size_t i = 0; i < n; i++) { h ^= s[i]; h *= 1099511628211ULL; }
    h ^= h >> 29; h *= 0xff51afd7ed558ccdULL; h ^= h >> 32; return h ? h : 1;
}
typedef struct { uint64_t *v; size_t cap, n; } dh_set_t;
static int dh_set_add(dh_set_t *s, uint64_t h)
{
    if (!h) h = 1;
    if (s->n * 2 >= s->cap) {
        size_t nc = s->cap ? s->cap * 2 : 4096; uint64_t *nv = (uint64_t *)calloc(nc, sizeof(uint64_t));
        for (size_t i = 0; i < s->cap; i++) if (s->v[i]) { size_t j = s->v[i] & (nc - 1); while (nv[j]) j = (j + 1) & (nc - 1); nv[j] = s->v[i]; }
        free(s->v); s->v = nv; s->cap = nc;
    }
    size_t j = h & (s->cap - 1);
    while (s->v[j]) { if (s->v[j] == h) return 0; j = (j + 1) & (s->cap - 1); }
    s->v[j] = h; s->n++; return 1;
}

typedef struct {
    long states, transitions, executions, nontrivial, outcomes;
    long extra[12];
    int exhaustive, violations, broken;
    char samples[3][480]; int nsamples;
} dh_stats_t;
static void dh_stats_init(dh_stats_t *s) { memset(s, 0, sizeof(*s)); s->exhaustive = 1; }
static void dh_stats_sample(dh_stats_t *s, const char *fmt, ...)
{
    if (s->nsamples >= 3) return;
    va_list ap; va_start(ap, fmt); vsnprintf(s->samples[s->nsamples++], 480, fmt, ap); va_end(ap);
}
static void dh_stats_merge(dh_stats_t *a, const dh_stats_t *b)
{
    a->states += b->states; a->transitions += b->transitions; a->executions += b->executions; a->nontrivial += b->nontrivial; a->outcomes += b->outcomes;
    for (int i = 0; i < 10; i++) a->extra[i] += b->extra[i];          /* extra[0..9]: summed, extra[10..11]: maximum */
    for (int i = 10; i < 12; i++) if (b->extra[i] > a->extra[i]) a->extra[i] = b->extra[i];
    a->exhaustive = a->exhaustive && b->exhaustive; a->violations += b->violations; a->broken += b->broken;
    for (int i = 0; i < b->nsamples && a->nsamples < 3; i++) memcpy(a->samples[a->nsamples++], b->samples[i], 480);
}

static void dh_json_str(FILE *f, const char *s)
{
    fputc('"', f);
    for (; *s; s++) { unsigned char c = (unsigned char)*s; if (c == '"' || c == '\\') { fputc('\\', f); fputc(c, f); } else if (c == '\n') fputs("\\n", f); else if (c < 0x20) fprintf(f, "\\u%04x", c); else fputc(c, f); }
    fputc('"', f);
}
/* the current case of this worker, kept in memory shared with the parent so that a crash / hang inside the runtime
 * can be attributed: scen + pre-rendered JSON fields ("k":"v",...) */
typedef struct { volatile long beat; volatile long beat2 /* bumped by a worker while it supervises a forked case child */; char scen[64]; char kv[1900]; } dh_slot_t;
static dh_slot_t dh_private_slot; static dh_slot_t *dh_slot = &dh_private_slot;
static void dh_case(const char *scen, const char *fmt, ...)
{
    snprintf((char *)dh_slot->scen, sizeof(dh_slot->scen), "%s", scen);
    va_list ap; va_start(ap, fmt); vsnprintf((char *)dh_slot->kv, sizeof(dh_slot->kv), fmt, ap); va_end(ap);
    dh_slot->beat++;
}
/* replay file = flat JSON object of string fields */
static void dh_violation_kv(const char *scen, const char *kv, const char *msg)
{
    static int seq = 0; char dir[600], path[900];
    snprintf(dir, sizeof(dir), "%s/replay", dh_outdir); mkdir(dh_outdir, 0777); mkdir(dir, 0777);
    snprintf(path, sizeof(path), "%s/%s-%s-w%d-%d.json", dir, dh_property, scen, dh_worker_id, seq++);
    FILE *f = fopen(path, "w");
    if (f) {
        fprintf(f, "{\"property\":\"%s\",\"scenario\":\"%s\",\n \"message\":", dh_property, scen); dh_json_str(f, msg);
        if (kv && *kv) fprintf(f, ",\n %s", kv);
        fprintf(f, "}\n"); fclose(f);
    }
    printf("VIOLATION property=%s replay=%s\n", dh_property, path);
    printf("  scenario=%s: %s\n", scen, msg);
    fflush(stdout);
}
static void dh_violation(const char *msg) { dh_violation_kv((const char *)dh_slot->scen, (const char *)dh_slot->kv, msg); }
/* read a string field of a flat JSON replay file; returns 0 if found */
static int dh_replay_get(const char *path, const char *key, char *out, size_t cap)
{
    FILE *f = fopen(path, "r"); if (!f) return -1;
    static char buf[1 << 16]; size_t n = fread(buf, 1, sizeof(buf) - 1, f); buf[n] = 0; fclose(f);
    char pat[128]; snprintf(pat, sizeof(pat), "\"%s\":", key);
    char *s = strstr(buf, pat); if (!s) return -1; s += strlen(pat);
    while (*s == ' ') s++;
    if (*s != '"') return -1;
    s++;
    size_t o = 0;
    while (*s && *s != '"' && o + 1 < cap) { if (*s == '\\' && s[1]) { s++; out[o++] = (*s == 'n') ? '\n' : *s; s++; } else out[o++] = *s++; }
    out[o] = 0; return 0;
}
static int dh_replay_int(const char *path, const char *key, int dflt) { char b[64]; if (dh_replay_get(path, key, b, sizeof(b))) return dflt; return atoi(b); }

static FILE *dh_json = NULL; static int dh_json_first = 1;
static void dh_init(int argc, char **argv, const char *property)
{
    dh_property = property;
    for (int i = 1; i < argc; i++) {
        if (!strcmp(argv[i], "--json") && i + 1 < argc) dh_json_path = argv[++i];
        else if (!strcmp(argv[i], "--outdir") && i + 1 < argc) snprintf(dh_outdir, sizeof(dh_outdir), "%s", argv[++i]);
        else if (!strcmp(argv[i], "--deadline") && i + 1 < argc) dh_deadline_s = atof(argv[++i]);
        else if (!strcmp(argv[i], "--replay") && i + 1 < argc) dh_replay_file = argv[++i];
    }
    setvbuf(stdout, NULL, _IOLBF, 0);
}
static const char *dh_arg(int argc, char **argv, const char *name, const char *dflt)
{
    for (int i = 1; i + 1 < argc; i++) if (!strcmp(argv[i], name)) return argv[i + 1];
    return dflt;
}
static void dh_report(const char *name, const dh_stats_t *s, double wall, const char *extra_json)
{
    if (!dh_json) { dh_json = fopen(dh_json_path ? dh_json_path : "/dev/null", "w"); if (!dh_json) { perror("json"); exit(2); } fprintf(dh_json, "{\"engine\":\"rt\",\"property\":\"%s\",\"scenarios\":[\n", dh_property); }
    fprintf(dh_json, "%s{\"name\":\"%s\",\"engine\":\"rt\",\"states\":%ld,\"transitions\":%ld,\"executions\":%ld,\"nontrivial\":%ld,\"distinct_outcomes\":%ld,\"exhaustive\":%s,\"violations\":%d,\"wall_s\":%.2f",
            dh_json_first ? "" : ",\n", name, s->states, s->transitions, s->executions, s->nontrivial, s->outcomes, s->exhaustive ? "true" : "false", s->violations, wall);
    if (s->broken) fprintf(dh_json, ",\"broken\":%d", s->broken);
    if (extra_json && *extra_json) fprintf(dh_json, ",%s", extra_json);
    fprintf(dh_json, ",\"samples\":[");
    for (int i = 0; i < s->nsamples; i++) { if (i) fputc(',', dh_json); dh_json_str(dh_json, s->samples[i]); }
    fprintf(dh_json, "]}");
    dh_json_first = 0; fflush(dh_json);
    fprintf(stderr, "rt[%s/%s]: states=%ld transitions=%ld executions=%ld nontrivial=%ld outcomes=%ld exhaustive=%d violations=%d broken=%d %.1fs %s\n",
            dh_property, name, s->states, s->transitions, s->executions, s->nontrivial, s->outcomes, s->exhaustive, s->violations, s->broken, wall, extra_json ? extra_json : "");
}
static int dh_finish(int violations, int broken)
{
    if (dh_json) { fprintf(dh_json, "\n]}\n"); fclose(dh_json); dh_json = NULL; }
    return violations ? 1 : broken ? 2 : 0;
}

/* run worker(j, J, arg, &stats) in J forked children (each initialises its own runtime); merge the stats.
 * A child that dies (assertion / signal inside the runtime) or stops making progress for dh_hang_s seconds is a
 * VIOLATION attributed to its current case (dh_case), not a harness failure. */
#include <sys/mman.h>
#include <signal.h>
#include <errno.h>
#include <fcntl.h>
static double dh_hang_s = 30.0;
typedef void (*dh_worker_fn)(int j, int J, void *arg, dh_stats_t *st);
static void dh_pool(int J, dh_worker_fn fn, void *arg, dh_stats_t *total)
{
    dh_stats_init(total);
    if (J < 1) J = 1;
    if (J > 64) J = 64;
    int fds[64][2]; pid_t pids[64]; int done[64]; long lastbeat[64]; double lastt[64];
    dh_slot_t *slots = (dh_slot_t *)mmap(NULL, sizeof(dh_slot_t) * 64, PROT_READ | PROT_WRITE, MAP_SHARED | MAP_ANONYMOUS, -1, 0);
    if (slots == MAP_FAILED) { perror("mmap"); exit(2); }
    memset(slots, 0, sizeof(dh_slot_t) * 64);
    fflush(stdout); fflush(stderr);
    for (int j = 0; j < J; j++) {
        if (pipe(fds[j])) { perror("pipe"); exit(2); }
        pids[j] = fork();
        if (pids[j] == 0) {
            for (int k = 0; k <= j; k++) close(fds[k][0]);
            dh_worker_id = j; dh_json = NULL; dh_slot = &slots[j];
            dh_stats_t st; dh_stats_init(&st);
            fn(j, J, arg, &st);
            fflush(stdout); fflush(stderr);
            if (write(fds[j][1], &st, sizeof(st)) != (ssize_t)sizeof(st)) _exit(3);
            _exit(0);
        }
        close(fds[j][1]); done[j] = 0; lastbeat[j] = -1; lastt[j] = dh_now();
        fcntl(fds[j][0], F_SETFL, O_NONBLOCK);
    }
    static dh_stats_t sts[64]; size_t got[64]; memset(got, 0, sizeof(got));
    int left = J;
    while (left > 0) {
        int progress = 0;
        for (int j = 0; j < J; j++) {
            if (done[j]) continue;
            ssize_t r;
            while (got[j] < sizeof(dh_stats_t) && (r = read(fds[j][0], (char *)&sts[j] + got[j], sizeof(dh_stats_t) - got[j])) > 0) { got[j] += (size_t)r; progress = 1; }
            int status = 0; pid_t w = waitpid(pids[j], &status, WNOHANG);
            if (w == pids[j]) {
                while (got[j] < sizeof(dh_stats_t) && (r = read(fds[j][0], (char *)&sts[j] + got[j], sizeof(dh_stats_t) - got[j])) > 0) got[j] += (size_t)r;
                close(fds[j][0]); done[j] = 1; left--; progress = 1;
                if (got[j] == sizeof(dh_stats_t) && WIFEXITED(status) && WEXITSTATUS(status) == 0) dh_stats_merge(total, &sts[j]);
                else if (WIFEXITED(status) && WEXITSTATUS(status) == 77) { total->violations++; total->exhaustive = 0; }   /* the worker reported a violation itself and stopped */
                else {
                    char msg[300];
                    if (WIFSIGNALED(status)) snprintf(msg, sizeof(msg), "the runtime crashed (signal %d: assertion failure / memory error) while executing this case", WTERMSIG(status));
                    else snprintf(msg, sizeof(msg), "the process exited with status %d while executing this case", WIFEXITED(status) ? WEXITSTATUS(status) : -1);
                    if (slots[j].beat > 0) { dh_worker_id = j; dh_violation_kv((const char *)slots[j].scen, (const char *)slots[j].kv, msg); total->violations++; }
                    else { fprintf(stderr, "dtd_harness: worker %d died before its first case (status 0x%x)\n", j, status); total->broken++; }
                    total->exhaustive = 0;
                }
                continue;
            }
            if (slots[j].beat + slots[j].beat2 != lastbeat[j]) { lastbeat[j] = slots[j].beat + slots[j].beat2; lastt[j] = dh_now(); }
            else if (dh_now() - lastt[j] > dh_hang_s && slots[j].beat > 0) {
                { char cmd[1800]; snprintf(cmd, sizeof(cmd), "mkdir -p %s/replay; timeout 20 gdb -p %d -batch -ex 'thread apply all bt 14' > %s/replay/%s-hang-w%d-stacks.txt 2>/dev/null", dh_outdir, (int)pids[j], dh_outdir, dh_property, j); if (system(cmd)) {} }
                kill(pids[j], SIGKILL); waitpid(pids[j], &status, 0); close(fds[j][0]); done[j] = 1; left--;
                char msg[300]; snprintf(msg, sizeof(msg), "no progress for %.0f s: the taskpool never terminated (hang / lost task / livelock) in this case", dh_hang_s);
                dh_worker_id = j; dh_violation_kv((const char *)slots[j].scen, (const char *)slots[j].kv, msg); total->violations++; total->exhaustive = 0;
            }
        }
        if (!progress) { struct timespec ts = { 0, 2000000 }; nanosleep(&ts, NULL); }
    }
    munmap(slots, sizeof(dh_slot_t) * 64);
}

/* run fn(arg) in a forked child of the calling (single-threaded) worker. Returns 0 = fn returned 0, 1 = fn returned
 * non-zero, 2 = the child died on a signal (*sig), 3 = no progress (beat of the shared slot) for 0.6*hang_s seconds.
 * The child's stderr goes to a scratch file whose most telling line (an assertion message if any) is returned in err. */
static int dh_isolated(int (*fn)(void *), void *arg, double hang_s, char *err, size_t cap, int *sig)
{
    char path[800]; snprintf(path, sizeof(path), "%s/tmp-%s-w%d.err", dh_outdir, dh_property, dh_worker_id);
    mkdir(dh_outdir, 0777);
    fflush(stdout); fflush(stderr); err[0] = 0; *sig = 0;
    pid_t pid = fork();
    if (pid < 0) { perror("fork"); return 2; }
    if (pid == 0) {
        int fd = open(path, O_WRONLY | O_CREAT | O_TRUNC, 0644); if (fd >= 0) { dup2(fd, 2); close(fd); }
        int r = fn(arg); fflush(stdout); fflush(stderr); _exit(r ? 1 : 0);
    }
    long lb = dh_slot->beat; double lt = dh_now(); int status = 0, rc; long nap = 20000;
    for (;;) {
        pid_t w = waitpid(pid, &status, WNOHANG);
        if (w == pid) break;
        if (dh_slot->beat != lb) { lb = dh_slot->beat; lt = dh_now(); }
        else if (dh_now() - lt > 0.6 * hang_s) { kill(pid, SIGKILL); waitpid(pid, &status, 0); dh_slot->beat++; unlink(path); return 3; }
        dh_slot->beat2++;
        struct timespec ts = { 0, nap }; nanosleep(&ts, NULL); if (nap < 4000000) nap += nap / 2;
    }
    if (WIFEXITED(status)) rc = WEXITSTATUS(status) ? 1 : 0; else { rc = 2; *sig = WIFSIGNALED(status) ? WTERMSIG(status) : -1; }
    if (rc) {
        FILE *f = fopen(path, "r");
        if (f) { char line[600]; while (fgets(line, sizeof(line), f)) { size_t n = strlen(line); if (n && line[n - 1] == '\n') line[n - 1] = 0; if (!err[0] || strstr(line, "Assertion")) snprintf(err, cap, "%s", line); if (strstr(line, "Assertion")) break; } fclose(f); }
    }
    unlink(path);
    return rc;
}
#endif
