META = dict(
    engine='cosched+seqx',
    technique='stateless model checking: preemption-bounded exhaustive schedule enumeration (CHESS) of the real parsec_hash_table.c with forced resizes, brute-force linearizability against a sequential map; plus BFS over all sequential operation histories against a reference map',
    level_text='E1: every schedule with <= b preemptions (quick: b=2 for four 2-thread scripts, b=1 for the six larger ones; thorough: b=3 for the 2-thread, b=2 for the 3-thread scripts) of twelve hand-written 2-3 thread scripts (insert/find/remove/find-or-insert under lock_bucket) over the real table with nb_bits=1, max_collisions_hint=1 and colliding key hashes, so that resizes and migrations out of old tables happen inside the explored window; plus GENERATED script families: all scripts pre-state x T0 ops || T1 ops (|| T2) over the alphabet {insert, find, remove, find-or-insert} x keys {1,2,7} (1|2 split by the first resize, 2|7 never split) and five pre-states (empty, one item, just resized, resized + one item migrated, three table generations), minus contract violations, up to thread / key symmetry - quick: shape (1,1) all pre-states at b=1, shapes (1,1) at b=2 and (2,1) at b=1 from the resize-imminent pre-state, each under a wall budget; thorough: (1,1) b=2 on seven pre-states and keys {1,2,7,5}, (2,1) b=1 and b=2, (1,1,1) b=1, (2,2) b=2, budget-cut (evidence: scripts generated / filtered / explored). Each history is checked for linearizability against a map with unique keys, and at quiescence for_all visits each stored element once, no table was unlinked while non-empty, every lock is free. E2: all sequential histories up to depth 6 (quick) / closure (thorough) over 5 keys with hints 1 and 2, reference map + structural invariants after every operation.',
    level_note='Sequential consistency at instrumented accesses (gcc -fsanitize=thread instrumentation + own runtime); 2-3 threads, <= 2 operations per thread; the property text speaks of 1..16 threads: only 2-3 are explored, exhaustively within the preemption bound.',
)
RULE = ("cosched: every schedule of each 2-3 thread script (hand-written, and every script of the generated families 'family/gen_*': see the leg's "
        "spec, scripts_generated / _after_contract / _after_relevance / _after_symmetry / _explored / _completed) over the real hash table with at most b preemptions "
        "(scheduling points = every instrumented access to the table's rwlock, rw_hash pointer, every table's next/used_buckets, "
        "all bucket arrays and the items' links, plus the blocking hooks); a schedule is non-trivial when it contains at least one "
        "preemption; states = nodes of the explored schedule tree. seqx: BFS over operation histories deduplicated by the canonical "
        "layout (per table and bucket: chained keys in order); non-trivial = shortest history has >= 2 operations")
ASSUME = ["sequential consistency at instrumented accesses (no weak-memory effects)",
          "gcc -fsanitize=thread instrumentation reports every access to the watched objects",
          "usage contract respected: insert is never called for a key that is present",
          "2-3 threads with 1-2 operations each (not 16 threads)",
          "generated families: a wall budget bounds each family; scripts_explored < scripts_after_symmetry means the family was cut (exhaustive:false for that leg)"]


def build_conc(ctx):
    return ctx.compile('hk-shm', 'ht_conc', ['ht_conc.c'], engine='cosched')


def build_seq(ctx):
    return ctx.compile('hk-shm', 'ht_seq', ['ht_seq.c'], instr=False)


TWO = ['resize_vs_find_remove', 'resize_vs_insert_find', 'migrate_vs_remove_old', 'two_old_tables_emptied', 'inserts_meet_in_new_bucket']
TWO_BIG = ['double_overflow', 'find_or_insert_same_key']
THREE = ['migrate_migrate_remove', 'find_or_insert_vs_remove', 'walk_old_tables_during_unlink', 'design_3threads', 'inserts_meet_in_new_bucket_3t']


def conc(ctx, exe, names, bound, deadline, label):
    import os
    from vlib import NJOBS, OUT
    env = dict(os.environ); env['C32_SET'] = ','.join(names)
    args = ['--bound', str(bound), '--jobs', str(NJOBS), '--outdir', OUT, '--deadline', str(int(deadline))]
    return ctx.run_engine(exe, args, label=label, timeout=deadline + 600, env=env)


# ---- generated (bounded-exhaustive) script families: see "Generated script families" in NOTES.md and the comment in ht_conc.c ----
# (label, spec, preemption bound, wall budget in s, scripts per engine invocation, order, seconds a started script may always use)
#   a batch is started only while the budget lasts; once started, each of its scripts may use 'allow' seconds (bounded overrun)
#   order 'seq'    = family order (pre-state, then operations; simplest first), a budget cut leaves a prefix explored;
#   order 'spread' = the batches are visited in bit-reversed order, so that a budget cut leaves an even, deterministic subset of the
#                    family explored (for the families that cannot complete)
K3 = 'keys=127;ops=ifro'
FAMILIES = {
    'quick': [
        ('gen_11_b1', 'shape=1,1;%s;pre=01234;void=1' % K3, 1, 12, 8, 'seq', 1.5),
        ('gen_21_b1_P1', 'shape=2,1;%s;pre=1;void=0' % K3, 1, 16, 8, 'seq', 1.5),
        ('gen_11_b2_P1', 'shape=1,1;%s;pre=1;void=0' % K3, 2, 12, 1, 'seq', 10),
    ],
    'thorough': [
        ('gen_11_b2', 'shape=1,1;keys=1275;ops=ifro;pre=1234056;void=1', 2, 120, 4, 'seq', 6),
        ('gen_21_b1', 'shape=2,1;%s;pre=12340;void=0' % K3, 1, 90, 24, 'seq', 1),
        ('gen_21_b2', 'shape=2,1;%s;pre=123;void=0' % K3, 2, 110, 2, 'seq', 8),
        ('gen_111_b1', 'shape=1,1,1;%s;pre=12;void=0' % K3, 1, 50, 1, 'seq', 15),
        ('gen_22_b2', 'shape=2,2;%s;pre=1;void=0' % K3, 2, 50, 1, 'spread', 20),
    ],
}


def bitrev_order(n):
    if n <= 1:
        return list(range(n))
    w = (n - 1).bit_length()
    return [j for j in (int(format(i, '0%db' % w)[::-1], 2) for i in range(1 << w)) if j < n]


def gen_family(ctx, exe, label, spec, bound, budget, batch, order, allow, procs, jobs):
    """Explore one generated family: the harness enumerates it (--gen-list), ranges of it are explored by parallel engine
    invocations until everything is done or the wall budget is used up; one aggregated evidence leg."""
    import os, sys, json, subprocess, time, statistics
    from concurrent.futures import ThreadPoolExecutor
    from vlib import OUT
    env = dict(os.environ); env['C32_GEN'] = spec
    r = subprocess.run([exe, '--gen-list'], env=env, capture_output=True, text=True)
    if r.returncode != 0:
        ctx.broken.append('%s: --gen-list failed: %s' % (label, r.stderr[-500:])); return
    fam = json.loads(r.stdout)
    n = fam['after_symmetry']
    t0 = time.time(); t_end = t0 + budget
    ranges = [(lo, min(n, lo + batch)) for lo in range(0, n, batch)]
    if order == 'spread':
        ranges = [ranges[i] for i in bitrev_order(len(ranges))]
    mine = '%s@' % label
    nviol0 = len(ctx.violations)
    def one(rg):
        left = t_end - time.time()
        if left < 1.0 or len(ctx.violations) > nviol0:
            return None                      # budget used up (or a violation is already reported): this range is not explored (exhaustive:false)
        e = dict(env); e['C32_GEN'] = '%s;range=%d:%d' % (spec, rg[0], rg[1])
        dl = max(2, int(left), int(allow * (rg[1] - rg[0])))
        ctx.run_engine(exe, ['--bound', str(bound), '--jobs', str(jobs), '--outdir', OUT, '--deadline', str(dl)], label='%s%d' % (mine, rg[0]), timeout=dl + 300, env=e)
        return rg
    with ThreadPoolExecutor(max_workers=procs) as ex:
        done = [x for x in ex.map(one, ranges) if x]
    legs = [l for l in ctx.legs if str(l.get('leg', '')).startswith(mine)]
    ctx.legs[:] = [l for l in ctx.legs if not str(l.get('leg', '')).startswith(mine)]
    pos = {nm: i for i, nm in enumerate(fam['scripts'])}
    legs.sort(key=lambda l: pos.get(l['name'], 0))
    complete = [l for l in legs if l.get('exhaustive')]
    outs = [int(l.get('distinct_outcomes', 0)) for l in (complete or legs)]      # outcome statistics over the scripts that completed their bound
    samples = []
    for l in sorted(legs, key=lambda l: -int(l.get('distinct_outcomes', 0)))[:2] + legs[:1]:
        for sm in l.get('samples', [])[:1]:
            samples.append(dict(sm, script=l['name']))
    nex = sum(int(l.get('executions', 0)) for l in legs)
    ctx.add_leg(name=label, leg='family', engine='cosched', spec=spec, bound=bound, order=order,
                alphabet=fam['alphabet'], scripts_generated=fam['generated'], scripts_after_contract=fam['after_contract'],
                scripts_after_relevance=fam['after_relevance'], scripts_after_symmetry=n,
                scripts_explored=len(legs), scripts_completed=len(complete),
                states=sum(int(l.get('states', 0)) for l in legs), transitions=sum(int(l.get('transitions', 0)) for l in legs),
                executions=nex, nontrivial=sum(int(l.get('nontrivial', 0)) for l in legs),
                distinct_outcomes=sum(outs), outcomes_per_script=dict(min=min(outs), median=statistics.median(outs), max=max(outs)) if outs else {},
                single_outcome_scripts=sum(1 for o in outs if o <= 1), max_points=max([int(l.get('max_points', 0)) for l in legs] or [0]),
                exhaustive=(len(complete) == n), violations=sum(int(l.get('violations', 0)) for l in legs),
                explored_ranges=[list(x) for x in sorted(done)] if order == 'spread' else [[0, max([x[1] for x in done] or [0])]],
                wall_s=round(time.time() - t0, 2), samples=samples)
    sys.stderr.write('C32 family %s (bound %d): %d generated, %d after contract, %d after relevance, %d after symmetry; explored %d (complete %d), %d schedules, outcomes/script min %s max %s, %d single-outcome, %.1fs\n'
                     % (label, bound, fam['generated'], fam['after_contract'], fam['after_relevance'], n, len(legs), len(complete),
                        nex, min(outs) if outs else '-', max(outs) if outs else '-', sum(1 for o in outs if o <= 1), time.time() - t0))
    # vacuity guard: a family whose scripts all have a single outcome collides with nothing
    if legs and max(outs) <= 1 and len(complete) < n and not sum(int(l.get('violations', 0)) for l in legs):
        ctx.notes.append('%s: the %d scripts explored before the budget cut all have a single outcome (vacuity is only judged on a completely explored family)' % (label, len(legs)))
    elif legs and max(outs) <= 1 and not sum(int(l.get('violations', 0)) for l in legs):
        ctx.broken.append('%s: every script of the family has a single outcome: the alphabet collides with nothing' % label)


def families(ctx, exe):
    import os
    from vlib import NJOBS
    procs = max(1, min(8, NJOBS)); jobs = max(1, min(2, NJOBS // procs))      # 16 cores: 8 invocations x 2 workers
    fams = FAMILIES[ctx.tier]
    if os.environ.get('C32_FAMILIES'):     # development: "label|spec|bound|budget|batch|order|allow;;..."
        fams = [(a, b, int(c), float(d), int(e), f, float(g)) for a, b, c, d, e, f, g in (x.split('|') for x in os.environ['C32_FAMILIES'].split(';;'))]
    # quick tier on a loaded machine: when the legs before took long, the family budgets shrink (down to 40 %: fewer batches are started; a started script always gets its 'allow') so that the tier stays bounded;
    # the evidence then shows scripts_explored < scripts_after_symmetry
    import time
    scale = 1.0 if ctx.tier != 'quick' else min(1.0, max(0.4, (110.0 - (time.time() - ctx.t0)) / 40.0))
    for label, spec, bound, budget, batch, order, allow in fams:
        gen_family(ctx, exe, label, spec, bound, budget * scale, batch, order, allow, procs, jobs)


def check(ctx):
    import os
    quick = ctx.tier == 'quick'
    only = os.environ.get('C32_ONLY', '')        # development switch: 'gen' = generated families only, 'hand' = hand-picked scripts only, 'seq'
    if only in ('', 'seq'):
        seq = build_seq(ctx)
        ctx.run_engine(seq, ['--outdir', '/verif/out', '--deadline', '20' if quick else '300'] + ([] if quick else ['--thorough']), label='ht_seq', timeout=900)
    exe = build_conc(ctx)
    if only in ('', 'hand'):
        if quick:
            # one invocation per script (the engine's deadline is per invocation): every script completes bound 1 even on a loaded machine
            for s in TWO:
                conc(ctx, exe, [s], 2, 9, 'b2_' + s)
            for s in TWO_BIG + THREE:
                conc(ctx, exe, [s], 1, 7, 'b1_' + s)
        else:
            # one invocation per script so that every script gets its own share of the thorough budget (the engine's deadline is per invocation);
            # 60 s each (was 100 s) since the generated families take 480 s of the same thorough budget
            for s in TWO + TWO_BIG:
                conc(ctx, exe, [s], 3, 60, 'b3_' + s)
            for s in THREE:
                conc(ctx, exe, [s], 2, 60, 'b2_' + s)
    if only in ('', 'gen'):
        families(ctx, exe)
    return ctx.finish(RULE, ASSUME)


def replay(ctx, path, obj):
    import subprocess
    if obj.get('engine') == 'seqx':
        return subprocess.call([build_seq(ctx), '--replay', path])
    return subprocess.call([build_conc(ctx), '--replay', path])
