import os, sys, time
sys.path.insert(0, os.path.join(os.environ.get('VERIF_ROOT', '/verif'), 'engine', 'rt'))
import ptgfam, ptgrun
sys.path.insert(0, os.path.join(os.environ.get('VERIF_ROOT', '/verif'), 'harness', 'C02'))
import il          # instruction-level leg of the real PTG runtime (harness/C02/il.py, c02_il.c), here with AGAIN-answering bodies

META = dict(
    engine='rt+cosched',
    technique='exhaustive enumeration of AGAIN scripts (0..3)^n for every PTG program variant with n <= 4 instances x all task-level orders (harness scheduler DFS) x all 11 schedulers x threads {1,2} x 2 dependency back-ends; exhaustive start-up chunking grid task_startup_iter x task_startup_chunk in {1,2,3,5,default}^2 over execution spaces of 1..3 nested parameters; plus (legs il-*-again1) preemption-bounded exhaustive instruction-level schedule enumeration (cosched) of two execution streams on real generated PTG taskpools whose bodies answer AGAIN once',
    level_text='Part A: for every script telling each instance how many times its body answers PARSEC_HOOK_RETURN_AGAIN (0..3 per instance, all combinations, programs with <= 4 instances: chains, fan-out + CTL gather, fan-in, independent tasks, WRITE/NEW data) the body is invoked exactly script+1 times, completes once, its successors run exactly once after it, and the taskpool terminates - under every task-level order (all orders for <= 2 instances, deviation-bounded above) and under every scheduler x {1,2} threads. Part B: for every (task_startup_iter, task_startup_chunk) of the 5x5 grid the chunked start-up generation (AGAIN re-submission of the generated start-up task, restore labels for local indices and nested loops) produces exactly the reference start-up instance set, each instance once, for execution-space shapes of 1..3 nested parameters and for classes mixing start-up and non-start-up instances. Legs il-*-again1: three PTG taskpools (join in mask mode, CTL gather in counter mode, chunked start-up of two classes with a join) x 2 dependency back-ends on two controlled execution streams, every body answering AGAIN on its first invocation (the task is re-scheduled through the shared queue and may continue on the other stream), every interleaving with <= 1 preemption (thorough <= 2) at instrumented accesses to the shared state of the runtime: every body invoked exactly twice, completes once, successors after it with the right data, the taskpool terminates.',
    level_note='AGAIN is returned before the body touches its data (a body that partly ran is outside the property). No negative-step ranges here (recorded finding C01-negative-step-execution-space, exercised by C01). Nothing about order or priority after AGAIN is asserted.',
)
RULE = ("part A: every script in (0..3)^n per variant (n <= 4) is an execution box point; hsched: DFS over every choice of the next ready task incl. the re-submitted ones; "
        "part B: every point of the start-up grid x program variant; non-trivial = order with >= 1 non-canonical choice (hs) / run using >= 2 threads (free); "
        "distinct outcomes = distinct body completion orders")
OR_A = 1 | 2 | 16
OR_B = 1


IL_PROGS = ['il_join', 'il_gather', 'il_startup']


def check(ctx):
    from concurrent.futures import ThreadPoolExecutor
    fut = ThreadPoolExecutor(1).submit(il.build, ctx, IL_PROGS)      # built in the background
    quick = ctx.tier == 'quick'
    pa, ra = ptgfam.c16_again_family(ctx.tier)
    pb, rb = ptgfam.c16_startup_family(ctx.tier)
    t0 = time.time()
    R = ptgrun.Runner(ctx)
    t1 = time.time()
    exes = R.build_all(pa + pb)
    ctx.notes.append('library build %.1fs, programs build (%d programs x 2 back-ends) %.1fs' % (t1 - t0, len(pa + pb), time.time() - t1))
    g = (1, 2, 3, 5, 0)
    grid = ','.join('%d:%d' % (i, c) for i in g for c in g)
    again = ['--again', '3', '--again-maxinst', '4']
    if quick:
        hsA, frA, knA = ptgrun.make_jobs(pa, exes, OR_A, True, '0', '0', (1, 2), 1, 2, 1, 14, 16, extra=again, tag='again')
        hsB, frB, knB = ptgrun.make_jobs(pb, exes, OR_B, True, grid, grid, (1, 2), 1, 3, 1, 14, 16, tag='startup')
    else:
        hsA, frA, knA = ptgrun.make_jobs(pa, exes, OR_A, False, '0,1:1', '0,1:1', (1, 2, 4), 2, 3, 3, 150, 240, extra=again, tag='again')
        hsB, frB, knB = ptgrun.make_jobs(pb, exes, OR_B, False, grid, grid, (1, 2, 4), 2, 4, 2, 150, 240, tag='startup')
    ctx.notes.append('part A: %d programs / %d variants; part B: %d programs / %d variants; refused by the interpreter: %d' % (
        len(pa), sum(len(p.variants) for p in pa), len(pb), sum(len(p.variants) for p in pb), ra + rb))
    # order: the schedule-exhaustive legs first (task-level DFS, then the instruction-level il legs), the free-running box last,
    # so that the first reported violation has a deterministic replay (a free-running failure depends on OS timing)
    R.run_jobs(hsA, 'A-again-scripts-hsched-task-orders')
    R.run_jobs(hsB, 'B-startup-grid-hsched-task-orders')
    il_done = False
    if not ctx.violations:
        il.run(ctx, fut.result(), again=1, names=IL_PROGS, task_fields=2); il_done = True
    if not ctx.violations:
        R.run_jobs(frA, 'A-again-scripts-all-schedulers')
        R.run_jobs(frB, 'B-startup-grid-all-schedulers')
    if knA + knB:
        R.run_jobs(knA + knB, 'recorded-findings (index-array back-end, non-range parameters)', stop_on_violation=False)
    ctx.notes += R.notes
    R.cleanup()
    if not ctx.violations and not il_done:
        il.run(ctx, fut.result(), again=1, names=IL_PROGS, task_fields=2)
    return ctx.finish(RULE + '; ' + il.RULE, il.ASSUME + ['task bodies and runtime actions atomic at the task level', 'single process, shared memory',
                             'AGAIN returned before the body touches data'])


def replay(ctx, path, obj):
    if obj.get('engine') == 'cosched':
        return il.replay(ctx, path, obj)
    return ptgrun.replay(ctx, path, obj, ptgfam.c16_again_family('thorough')[0] + ptgfam.c16_startup_family('thorough')[0])
