/* C26 (E2/seqx): data copy ownership transfers keep one consistent newest version.
 * Real parsec_data_start/end_transfer_ownership_to_copy (and the combined parsec_data_transfer_ownership_to_copy
 * for device 0, as the CPU paths of PTG/DTD use it) from libparsec, driven through the call protocol of
 * mca/device/device_gpu.c (stage-in): lock; src = start(); if a source is named copy the version from it;
 * end(); a writing access that produces data bumps the version; a reading access releases its reader when the
 * task completes. A boring shadow model tracks which copies hold which version. */
#include "parsec/parsec_config.h"
#include "parsec/data_internal.h"
#include "parsec/mca/device/device.h"
#include "parsec/parsec_description_structures.h"
#include "seqx.h"
#include <setjmp.h>
#include <signal.h>

#ifndef NDEV
#define NDEV 3
#endif
#define MAXDEV 4
enum { INIT_CREATE = 0, INIT_FRESH = 1, INIT_SHARED = 2, NINIT = 3 };
static const char *init_name[] = { "created(dev0 owns v0)", "fresh(all invalid, no owner)", "received(dev0 shared v0, no owner)" };
static int g_init = 0;
static int g_known_owner_read = 0; static long g_known_hits = 0;

typedef struct {
    parsec_data_t *data; parsec_data_copy_t *c[MAXDEV];
    /* shadow model */
    int valid[MAXDEV]; unsigned ver[MAXDEV];
    int tainted;            /* a known finding fired on the way here: the branch is not expanded further */
} obj_t;

/* alphabet: device d x { R, W+bump, RW+bump, RW without bump (a writer that does not produce a new version, e.g. prefetch-like) } */
enum { A_R = 0, A_W, A_RW, A_RW_NOBUMP, NACC };
static const char *acc_name[] = { "R", "W", "RW", "RWnb" };
static const uint8_t acc_mode[] = { PARSEC_FLOW_ACCESS_READ, PARSEC_FLOW_ACCESS_WRITE, PARSEC_FLOW_ACCESS_RW, PARSEC_FLOW_ACCESS_RW };
#define NOPS (NDEV * NACC)

static void *fresh(void)
{
    obj_t *o = calloc(1, sizeof(obj_t));
    o->data = PARSEC_OBJ_NEW(parsec_data_t);              /* owner_device = -1, no copies */
    for (int i = 0; i < NDEV; i++) {
        o->c[i] = PARSEC_OBJ_NEW(parsec_data_copy_t);      /* INVALID, version 0, readers 0 */
        if (PARSEC_SUCCESS != parsec_data_copy_attach(o->data, o->c[i], (uint8_t)i)) { fprintf(stderr, "C26: attach failed\n"); exit(2); }
    }
    if (g_init == INIT_CREATE) { o->c[0]->coherency_state = PARSEC_DATA_COHERENCY_OWNED; o->data->owner_device = 0; o->valid[0] = 1; }   /* what parsec_data_create() sets up */
    if (g_init == INIT_SHARED) { o->c[0]->coherency_state = PARSEC_DATA_COHERENCY_SHARED; o->valid[0] = 1; }
    return o;
}
static void destroy(void *p)
{
    obj_t *o = p;
    for (int i = 0; i < NDEV; i++) { parsec_data_copy_detach(o->data, o->c[i], (uint8_t)i); PARSEC_OBJ_RELEASE(o->c[i]); }
    free(o->data); free(o);      /* not PARSEC_OBJ_RELEASE: the data destructor consults the device registry, which does not exist here */
}
static int newest(obj_t *o, unsigned *v) { int any = 0; unsigned m = 0; for (int i = 0; i < NDEV; i++) if (o->valid[i] && (!any || o->ver[i] > m)) { m = o->ver[i]; any = 1; } *v = m; return any; }
static int enabled(void *p, int op)
{
    obj_t *o = p; unsigned n; int acc = op % NACC;
    if (o->tainted) return 0;
    /* a reading access needs some valid copy to read from (the library asserts that a source exists) */
    if (acc_mode[acc] & PARSEC_FLOW_ACCESS_READ) return newest(o, &n);
    return 1;
}

static sigjmp_buf jb; static volatile int jb_armed = 0;
static void on_abort(int s) { (void)s; if (jb_armed) siglongjmp(jb, 1); _exit(3); }

static const char *cohn(parsec_data_coherency_t c) { return c == PARSEC_DATA_COHERENCY_INVALID ? "I" : c == PARSEC_DATA_COHERENCY_OWNED ? "O" : c == PARSEC_DATA_COHERENCY_SHARED ? "S" : c == PARSEC_DATA_COHERENCY_EXCLUSIVE ? "E" : "?"; }
static size_t describe(obj_t *o, char *b, size_t cap)
{
    size_t n = snprintf(b, cap, "owner=%d", o->data->owner_device);
    for (int i = 0; i < NDEV; i++) n += snprintf(b + n, cap - n, " d%d:%s/v%u/r%d", i, cohn(o->c[i]->coherency_state), o->c[i]->version, o->c[i]->readers);
    return n;
}

static int apply(void *p, int op, char *err)
{
    obj_t *o = p; int d = op / NACC, acc = op % NACC; uint8_t mode = acc_mode[acc];
    unsigned nv = 0; int have = newest(o, &nv);
    int up_to_date = o->valid[d] && have && o->ver[d] == nv;
    int want_transfer = (mode & PARSEC_FLOW_ACCESS_READ) && !up_to_date;
    char before[256]; describe(o, before, sizeof(before));
    parsec_data_coherency_t pre_coh[MAXDEV]; for (int i = 0; i < NDEV; i++) pre_coh[i] = o->c[i]->coherency_state;
    int pre_owner = o->data->owner_device;
    volatile int src = -1;
    jb_armed = 1;
    if (sigsetjmp(jb, 1)) {
        jb_armed = 0;
        snprintf(err, SX_ERRLEN, "the library aborted (assertion) on an access the property allows: %s to device %d in state [%s]", acc_name[acc], d, before);
        return 1;
    }
    if (d == 0) {
        /* CPU side: the combined call (takes the lock itself), as generated PTG code and DTD do */
        src = parsec_data_transfer_ownership_to_copy(o->data, 0, mode);
        /* start+end already done: the version of a transferred copy is set right after */
        if (src >= 0 && src < NDEV && src != d) o->c[d]->version = o->c[src]->version;
    } else {
        parsec_atomic_lock(&o->data->lock);
        src = parsec_data_start_transfer_ownership_to_copy(o->data, (uint8_t)d, mode);
        if (src >= 0 && src < NDEV && src != d) { o->c[d]->version = o->c[src]->version; o->c[d]->data_transfer_status = PARSEC_DATA_STATUS_COMPLETE_TRANSFER; }
        parsec_data_end_transfer_ownership_to_copy(o->data, (uint8_t)d, mode);
        parsec_atomic_unlock(&o->data->lock);
    }
    jb_armed = 0;
    /* --- oracle (statement of C26) --- */
    if ((src != -1) != want_transfer && g_known_owner_read && src == -1) {
        /* known finding C26-owner-read-demotes-owned (only when listed in known_findings.json): attributable iff the data names
         * an owner q whose copy is SHARED (no OWNED copy anywhere), q holds the newest version, and the stale target is SHARED */
        int q = pre_owner, any_owned = 0;
        for (int i = 0; i < NDEV; i++) if (pre_coh[i] == PARSEC_DATA_COHERENCY_OWNED) any_owned = 1;
        if (!any_owned && q >= 0 && q < NDEV && q != d && pre_coh[q] == PARSEC_DATA_COHERENCY_SHARED && o->valid[q] && o->ver[q] == nv
            && pre_coh[d] == PARSEC_DATA_COHERENCY_SHARED && o->valid[d] && o->ver[d] < nv) {
            sx_known_finding("finding=C26-owner-read-demotes-owned: no transfer requested for a stale SHARED copy because the newest copy (device named as owner) was demoted to SHARED by a read access of its own device");
            g_known_hits++;
            o->tainted = 1;
            return 0;
        }
    }
    if ((src != -1) != want_transfer) {
        snprintf(err, SX_ERRLEN, "%s to device %d in state [%s]: transfer %s (source %d) but the target copy is %s (newest version v%u, target %s v%u)", acc_name[acc], d, before,
                 src != -1 ? "requested" : "NOT requested", src, up_to_date ? "up to date" : "not up to date", nv, o->valid[d] ? "holds" : "holds nothing, last", o->ver[d]);
        return 1;
    }
    if (src != -1) {
        if (src < 0 || src >= NDEV || src == d) { snprintf(err, SX_ERRLEN, "%s to device %d in state [%s]: named transfer source %d is not another device copy", acc_name[acc], d, before, src); return 1; }
        if (!o->valid[src] || o->ver[src] != nv) { snprintf(err, SX_ERRLEN, "%s to device %d in state [%s]: named transfer source %d does not hold the newest version v%u (it %s v%u)", acc_name[acc], d, before, src, nv, o->valid[src] ? "holds" : "holds nothing, last", o->ver[src]); return 1; }
    }
    /* shadow model + the caller's version bookkeeping */
    if (src != -1) { o->valid[d] = 1; o->ver[d] = nv; }
    if (mode & PARSEC_FLOW_ACCESS_WRITE) {
        unsigned base = have ? nv : 0;
        unsigned newv = (acc == A_RW_NOBUMP) ? base : base + 1;      /* gpu_elem->version = candidate->version + 1 */
        o->c[d]->version = newv; o->valid[d] = 1; o->ver[d] = newv;
    }
    if (mode & PARSEC_FLOW_ACCESS_READ) parsec_atomic_fetch_sub_int32(&o->c[d]->readers, 1);   /* task completion releases its reader */
    char after[256]; describe(o, after, sizeof(after));
    int owned = 0, who = -1;
    for (int i = 0; i < NDEV; i++) if (o->c[i]->coherency_state == PARSEC_DATA_COHERENCY_OWNED) { owned++; who = i; }
    if (owned > 1) { snprintf(err, SX_ERRLEN, "%s to device %d: %d copies are owners afterwards [%s] (before [%s])", acc_name[acc], d, owned, after, before); return 1; }
    if (owned == 1 && o->data->owner_device != who) { snprintf(err, SX_ERRLEN, "%s to device %d: copy %d is OWNED but the data names device %d as owner [%s]", acc_name[acc], d, who, o->data->owner_device, after); return 1; }
    if (mode & PARSEC_FLOW_ACCESS_WRITE) {
        if (o->data->owner_device != d || o->c[d]->coherency_state != PARSEC_DATA_COHERENCY_OWNED) { snprintf(err, SX_ERRLEN, "%s (write) to device %d did not make it the owner: [%s] (before [%s])", acc_name[acc], d, after, before); return 1; }
    } else if (o->c[d]->coherency_state == PARSEC_DATA_COHERENCY_INVALID) { snprintf(err, SX_ERRLEN, "read access to device %d leaves its copy INVALID: [%s] (before [%s])", d, after, before); return 1; }
    /* one consistent newest version: the owner, if any, holds the newest version; every real copy the library calls valid and whose version is the newest is one the model knows as holding it */
    newest(o, &nv);
    if (owned == 1 && (!o->valid[who] || o->ver[who] != nv)) { snprintf(err, SX_ERRLEN, "the owner copy %d does not hold the newest version v%u: [%s]", who, nv, after); return 1; }
    return 0;
}

/* canonical: coherency, rank of the version among the copies (the library only compares versions), readers, owner */
static size_t canon(void *p, char *b, size_t cap)
{
    obj_t *o = p; if (o->tainted) return snprintf(b, cap, "known-finding-terminal");
    size_t n = snprintf(b, cap, "o%d", o->data->owner_device);
    for (int i = 0; i < NDEV; i++) {
        int rank = 0; for (int j = 0; j < NDEV; j++) { int lower = 0; for (int k = 0; k < j; k++) if (o->c[k]->version == o->c[j]->version) lower = 1; if (!lower && o->c[j]->version < o->c[i]->version) rank++; }
        n += snprintf(b + n, cap - n, "|%s%d r%d m%d", cohn(o->c[i]->coherency_state), rank, o->c[i]->readers, o->valid[i]);
    }
    return n;
}
static void opname(int op, char *b, size_t cap) { snprintf(b, cap, "d%d%s", op / NACC, acc_name[op % NACC]); }

int main(int argc, char **argv)
{
    sx_init(argc, argv, "C26");
    /* what parsec_data_init() does once the device layer is frozen: the data object carries one copy slot per device */
    parsec_nb_devices = NDEV;
    parsec_data_t_class.cls_sizeof += sizeof(parsec_data_copy_t *) * NDEV;
    struct sigaction sa; memset(&sa, 0, sizeof(sa)); sa.sa_handler = on_abort; sa.sa_flags = SA_NODEFER; sigaction(SIGABRT, &sa, NULL);
    int depth = 0;
    for (int i = 1; i < argc; i++) { if (!strcmp(argv[i], "--depth") && i + 1 < argc) depth = atoi(argv[i + 1]); if (!strcmp(argv[i], "--known-owner-read")) g_known_owner_read = 1; }
    char nm[NINIT][64]; sx_system_t sys[NINIT];
    for (int k = 0; k < NINIT; k++) {
        snprintf(nm[k], sizeof(nm[k]), "own_%ddev_init%d", NDEV, k);
        sx_system_t s = { nm[k], NOPS, fresh, destroy, enabled, apply, canon, opname, depth, 0 };
        sys[k] = s;
    }
    if (sx_replay_file) {
        char sc[128], hs[4096]; if (sx_read_replay(sx_replay_file, sc, sizeof(sc), hs, sizeof(hs))) return 2;
        char *q = strstr(sc, "_init"); if (!q) return 2; g_init = atoi(q + 5); if (g_init < 0 || g_init >= NINIT) return 2;
        printf("  initial state: %s\n", init_name[g_init]);
        return sx_replay_named(&sys[g_init], hs);
    }
    for (g_init = 0; g_init < NINIT; g_init++) { sx_stats_t st; sx_bfs(&sys[g_init], &st); }
    return sx_finish();
}
