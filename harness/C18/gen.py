"""C18: generator of the typed-flow JDF family.

A *structure* is an ordered sequence of 1..3 *edges* of the producer's output flow (kinds below) plus a *naming* of the
local output types: which of the edges that carry `[type = ...]` on the producer's side use the SAME type name (a set
partition of those edges).  Every structure becomes one JDF (sNNN.jdf) whose dependency annotations name *type slots*
(TO1, TI1, RO1, ...) that the driver binds at run time to the FULL / LOWER / UPPER arena-datatypes, so one compiled JDF
serves every type combination, tile size and placement.  The PTG compiler only sees the NAMES: two output deps have "the
same local datatype" for it exactly when they use the same slot name, which is why the naming is part of the structure.

Program shape (NE edges, j = 1..NE, declared on P's flow in the order of the sequence):
   P(0)  on rank 0            RW A <- descA(0)            -> A Cj(0) [out annotation of kind j]      consumer edge
                                                          -> descW(j-1) [type / type_data]           write-back edge (no task)
   Cj(0) on owner(descR(j-1)) RW A <- A P(0) [in annotation]  |  <- descA(0) [type_data/type]        body: snapshot of the copy it received
   Wj(0) same rank            RW A <- A Cj(0)   after ALL C (CTL barrier)                              body: writes marker j into the whole copy
   Dj(0) same rank            READ A <- A Wj(0) after ALL W (CTL barrier)                              body: second snapshot
"""
import itertools

# kind -> (out annotation on P's dep, in annotation on C's dep, reads_collection, write-back)
#   {j} is replaced by the edge index (1-based), {t} by the index of the local output type slot of the edge (== j unless
#   the naming shares it with an earlier edge); the shared-slot kind 's' uses the same names for every consumer
KINDS = {
    'n':  dict(out='',                                    inn='',                                    coll=False),   # no type at all
    'o':  dict(out='[type = TO{t}]',                      inn='',                                    coll=False),   # type on the producer's output dep
    'b':  dict(out='[type = TO{t}]',                      inn='[type = TI{j}]',                      coll=False),   # type on both sides
    'i':  dict(out='',                                    inn='[type = TI{j}]',                      coll=False),   # type on the input dep only
    'r':  dict(out='[type_remote = RO{j}]',               inn='[type_remote = RI{j}]',               coll=False),   # type_remote on both sides
    's':  dict(out='[type_remote = RSO]',                 inn='[type_remote = RSI]',                 coll=False),   # type_remote, slot shared by all 's' consumers
    'x':  dict(out='[type = TO{t} type_remote = RO{j}]',  inn='[type = TI{j} type_remote = RI{j}]',  coll=False),   # both type and type_remote
    'd':  dict(out=None,                                  inn='[type_data = TD{j}]',                 coll=True),    # reads the collection with type_data
    'e':  dict(out=None,                                  inn='[type = TI{j} type_data = TD{j}]',    coll=True),    # reads the collection with type and type_data
    # write-backs of the producer's flow to an element of a second collection (CHANGELOG.ptg.md "Writing to matrix", cases 1-4)
    'w':  dict(out='[type = TO{t} type_data = TD{j}]',    inn=None,                                  coll=False, wb=True),   # (1) Pack A type,   Unpack type_data
    'u':  dict(out='[type_data = TD{j}]',                 inn=None,                                  coll=False, wb=True),   # (2) Pack A A.type, Unpack type_data
    't':  dict(out='[type = TO{t}]',                      inn=None,                                  coll=False, wb=True),   # (3) Pack A type,   Unpack desc.type
    'v':  dict(out='',                                    inn=None,                                  coll=False, wb=True),   # (4) Pack A A.type, Unpack desc.type
}
SLOTS = ['TO1', 'TO2', 'TO3', 'TI1', 'TI2', 'TI3', 'RO1', 'RO2', 'RO3', 'RI1', 'RI2', 'RI3', 'TD1', 'TD2', 'TD3', 'RSO', 'RSI']

QUICK_KINDS = 'nobirsxwv'        # kinds with an output dep on P (their declaration order matters)
THOR_KINDS = 'nobirsxwvtu'
COLL_KINDS = 'de'                # no output dep on P: always declared last (their order is immaterial to P's flow)


def is_wb(k):
    return bool(KINDS[k].get('wb'))


def has_to(k):
    return KINDS[k]['out'] is not None and 'TO{t}' in KINDS[k]['out']


def namings(seq):
    """all set partitions of the edges of `seq` that carry a local output type; block id = index (1-based) of its first edge.
    Returns strings of one digit per edge ('0': the edge has no local output type)."""
    idx = [j for j, k in enumerate(seq) if has_to(k)]
    out = []

    def rec(p, cur):
        if p == len(idx):
            out.append(''.join(str(cur.get(j, 0)) for j in range(len(seq))))
            return
        j = idx[p]
        for b in sorted(set(cur.values())):
            cur[j] = b
            rec(p + 1, cur)
        cur[j] = j + 1
        rec(p + 1, cur)
        del cur[j]
    rec(0, {})
    return out


def key_of(seq, to):
    ident = ''.join(str(j + 1) if has_to(k) else '0' for j, k in enumerate(seq))
    return seq if to == ident else seq + '.' + to


def sequences(pk, n, extra_coll=COLL_KINDS):
    """every declaration order of n edges: ordered sequences over the kinds `pk` (output dep on P), followed by a multiset of
    collection readers"""
    out = []
    for nq in range(0, n + 1):
        for head in itertools.product(pk, repeat=n - nq):
            for tail in itertools.combinations_with_replacement(extra_coll, nq):
                out.append(''.join(head) + ''.join(tail))
    return out


def structures(tier):
    """list of (key, kinds, naming).  singles and pairs: every kind, every declaration order, every naming; triples over reduced
    kind sets (quick: every order and naming of {o,b,r}^3, and of one write-back (typed w / untyped v) at every position among
    two consumers of {n,o,b}; thorough: every order and naming over {n,o,b,r,w,v} + the collection reader d, and the multisets
    over {n,o,b,r,s,d} that contain the shared-remote-type kind s)"""
    pk = THOR_KINDS if tier == 'thorough' else QUICK_KINDS
    seqs = sequences(pk, 1) + sequences(pk, 2)
    if tier == 'thorough':
        seqs += sequences('nobrwv', 3, 'd')
        seqs += [''.join(t) for t in itertools.combinations_with_replacement('nobrsd', 3) if 's' in t]
    else:
        seqs += sequences('obr', 3, '')
        for wk in 'wv':
            for pos in range(3):
                for a, b in itertools.product('nob', repeat=2):
                    s = [a, b]
                    s.insert(pos, wk)
                    seqs.append(''.join(s))
    out, seen = [], set()
    for s in seqs:
        for to in namings(s):
            k = key_of(s, to)
            if k not in seen:
                seen.add(k)
                out.append((k, s, to))
    return out


def ann(kind, side, j, t):
    a = KINDS[kind][side]
    return a.replace('{j}', str(j)).replace('{t}', str(t))


def slots_of(struct, to):
    used = []
    for j, k in enumerate(struct, 1):
        for part in (KINDS[k]['out'] or '', KINDS[k]['inn'] or ''):
            for w in part.replace('[', ' ').replace(']', ' ').replace('=', ' ').split():
                w = w.replace('{j}', str(j)).replace('{t}', to[j - 1])
                if w in SLOTS and w not in used:
                    used.append(w)
    return used


def has_w(struct):
    return any(is_wb(k) for k in struct)


def jdf_text(name, struct, to):
    cons = [j for j, k in enumerate(struct, 1) if not is_wb(k)]          # edges that have consumer tasks
    has_p = any(not KINDS[k]['coll'] for k in struct)
    L = []
    L.append('extern "C" %{')
    L.append('#include "parsec/data_distribution.h"')
    L.append('extern void vc_prod(void *A);')
    L.append('extern void vc_snap(int j, int stage, void *A);')
    L.append('extern void vc_write(int j, void *A);')
    L.append('%}')
    L.append('descA [type = "parsec_data_collection_t*"]')
    L.append('descR [type = "parsec_data_collection_t*"]')
    if has_w(struct):
        L.append('descW [type = "parsec_data_collection_t*"]')
    L.append('')
    if has_p:
        L.append('P(z)')
        L.append('z = 0 .. 0')
        L.append(': descA(0)')
        first = True
        for j, k in enumerate(struct, 1):
            if KINDS[k]['coll']:
                continue
            a = ann(k, 'out', j, to[j - 1])
            target = 'descW(%d)' % (j - 1) if is_wb(k) else 'A C%d(0)' % j
            L.append('%s -> %s %s' % ('RW A <- descA(0)\n    ' if first else '    ', target, a))
            first = False
        L.append('BODY')
        L.append('    vc_prod(A);')
        L.append('END')
        L.append('')
    for j in cons:
        k = struct[j - 1]
        a = ann(k, 'inn', j, to[j - 1])
        L.append('C%d(z)' % j)
        L.append('z = 0 .. 0')
        L.append(': descR(%d)' % (j - 1))
        L.append('RW A <- %s %s' % ('descA(0)' if KINDS[k]['coll'] else 'A P(0)', a))
        L.append('     -> A W%d(0)' % j)
        for i in cons:
            L.append('CTL X%d -> X%d W%d(0)' % (i, j, i))
        L.append('BODY')
        L.append('    vc_snap(%d, 0, A);' % j)
        L.append('END')
        L.append('')
        L.append('W%d(z)' % j)
        L.append('z = 0 .. 0')
        L.append(': descR(%d)' % (j - 1))
        L.append('RW A <- A C%d(0)' % j)
        L.append('     -> A D%d(0)' % j)
        for i in cons:
            L.append('CTL X%d <- X%d C%d(0)' % (i, j, i))
        for i in cons:
            L.append('CTL Y%d -> Y%d D%d(0)' % (i, j, i))
        L.append('BODY')
        L.append('    vc_write(%d, A);' % j)
        L.append('END')
        L.append('')
        L.append('D%d(z)' % j)
        L.append('z = 0 .. 0')
        L.append(': descR(%d)' % (j - 1))
        L.append('READ A <- A W%d(0)' % j)
        for i in cons:
            L.append('CTL Y%d <- Y%d W%d(0)' % (i, j, i))
        L.append('BODY')
        L.append('    vc_snap(%d, 1, A);' % j)
        L.append('END')
        L.append('')
    return '\n'.join(L) + '\n'


MK_SIG = '(parsec_data_collection_t *A, parsec_data_collection_t *R, parsec_data_collection_t *W, parsec_arena_datatype_t *dflt, parsec_arena_datatype_t **slot)'


def wrapper_text(name, struct, to):
    """one translation unit per structure: the generated code + the constructor that binds the type slots"""
    L = ['/* generated by gen.py */', '#include "%s.c"' % name, '#include "c18.h"',
         'parsec_taskpool_t *mk_%s%s' % (name, MK_SIG), '{',
         '    parsec_%s_taskpool_t *tp = parsec_%s_new(A, R%s);' % (name, name, ', W' if has_w(struct) else ''),
         '    tp->arenas_datatypes[PARSEC_%s_DEFAULT_ADT_IDX] = *dflt;' % name]
    for s in slots_of(struct, to):
        L.append('    tp->arenas_datatypes[PARSEC_%s_%s_ADT_IDX] = *slot[SLOT_%s];' % (name, s, s))
    L.append('    (void)slot; (void)W; return &tp->super;')
    L.append('}')
    return '\n'.join(L) + '\n'


def glue_text(names_structs):
    """names_structs: list of (name, (key, kinds, naming)): the table of structures"""
    L = ['/* generated by gen.py */', '#include "parsec.h"', '#include "parsec/arena.h"', '#include "c18.h"']
    for name, _ in names_structs:
        L.append('extern parsec_taskpool_t *mk_%s%s;' % (name, MK_SIG))
    L.append('const c18_struct_t c18_structs[] = {')
    for name, (key, struct, to) in names_structs:
        L.append('    { "%s", "%s", "%s", "%s", %d, mk_%s },' % (name, key, struct, to, len(struct), name))
    L.append('    { NULL, NULL, NULL, NULL, 0, NULL } };')
    return '\n'.join(L) + '\n'


def header_text():
    L = ['/* generated by gen.py */', '#ifndef C18_H', '#define C18_H', '#include "parsec.h"',
         'enum { ' + ', '.join('SLOT_%s' % s for s in SLOTS) + ', SLOT_COUNT };',
         'static const char *c18_slot_names[] = { ' + ', '.join('"%s"' % s for s in SLOTS) + ' };',
         '/* key: unique name of the structure (kinds[.naming]); kinds: one letter per edge in declaration order; to: per edge the index of its local output type slot (0: none) */',
         'typedef struct { const char *name, *key, *kinds, *to; int nc;',
         '    parsec_taskpool_t *(*mk)(parsec_data_collection_t *A, parsec_data_collection_t *R, parsec_data_collection_t *W, parsec_arena_datatype_t *dflt, parsec_arena_datatype_t **slot); } c18_struct_t;',
         'extern const c18_struct_t c18_structs[];', '#endif']
    return '\n'.join(L) + '\n'
