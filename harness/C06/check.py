import os, subprocess
META = dict(
    engine='rt',
    technique='bounded-exhaustive enumeration of legal start/add/wait/test/insert histories of the real runtime, each executed under every task-level order of a harness-owned scheduler (one stream), plus a free-running configuration box',
    level_text='All complete legal histories (alphabet: context_start, context_wait, add_taskpool(root of a tree of "first task adds" / "completion callback adds" links), taskpool_wait, taskpool_test, DTD batch insertion) of length <= 5 over pool kinds {1-task PTG, 2-task PTG, DTD}, <= 6 over {1-task PTG, DTD} and <= 4 with 2-task PTG chains (quick; thorough: <= 6 over all three kinds, then 7, then 8 over {1-task PTG, DTD} as far as the deadline allows) over <= 3 taskpools and <= 3 epochs are executed on the real runtime with EVERY task-level order on one execution stream; after every call the stamps (global counter, stamped by task bodies, completion callbacks and call returns) must show: context_wait returned after every task and completion callback of every taskpool added before or while it ran (transitively); taskpool_wait(tp) returned after every task and the callback of tp; every task ran exactly once; every PTG completion callback ran exactly once after its last task (DTD: once per wait that covers the pool); return codes are the documented ones in every epoch. The same histories run free on threads {1,2,4} x schedulers {default, ap, ll}.',
    level_note='Task bodies, callbacks and runtime actions are atomic at the task level (one stream under hsched); the instruction-level races of the termination detector are C10. Restrictions of the alphabet: link targets and sources are PTG pools; DTD pools are added and fed by the main thread only and only while the context is started; taskpool_wait/test are issued only on pools that are certainly registered (the API returns -1 otherwise). A crash / failed assertion / hang on a case counts as a violation. Free-running legs enumerate configurations, not schedules.',
)
RULE = ("one execution = one complete history run on the real runtime under one choice list of the harness scheduler (every select() with >1 pending "
        "ready tasks is a choice point); states = nodes of the choice trees; transitions = scheduling decisions (orders legs) / operations (threads leg); "
        "non-trivial = executions deviating from the canonical task order at least once (orders) or running on >1 thread (threads); "
        "outcomes = distinct event strings (call returns, task entries, callbacks in stamp order)")
ASSUME = ["task bodies and runtime-internal actions are atomic at the task level (one execution stream under hsched)",
          "single process (hk-shm); remote dependencies are not involved",
          "DTD taskpools: 'completion' is interpreted per wait (the runtime re-arms the detector when a wait leaves)"]
def _exe(ctx):
    b = ctx.build('hk-shm')
    gen = os.path.join('/verif/out', 'gen', 'C06'); os.makedirs(gen, exist_ok=True)
    hdir = os.path.dirname(os.path.abspath(__file__))
    r = subprocess.run([os.path.join(b, 'parsec/interfaces/ptg/ptg-compiler/parsec-ptgpp'), '-E', '-i', os.path.join(hdir, 'chain.jdf'), '-o', 'chain', '-f', 'chain'],
                       cwd=gen, capture_output=True, text=True)
    if r.returncode != 0 or not os.path.exists(os.path.join(gen, 'chain.c')):
        import sys, vlib
        sys.stderr.write(r.stdout + r.stderr); raise vlib.Broken('ptgpp failed on chain.jdf')
    return ctx.compile('hk-shm', 'wait', ['wait_h.c', os.path.join(gen, 'chain.c')], instr=False,
                       cflags=['-I' + gen, '-I/verif/engine/rt', '-I/repo/parsec', '-Wno-unused-but-set-variable', '-Wno-format-truncation'])
def check(ctx):
    import vlib
    exe = _exe(ctx)
    q = ctx.tier == 'quick'
    jobs = str(min(vlib.NJOBS, 12))
    if q:
        args = ['--plan', '4:abcd:0,6:ad:0,5:abd:0', '--len-free', '5', '--kinds', 'abd', '--reps', '1', '--deadline', '50']
    else:
        args = ['--plan', '6:abcd:0,7:abd:6,8:ad:7', '--len-free', '6', '--kinds', 'abcd', '--reps', '2', '--deadline', '1000', '--thorough']
    ctx.run_engine(exe, args + ['--outdir', vlib.OUT, '--jobs', jobs], label='wait', timeout=(600 if q else 2400))
    return ctx.finish(RULE, ASSUME)
def replay(ctx, path, obj):
    return subprocess.call([_exe(ctx), '--replay', path])
