META = dict(
    engine='vranks',
    technique='explicit-state search over N virtual ranks driving the real user_trigger module (send_am / taskpool_lookup stubbed): full sweep of (N, root) with two delivery orders + BFS over all ready/trigger/delivery orders for small N, with backward-reachability liveness check',
    level_text='For every communicator size and every triggering rank in the stated ranges the real termdet_user_trigger_module.c is run to quiescence and every rank is seen to be notified exactly once (callback once, one notification per non-root rank, none to the root or to self); for N <= 6 (quick) / 8 (thorough) every interleaving of registration, taskpool_ready, trigger, start-up-action release and per-channel-FIFO message delivery (including notifications that arrive before the receiver is ready) is enumerated to closure.',
    level_note='Ranks are virtual (one address space, fake parsec_context_t/parsec_taskpool_t, no MPI); handlers run atomically (the module is driven by one communication thread per process); the process-global delayed-message list is virtualised per rank by the harness. Sizes above the sweep limit are covered only for selected roots (see NOTES.md).',
)
RULE = ("sweep legs: one execution per (N, root, delivery order); outcome = observed notification tree (parent vector), non-trivial when N >= 3; "
        "bfs legs: states = distinct canonical global states (monitor fields, load counters, parked and in-flight notifications), "
        "non-trivial when a notification is in flight or parked, outcomes = distinct fully-terminated terminal states (one per root)")
import subprocess, re
from concurrent.futures import ThreadPoolExecutor


def build(ctx):
    return ctx.compile('hk-mpi', 'ut_h', ['ut_h.c'], instr=False, mpi=True, cflags=['-I/verif/engine/vranks', '-O2'])


def check(ctx):
    exe = build(ctx)
    quick = ctx.tier == 'quick'
    common = ['--outdir', '/verif/out', '--deadline', '60' if quick else '900']
    jobs = []
    if quick:
        jobs.append((['sweep', '1', '256', 'all', '2', '0'], 'sweep256'))
        jobs.append((['sweep', '1', '96', 'all', '2', '1'], 'parked96'))
        jobs.append((['sweep', '257', '4096', 'few', '1', '0'], 'few4096'))
        for n in range(1, 7):
            for h in (0, 1):
                jobs.append((['bfs', str(n), str(h)], 'bfs%d_%d' % (n, h)))
    else:
        jobs.append((['sweep', '1', '1024', 'all', '2', '0'], 'sweep1024'))
        # the full (N, root) square up to 2048, FIFO order, split into chunks of similar cost
        for lo, hi in ((1025, 1400), (1401, 1650), (1651, 1860), (1861, 2048)):
            jobs.append((['sweep', str(lo), str(hi), 'all', '1', '0'], 'sweep%d_%d' % (lo, hi)))
        jobs.append((['sweep', '2049', '4096', 'few', '2', '0'], 'few4096'))
        jobs.append((['sweep', '4095', '4096', 'all', '2', '0'], 'all4096'))
        jobs.append((['sweep', '3000', '3001', 'all', '2', '0'], 'all3000'))
        jobs.append((['sweep', '1', '384', 'all', '2', '1'], 'parked384'))
        for n in range(1, 9):
            for h in (0, 1):
                jobs.append((['bfs', str(n), str(h)], 'bfs%d_%d' % (n, h)))
    with ThreadPoolExecutor(max_workers=4 if quick else 6) as ex:
        list(ex.map(lambda j: ctx.run_engine(exe, common + j[0], label=j[1], timeout=1500), jobs))
    ctx.legs.sort(key=lambda l: l.get('leg', ''))
    return ctx.finish(RULE, ["exactly one task of the taskpool calls set_nb_tasks(0), on a rank whose taskpool is ready (user_trigger usage contract, termdet_user_trigger.h)",
                             "per-(source,destination) FIFO channels, arbitrary delays, no loss/duplication by the transport",
                             "a taskpool is monitored before it is registered (order of the generated PTG constructor), so lookup never returns a taskpool without monitor"])


def replay(ctx, path, obj):
    return subprocess.call([build(ctx), '--replay', path])
